/* E2 target for C07: untrusted bytes never cause undefined behaviour or callback aborts; parsed objects can be
 * passed to every consumer; rejection never leaks memory.
 *
 * Input  = selector(1) | recipe(1) | ctl(1) | aux(1) | declared-length(2) | nmut x {kind, a_lo, a_hi, v} | raw tail
 *   ctl  : bits0-1 source (0,1 = memoised VALID artifact + mutations, 2 = raw tail as-is, 3 = artifact with the tail spliced in at a_0)
 *          bits2-3 length mode (0,1 natural, 2 declared length in 0..max+64, 3 natural +- small)
 *          bits4-7 number of mutations: 15 -> none (unmodified artifact), else 1 + (x mod 3)
 * Oracles (all inside the target): ASan/UBSan, VERIFY_CHECKs (vsan build), counting illegal/error callbacks == 0 at the end of the
 * iteration, every int return value in {0,1}, exact-size heap blocks for every input and output buffer, library malloc/free balance == 0
 * at the end of the iteration, scratch space fully released.
 * The memoised artifacts are pure functions of the recipe index (fixed keys / nonces) and are never mutated in place.
 */
#include "vf_fuzz_common.h"
#include <limits.h>

/* ---- allocation accounting of the LIBRARY translation unit (same technique as csrc/shim.c) */
static long lib_live = 0, lib_allocs = 0;
static void *lib_malloc(size_t n) { void *p = malloc(n); if (p) { lib_live++; lib_allocs++; } return p; }
static void lib_free(void *p) { if (p) lib_live--; free(p); }
#define malloc(n) lib_malloc(n)
#define free(p) lib_free(p)
#include "src/secp256k1.c"
#undef malloc
#undef free
#include "contrib/lax_der_parsing.c"

/* ------------------------------------------------------------------ entry points and classes */
#define EPS(X) \
    X(pubkey_parse) X(xonly_parse) X(sig_parse_der) X(sig_parse_compact) X(recsig_parse_compact) X(ecdsa_verify) X(schnorrsig_verify) \
    X(musig_pubnonce_parse) X(musig_aggnonce_parse) X(musig_partial_sig_parse) X(rangeproof_verify) X(rangeproof_rewind) X(rangeproof_info) \
    X(surjectionproof_parse) X(whitelist_parse) X(adaptor_verify) X(adaptor_decrypt) X(adaptor_recover) X(halfagg_verify) X(halfagg_inc_aggregate) \
    X(ellswift_decode) X(ellswift_xdh) X(commitment_parse) X(generator_parse) X(bppp_generators_parse) X(bppp_norm_verify) X(s2c_opening_parse) \
    X(lax_der)
enum {
#define X(n) EP_##n,
    EPS(X)
#undef X
    EP_COUNT
};
/* per entry point: calls, non-trivial (past the first length/prefix check), accepted */
enum { X_BASE = EP_COUNT * 3,
       X_MODE_ART = X_BASE, X_MODE_RAW, X_MODE_SPLICE, X_LEN_DECLARED, X_LEN_NEAR,
       X_MUT0, /* 12 mutation kinds */
       X_F2_S0 = X_MUT0 + 12, X_F2_S0_REACHED, X_HALFAGG_OVERFLOW, X_BPPP_REJECT_AFTER_ALLOC, X_BPPP_REJECT_MID, X_REWIND_OK, X_REWIND_SMALLBUF,
       X_SURJ_BIG, X_WL_BIG, X_RP_BIG, X_SURJ_VERIFY_OK, X_WL_VERIFY_OK, X_NORM_OK, X_HONEST, X_MUSIG_CANCEL, X_SIG_FAILED_PARSE_CONSUMED,
       X_SURJ_OUT_EQ_IN, X_LAX_ONLY_ACCEPT, X_REENCODE,
       X_N0_SCHNORR, X_N0_RP_EXTRA, X_N0_AGGVERIFY, X_N0_INCAGG, X_N0_MUSIG, X_N0_REWIND_MSG, X_N0_XONLY_PARITY, X_TOTAL };
const char *const VF_CLASS_NAMES[] = {
#define X(n) #n, #n ":nt", #n ":ok",
    EPS(X)
#undef X
    "mode:artifact", "mode:raw", "mode:splice", "len:declared", "len:near",
    "mut:bitflip", "mut:setbyte", "mut:truncate", "mut:extend", "mut:lenfield", "mut:boundary", "mut:plus_n", "mut:plus_p", "mut:plus_small",
    "mut:copyfield", "mut:insdel", "mut:tailover",
    "f2:sig_s0_parsed", "f2:s0_reaches_recover", "halfagg:overflow_counts", "bppp:reject_after_alloc", "bppp:reject_mid_list", "rewind:ok", "rewind:small_msgbuf",
    "surj:n>=255", "whitelist:n=255", "rangeproof:64bit", "surj:verify_ok", "whitelist:verify_ok", "norm:verify_ok", "honest_unmodified",
    "musig:cancelling", "sig:failed_parse_consumed", "surj:output_equals_input", "lax:accepts_strict_rejects", "mut:count_reencoded_consistent_length",
    /* documented NULL-with-zero-length / optional-NULL arguments (each used only where the header allows it) */
    "null0:schnorrsig_verify_msg", "null0:rangeproof_extra_commit", "null0:halfagg_aggverify", "null0:halfagg_inc_aggregate", "null0:musig_optional",
    "null0:rewind_message_out", "null0:xonly_from_pubkey_parity"
};
const int VF_N_CLASSES = X_TOTAL;

static int cur_ep;
static int f_nt, f_ok;

/* Cost control for the few very expensive verifications (255-key whitelist ring ~0.6 s, 256-input surjection ring, 33..64-bit range
 * proofs in the VERIFY+sanitizer build): an expensive call spends its estimated cost in milliseconds.
 * libFuzzer keeps mutating the corpus entries that reach these paths, so gating by input bits alone cannot bound their share of the
 * campaign (one credit per four executions = at most ~0.25 ms per execution on average).  The credit only decides whether an expensive consumer is SKIPPED; it never changes a verdict.  A fresh process starts
 * with a full account, so replaying a single saved input always takes the expensive path. */
static long heavy_credit = 3000;
static int heavy_ok(long cost_ms) { if (heavy_credit < cost_ms) return 0; heavy_credit -= cost_ms; return 1; }

/* ------------------------------------------------------------------ oracle plumbing */
static secp256k1_context *ctx = NULL;
static secp256k1_scratch_space *scratch = NULL;
static int cb_illegal = 0, cb_error = 0;
static char cb_msg[200];
static void illegal_cb(const char *m, void *d) { (void)d; cb_illegal++; strncpy(cb_msg, m ? m : "", sizeof(cb_msg) - 1); }
static void error_cb(const char *m, void *d) { (void)d; cb_error++; strncpy(cb_msg, m ? m : "", sizeof(cb_msg) - 1); }

static void setup_fail(const char *what) {
    fprintf(stderr, "VF-ORACLE-FAILURE: building a VALID artifact with the library itself failed: %s\n", what);
    vf_fail("artifact construction failed");
}
#define SETUP(c) do { if (!(c)) setup_fail(#c); } while (0)

static int r01(int r, const char *what) { if (r != 0 && r != 1) vf_fail(what); return r; }
#define R(x) r01((x), "return value outside {0,1}: " #x)

/* exact-size heap blocks owned by the harness (freed at the end of the iteration) */
#define MAXH 160
static void *hb[MAXH];
static int nhb = 0;
static void *H(size_t n) {
    unsigned char *p;
    if (nhb >= MAXH) vf_fail("harness: too many heap blocks");
    if (n == 0) {
        /* a valid pointer with ZERO accessible bytes: one past the end of a block */
        p = (unsigned char *)malloc(8);
        hb[nhb++] = p;
        return p + 8;
    }
    p = (unsigned char *)malloc(n);
    if (!p) vf_fail("harness: out of memory");
    memset(p, 0xA5, n);
    hb[nhb++] = p;
    return p;
}
static void *HC(const void *src, size_t n) { void *p = H(n); if (n) memcpy(p, src, n); return p; }
static void H_release(void) { while (nhb > 0) free(hb[--nhb]); }

/* ------------------------------------------------------------------ deterministic material */
static void drv(unsigned char *out32, const char *tag, unsigned i) {
    unsigned char m[4];
    m[0] = (unsigned char)i; m[1] = (unsigned char)(i >> 8); m[2] = (unsigned char)(i >> 16); m[3] = (unsigned char)(i >> 24);
    SETUP(secp256k1_tagged_sha256(ctx, out32, (const unsigned char *)tag, strlen(tag), m, 4) == 1);
}
static void drv_bytes(unsigned char *out, size_t n, const char *tag, unsigned i) {
    unsigned char t[32]; size_t o = 0; unsigned k = 0;
    while (o < n) { size_t c = n - o < 32 ? n - o : 32; drv(t, tag, i * 4096u + k++); memcpy(out + o, t, c); o += c; }
}

#define NK 8
static unsigned char SK[NK][32];
static secp256k1_pubkey PK[NK];
static secp256k1_xonly_pubkey XPK[NK];
static secp256k1_keypair KP[NK];
static unsigned char MSG[32], DATA32[32], TWEAK[32], MSGS[NK][32];
static secp256k1_ecdsa_signature SIG0;
static unsigned char SIG0C[64];
static unsigned char SCHNORR[NK][64];           /* SCHNORR[i] = sign32(MSGS[i], KP[i]) */
static unsigned char TINYX[32];                 /* smallest x >= 1 on the curve, big-endian */

/* MuSig fixture: signers 0 and 1, message MSG, adaptor point PK[2] */
static secp256k1_musig_keyagg_cache CACHE;
static secp256k1_xonly_pubkey AGGPK;
static secp256k1_musig_pubnonce PUBNONCE[2];
static secp256k1_musig_aggnonce AGGNONCE;
static secp256k1_musig_session SESSION;
static secp256k1_musig_partial_sig PSIG[2];
static unsigned char PUBNONCE66[2][66], AGGNONCE66[66], PSIG32[2][32];

/* s2c fixture */
static secp256k1_ecdsa_signature S2C_SIG;
static secp256k1_ecdsa_s2c_opening S2C_OPENING;
static unsigned char S2C_OPENING33[33];

/* adaptor fixture: signer 0, encryption key PK[3] / SK[3] */
static unsigned char ADAPTOR162[162];
static secp256k1_ecdsa_signature ADAPTOR_DEC;   /* decrypted signature */
static unsigned char ADAPTOR_DEC64[64];

static void setup(void) {
    int i;
    ctx = secp256k1_context_create(SECP256K1_CONTEXT_NONE);
    secp256k1_context_set_illegal_callback(ctx, illegal_cb, NULL);
    secp256k1_context_set_error_callback(ctx, error_cb, NULL);
    scratch = secp256k1_scratch_space_create(ctx, 1024 * 1024);
    SETUP(scratch != NULL);
    drv(MSG, "vf-c07/msg", 0); drv(DATA32, "vf-c07/data", 0); drv(TWEAK, "vf-c07/tweak", 0);
    for (i = 0; i < NK; i++) {
        drv(SK[i], "vf-c07/key", (unsigned)i);
        drv(MSGS[i], "vf-c07/msgs", (unsigned)i);
        SETUP(secp256k1_ec_seckey_verify(ctx, SK[i]) == 1);
        SETUP(secp256k1_ec_pubkey_create(ctx, &PK[i], SK[i]) == 1);
        SETUP(secp256k1_keypair_create(ctx, &KP[i], SK[i]) == 1);
        SETUP(secp256k1_keypair_xonly_pub(ctx, &XPK[i], NULL, &KP[i]) == 1);
        SETUP(secp256k1_schnorrsig_sign32(ctx, SCHNORR[i], MSGS[i], &KP[i], NULL) == 1);
        SETUP(secp256k1_schnorrsig_verify(ctx, SCHNORR[i], MSGS[i], 32, &XPK[i]) == 1);
    }
    SETUP(secp256k1_ecdsa_sign(ctx, &SIG0, MSG, SK[0], NULL, NULL) == 1);
    SETUP(secp256k1_ecdsa_signature_serialize_compact(ctx, SIG0C, &SIG0) == 1);
    SETUP(secp256k1_ecdsa_verify(ctx, &SIG0, MSG, &PK[0]) == 1);
    {
        /* a real curve point with a tiny x coordinate (so that x + p still fits in 32 bytes) */
        unsigned x; secp256k1_fe fx; secp256k1_ge ge;
        for (x = 1; x < 1000; x++) { secp256k1_fe_set_int(&fx, (int)x); if (secp256k1_ge_set_xo_var(&ge, &fx, 0)) break; }
        SETUP(x < 1000);
        memset(TINYX, 0, 32); TINYX[31] = (unsigned char)x; TINYX[30] = (unsigned char)(x >> 8);
    }
    {   /* MuSig */
        const secp256k1_pubkey *pks[2]; const secp256k1_musig_pubnonce *pns[2];
        secp256k1_musig_secnonce sn[2]; unsigned char rnd[32];
        pks[0] = &PK[0]; pks[1] = &PK[1];
        SETUP(secp256k1_musig_pubkey_agg(ctx, &AGGPK, &CACHE, pks, 2) == 1);
        for (i = 0; i < 2; i++) {
            drv(rnd, "vf-c07/secrand", (unsigned)i);
            SETUP(secp256k1_musig_nonce_gen(ctx, &sn[i], &PUBNONCE[i], rnd, SK[i], &PK[i], MSG, &CACHE, NULL) == 1);
            SETUP(secp256k1_musig_pubnonce_serialize(ctx, PUBNONCE66[i], &PUBNONCE[i]) == 1);
        }
        pns[0] = &PUBNONCE[0]; pns[1] = &PUBNONCE[1];
        SETUP(secp256k1_musig_nonce_agg(ctx, &AGGNONCE, pns, 2) == 1);
        SETUP(secp256k1_musig_aggnonce_serialize(ctx, AGGNONCE66, &AGGNONCE) == 1);
        SETUP(secp256k1_musig_nonce_process(ctx, &SESSION, &AGGNONCE, MSG, &CACHE, NULL) == 1);
        for (i = 0; i < 2; i++) {
            SETUP(secp256k1_musig_partial_sign(ctx, &PSIG[i], &sn[i], &KP[i], &CACHE, &SESSION) == 1);
            SETUP(secp256k1_musig_partial_sig_verify(ctx, &PSIG[i], &PUBNONCE[i], &PK[i], &CACHE, &SESSION) == 1);
            SETUP(secp256k1_musig_partial_sig_serialize(ctx, PSIG32[i], &PSIG[i]) == 1);
        }
    }
    SETUP(secp256k1_ecdsa_s2c_sign(ctx, &S2C_SIG, &S2C_OPENING, MSG, SK[0], DATA32) == 1);
    SETUP(secp256k1_ecdsa_s2c_opening_serialize(ctx, S2C_OPENING33, &S2C_OPENING) == 1);
    SETUP(secp256k1_ecdsa_s2c_verify_commit(ctx, &S2C_SIG, DATA32, &S2C_OPENING) == 1);
    {
        unsigned char sk[32]; memcpy(sk, SK[0], 32);
        SETUP(secp256k1_ecdsa_adaptor_encrypt(ctx, ADAPTOR162, sk, &PK[3], MSG, NULL, NULL) == 1);
        SETUP(secp256k1_ecdsa_adaptor_verify(ctx, ADAPTOR162, &PK[0], MSG, &PK[3]) == 1);
        SETUP(secp256k1_ecdsa_adaptor_decrypt(ctx, &ADAPTOR_DEC, SK[3], ADAPTOR162) == 1);
        SETUP(secp256k1_ecdsa_verify(ctx, &ADAPTOR_DEC, MSG, &PK[0]) == 1);
        SETUP(secp256k1_ecdsa_signature_serialize_compact(ctx, ADAPTOR_DEC64, &ADAPTOR_DEC) == 1);
    }
    SETUP(cb_illegal == 0 && cb_error == 0);
}

/* ------------------------------------------------------------------ 256-bit helpers for boundary substitutions */
static const unsigned char ORDER_N[32] = {0xFF,0xFF,0xFF,0xFF,0xFF,0xFF,0xFF,0xFF,0xFF,0xFF,0xFF,0xFF,0xFF,0xFF,0xFF,0xFE,
                                          0xBA,0xAE,0xDC,0xE6,0xAF,0x48,0xA0,0x3B,0xBF,0xD2,0x5E,0x8C,0xD0,0x36,0x41,0x41};
static const unsigned char FIELD_P[32] = {0xFF,0xFF,0xFF,0xFF,0xFF,0xFF,0xFF,0xFF,0xFF,0xFF,0xFF,0xFF,0xFF,0xFF,0xFF,0xFF,
                                          0xFF,0xFF,0xFF,0xFF,0xFF,0xFF,0xFF,0xFF,0xFF,0xFF,0xFF,0xFE,0xFF,0xFF,0xFC,0x2F};
static const unsigned char HALF_N[32] = {0x7F,0xFF,0xFF,0xFF,0xFF,0xFF,0xFF,0xFF,0xFF,0xFF,0xFF,0xFF,0xFF,0xFF,0xFF,0xFF,
                                         0x5D,0x57,0x6E,0x73,0x57,0xA4,0x50,0x1D,0xDF,0xE9,0x2F,0x46,0x68,0x1B,0x20,0xA0};
static void be_add(unsigned char *a, const unsigned char *b) { int i, c = 0; for (i = 31; i >= 0; i--) { int s = a[i] + b[i] + c; a[i] = (unsigned char)s; c = s >> 8; } }
static void be_add_small(unsigned char *a, int d) {
    unsigned char t[32]; int i;
    if (d >= 0) { memset(t, 0, 32); t[31] = (unsigned char)d; }
    else { memset(t, 0xFF, 32); t[31] = (unsigned char)(256 + d); } /* two's complement of |d| <= 255 */
    (void)i;
    be_add(a, t);
}
static void boundary_value(unsigned char *out, unsigned v) {
    unsigned base = (v / 5) % 6; int delta = (int)(v % 5) - 2;
    switch (base) {
        case 0: memset(out, 0, 32); break;
        case 1: memcpy(out, ORDER_N, 32); break;
        case 2: memcpy(out, FIELD_P, 32); break;
        case 3: memcpy(out, HALF_N, 32); break;
        case 4: memset(out, 0, 32); out[0] = 0x80; break;
        default: memset(out, 0, 32); out[15] = 1; break; /* 2^128 */
    }
    be_add_small(out, delta);
}

/* ------------------------------------------------------------------ memoised VALID artifacts */
typedef struct {
    unsigned char *b; size_t n;
    int fbase, fstride;        /* regular grid of 32-byte fields: offsets fbase + k*fstride (fbase < 0: none) */
    int nexp; int fexp[10];    /* explicit 32-byte field offsets */
    int nlen; int lenf[14];    /* offsets of length / count / header / prefix bytes */
} art_t;
enum { AC_PUBKEY, AC_XONLY, AC_DER, AC_LAXDER, AC_COMPACT, AC_ECDSAV, AC_SCHNORRV, AC_PUBNONCE, AC_AGGNONCE, AC_PSIG, AC_RANGEPROOF, AC_SURJ, AC_WL,
       AC_ADAPTOR, AC_ADAPTOR_REC, AC_HALFAGG, AC_ELLSWIFT, AC_ELLSWIFT2, AC_COMMIT, AC_GEN, AC_OPENING, AC_BPPPGENS, AC_NORM, AC_COUNT };
#define MAXREC 32
static art_t memo[AC_COUNT][MAXREC];
static char have[AC_COUNT][MAXREC];

static void art_set(art_t *a, const unsigned char *b, size_t n) {
    a->b = (unsigned char *)malloc(n ? n : 1); a->n = n; if (n) memcpy(a->b, b, n);
    a->fbase = -1; a->fstride = 32; a->nexp = 0; a->nlen = 0;
}
static void art_exp(art_t *a, int off) { if (a->nexp < 10) a->fexp[a->nexp++] = off; }
static void art_len(art_t *a, int off) { if (a->nlen < 14) a->lenf[a->nlen++] = off; }

static void neg_scalar_be(unsigned char *s32) { /* s -> n - s (s != 0) */
    secp256k1_scalar s; secp256k1_scalar_set_b32(&s, s32, NULL); secp256k1_scalar_negate(&s, &s); secp256k1_scalar_get_b32(s32, &s);
}

/* ---- range proofs */
typedef struct { uint64_t value, min_value; int exp, min_bits; size_t msg_len, extra_len; int zero_blind, own_gen; } rp_recipe;
static const rp_recipe RPR[] = {
    {0, 0, -1, 0, 0, 0, 0, 0},                       /* exact value 0: one ring of size 1, no min_value */
    {12345, 0, -1, 0, 0, 0, 0, 0},                   /* exact value, min_value present */
    {1, 0, 0, 0, 0, 0, 0, 0},                        /* mantissa 1: one ring of size 2 */
    {2, 0, 0, 0, 0, 0, 0, 0},                        /* mantissa 2: one ring of size 4 */
    {3, 0, 0, 2, 0, 0, 0, 0},                        /* digit 3 */
    {5, 0, 0, 3, 0, 0, 0, 0},                        /* mantissa 3: 4 + 2 */
    {7, 0, 0, 3, 17, 0, 0, 0},                       /* last ring size 2, digit 1, short message */
    {100, 0, 0, 8, 17, 0, 0, 0},                     /* mantissa 8, message */
    {86, 0, 0, 0, 0, 32, 0, 0},                      /* mantissa 7, extra commit */
    {255, 0, 0, 8, 384, 0, 0, 0},                    /* message fills every slot */
    {1000000, 1000, 2, 16, 64, 5, 0, 0},             /* min_value, exponent 2 */
    {5000000000000000000ULL, 0, 18, 0, 0, 0, 0, 0},  /* exponent 18 */
    {((uint64_t)1 << 32) + 1, 1, 0, 33, 2048, 0, 0, 0}, /* mantissa 33 (odd), 17 rings, full message */
    {9, 0, 0, 4, 0, 0, 1, 0},                        /* all-zero blinding factor (allowed with min_bits >= 3) */
    {77, 0, 0, 9, 10, 3, 0, 1},                      /* own generator */
    {(uint64_t)1 << 62, (uint64_t)1 << 61, 1, 0, 0, 0, 0, 0},
    {1, 1, 0, 0, 0, 0, 0, 0},                        /* v = 0 after subtracting min_value */
    {UINT64_MAX, 0, 0, 64, 0, 0, 0, 0},              /* the 5134-byte maximum: 32 rings of 4 */
};
#define NRP ((int)(sizeof(RPR) / sizeof(RPR[0])))
static secp256k1_pedersen_commitment RP_COMMIT[NRP];
static secp256k1_generator RP_GEN[NRP];
static unsigned char RP_NONCE[NRP][32], RP_BLIND[NRP][32];
static unsigned char *RP_EXTRA[NRP];

static void build_rangeproof(int i, art_t *a) {
    const rp_recipe *r = &RPR[i];
    unsigned char *proof = (unsigned char *)malloc(5134), *msg = (unsigned char *)malloc(r->msg_len + 1);
    size_t plen = 5134, mlen = 4096; uint64_t mn, mx, v; unsigned char bl[32]; unsigned char *mo = (unsigned char *)malloc(4096);
    int ex, mant, rings, hdr;
    if (r->own_gen) { unsigned char seed[32]; drv(seed, "vf-c07/rp/gen", (unsigned)i); SETUP(secp256k1_generator_generate(ctx, &RP_GEN[i], seed) == 1); }
    else RP_GEN[i] = *secp256k1_generator_h;
    if (r->zero_blind) memset(RP_BLIND[i], 0, 32); else drv(RP_BLIND[i], "vf-c07/rp/blind", (unsigned)i);
    drv(RP_NONCE[i], "vf-c07/rp/nonce", (unsigned)i);
    RP_EXTRA[i] = (unsigned char *)malloc(r->extra_len + 1);
    drv_bytes(RP_EXTRA[i], r->extra_len, "vf-c07/rp/extra", (unsigned)i);
    drv_bytes(msg, r->msg_len, "vf-c07/rp/msg", (unsigned)i);
    SETUP(secp256k1_pedersen_commit(ctx, &RP_COMMIT[i], RP_BLIND[i], r->value, &RP_GEN[i]) == 1);
    SETUP(secp256k1_rangeproof_sign(ctx, proof, &plen, r->min_value, &RP_COMMIT[i], RP_BLIND[i], RP_NONCE[i], r->exp, r->min_bits, r->value,
                                    (r->msg_len == 0 && (i & 1)) ? NULL : msg, r->msg_len, (r->extra_len == 0 && (i & 1)) ? NULL : RP_EXTRA[i], r->extra_len, &RP_GEN[i]) == 1);
    SETUP(secp256k1_rangeproof_verify(ctx, &mn, &mx, &RP_COMMIT[i], proof, plen, RP_EXTRA[i], r->extra_len, &RP_GEN[i]) == 1);
    SETUP(mn <= r->value && r->value <= mx);
    SETUP(secp256k1_rangeproof_rewind(ctx, bl, &v, mo, &mlen, RP_NONCE[i], &mn, &mx, &RP_COMMIT[i], proof, plen, RP_EXTRA[i], r->extra_len, &RP_GEN[i]) == 1);
    SETUP(v == r->value && memcmp(bl, RP_BLIND[i], 32) == 0 && mlen >= r->msg_len && memcmp(mo, msg, r->msg_len) == 0);
    SETUP(secp256k1_rangeproof_info(ctx, &ex, &mant, &mn, &mx, proof, plen) == 1);
    art_set(a, proof, plen);
    hdr = 1 + ((proof[0] & 64) ? 1 : 0) + ((proof[0] & 32) ? 8 : 0);
    rings = mant ? (mant + 1) / 2 : 1;
    a->fbase = hdr + ((rings + 6) >> 3);
    { int k; for (k = 0; k < hdr + ((rings + 6) >> 3) && k < 12; k++) art_len(a, k); }
    free(proof); free(msg); free(mo);
}

/* ---- surjection proofs */
static const int SURJ_N[16] = {1, 1, 2, 2, 2, 3, 3, 3, 8, 8, 8, 16, 16, 16, 255, 256};
static secp256k1_fixed_asset_tag SURJ_TAGS[256];
static secp256k1_generator SURJ_IN[256];
static unsigned char SURJ_INBLIND[256][32];
static secp256k1_generator SURJ_OUT[16];
static int surj_inputs_built = 0;
static void build_surj(int slot, art_t *a) {
    int n = SURJ_N[slot], i, use; size_t idx = 0, want, outlen; unsigned char seed[32], ob[32];
    secp256k1_surjectionproof *proof = (secp256k1_surjectionproof *)malloc(sizeof(*proof));
    unsigned char *out = (unsigned char *)malloc(SECP256K1_SURJECTIONPROOF_SERIALIZATION_BYTES_MAX);
    if (!surj_inputs_built) {
        for (i = 0; i < 256; i++) {
            drv(SURJ_TAGS[i].data, "vf-c07/surj/tag", (unsigned)i);
            drv(SURJ_INBLIND[i], "vf-c07/surj/inblind", (unsigned)i);
            SETUP(secp256k1_generator_generate_blinded(ctx, &SURJ_IN[i], SURJ_TAGS[i].data, SURJ_INBLIND[i]) == 1);
        }
        surj_inputs_built = 1;
    }
    want = (size_t)(n / 2);
    use = (slot % 3 == 0 || n == 256) ? n : (n < 3 ? n : 3);
    drv(seed, "vf-c07/surj/seed", (unsigned)slot);
    drv(ob, "vf-c07/surj/outblind", (unsigned)slot);
    SETUP(secp256k1_surjectionproof_initialize(ctx, proof, &idx, SURJ_TAGS, (size_t)n, (size_t)use, &SURJ_TAGS[want], 100000, seed) > 0);
    SETUP(idx == want);
    SETUP(secp256k1_generator_generate_blinded(ctx, &SURJ_OUT[slot], SURJ_TAGS[want].data, ob) == 1);
    SETUP(secp256k1_surjectionproof_generate(ctx, proof, SURJ_IN, (size_t)n, &SURJ_OUT[slot], idx, SURJ_INBLIND[idx], ob) == 1);
    SETUP(secp256k1_surjectionproof_verify(ctx, proof, SURJ_IN, (size_t)n, &SURJ_OUT[slot]) == 1);
    outlen = SECP256K1_SURJECTIONPROOF_SERIALIZATION_BYTES_MAX;
    SETUP(secp256k1_surjectionproof_serialize(ctx, out, &outlen, proof) == 1);
    art_set(a, out, outlen);
    a->fbase = 2 + (n + 7) / 8;
    for (i = 0; i < 2 + (n + 7) / 8 && i < 12; i++) art_len(a, i);
    art_len(a, 2 + (n + 7) / 8 - 1);
    free(proof); free(out);
}

/* ---- whitelist signatures */
static const int WL_N[16] = {1, 1, 1, 1, 1, 1, 2, 2, 2, 2, 2, 3, 3, 8, 255, 16};
static secp256k1_pubkey WL_ON[255], WL_OFF[255], WL_SUB;
static unsigned char WL_ONSK[255][32], WL_OFFSK[255][32], WL_SUBSK[32];
static int wl_keys_built = 0;
static void build_wl(int slot, art_t *a) {
    int n = WL_N[slot], i; size_t idx = (size_t)(n / 2), outlen = 33 + 32 * 255; unsigned char summed[32];
    secp256k1_whitelist_signature *sig = (secp256k1_whitelist_signature *)malloc(sizeof(*sig));
    unsigned char *out = (unsigned char *)malloc(outlen);
    if (!wl_keys_built) {
        drv(WL_SUBSK, "vf-c07/wl/sub", 0);
        SETUP(secp256k1_ec_pubkey_create(ctx, &WL_SUB, WL_SUBSK) == 1);
        for (i = 0; i < 255; i++) {
            drv(WL_ONSK[i], "vf-c07/wl/on", (unsigned)i); drv(WL_OFFSK[i], "vf-c07/wl/off", (unsigned)i);
            SETUP(secp256k1_ec_pubkey_create(ctx, &WL_ON[i], WL_ONSK[i]) == 1);
            SETUP(secp256k1_ec_pubkey_create(ctx, &WL_OFF[i], WL_OFFSK[i]) == 1);
        }
        wl_keys_built = 1;
    }
    if (slot & 1) idx = (size_t)(n - 1);
    memcpy(summed, WL_OFFSK[idx], 32);
    SETUP(secp256k1_ec_seckey_tweak_add(ctx, summed, WL_SUBSK) == 1);
    SETUP(secp256k1_whitelist_sign(ctx, sig, WL_ON, WL_OFF, (size_t)n, &WL_SUB, WL_ONSK[idx], summed, idx) == 1);
    SETUP(secp256k1_whitelist_verify(ctx, sig, WL_ON, WL_OFF, (size_t)n, &WL_SUB) == 1);
    SETUP(secp256k1_whitelist_signature_serialize(ctx, out, &outlen, sig) == 1);
    SETUP(outlen == (size_t)(33 + 32 * n));
    art_set(a, out, outlen);
    a->fbase = 1; art_len(a, 0);
    free(sig); free(out);
}

/* ---- BP++ generator lists and norm arguments */
static const int BG_N[7] = {0, 1, 2, 3, 4, 8, 16};
static void build_bpppgens(int i, art_t *a) {
    int n = BG_N[i], k; size_t len = (size_t)(33 * n);
    unsigned char *out = (unsigned char *)malloc(len + 1);
    secp256k1_bppp_generators *g = secp256k1_bppp_generators_create(ctx, (size_t)n), *g2;
    SETUP(g != NULL);
    SETUP(secp256k1_bppp_generators_serialize(ctx, g, out, &len) == 1 && len == (size_t)(33 * n));
    g2 = secp256k1_bppp_generators_parse(ctx, out, len);
    SETUP(g2 != NULL);
    secp256k1_bppp_generators_destroy(ctx, g2);
    secp256k1_bppp_generators_destroy(ctx, g);
    art_set(a, out, len);
    a->fbase = 1; a->fstride = 33;
    for (k = 0; k < n && k < 14; k++) art_len(a, 33 * k);
    free(out);
}
static const int NORM_G[6] = {1, 2, 1, 2, 4, 8}, NORM_H[6] = {1, 1, 2, 2, 2, 4};
static secp256k1_bppp_generators *NORM_GENS[6];
static secp256k1_scalar NORM_C[6][16], NORM_RHO[6];
static secp256k1_ge NORM_COMMIT[6];
static void build_norm(int i, art_t *a) {
    int g = NORM_G[i], h = NORM_H[i], k, rounds = 0; unsigned char t[32], proof[65 * 4 + 64]; size_t plen = sizeof(proof);
    secp256k1_scalar nv[8], lv[8], cv[8], mu; secp256k1_ge gs[16]; secp256k1_sha256 tr;
    NORM_GENS[i] = secp256k1_bppp_generators_create(ctx, (size_t)(g + h));
    SETUP(NORM_GENS[i] != NULL);
    for (k = 0; k < 16; k++) { drv(t, "vf-c07/norm/c", (unsigned)(i * 64 + k)); secp256k1_scalar_set_b32(&NORM_C[i][k], t, NULL); }
    for (k = 0; k < 8; k++) {
        drv(t, "vf-c07/norm/n", (unsigned)(i * 64 + k)); secp256k1_scalar_set_b32(&nv[k], t, NULL);
        drv(t, "vf-c07/norm/l", (unsigned)(i * 64 + k)); secp256k1_scalar_set_b32(&lv[k], t, NULL);
        cv[k] = NORM_C[i][k];
    }
    drv(t, "vf-c07/norm/rho", (unsigned)i); secp256k1_scalar_set_b32(&NORM_RHO[i], t, NULL);
    SETUP(!secp256k1_scalar_is_zero(&NORM_RHO[i]));
    secp256k1_scalar_sqr(&mu, &NORM_RHO[i]);
    SETUP(secp256k1_bppp_commit(ctx, scratch, &NORM_COMMIT[i], NORM_GENS[i], nv, (size_t)g, lv, (size_t)h, cv, (size_t)h, &mu) == 1);
    memcpy(gs, NORM_GENS[i]->gens, (size_t)(g + h) * sizeof(secp256k1_ge));
    secp256k1_sha256_initialize(&tr);
    SETUP(secp256k1_bppp_rangeproof_norm_product_prove(ctx, scratch, proof, &plen, &tr, &NORM_RHO[i], gs, (size_t)(g + h), nv, (size_t)g, lv, (size_t)h, cv, (size_t)h) == 1);
    secp256k1_sha256_initialize(&tr);
    SETUP(secp256k1_bppp_rangeproof_norm_product_verify(ctx, scratch, proof, plen, &tr, &NORM_RHO[i], NORM_GENS[i], (size_t)g, NORM_C[i], (size_t)h, &NORM_COMMIT[i]) == 1);
    { int m = g > h ? g : h; while (m > 1) { rounds++; m >>= 1; } }
    SETUP(plen == (size_t)(65 * rounds + 64));
    art_set(a, proof, plen);
    for (k = 0; k < rounds; k++) { art_len(a, 65 * k); art_exp(a, 65 * k + 1); art_exp(a, 65 * k + 33); }
    art_exp(a, 65 * rounds); art_exp(a, 65 * rounds + 32);
}

/* ---- small artifacts */
static size_t der_of_compact(unsigned char *out, const unsigned char *c64) {
    secp256k1_ecdsa_signature s; size_t n = 80;
    (void)secp256k1_ecdsa_signature_parse_compact(ctx, &s, c64);
    SETUP(secp256k1_ecdsa_signature_serialize_der(ctx, out, &n, &s) == 1);
    return n;
}
static void der_layout(art_t *a) {
    /* 30 L 02 lr r 02 ls s */
    const unsigned char *b = a->b; size_t n = a->n; int lr;
    art_len(a, 0); art_len(a, 1); art_len(a, 2); art_len(a, 3);
    if (n < 6 || b[3] > 33) return;
    lr = b[3];
    if ((size_t)(4 + lr + 2) > n) return;
    art_len(a, 4 + lr); art_len(a, 5 + lr);
    if (lr >= 32) art_exp(a, 4 + lr - 32);
    if (b[5 + lr] >= 32 && (size_t)(6 + lr + b[5 + lr]) <= n) art_exp(a, 6 + lr + b[5 + lr] - 32);
}
static void high_s(unsigned char *c64) { neg_scalar_be(c64 + 32); }

static void build_small(int ac, int i, art_t *a) {
    unsigned char t[300]; size_t n;
    switch (ac) {
    case AC_PUBKEY: {
        static const int key[10] = {0, 1, 0, 1, 0, 2, -1, -1, 3, -1};
        static const int form[10] = {33, 33, 65, 65, 6, 6, 33, 34, 33, 65}; /* 6 = hybrid, 34 = compressed with the other parity */
        secp256k1_pubkey pk;
        if (key[i] >= 0) pk = PK[key[i]];
        else { t[0] = 2; memcpy(t + 1, TINYX, 32); SETUP(secp256k1_ec_pubkey_parse(ctx, &pk, t, 33) == 1); }
        if (form[i] == 33 || form[i] == 34) { n = 33; SETUP(secp256k1_ec_pubkey_serialize(ctx, t, &n, &pk, SECP256K1_EC_COMPRESSED) == 1); if (form[i] == 34) t[0] ^= 1; }
        else { n = 65; SETUP(secp256k1_ec_pubkey_serialize(ctx, t, &n, &pk, SECP256K1_EC_UNCOMPRESSED) == 1); if (form[i] == 6) t[0] = (unsigned char)(6 | (t[64] & 1)); }
        { secp256k1_pubkey chk; SETUP(secp256k1_ec_pubkey_parse(ctx, &chk, t, n) == 1); }
        art_set(a, t, n); a->fbase = 1; art_len(a, 0);
        break; }
    case AC_XONLY:
        if (i < 3) SETUP(secp256k1_xonly_pubkey_serialize(ctx, t, &XPK[i]) == 1); else memcpy(t, TINYX, 32);
        { secp256k1_xonly_pubkey chk; SETUP(secp256k1_xonly_pubkey_parse(ctx, &chk, t) == 1); }
        art_set(a, t, 32); a->fbase = 0;
        break;
    case AC_COMPACT: case AC_DER: case AC_LAXDER: {
        unsigned char c[64];
        int v = i % 8;
        switch (v) {
            case 0: memcpy(c, SIG0C, 64); break;
            case 1: memcpy(c, ADAPTOR_DEC64, 32); memset(c + 32, 0, 32); break;          /* r || 0 : parses successfully (finding F2 path) */
            case 2: memset(c, 0, 64); break;
            case 3: memcpy(c, ORDER_N, 32); memcpy(c + 32, ORDER_N, 32); be_add_small(c, -1); be_add_small(c + 32, -1); break;
            case 4: memcpy(c, SIG0C, 64); high_s(c); break;
            case 5: memcpy(c, ADAPTOR_DEC64, 64); break;
            case 6: memset(c, 0, 64); c[31] = 1; c[63] = 1; break;
            default: memcpy(c, ADAPTOR_DEC64, 64); high_s(c); break;
        }
        if (ac == AC_COMPACT) { secp256k1_ecdsa_signature s; SETUP(secp256k1_ecdsa_signature_parse_compact(ctx, &s, c) == 1); art_set(a, c, 64); a->fbase = 0; break; }
        n = der_of_compact(t, c);
        if (ac == AC_LAXDER && i >= 8) {
            /* BER forms only the lax parser takes: long-form lengths, extra zero padding, trailing garbage, oversized sequence length */
            unsigned char u[300]; size_t m = 0; int lr = t[3], ls = t[5 + lr]; int w = i - 8;
            u[m++] = 0x30;
            if (w == 0) { u[m++] = 0x81; u[m++] = t[1]; memcpy(u + m, t + 2, n - 2); m += n - 2; }
            else if (w == 1) { u[m++] = 0x82; u[m++] = 0; u[m++] = (unsigned char)(t[1] + 2); u[m++] = 2; u[m++] = 0x81; u[m++] = (unsigned char)lr; memcpy(u + m, t + 4, (size_t)lr); m += (size_t)lr;
                               u[m++] = 2; u[m++] = 0x81; u[m++] = (unsigned char)ls; memcpy(u + m, t + 6 + lr, (size_t)ls); m += (size_t)ls; }
            else if (w == 2) { u[m++] = (unsigned char)(t[1] + 8); u[m++] = 2; u[m++] = (unsigned char)(lr + 8); memset(u + m, 0, 8); m += 8; memcpy(u + m, t + 4, (size_t)lr); m += (size_t)lr;
                               memcpy(u + m, t + 4 + lr, (size_t)(2 + ls)); m += (size_t)(2 + ls); }
            else { u[m++] = (unsigned char)(t[1] + 5); memcpy(u + m, t + 2, n - 2); m += n - 2; memset(u + m, 0x77, 9); m += 9; }
            { secp256k1_ecdsa_signature s; SETUP(ecdsa_signature_parse_der_lax(ctx, &s, u, m) == 1); }
            art_set(a, u, m); art_len(a, 0); art_len(a, 1); art_len(a, 2); art_len(a, 3); art_len(a, 4); art_len(a, 5);
            break;
        }
        { secp256k1_ecdsa_signature s; SETUP(secp256k1_ecdsa_signature_parse_der(ctx, &s, t, n) == 1); }
        art_set(a, t, n); der_layout(a);
        break; }
    case AC_ECDSAV: {
        size_t l = 33;
        memcpy(t, i == 2 ? ADAPTOR_DEC64 : SIG0C, 64); if (i == 1) high_s(t);
        memcpy(t + 64, MSG, 32);
        SETUP(secp256k1_ec_pubkey_serialize(ctx, t + 96, &l, &PK[i == 3 ? 1 : 0], SECP256K1_EC_COMPRESSED) == 1);
        art_set(a, t, 129); a->fbase = 0; art_exp(a, 97); art_len(a, 96);
        break; }
    case AC_SCHNORRV: {
        static const size_t ml[5] = {32, 0, 1, 100, 32};
        unsigned char m[100]; secp256k1_xonly_pubkey chk; int k = i == 4 ? 1 : 0;
        if (i == 0 || i == 4) { memcpy(t, SCHNORR[k], 64); memcpy(m, MSGS[k], 32); }
        else { drv_bytes(m, ml[i], "vf-c07/schnorr/msg", (unsigned)i); SETUP(secp256k1_schnorrsig_sign_custom(ctx, t, ml[i] ? m : NULL, ml[i], &KP[0], NULL) == 1); }
        SETUP(secp256k1_xonly_pubkey_serialize(ctx, t + 64, &XPK[k]) == 1);
        memcpy(t + 96, m, ml[i]);
        SETUP(secp256k1_xonly_pubkey_parse(ctx, &chk, t + 64) == 1 && secp256k1_schnorrsig_verify(ctx, t, t + 96, ml[i], &chk) == 1);
        art_set(a, t, 96 + ml[i]); a->fbase = 0;
        break; }
    case AC_PUBNONCE: {
        secp256k1_musig_pubnonce chk;
        memcpy(t, PUBNONCE66[i & 1], 66);
        if (i == 2) { t[0] ^= 1; t[33] ^= 1; }                                   /* -PUBNONCE[0]: sums to infinity with PUBNONCE[0] */
        if (i == 3) { memcpy(t, PUBNONCE66[0], 33); t[0] ^= 1; }                 /* first component cancels, second does not */
        SETUP(secp256k1_musig_pubnonce_parse(ctx, &chk, t) == 1);
        art_set(a, t, 66); art_exp(a, 1); art_exp(a, 34); art_len(a, 0); art_len(a, 33);
        break; }
    case AC_AGGNONCE: {
        secp256k1_musig_aggnonce chk; size_t l = 33;
        memcpy(t, AGGNONCE66, 66);
        if (i == 1) memset(t, 0, 66);                                            /* both points at infinity (valid per BIP-327) */
        if (i == 2) { SETUP(secp256k1_ec_pubkey_serialize(ctx, t, &l, &PK[2], SECP256K1_EC_COMPRESSED) == 1); t[0] ^= 1; } /* R1 = -adaptor */
        if (i == 3) memset(t, 0, 33);
        SETUP(secp256k1_musig_aggnonce_parse(ctx, &chk, t) == 1);
        art_set(a, t, 66); art_exp(a, 1); art_exp(a, 34); art_len(a, 0); art_len(a, 33);
        break; }
    case AC_PSIG: {
        secp256k1_musig_partial_sig chk;
        if (i < 2) memcpy(t, PSIG32[i], 32); else if (i == 2) memset(t, 0, 32); else { memcpy(t, ORDER_N, 32); be_add_small(t, -1); }
        SETUP(secp256k1_musig_partial_sig_parse(ctx, &chk, t) == 1);
        art_set(a, t, 32); a->fbase = 0;
        break; }
    case AC_ADAPTOR:
        if (i == 0) memcpy(t, ADAPTOR162, 162);
        else { unsigned char sk[32]; memcpy(sk, SK[1], 32); SETUP(secp256k1_ecdsa_adaptor_encrypt(ctx, t, sk, &PK[4], MSGS[1], NULL, NULL) == 1); }
        art_set(a, t, 162); art_exp(a, 1); art_exp(a, 34); art_exp(a, 66); art_exp(a, 98); art_exp(a, 130); art_len(a, 0); art_len(a, 33);
        break;
    case AC_ADAPTOR_REC:
        memcpy(t, ADAPTOR162, 162); memcpy(t + 162, ADAPTOR_DEC64, 64);
        if (i == 1) memset(t + 194, 0, 32);                                      /* r || 0 */
        if (i == 2) high_s(t + 162);
        if (i == 3) memset(t + 162, 0, 64);
        art_set(a, t, 226); art_exp(a, 1); art_exp(a, 34); art_exp(a, 66); art_exp(a, 98); art_exp(a, 130); art_exp(a, 162); art_exp(a, 194); art_len(a, 0); art_len(a, 33);
        break;
    case AC_HALFAGG: {
        unsigned char sigs[5 * 64], msgs[5 * 32]; int k;
        for (k = 0; k < 5; k++) { memcpy(sigs + 64 * k, SCHNORR[k], 64); memcpy(msgs + 32 * k, MSGS[k], 32); }
        n = 32 * ((size_t)i + 1);
        SETUP(secp256k1_schnorrsig_aggregate(ctx, t, &n, XPK, msgs, sigs, (size_t)i) == 1 && n == 32 * ((size_t)i + 1));
        SETUP(secp256k1_schnorrsig_aggverify(ctx, XPK, msgs, (size_t)i, t, n) == 1);
        art_set(a, t, n); a->fbase = 0;
        break; }
    case AC_ELLSWIFT:
        SETUP(secp256k1_ellswift_create(ctx, t, SK[i], NULL) == 1);
        art_set(a, t, 64); a->fbase = 0;
        break;
    case AC_ELLSWIFT2:
        SETUP(secp256k1_ellswift_create(ctx, t, SK[i], NULL) == 1);
        SETUP(secp256k1_ellswift_create(ctx, t + 64, SK[i + 1], DATA32) == 1);
        art_set(a, t, 128); a->fbase = 0;
        break;
    case AC_COMMIT: {
        secp256k1_pedersen_commitment c;
        static const uint64_t v[3] = {0, 1, (uint64_t)1 << 63};
        if (i < 3) { SETUP(secp256k1_pedersen_commit(ctx, &c, SK[4], v[i], secp256k1_generator_h) == 1); SETUP(secp256k1_pedersen_commitment_serialize(ctx, t, &c) == 1); }
        else { t[0] = 8; memcpy(t + 1, TINYX, 32); }
        SETUP(secp256k1_pedersen_commitment_parse(ctx, &c, t) == 1);
        art_set(a, t, 33); a->fbase = 1; art_len(a, 0);
        break; }
    case AC_GEN: {
        secp256k1_generator g;
        if (i == 0) g = *secp256k1_generator_h;
        else if (i == 1) SETUP(secp256k1_generator_generate(ctx, &g, DATA32) == 1);
        else if (i == 2) SETUP(secp256k1_generator_generate_blinded(ctx, &g, DATA32, SK[5]) == 1);
        if (i < 3) SETUP(secp256k1_generator_serialize(ctx, t, &g) == 1); else { t[0] = 10; memcpy(t + 1, TINYX, 32); }
        SETUP(secp256k1_generator_parse(ctx, &g, t) == 1);
        art_set(a, t, 33); a->fbase = 1; art_len(a, 0);
        break; }
    case AC_OPENING: {
        secp256k1_ecdsa_s2c_opening o;
        if (i == 0) memcpy(t, S2C_OPENING33, 33); else { t[0] = 2; memcpy(t + 1, TINYX, 32); }
        SETUP(secp256k1_ecdsa_s2c_opening_parse(ctx, &o, t) == 1);
        art_set(a, t, 33); a->fbase = 1; art_len(a, 0);
        break; }
    default: vf_fail("harness: unknown artifact class");
    }
}

static const int AC_N[AC_COUNT] = {10, 4, 8, 12, 8, 4, 5, 4, 4, 4, NRP, 16, 16, 2, 4, 6, 3, 2, 4, 4, 2, 7, 6};

/* recipe byte -> recipe index: cheap recipes get most of the probability mass, the expensive boundary-size ones stay reachable */
static unsigned wmap(int ac, unsigned recipe) {
    if (ac == AC_RANGEPROOF) {
        static const unsigned char small[9] = {0, 1, 2, 3, 4, 5, 6, 11, 16}, medium[5] = {13, 7, 8, 9, 14};
        unsigned r = recipe % 128;
        if (r < 108) return small[r / 12];
        if (r < 123) return medium[(r - 108) / 3];
        if (r < 125) return 10;
        if (r < 126) return 12;
        return r == 126 ? 15 : 17;
    }
    if (ac == AC_HALFAGG) { static const unsigned char m[12] = {0, 1, 1, 1, 2, 2, 2, 3, 3, 4, 5, 0}; return m[recipe % 12]; }
    if (ac == AC_NORM) { static const unsigned char m[16] = {0, 0, 0, 0, 1, 1, 1, 2, 2, 2, 3, 3, 3, 4, 4, 5}; return m[recipe % 16]; }
    return recipe % (unsigned)AC_N[ac];
}

static const art_t *art(int ac, unsigned rec) {
    rec %= (unsigned)AC_N[ac];
    if (!have[ac][rec]) {
        long sl = lib_live; int si = cb_illegal, se = cb_error;
        art_t *a = &memo[ac][rec];
        switch (ac) {
            case AC_RANGEPROOF: build_rangeproof((int)rec, a); break;
            case AC_SURJ: build_surj((int)rec, a); break;
            case AC_WL: build_wl((int)rec, a); break;
            case AC_BPPPGENS: build_bpppgens((int)rec, a); break;
            case AC_NORM: build_norm((int)rec, a); break;
            default: build_small(ac, (int)rec, a); break;
        }
        if (cb_illegal != si || cb_error != se) { fprintf(stderr, "callback during artifact construction: %s\n", cb_msg); setup_fail("callback fired"); }
        SETUP(scratch->alloc_size == 0);
        lib_live = sl;   /* memoised objects stay alive on purpose; they are not part of the per-iteration balance */
        have[ac][rec] = 1;
    }
    return &memo[ac][rec];
}

/* ------------------------------------------------------------------ input decoding and the mutation engine */
typedef struct { const uint8_t *p; size_t n; } cur_t;
static unsigned gb(cur_t *c) { if (!c->n) return 0; c->n--; return *c->p++; }
static unsigned gw(cur_t *c) { unsigned a = gb(c); return a | (gb(c) << 8); }

#define WMAX 9472
static unsigned char W[WMAX];
static size_t Wn;

static int field_off(const art_t *a, unsigned idx, size_t *off) {
    size_t ngrid = 0, total;
    if (a && a->fbase >= 0 && Wn >= (size_t)a->fbase + 32) ngrid = (Wn - (size_t)a->fbase - 32) / (size_t)a->fstride + 1;
    total = ngrid + (a ? (size_t)a->nexp : 0);
    if (total == 0) { if (Wn < 32) return 0; *off = idx % (Wn - 31); return 1; }
    idx %= (unsigned)total;
    if (a && idx < (unsigned)a->nexp) { *off = (size_t)a->fexp[idx]; return *off + 32 <= Wn; }
    idx -= a ? (unsigned)a->nexp : 0;
    /* bias towards both ends of long grids */
    *off = (size_t)a->fbase + (size_t)idx * (size_t)a->fstride;
    return *off + 32 <= Wn;
}

/* count re-encoding with a CONSISTENT total length (what an attacker would send; a lone count edit dies at the length check):
 * surjection proof: n' inputs, bitmap of ceil(n'/8) bytes with the first m bits set and zero padding, e0 and m scalars taken from the artifact;
 * whitelist signature: n' keys, e0 and n' scalars taken from the artifact. */
static int cur_ac;
static void reencode_count(const art_t *a, unsigned pos, unsigned v) {
    static const unsigned short SN[16] = {0, 1, 7, 8, 9, 255, 256, 257, 258, 263, 264, 300, 511, 512, 4096, 65535};
    static const unsigned char WN[8] = {0, 1, 2, 3, 127, 128, 254, 255};
    size_t i, o;
    if (cur_ac == AC_SURJ) {
        size_t n = SN[v & 15], m = (v & 0x10) ? n : ((v & 0x20) ? 1 : 3), bl = (n + 7) / 8, src0 = (size_t)a->fbase, srcn = a->n - src0;
        if (m > n) m = n;
        if (2 + bl + 32 * (1 + m) > WMAX) { m = (WMAX - 2 - bl) / 32 - 1; if (m > n) m = n; }
        if (2 + bl + 32 > WMAX) return;
        W[0] = (unsigned char)n; W[1] = (unsigned char)(n >> 8);
        memset(W + 2, 0, bl);
        for (i = 0; i < m; i++) { size_t b = (pos & 0x400) ? n - 1 - i : i; W[2 + b / 8] |= (unsigned char)(1u << (b % 8)); }
        o = 2 + bl;
        for (i = 0; i < 32 * (1 + m); i++) W[o + i] = a->b[src0 + i % srcn];
        Wn = o + 32 * (1 + m);
    } else if (cur_ac == AC_WL) {
        size_t n = WN[v & 7], srcn = a->n - 33;
        W[0] = (unsigned char)n;
        memcpy(W + 1, a->b + 1, 32);
        for (i = 0; i < 32 * n; i++) W[33 + i] = srcn ? a->b[33 + i % srcn] : (unsigned char)i;
        Wn = 33 + 32 * n;
    }
}

static void mutate(const art_t *a, unsigned kind, unsigned pos, unsigned v, cur_t *tail) {
    size_t off, off2;
    kind %= 12;
    vf_class(X_MUT0 + (int)kind);
    switch (kind) {
    case 0: if (Wn) { size_t bit = pos % (Wn * 8); if (pos >= 0x8000 && Wn > 40) bit = (Wn * 8) - 1 - (pos % 320); W[bit / 8] ^= (unsigned char)(1u << (bit % 8)); } break;
    case 1: if (Wn) W[pos % Wn] = (unsigned char)v; break;
    case 2:
        if (v & 1) Wn = pos % (Wn + 1); else if (Wn) Wn -= 1 + (pos % (Wn < 40 ? Wn : 40));
        /* DER: keep the outer SEQUENCE length consistent, so that the truncation is seen by the INTEGER length checks, not the first one */
        if ((cur_ac == AC_DER || cur_ac == AC_LAXDER) && (pos & 0x4000) && Wn >= 2 && Wn < 130) W[1] = (unsigned char)(Wn - 2);
        break;
    case 3: { size_t add = 1 + pos % 64; if (Wn + add > WMAX) add = WMAX - Wn; memset(W + Wn, (int)v, add); Wn += add; break; }
    case 4:
        if (a && (pos & 0x200) && (cur_ac == AC_SURJ || cur_ac == AC_WL)) { vf_class(X_REENCODE); reencode_count(a, pos, v); }
        else if (a && a->nlen && Wn) {
            /* set to a free byte, to a boundary byte (counts / mantissa / exponent / prefix limits), or add a small delta */
            static const unsigned char BT[16] = {0, 1, 18, 19, 31, 32, 33, 63, 64, 65, 0x7F, 0x80, 0x81, 0xFE, 0xFF, 0x40 | 19};
            size_t o = (size_t)a->lenf[pos % (unsigned)a->nlen];
            if (o < Wn) { if (pos & 0x100) W[o] = (pos & 0x800) ? BT[v & 15] : (unsigned char)v; else W[o] = (unsigned char)(W[o] + (int)(v % 9) - 4); }
        }
        else if (Wn) W[pos % (Wn < 12 ? Wn : 12)] = (unsigned char)v;
        break;
    case 5: if (field_off(a, pos, &off)) boundary_value(W + off, v); break;
    case 6: if (field_off(a, pos, &off)) be_add(W + off, ORDER_N); break;
    case 7: if (field_off(a, pos, &off)) be_add(W + off, FIELD_P); break;
    case 8: if (field_off(a, pos, &off)) be_add_small(W + off, (int)(v % 9) - 4); break;
    case 9: if (field_off(a, pos, &off) && field_off(a, v, &off2)) memmove(W + off2, W + off, 32); break;
    case 10:
        if (Wn) { size_t o = pos % Wn;
            if ((v & 1) && Wn < WMAX) { memmove(W + o + 1, W + o, Wn - o); W[o] = (unsigned char)(v >> 1); Wn++; }
            else { memmove(W + o, W + o + 1, Wn - o - 1); Wn--; } }
        break;
    default: { size_t k = 1 + v % 40, o; if (k > tail->n) k = tail->n; if (Wn && k) { o = pos % Wn; if (o + k > Wn) k = Wn - o; memcpy(W + o, tail->p, k); tail->p += k; tail->n -= k; } break; }
    }
}

/* builds W for entry point `ep` from artifact class `ac` (or raw bytes); returns the artifact (NULL in raw mode) and the recipe index through *rec */
static int honest;   /* W is an unmodified valid artifact */
static const art_t *make_input(int ac, cur_t *c, unsigned recipe, unsigned ctl, unsigned declared, size_t maxlen, size_t fixedlen, unsigned *rec) {
    const art_t *a = NULL;
    unsigned mode = ctl & 3, lenmode = (ctl >> 2) & 3, nm = (ctl >> 4) & 15, nmut = nm == 15 ? 0 : 1 + nm % 3, i;
    unsigned mk[3], mp[3], mv[3];
    for (i = 0; i < nmut; i++) { mk[i] = gb(c); mp[i] = gw(c); mv[i] = gb(c); }
    honest = 0; cur_ac = ac;
    recipe = wmap(ac, recipe);
    *rec = recipe;
    if (mode == 2) {
        vf_class(X_MODE_RAW);
        Wn = c->n < WMAX ? c->n : WMAX; memcpy(W, c->p, Wn); c->p += Wn; c->n -= Wn;
    } else {
        a = art(ac, recipe);
        Wn = a->n; memcpy(W, a->b, Wn);
        if (mode == 3) {
            size_t k = c->n < 96 ? c->n : 96, o;
            vf_class(X_MODE_SPLICE);
            if (Wn && k) { o = (nmut ? mp[0] : declared) % Wn; if (o + k > Wn) k = Wn - o; memcpy(W + o, c->p, k); c->p += k; c->n -= k; }
        } else vf_class(X_MODE_ART);
        for (i = 0; i < nmut; i++) mutate(a, mk[i], mp[i], mv[i], c);
        if (mode != 3 && nmut == 0 && lenmode < 2) honest = 1;
    }
    if (fixedlen) {
        if (Wn < fixedlen) memset(W + Wn, 0, fixedlen - Wn);
        Wn = fixedlen;
    } else if (lenmode == 2) {
        size_t L = declared % (maxlen + 65);
        vf_class(X_LEN_DECLARED);
        if (L > WMAX) L = WMAX;
        if (L > Wn) { size_t k = L - Wn; if (k > c->n) { memset(W + Wn + c->n, 0, k - c->n); k = c->n; } memcpy(W + Wn, c->p, k); }
        Wn = L;
    } else if (lenmode == 3) {
        int d = (int)(declared % 5) - 2; if (d >= 0) d++;   /* -2,-1,+1,+2,+3 */
        vf_class(X_LEN_NEAR);
        if (d < 0) Wn = Wn >= (size_t)(-d) ? Wn - (size_t)(-d) : 0;
        else if (Wn + (size_t)d <= WMAX) { memset(W + Wn, (int)(declared >> 8), (size_t)d); Wn += (size_t)d; }
    }
    if (honest) vf_class(X_HONEST);
    return a;
}

/* ------------------------------------------------------------------ consumers: every function that accepts a parsed object's type.
 * Cheap consumers always run; the expensive ones (>= 1 scalar multiplication, ~1 ms each in the VERIFY+sanitizer build) are split
 * into groups selected by the three top bits of `aux`, so that every consumer is reached by volume while one execution stays ~1-4 ms. */
static void use_xonly(const secp256k1_xonly_pubkey *x, unsigned grp);

static void use_pubkey(const secp256k1_pubkey *pk, unsigned aux, int deep) {
    unsigned char *o33 = (unsigned char *)H(33), *o65 = (unsigned char *)H(65), *o32 = (unsigned char *)H(32), *o64 = (unsigned char *)H(64);
    size_t l = 33; int par = 0; unsigned grp = deep ? (aux >> 5) & 7 : 8;
    secp256k1_pubkey *t = (secp256k1_pubkey *)H(sizeof(*t)), *out = (secp256k1_pubkey *)H(sizeof(*out));
    secp256k1_xonly_pubkey *x = (secp256k1_xonly_pubkey *)H(sizeof(*x));
    const secp256k1_pubkey *two[2], *three[3];
    VF_CHECK(secp256k1_ec_pubkey_serialize(ctx, o33, &l, pk, SECP256K1_EC_COMPRESSED) == 1 && l == 33, "pubkey_serialize(compressed) of a parsed key failed");
    l = 65;
    VF_CHECK(secp256k1_ec_pubkey_serialize(ctx, o65, &l, pk, SECP256K1_EC_UNCOMPRESSED) == 1 && l == 65, "pubkey_serialize(uncompressed) of a parsed key failed");
    VF_CHECK(secp256k1_ec_pubkey_cmp(ctx, pk, pk) == 0, "pubkey_cmp(k,k) != 0");
    (void)secp256k1_ec_pubkey_cmp(ctx, pk, &PK[1]);
    (void)secp256k1_ec_pubkey_cmp(ctx, &PK[1], pk);
    *t = *pk; R(secp256k1_ec_pubkey_negate(ctx, t));
    two[0] = pk; two[1] = t; VF_CHECK(R(secp256k1_ec_pubkey_combine(ctx, out, two, 2)) == 0, "P + (-P) combined to a key");
    two[1] = &PK[1]; R(secp256k1_ec_pubkey_combine(ctx, out, two, 2));
    R(secp256k1_ec_pubkey_combine(ctx, out, two, 1));
    three[0] = &PK[2]; three[1] = pk; three[2] = &PK[0]; R(secp256k1_ec_pubkey_sort(ctx, three, 3));
    VF_CHECK(R(secp256k1_xonly_pubkey_from_pubkey(ctx, x, &par, pk)) == 1 && (par == 0 || par == 1), "xonly_pubkey_from_pubkey of a parsed key failed");
    if (aux & 16) { vf_class(X_N0_XONLY_PARITY); VF_CHECK(R(secp256k1_xonly_pubkey_from_pubkey(ctx, x, NULL, pk)) == 1, "xonly_pubkey_from_pubkey(pk_parity = NULL) failed"); }
    switch (grp) {
    case 0:
        *t = *pk; R(secp256k1_ec_pubkey_tweak_add(ctx, t, TWEAK));
        *t = *pk; R(secp256k1_ec_pubkey_tweak_mul(ctx, t, TWEAK));
        break;
    case 1: use_xonly(x, aux & 3); break;
    case 2:
        R(secp256k1_ecdsa_verify(ctx, &SIG0, MSG, pk));
        R(secp256k1_ecdh(ctx, o32, pk, SK[1], NULL, NULL));
        VF_CHECK(R(secp256k1_ellswift_encode(ctx, o64, pk, DATA32)) == 1, "ellswift_encode of a parsed key failed");
        break;
    case 3: {
        secp256k1_musig_keyagg_cache *cache = (secp256k1_musig_keyagg_cache *)H(sizeof(*cache));
        secp256k1_musig_session *s = (secp256k1_musig_session *)H(sizeof(*s));
        two[0] = pk; two[1] = &PK[1];
        if (aux & 8) {
            /* every optional argument absent: agg_pk / keyagg_cache NULL, nonce_gen with only the mandatory arguments (the parsed key is `pubkey`) */
            secp256k1_musig_secnonce sn; secp256k1_musig_pubnonce *pn = (secp256k1_musig_pubnonce *)H(sizeof(*pn)); unsigned char rnd[32];
            vf_class(X_N0_MUSIG);
            R(secp256k1_musig_pubkey_agg(ctx, NULL, cache, two, 2));
            R(secp256k1_musig_pubkey_agg(ctx, x, NULL, two, 2));
            R(secp256k1_musig_pubkey_agg(ctx, NULL, NULL, two, 2));
            memcpy(rnd, DATA32, 32);
            VF_CHECK(R(secp256k1_musig_nonce_gen(ctx, &sn, pn, rnd, NULL, pk, NULL, NULL, NULL)) == 1, "musig_nonce_gen with only the mandatory arguments failed");
            memcpy(rnd, DATA32, 32);
            R(secp256k1_musig_nonce_gen(ctx, &sn, pn, rnd, NULL, pk, MSG, cache, NULL));
            memset(&sn, 0, sizeof(sn));
        }
        if (R(secp256k1_musig_pubkey_agg(ctx, x, cache, two, 2))) {
            R(secp256k1_musig_pubkey_get(ctx, out, cache));
            if (aux & 1) R(secp256k1_musig_pubkey_xonly_tweak_add(ctx, out, cache, TWEAK)); else R(secp256k1_musig_pubkey_ec_tweak_add(ctx, NULL, cache, TWEAK));
            if (R(secp256k1_musig_nonce_process(ctx, s, &AGGNONCE, MSG, cache, (aux & 2) ? pk : NULL)))
                R(secp256k1_musig_partial_sig_verify(ctx, &PSIG[0], &PUBNONCE[0], pk, cache, s));
        }
        break; }
    case 4: R(secp256k1_ecdsa_adaptor_verify(ctx, ADAPTOR162, pk, MSG, &PK[3])); break;
    case 5:
        if (aux & 1) R(secp256k1_ecdsa_adaptor_verify(ctx, ADAPTOR162, &PK[0], MSG, pk));
        else R(secp256k1_ecdsa_adaptor_recover(ctx, o32, &ADAPTOR_DEC, ADAPTOR162, pk));
        break;
    case 6: R(secp256k1_anti_exfil_host_verify(ctx, &S2C_SIG, MSG, pk, DATA32, &S2C_OPENING)); break;
    case 7: {
        const art_t *w = art(AC_WL, 6);   /* n = 2 */
        secp256k1_whitelist_signature *ws = (secp256k1_whitelist_signature *)H(sizeof(*ws));
        secp256k1_pubkey *on = (secp256k1_pubkey *)HC(WL_ON, 2 * sizeof(secp256k1_pubkey)), *off = (secp256k1_pubkey *)HC(WL_OFF, 2 * sizeof(secp256k1_pubkey));
        if (R(secp256k1_whitelist_signature_parse(ctx, ws, w->b, w->n))) {
            if ((aux & 3) == 0) R(secp256k1_whitelist_verify(ctx, ws, on, off, 2, pk));
            else if ((aux & 3) == 1) { on[1] = *pk; R(secp256k1_whitelist_verify(ctx, ws, on, off, 2, &WL_SUB)); }
            else { off[0] = *pk; R(secp256k1_whitelist_verify(ctx, ws, on, off, 2, &WL_SUB)); }
        }
        break; }
    default: break;
    }
}

static void use_xonly(const secp256k1_xonly_pubkey *x, unsigned grp) {
    unsigned char *o32 = (unsigned char *)H(32);
    secp256k1_pubkey *out = (secp256k1_pubkey *)H(sizeof(*out));
    VF_CHECK(secp256k1_xonly_pubkey_serialize(ctx, o32, x) == 1, "xonly_pubkey_serialize of a parsed key failed");
    VF_CHECK(secp256k1_xonly_pubkey_cmp(ctx, x, x) == 0, "xonly_pubkey_cmp(k,k) != 0");
    (void)secp256k1_xonly_pubkey_cmp(ctx, x, &XPK[1]);
    if (grp == 0 || grp == 3) {
        if (R(secp256k1_xonly_pubkey_tweak_add(ctx, out, x, TWEAK))) {
            unsigned char *t32 = (unsigned char *)H(32); int par = 0;
            secp256k1_xonly_pubkey *tx = (secp256k1_xonly_pubkey *)H(sizeof(*tx));
            VF_CHECK(R(secp256k1_xonly_pubkey_from_pubkey(ctx, tx, &par, out)) == 1, "xonly_from_pubkey of a tweaked key failed");
            VF_CHECK(secp256k1_xonly_pubkey_serialize(ctx, t32, tx) == 1, "serialize of a tweaked key failed");
            VF_CHECK(R(secp256k1_xonly_pubkey_tweak_add_check(ctx, t32, par, x, TWEAK)) == 1, "tweak_add_check rejects the library's own tweak_add result");
        }
    } else if (grp == 1) R(secp256k1_schnorrsig_verify(ctx, SCHNORR[0], MSGS[0], 32, x));
    else {
        secp256k1_xonly_pubkey *arr = (secp256k1_xonly_pubkey *)H(2 * sizeof(*arr));
        unsigned char *msgs = (unsigned char *)HC(MSGS, 64);
        const art_t *h = art(AC_HALFAGG, 2);
        arr[0] = XPK[0]; arr[1] = *x;
        R(secp256k1_schnorrsig_aggverify(ctx, arr, msgs, 2, h->b, h->n));
    }
}

static void use_ecdsa_sig(const secp256k1_ecdsa_signature *sig, int parsed_ok, unsigned aux) {
    unsigned char *c64 = (unsigned char *)H(64), *o32 = (unsigned char *)H(32), *small = (unsigned char *)H(1), *der;
    size_t need = 1, l;
    secp256k1_ecdsa_signature *n = (secp256k1_ecdsa_signature *)H(sizeof(*n));
    static const unsigned char z[32] = {0};
    int v, s_zero;
    VF_CHECK(secp256k1_ecdsa_signature_serialize_compact(ctx, c64, sig) == 1, "serialize_compact failed");
    VF_CHECK(R(secp256k1_ecdsa_signature_serialize_der(ctx, small, &need, sig)) == 0 && need >= 8 && need <= 72, "serialize_der size query");
    der = (unsigned char *)H(need); l = need;
    VF_CHECK(R(secp256k1_ecdsa_signature_serialize_der(ctx, der, &l, sig)) == 1 && l == need, "serialize_der into an exact-size buffer failed");
    R(secp256k1_ecdsa_signature_normalize(ctx, n, sig));
    R(secp256k1_ecdsa_signature_normalize(ctx, NULL, sig));
    s_zero = memcmp(c64 + 32, z, 32) == 0 && memcmp(c64, z, 32) != 0;
    switch (s_zero ? 2 : (aux >> 5) & 3) {
    case 0:
        v = R(secp256k1_ecdsa_verify(ctx, sig, MSG, &PK[0]));
        if (!parsed_ok) { vf_class(X_SIG_FAILED_PARSE_CONSUMED); VF_CHECK(v == 0, "a signature object left by a FAILED parse verifies"); }
        break;
    case 1: R(secp256k1_ecdsa_verify(ctx, n, MSG, &PK[0])); break;
    case 2:
        if (s_zero) vf_class(X_F2_S0_REACHED);      /* history: finding F2 (VERIFY_CHECK on the point at infinity) */
        R(secp256k1_ecdsa_adaptor_recover(ctx, o32, sig, ADAPTOR162, &PK[3]));
        break;
    default:
        R(secp256k1_ecdsa_s2c_verify_commit(ctx, sig, DATA32, &S2C_OPENING));
        if (aux & 1) R(secp256k1_anti_exfil_host_verify(ctx, sig, MSG, &PK[0], DATA32, &S2C_OPENING));
        break;
    }
}

static void use_generator(const secp256k1_generator *g, unsigned aux) {
    unsigned char *o33 = (unsigned char *)H(33);
    secp256k1_pedersen_commitment *c = (secp256k1_pedersen_commitment *)H(sizeof(*c));
    uint64_t mn, mx;
    VF_CHECK(secp256k1_generator_serialize(ctx, o33, g) == 1, "generator_serialize of a parsed generator failed");
    switch ((aux >> 5) & 3) {
    case 0:
        if (R(secp256k1_pedersen_commit(ctx, c, SK[4], 5 + (aux & 1), g))) {
            const secp256k1_pedersen_commitment *p[1]; p[0] = c;
            VF_CHECK(secp256k1_pedersen_commitment_serialize(ctx, o33, c) == 1, "commitment_serialize failed");
            VF_CHECK(R(secp256k1_pedersen_verify_tally(ctx, p, 1, p, 1)) == 1, "C - C does not tally");
        }
        break;
    case 1: { const art_t *rp = art(AC_RANGEPROOF, 3); R(secp256k1_rangeproof_verify(ctx, &mn, &mx, &RP_COMMIT[3], rp->b, rp->n, NULL, 0, g)); break; }
    default: {
        const art_t *sp = art(AC_SURJ, 5);   /* surjection proof with n = 3, all inputs used */
        secp256k1_surjectionproof *proof = (secp256k1_surjectionproof *)H(sizeof(*proof));
        secp256k1_generator *tags = (secp256k1_generator *)HC(SURJ_IN, 3 * sizeof(secp256k1_generator));
        if (R(secp256k1_surjectionproof_parse(ctx, proof, sp->b, sp->n))) {
            if ((aux & 3) == 0) R(secp256k1_surjectionproof_verify(ctx, proof, tags, 3, g));
            else { tags[aux % 3] = *g;
                   if (aux & 4) R(secp256k1_surjectionproof_verify(ctx, proof, tags, 3, &SURJ_OUT[5]));
                   else R(secp256k1_surjectionproof_verify(ctx, proof, tags, 3, g)); }        /* output tag equal to an input tag: ring key at infinity */
        }
        break; }
    }
}

static secp256k1_pedersen_commitment OTHER_COMMIT;
static int other_commit_built = 0;
static void use_commitment(const secp256k1_pedersen_commitment *c, unsigned aux) {
    unsigned char *o33 = (unsigned char *)H(33), *bl = (unsigned char *)H(32), *mo = (unsigned char *)H(64);
    const secp256k1_pedersen_commitment *p[2], *q[2];
    uint64_t mn, mx, v; size_t ml = 64;
    const art_t *rp = art(AC_RANGEPROOF, 6);
    if (!other_commit_built) { SETUP(secp256k1_pedersen_commit(ctx, &OTHER_COMMIT, SK[5], 3, secp256k1_generator_h) == 1); other_commit_built = 1; }
    VF_CHECK(secp256k1_pedersen_commitment_serialize(ctx, o33, c) == 1, "commitment_serialize of a parsed commitment failed");
    p[0] = c; q[0] = c;
    VF_CHECK(R(secp256k1_pedersen_verify_tally(ctx, p, 1, q, 1)) == 1, "C - C does not tally");
    p[1] = &OTHER_COMMIT; q[0] = &OTHER_COMMIT; q[1] = c;
    if (aux & 1) VF_CHECK(R(secp256k1_pedersen_verify_tally(ctx, p, 2, q, 2)) == 1, "C + O - O - C does not tally");
    else R(secp256k1_pedersen_verify_tally(ctx, p, 2, q, 1));
    R(secp256k1_pedersen_verify_tally(ctx, p, 1, q, 0));
    if ((aux >> 5) & 1) R(secp256k1_rangeproof_verify(ctx, &mn, &mx, c, rp->b, rp->n, RP_EXTRA[6], RPR[6].extra_len, &RP_GEN[6]));
    else if ((aux >> 6) & 1) R(secp256k1_rangeproof_rewind(ctx, bl, &v, mo, &ml, RP_NONCE[6], &mn, &mx, c, rp->b, rp->n, RP_EXTRA[6], RPR[6].extra_len, &RP_GEN[6]));
}

/* ------------------------------------------------------------------ entry points */
static void mark(int nt, int ok) { if (nt) f_nt = 1; if (ok) f_ok = 1; }

static void ep_pubkey(cur_t *c, unsigned recipe, unsigned ctl, unsigned aux, unsigned declared) {
    unsigned rec; unsigned char *in; secp256k1_pubkey *pk = (secp256k1_pubkey *)H(sizeof(*pk)); int ok;
    make_input(AC_PUBKEY, c, recipe, ctl, declared, 65, 0, &rec);
    in = (unsigned char *)HC(W, Wn);
    ok = R(secp256k1_ec_pubkey_parse(ctx, pk, in, Wn));
    mark((Wn == 33 && (in[0] == 2 || in[0] == 3)) || (Wn == 65 && (in[0] == 4 || in[0] == 6 || in[0] == 7)), ok);
    if (honest) VF_CHECK(ok == 1, "valid public key encoding rejected");
    if (ok) { VF_CHECK(Wn == 33 || Wn == 65, "public key accepted with a length other than 33/65"); use_pubkey(pk, aux, 1); }
}

static void ep_xonly(cur_t *c, unsigned recipe, unsigned ctl, unsigned aux, unsigned declared) {
    unsigned rec; unsigned char *in; secp256k1_xonly_pubkey *x = (secp256k1_xonly_pubkey *)H(sizeof(*x)); int ok;
    (void)aux;
    make_input(AC_XONLY, c, recipe, ctl, declared, 32, 32, &rec);
    in = (unsigned char *)HC(W, 32);
    ok = R(secp256k1_xonly_pubkey_parse(ctx, x, in));
    mark(1, ok);
    if (honest) VF_CHECK(ok == 1, "valid x-only key rejected");
    if (ok) use_xonly(x, (aux >> 5) & 3);
}

static void ep_der(cur_t *c, unsigned recipe, unsigned ctl, unsigned aux, unsigned declared, int lax_only) {
    unsigned rec; unsigned char *in; int ok = 0, lok;
    secp256k1_ecdsa_signature *s = (secp256k1_ecdsa_signature *)H(sizeof(*s)), *ls = (secp256k1_ecdsa_signature *)H(sizeof(*ls));
    (void)aux;
    make_input(lax_only ? AC_LAXDER : AC_DER, c, recipe, ctl, declared, 80, 0, &rec);
    in = (unsigned char *)HC(W, Wn);
    if (!lax_only) {
        ok = R(secp256k1_ecdsa_signature_parse_der(ctx, s, in, Wn));
        mark(Wn >= 8 && in[0] == 0x30 && (size_t)in[1] + 2 == Wn, ok);
        if (honest) VF_CHECK(ok == 1, "valid DER signature rejected");
        use_ecdsa_sig(s, ok, aux);    /* documented: the object is always initialised, also after a failed parse */
    }
    lok = R(ecdsa_signature_parse_der_lax(ctx, ls, in, Wn));
    if (lax_only) { mark(Wn >= 8 && in[0] == 0x30, lok); if (honest) VF_CHECK(lok == 1, "valid (BER) signature rejected by the lax parser"); }
    else {
        int sv = cur_ep; (void)sv;
        vf_class(EP_lax_der * 3); if (Wn >= 8 && in[0] == 0x30) vf_class(EP_lax_der * 3 + 1); if (lok) vf_class(EP_lax_der * 3 + 2);
        if (lok && !ok) vf_class(X_LAX_ONLY_ACCEPT);
    }
    if (lok) use_ecdsa_sig(ls, 1, aux ^ 0x20);
}

static void ep_compact(cur_t *c, unsigned recipe, unsigned ctl, unsigned aux, unsigned declared, int recoverable) {
    unsigned rec; unsigned char *in; int ok;
    make_input(AC_COMPACT, c, recipe, ctl, declared, 64, 64, &rec);
    in = (unsigned char *)HC(W, 64);
    if (!recoverable) {
        secp256k1_ecdsa_signature *s = (secp256k1_ecdsa_signature *)H(sizeof(*s));
        static const unsigned char z[32] = {0};
        ok = R(secp256k1_ecdsa_signature_parse_compact(ctx, s, in));
        mark(1, ok);
        if (honest) VF_CHECK(ok == 1, "valid compact signature rejected");
        if (ok && memcmp(in + 32, z, 32) == 0) vf_class(X_F2_S0);
        use_ecdsa_sig(s, ok, aux);
    } else {
        secp256k1_ecdsa_recoverable_signature *rs = (secp256k1_ecdsa_recoverable_signature *)H(sizeof(*rs));
        int recid = (int)(aux & 3);
        ok = R(secp256k1_ecdsa_recoverable_signature_parse_compact(ctx, rs, in, recid));
        mark(1, ok);
        if (honest) VF_CHECK(ok == 1, "valid recoverable compact signature rejected");
        if (ok) {
            unsigned char *o64 = (unsigned char *)H(64); int rid = -1;
            secp256k1_ecdsa_signature *s = (secp256k1_ecdsa_signature *)H(sizeof(*s));
            secp256k1_pubkey *pk = (secp256k1_pubkey *)H(sizeof(*pk));
            VF_CHECK(R(secp256k1_ecdsa_recoverable_signature_serialize_compact(ctx, o64, &rid, rs)) == 1 && rid == recid, "recoverable serialize_compact");
            VF_CHECK(R(secp256k1_ecdsa_recoverable_signature_convert(ctx, s, rs)) == 1, "recoverable convert");
            use_ecdsa_sig(s, 1, aux);
            if ((aux & 4) && R(secp256k1_ecdsa_recover(ctx, pk, rs, MSG))) use_pubkey(pk, aux, 0);
        }
    }
}

static void ep_ecdsa_verify(cur_t *c, unsigned recipe, unsigned ctl, unsigned aux, unsigned declared) {
    unsigned rec; unsigned char *sig64, *msg, *pk33; int ok, pok, v;
    secp256k1_ecdsa_signature *s = (secp256k1_ecdsa_signature *)H(sizeof(*s));
    secp256k1_pubkey *pk = (secp256k1_pubkey *)H(sizeof(*pk));
    (void)aux;
    make_input(AC_ECDSAV, c, recipe, ctl, declared, 129, 129, &rec);
    sig64 = (unsigned char *)HC(W, 64); msg = (unsigned char *)HC(W + 64, 32); pk33 = (unsigned char *)HC(W + 96, 33);
    ok = R(secp256k1_ecdsa_signature_parse_compact(ctx, s, sig64));
    pok = R(secp256k1_ec_pubkey_parse(ctx, pk, pk33, 33));
    mark(ok && pok, 0);
    if (!pok) return;
    v = R(secp256k1_ecdsa_verify(ctx, s, msg, pk));
    mark(0, v);
    if (honest) VF_CHECK(v == (rec == 0 || rec == 2), "fixed ECDSA verification cases: wrong verdict");
    if (!ok) VF_CHECK(v == 0, "a signature object left by a FAILED parse verifies");
}

static void ep_schnorr_verify(cur_t *c, unsigned recipe, unsigned ctl, unsigned aux, unsigned declared) {
    unsigned rec; unsigned char *sig64, *pk32, *msg; size_t ml; int pok, v;
    secp256k1_xonly_pubkey *x = (secp256k1_xonly_pubkey *)H(sizeof(*x));
    make_input(AC_SCHNORRV, c, recipe, ctl, declared, 96 + 100, 0, &rec);
    if (Wn < 96) { memset(W + Wn, 0, 96 - Wn); Wn = 96; }
    ml = Wn - 96;
    sig64 = (unsigned char *)HC(W, 64); pk32 = (unsigned char *)HC(W + 64, 32); msg = (unsigned char *)HC(W + 96, ml);
    pok = R(secp256k1_xonly_pubkey_parse(ctx, x, pk32));
    mark(pok, 0);
    if (!pok) return;
    if (ml == 0 && (aux & 1)) { vf_class(X_N0_SCHNORR); msg = NULL; }    /* documented: "Can only be NULL if msglen is 0" */
    v = R(secp256k1_schnorrsig_verify(ctx, sig64, msg, ml, x));
    mark(0, v);
    if (honest) VF_CHECK(v == 1, "valid BIP-340 signature rejected");
}

/* ---- MuSig */
static void use_session(const secp256k1_musig_session *s, unsigned aux) {
    int par = -1; unsigned char *sig64 = (unsigned char *)H(64), *o64 = (unsigned char *)H(64), *o32 = (unsigned char *)H(32);
    const secp256k1_musig_partial_sig *ps[2];
    secp256k1_musig_secnonce sn; secp256k1_musig_pubnonce *pn = (secp256k1_musig_pubnonce *)H(sizeof(*pn));
    secp256k1_musig_partial_sig *mine = (secp256k1_musig_partial_sig *)H(sizeof(*mine));
    unsigned char rnd[32];
    unsigned grp = (aux >> 5) & 3;
    VF_CHECK(R(secp256k1_musig_nonce_parity(ctx, &par, s)) == 1 && (par == 0 || par == 1), "nonce_parity");
    if (grp == 0) R(secp256k1_musig_partial_sig_verify(ctx, &PSIG[0], &PUBNONCE[0], &PK[0], &CACHE, s));
    ps[0] = &PSIG[0]; ps[1] = &PSIG[1];
    if (R(secp256k1_musig_partial_sig_agg(ctx, sig64, s, ps, 2))) {
        if (grp == 1) R(secp256k1_schnorrsig_verify(ctx, sig64, MSG, 32, &AGGPK));
        if (R(secp256k1_musig_adapt(ctx, o64, sig64, SK[2], par))) R(secp256k1_musig_extract_adaptor(ctx, o32, o64, sig64, par));
    }
    if (grp == 2) {
        memcpy(rnd, DATA32, 32);
        SETUP(secp256k1_musig_nonce_gen(ctx, &sn, pn, rnd, SK[0], &PK[0], MSG, &CACHE, NULL) == 1);
        if (R(secp256k1_musig_partial_sign(ctx, mine, &sn, &KP[0], &CACHE, s))) {
            unsigned char *p32 = (unsigned char *)H(32);
            VF_CHECK(secp256k1_musig_partial_sig_serialize(ctx, p32, mine) == 1, "partial_sig_serialize");
            R(secp256k1_musig_partial_sig_verify(ctx, mine, pn, &PK[0], &CACHE, s));
        }
    }
}

static void use_aggnonce(const secp256k1_musig_aggnonce *an, unsigned aux) {
    unsigned char *o66 = (unsigned char *)H(66);
    secp256k1_musig_session *s = (secp256k1_musig_session *)H(sizeof(*s));
    VF_CHECK(secp256k1_musig_aggnonce_serialize(ctx, o66, an) == 1, "aggnonce_serialize of a parsed/aggregated nonce failed");
    if (R(secp256k1_musig_nonce_process(ctx, s, an, MSG, &CACHE, (aux & 1) ? &PK[2] : NULL))) use_session(s, aux);
}

static void ep_musig(cur_t *c, unsigned recipe, unsigned ctl, unsigned aux, unsigned declared, int which) {
    unsigned rec; unsigned char *in; int ok;
    if (which == 0) {
        secp256k1_musig_pubnonce *pn = (secp256k1_musig_pubnonce *)H(sizeof(*pn));
        make_input(AC_PUBNONCE, c, recipe, ctl, declared, 66, 66, &rec);
        in = (unsigned char *)HC(W, 66);
        ok = R(secp256k1_musig_pubnonce_parse(ctx, pn, in));
        mark(1, ok);
        if (honest) VF_CHECK(ok == 1, "valid public nonce rejected");
        if (ok) {
            unsigned char *o66 = (unsigned char *)H(66);
            const secp256k1_musig_pubnonce *pns[3]; size_t n = 1 + (aux >> 4) % 3;
            secp256k1_musig_aggnonce *an = (secp256k1_musig_aggnonce *)H(sizeof(*an));
            secp256k1_musig_session *s = (secp256k1_musig_session *)H(sizeof(*s));
            VF_CHECK(secp256k1_musig_pubnonce_serialize(ctx, o66, pn) == 1, "pubnonce_serialize of a parsed nonce failed");
            pns[0] = pn; pns[1] = &PUBNONCE[0]; pns[2] = &PUBNONCE[1];
            if (honest && rec >= 2) vf_class(X_MUSIG_CANCEL);
            if (R(secp256k1_musig_nonce_agg(ctx, an, pns, n)) && !(aux & 4)) use_aggnonce(an, aux);
            if ((aux & 4) && R(secp256k1_musig_nonce_process(ctx, s, &AGGNONCE, MSG, &CACHE, NULL))) R(secp256k1_musig_partial_sig_verify(ctx, &PSIG[0], pn, &PK[0], &CACHE, s));
        }
    } else if (which == 1) {
        secp256k1_musig_aggnonce *an = (secp256k1_musig_aggnonce *)H(sizeof(*an));
        make_input(AC_AGGNONCE, c, recipe, ctl, declared, 66, 66, &rec);
        in = (unsigned char *)HC(W, 66);
        ok = R(secp256k1_musig_aggnonce_parse(ctx, an, in));
        mark(1, ok);
        if (honest) VF_CHECK(ok == 1, "valid aggregate nonce rejected");
        if (honest && rec >= 1) { vf_class(X_MUSIG_CANCEL); if (rec == 2) aux |= 1; }
        if (ok) use_aggnonce(an, aux);
    } else {
        secp256k1_musig_partial_sig *p = (secp256k1_musig_partial_sig *)H(sizeof(*p));
        make_input(AC_PSIG, c, recipe, ctl, declared, 32, 32, &rec);
        in = (unsigned char *)HC(W, 32);
        ok = R(secp256k1_musig_partial_sig_parse(ctx, p, in));
        mark(1, ok);
        if (honest) VF_CHECK(ok == 1, "valid partial signature rejected");
        if (ok) {
            unsigned char *o32 = (unsigned char *)H(32), *sig64 = (unsigned char *)H(64);
            const secp256k1_musig_partial_sig *ps[2];
            int v;
            VF_CHECK(secp256k1_musig_partial_sig_serialize(ctx, o32, p) == 1, "partial_sig_serialize of a parsed signature failed");
            v = R(secp256k1_musig_partial_sig_verify(ctx, p, &PUBNONCE[0], &PK[0], &CACHE, &SESSION));
            if (honest) VF_CHECK(v == (rec == 0), "fixed partial signature cases: wrong verdict");
            ps[0] = p; ps[1] = &PSIG[1];
            if (R(secp256k1_musig_partial_sig_agg(ctx, sig64, &SESSION, ps, 1 + (aux & 1)))) {
                v = R(secp256k1_schnorrsig_verify(ctx, sig64, MSG, 32, &AGGPK));
                if (honest && rec == 0 && (aux & 1)) VF_CHECK(v == 1, "aggregate of the two honest partial signatures does not verify");
            }
        }
    }
}

/* ---- range proofs */
static void ep_rangeproof(cur_t *c, unsigned recipe, unsigned ctl, unsigned aux, unsigned declared, int which) {
    unsigned rec; unsigned char *in, *extra; int ok, ex = 0, mant = 0, info; uint64_t mn = 0, mx = 0, mn2 = 0, mx2 = 0;
    const art_t *a; unsigned recipe0 = recipe;
    if (which != 2 && recipe % 128 >= 123) {   /* 16..64-bit proofs (32..128 scalar multiplications) only now and then */
        static const long cost[5] = {35, 35, 70, 125, 135};
        if (!heavy_ok(cost[recipe % 128 - 123])) recipe = recipe % 108;
    }
    a = make_input(AC_RANGEPROOF, c, recipe, ctl, declared, 5134, 0, &rec);
    (void)a;
    art(AC_RANGEPROOF, rec);   /* context (commitment, generator, nonce) of the recipe also in raw mode */
    in = (unsigned char *)HC(W, Wn);
    extra = (unsigned char *)HC(RP_EXTRA[rec], RPR[rec].extra_len);
    /* "extra_commit_len: 0 if NULL": with length 0 either NULL or a pointer to a block with zero accessible bytes */
    if (RPR[rec].extra_len == 0 && (recipe0 & 0x80)) { vf_class(X_N0_RP_EXTRA); extra = NULL; }
    if (rec == (unsigned)NRP - 1 && honest) vf_class(X_RP_BIG);
    info = R(secp256k1_rangeproof_info(ctx, &ex, &mant, &mn2, &mx2, in, Wn));
    if (info) VF_CHECK(ex >= -1 && ex <= 18 && mant >= 0 && mant <= 64 && mn2 <= mx2, "rangeproof_info: header fields out of the documented range");
    if (which == 2) {
        mark(Wn >= 65 && !(in[0] & 128), info);
        if (honest) VF_CHECK(info == 1, "rangeproof_info rejects a valid proof");
        return;
    }
    if (which == 0) {
        ok = R(secp256k1_rangeproof_verify(ctx, &mn, &mx, &RP_COMMIT[rec], in, Wn, extra, RPR[rec].extra_len, &RP_GEN[rec]));
        mark(info, ok);
        if (honest) VF_CHECK(ok == 1, "valid range proof rejected");
        if (ok) VF_CHECK(info == 1 && mn == mn2 && mx == mx2 && mn <= mx, "rangeproof_verify accepted but the proven range differs from rangeproof_info");
    } else {
        static const size_t OUTLENS[16] = {0, 1, 31, 32, 33, 64, 100, 127, 128, 129, 384, 1000, 2048, 3968, 4096, 17};
        size_t outlen = OUTLENS[aux & 15], ol;
        unsigned char *bl = (unsigned char *)H(32), *mo = (unsigned char *)H(outlen), *nonce = (unsigned char *)HC(RP_NONCE[rec], 32);
        uint64_t v = 0;
        if (aux & 0x80) nonce[aux & 31] ^= 1;   /* wrong nonce: verification passes, rewinding must fail cleanly */
        ol = outlen;
        if (outlen < 32 * 4) vf_class(X_REWIND_SMALLBUF);
        if ((aux & 0x70) == 0x70) vf_class(X_N0_REWIND_MSG);   /* no message wanted: the code's contract is message_out != NULL || outlen == NULL */
        if ((aux & 0x70) == 0x70) ok = R(secp256k1_rangeproof_rewind(ctx, bl, &v, NULL, NULL, nonce, &mn, &mx, &RP_COMMIT[rec], in, Wn, extra, RPR[rec].extra_len, &RP_GEN[rec]));
        else ok = R(secp256k1_rangeproof_rewind(ctx, bl, &v, mo, &ol, nonce, &mn, &mx, &RP_COMMIT[rec], in, Wn, extra, RPR[rec].extra_len, &RP_GEN[rec]));
        mark(info, ok);
        if (ok) {
            vf_class(X_REWIND_OK);
            VF_CHECK(ol <= outlen, "rangeproof_rewind reports more message bytes than the buffer holds");
            VF_CHECK(mn <= mx && v >= mn && v <= mx, "rangeproof_rewind: recovered value outside the proven range");
        }
        if (honest && !(aux & 0x80)) VF_CHECK(ok == 1 && v == RPR[rec].value && memcmp(bl, RP_BLIND[rec], 32) == 0, "rewinding a valid proof with its nonce failed");
    }
}

/* ---- surjection proofs */
static void ep_surjection(cur_t *c, unsigned recipe, unsigned ctl, unsigned aux, unsigned declared) {
    unsigned rec; unsigned char *in; int ok; size_t n_in;
    secp256k1_surjectionproof *p = (secp256k1_surjectionproof *)H(sizeof(*p));
    make_input(AC_SURJ, c, recipe, ctl, declared, SECP256K1_SURJECTIONPROOF_SERIALIZATION_BYTES_MAX, 0, &rec);
    art(AC_SURJ, rec);
    in = (unsigned char *)HC(W, Wn);
    ok = R(secp256k1_surjectionproof_parse(ctx, p, in, Wn));
    n_in = Wn >= 2 ? (size_t)in[0] + ((size_t)in[1] << 8) : 0;
    mark(Wn >= 2 && n_in <= 256 && Wn >= 2 + (n_in + 7) / 8, ok);
    if (honest) { VF_CHECK(ok == 1, "valid surjection proof rejected by the parser"); if (SURJ_N[rec] >= 255) vf_class(X_SURJ_BIG); }
    if (ok) {
        size_t nt = secp256k1_surjectionproof_n_total_inputs(ctx, p), nu = secp256k1_surjectionproof_n_used_inputs(ctx, p);
        size_t ss = secp256k1_surjectionproof_serialized_size(ctx, p), ol = ss;
        unsigned char *out = (unsigned char *)H(ss);
        secp256k1_generator *tags; int v;
        VF_CHECK(nt <= SECP256K1_SURJECTIONPROOF_MAX_N_INPUTS && nu <= nt && nt == n_in, "surjection parser accepted more than MAX_N_INPUTS inputs / inconsistent counts");
        VF_CHECK(ss == Wn && ss == SECP256K1_SURJECTIONPROOF_SERIALIZATION_BYTES(nt, nu), "surjection serialized_size differs from the accepted input length");
        VF_CHECK(R(secp256k1_surjectionproof_serialize(ctx, out, &ol, p)) == 1 && ol == ss, "surjectionproof_serialize into an exact-size buffer failed");
        if (ss > 1) { size_t sl = ss - 1; unsigned char *sm = (unsigned char *)H(sl); VF_CHECK(R(secp256k1_surjectionproof_serialize(ctx, sm, &sl, p)) == 0, "surjectionproof_serialize succeeded into a too-small buffer"); }
        /* verify with exactly nt input tags (exact-size array) and the recipe's output tag */
        tags = (secp256k1_generator *)HC(SURJ_IN, nt * sizeof(secp256k1_generator));
        if (nu > 16 && !heavy_ok((long)nu + 10)) return;      /* verification of very large rings only now and then (cost) */
        v = R(secp256k1_surjectionproof_verify(ctx, p, tags, nt, &SURJ_OUT[rec]));
        if (v) vf_class(X_SURJ_VERIFY_OK);
        if (honest) VF_CHECK(v == 1, "valid surjection proof rejected");
        if (nu > 16) return;
        if ((aux & 3) == 1 && nt >= 1) { vf_class(X_SURJ_OUT_EQ_IN); R(secp256k1_surjectionproof_verify(ctx, p, tags, nt, &tags[(aux >> 2) % nt])); }
        if ((aux & 3) == 2 && nt >= 2) {   /* count mismatch: an exact-size array that really is one tag shorter */
            secp256k1_generator *fewer = (secp256k1_generator *)HC(SURJ_IN, (nt - 1) * sizeof(secp256k1_generator));
            VF_CHECK(R(secp256k1_surjectionproof_verify(ctx, p, fewer, nt - 1, &SURJ_OUT[rec])) == 0, "surjection proof verified against a tag list of a different length");
        }
    }
}

/* ---- whitelist signatures */
static void ep_whitelist(cur_t *c, unsigned recipe, unsigned ctl, unsigned aux, unsigned declared) {
    unsigned rec; unsigned char *in; int ok;
    secp256k1_whitelist_signature *s = (secp256k1_whitelist_signature *)H(sizeof(*s));
    make_input(AC_WL, c, recipe, ctl, declared, 33 + 32 * 255, 0, &rec);
    art(AC_WL, rec);
    in = (unsigned char *)HC(W, Wn);
    ok = R(secp256k1_whitelist_signature_parse(ctx, s, in, Wn));
    mark(Wn >= 1 && Wn == 33 + 32 * (size_t)in[0], ok);
    if (honest) { VF_CHECK(ok == 1, "valid whitelist signature rejected by the parser"); if (WL_N[rec] == 255) vf_class(X_WL_BIG); }
    if (ok) {
        size_t nk = secp256k1_whitelist_signature_n_keys(s), ol = 33 + 32 * nk; int v;
        unsigned char *out = (unsigned char *)H(ol);
        secp256k1_pubkey *on, *off;
        VF_CHECK(nk <= SECP256K1_WHITELIST_MAX_N_KEYS && nk == in[0] && Wn == 33 + 32 * nk, "whitelist parser: accepted length / key count inconsistent with the documented format");
        VF_CHECK(R(secp256k1_whitelist_signature_serialize(ctx, out, &ol, s)) == 1 && ol == 33 + 32 * nk, "whitelist serialize into an exact-size buffer failed");
        { size_t sl = ol - 1; unsigned char *sm = (unsigned char *)H(sl); VF_CHECK(R(secp256k1_whitelist_signature_serialize(ctx, sm, &sl, s)) == 0, "whitelist serialize succeeded into a too-small buffer"); }
        /* exact-size key arrays with as many keys as the signature claims */
        on = (secp256k1_pubkey *)HC(WL_ON, nk * sizeof(secp256k1_pubkey)); off = (secp256k1_pubkey *)HC(WL_OFF, nk * sizeof(secp256k1_pubkey));
        if (nk > 8 && !heavy_ok(3 * (long)nk)) return;       /* verification of very large rings only now and then (cost) */
        v = R(secp256k1_whitelist_verify(ctx, s, on, off, nk, &WL_SUB));
        if (v) { vf_class(X_WL_VERIFY_OK); VF_CHECK(nk > 0, "whitelist_verify accepted a signature for an empty key list"); }
        if (honest) VF_CHECK(v == 1, "valid whitelist signature rejected");
        if (nk > 8) return;
        if ((aux & 3) == 1 && nk >= 2) {   /* count mismatch: exact-size arrays that really are one key shorter */
            secp256k1_pubkey *on2 = (secp256k1_pubkey *)HC(WL_ON, (nk - 1) * sizeof(secp256k1_pubkey)), *off2 = (secp256k1_pubkey *)HC(WL_OFF, (nk - 1) * sizeof(secp256k1_pubkey));
            VF_CHECK(R(secp256k1_whitelist_verify(ctx, s, on2, off2, nk - 1, &WL_SUB)) == 0, "whitelist signature verified against key lists of a different length");
        }
        if ((aux & 3) == 2) R(secp256k1_whitelist_verify(ctx, s, on, off, nk, &PK[0]));
    }
}

/* ---- ECDSA adaptor signatures */
static void ep_adaptor(cur_t *c, unsigned recipe, unsigned ctl, unsigned aux, unsigned declared, int which) {
    unsigned rec; unsigned char *in; int ok;
    if (which == 0) {
        make_input(AC_ADAPTOR, c, recipe, ctl, declared, 162, 162, &rec);
        in = (unsigned char *)HC(W, 162);
        ok = R(secp256k1_ecdsa_adaptor_verify(ctx, in, &PK[0], MSG, &PK[3]));
        mark(1, ok);
        if (honest) VF_CHECK(ok == (rec == 0), "fixed adaptor signature cases: wrong verdict");
    } else if (which == 1) {
        secp256k1_ecdsa_signature *s = (secp256k1_ecdsa_signature *)H(sizeof(*s));
        unsigned char *dk = (unsigned char *)HC(SK[3], 32);
        make_input(AC_ADAPTOR, c, recipe, ctl, declared, 162, 162, &rec);
        in = (unsigned char *)HC(W, 162);
        if ((aux & 7) == 1 && c->n >= 32) memcpy(dk, c->p, 32);   /* the decryption key is caller data, any 32 bytes are a documented input */
        if ((aux & 7) == 2) boundary_value(dk, aux >> 3);
        ok = R(secp256k1_ecdsa_adaptor_decrypt(ctx, s, dk, in));
        mark(1, ok);
        if (honest && (aux & 7) != 1 && (aux & 7) != 2) VF_CHECK(ok == 1, "decrypting a valid adaptor signature failed");
        if (ok) {
            unsigned char *o32 = (unsigned char *)H(32);
            if (aux & 8) use_ecdsa_sig(s, 1, aux); else
            R(secp256k1_ecdsa_adaptor_recover(ctx, o32, s, in, &PK[3]));
        }
    } else {
        secp256k1_ecdsa_signature *s = (secp256k1_ecdsa_signature *)H(sizeof(*s));
        unsigned char *sig64, *o32 = (unsigned char *)H(32); int sok;
        static const unsigned char z[32] = {0};
        make_input(AC_ADAPTOR_REC, c, recipe, ctl, declared, 226, 226, &rec);
        in = (unsigned char *)HC(W, 162); sig64 = (unsigned char *)HC(W + 162, 64);
        sok = R(secp256k1_ecdsa_signature_parse_compact(ctx, s, sig64));
        if (sok && memcmp(sig64 + 32, z, 32) == 0 && memcmp(sig64, z, 32) != 0) { vf_class(X_F2_S0); vf_class(X_F2_S0_REACHED); }
        ok = R(secp256k1_ecdsa_adaptor_recover(ctx, o32, s, in, &PK[3]));   /* s is initialised also after a failed parse (documented) */
        mark(sok, ok);
        if (honest) VF_CHECK(ok == (rec == 0 || rec == 2), "fixed adaptor recovery cases: wrong verdict");
        if (ok) { secp256k1_pubkey *pk = (secp256k1_pubkey *)H(sizeof(*pk)); if (R(secp256k1_ec_pubkey_create(ctx, pk, o32))) (void)secp256k1_ec_pubkey_cmp(ctx, pk, &PK[3]); }
    }
}

/* ---- half-aggregation */
static void ep_halfagg(cur_t *c, unsigned recipe, unsigned ctl, unsigned aux, unsigned declared, int inc) {
    unsigned rec; unsigned char *in; int ok; size_t n, k;
    secp256k1_xonly_pubkey *keys; unsigned char *msgs;
    make_input(AC_HALFAGG, c, recipe, ctl, declared, 32 * 8, 0, &rec);
    n = rec;   /* number of aggregated signatures of the recipe */
    if (!inc) {
        if ((aux & 7) == 7) n = (aux >> 3) % 6;
        in = (unsigned char *)HC(W, Wn);
        keys = (secp256k1_xonly_pubkey *)HC(XPK, n * sizeof(secp256k1_xonly_pubkey));
        msgs = (unsigned char *)HC(MSGS, 32 * n);
        if (n == 0 && (aux & 8)) vf_class(X_N0_AGGVERIFY);       /* "Can only be NULL if n is 0" */
        ok = R(secp256k1_schnorrsig_aggverify(ctx, (n == 0 && (aux & 8)) ? NULL : keys, (n == 0 && (aux & 8)) ? NULL : msgs, n, in, Wn));
        mark(Wn % 32 == 0 && Wn / 32 == n + 1, ok);
        if (honest && n == rec) VF_CHECK(ok == 1, "valid half-aggregate signature rejected");
        return;
    }
    if ((aux & 0xF0) == 0xF0) {
        /* n_before + n_new wraps around: the documented reaction is the illegal callback and 0; a bounds violation is not */
        size_t nb = SIZE_MAX - (aux & 3), nn = (size_t)(aux & 3) + 1, len = Wn; int si = cb_illegal, se = cb_error;
        vf_class(X_HALFAGG_OVERFLOW);
        in = (unsigned char *)HC(W, Wn);
        keys = (secp256k1_xonly_pubkey *)HC(XPK, 5 * sizeof(secp256k1_xonly_pubkey)); msgs = (unsigned char *)HC(MSGS, 32 * 5);
        ok = R(secp256k1_schnorrsig_inc_aggregate(ctx, in, &len, keys, msgs, (const unsigned char *)HC(SCHNORR, 64 * 4), nb, nn));
        VF_CHECK(ok == 0, "inc_aggregate succeeded with n_before + n_new overflowing");
        VF_CHECK(cb_error == se, "error callback");
        cb_illegal = si;   /* either reaction (callback or plain 0) is accepted for this caller error */
        mark(0, 0);
        return;
    }
    {
        size_t n_new = (aux & 3), total = n + n_new, len, want = 32 * (total + 1), L = Wn;
        unsigned char *news, *buf;
        if (total > 7) { n_new = 0; total = n; want = 32 * (total + 1); }
        if (!(aux & 4) && L < want) L = want;              /* usually a buffer that is large enough; otherwise whatever length was declared */
        buf = (unsigned char *)H(L); memset(buf, 0, L); memcpy(buf, W, Wn < L ? Wn : L);
        keys = (secp256k1_xonly_pubkey *)H(total * sizeof(secp256k1_xonly_pubkey)); msgs = (unsigned char *)H(32 * total);
        for (k = 0; k < total; k++) { keys[k] = XPK[k % NK]; memcpy(msgs + 32 * k, MSGS[k % NK], 32); }
        news = (unsigned char *)H(64 * n_new);
        for (k = 0; k < n_new; k++) memcpy(news + 64 * k, SCHNORR[(n + k) % NK], 64);
        if ((aux & 8) && n_new) { size_t t = c->n < 64 * n_new ? c->n : 64 * n_new; memcpy(news, c->p, t); }   /* untrusted new signatures */
        len = L;
        {   /* "Can only be NULL if n_before + n_new is 0" / "if n_new is 0": NULL or a pointer to zero accessible bytes */
            int usenull = (aux & 0x20) != 0;
            if (usenull && (total == 0 || n_new == 0)) vf_class(X_N0_INCAGG);
            ok = R(secp256k1_schnorrsig_inc_aggregate(ctx, buf, &len, (total == 0 && usenull) ? NULL : keys, (total == 0 && usenull) ? NULL : msgs,
                                                      (n_new == 0 && usenull) ? NULL : news, n, n_new));
        }
        mark(L >= want, ok);
        if (ok) {
            int v;
            VF_CHECK(len == want && len <= L, "inc_aggregate: reported length is not 32*(n+1) or exceeds the buffer");
            if (total > 2 && !(aux & 16)) return;
            v = R(secp256k1_schnorrsig_aggverify(ctx, (total == 0 && (aux & 0x20)) ? NULL : keys, (total == 0 && (aux & 0x20)) ? NULL : msgs, total, (unsigned char *)HC(buf, len), len));
            if (honest && !(aux & 8) && total <= 5) VF_CHECK(v == 1, "incrementally aggregated valid signatures do not verify");
        }
    }
}

/* ---- ElligatorSwift */
static int xdh_hash_fail(unsigned char *o, const unsigned char *x, const unsigned char *a, const unsigned char *b, void *d) { (void)o; (void)x; (void)a; (void)b; (void)d; return 0; }
static void ep_ellswift(cur_t *c, unsigned recipe, unsigned ctl, unsigned aux, unsigned declared, int xdh) {
    unsigned rec; unsigned char *in;
    if (!xdh) {
        secp256k1_pubkey *pk = (secp256k1_pubkey *)H(sizeof(*pk));
        make_input(AC_ELLSWIFT, c, recipe, ctl, declared, 64, 64, &rec);
        in = (unsigned char *)HC(W, 64);
        VF_CHECK(R(secp256k1_ellswift_decode(ctx, pk, in)) == 1, "ellswift_decode did not return 1 (documented: always 1)");
        mark(1, 1);
        if (honest) { secp256k1_pubkey chk; SETUP(secp256k1_ec_pubkey_create(ctx, &chk, SK[rec]) == 1); VF_CHECK(secp256k1_ec_pubkey_cmp(ctx, &chk, pk) == 0, "ellswift_decode(ellswift_create(sk)) != pubkey(sk)"); }
        use_pubkey(pk, aux, (aux & 16) != 0);
    } else {
        unsigned char *a64, *b64, *out = (unsigned char *)H(32), *prefix = (unsigned char *)HC(ADAPTOR162, 64); int ok, party = (int)(aux & 1);
        make_input(AC_ELLSWIFT2, c, recipe, ctl, declared, 128, 128, &rec);
        a64 = (unsigned char *)HC(W, 64); b64 = (unsigned char *)HC(W + 64, 64);
        if ((aux & 6) == 2) ok = R(secp256k1_ellswift_xdh(ctx, out, a64, b64, SK[2], party, secp256k1_ellswift_xdh_hash_function_prefix, prefix));
        else if ((aux & 6) == 4) { ok = R(secp256k1_ellswift_xdh(ctx, out, a64, b64, SK[2], party, xdh_hash_fail, NULL)); VF_CHECK(ok == 0, "ellswift_xdh returned 1 although the hash function failed"); }
        else ok = R(secp256k1_ellswift_xdh(ctx, out, a64, b64, SK[2], party, secp256k1_ellswift_xdh_hash_function_bip324, NULL));
        mark(1, ok);
        if ((aux & 6) != 4) VF_CHECK(ok == 1, "ellswift_xdh failed with a valid secret key and a working hash function");
    }
}

/* ---- 33-byte objects: commitments, generators, s2c openings */
static void ep_obj33(cur_t *c, unsigned recipe, unsigned ctl, unsigned aux, unsigned declared, int which) {
    unsigned rec; unsigned char *in; int ok;
    if (which == 0) {
        secp256k1_pedersen_commitment *o = (secp256k1_pedersen_commitment *)H(sizeof(*o));
        make_input(AC_COMMIT, c, recipe, ctl, declared, 33, 33, &rec);
        in = (unsigned char *)HC(W, 33);
        ok = R(secp256k1_pedersen_commitment_parse(ctx, o, in));
        mark((in[0] & 0xFE) == 8, ok);
        if (honest) VF_CHECK(ok == 1, "valid commitment rejected");
        if (ok) use_commitment(o, aux);
    } else if (which == 1) {
        secp256k1_generator *o = (secp256k1_generator *)H(sizeof(*o));
        make_input(AC_GEN, c, recipe, ctl, declared, 33, 33, &rec);
        in = (unsigned char *)HC(W, 33);
        ok = R(secp256k1_generator_parse(ctx, o, in));
        mark((in[0] & 0xFE) == 10, ok);
        if (honest) VF_CHECK(ok == 1, "valid generator rejected");
        if (ok) use_generator(o, aux);
    } else {
        secp256k1_ecdsa_s2c_opening *o = (secp256k1_ecdsa_s2c_opening *)H(sizeof(*o));
        make_input(AC_OPENING, c, recipe, ctl, declared, 33, 33, &rec);
        in = (unsigned char *)HC(W, 33);
        ok = R(secp256k1_ecdsa_s2c_opening_parse(ctx, o, in));
        mark((in[0] & 0xFE) == 2, ok);
        if (honest) VF_CHECK(ok == 1, "valid s2c opening rejected");
        if (ok) {
            unsigned char *o33 = (unsigned char *)H(33); int v;
            VF_CHECK(R(secp256k1_ecdsa_s2c_opening_serialize(ctx, o33, o)) == 1, "s2c_opening_serialize of a parsed opening failed");
            v = R(secp256k1_ecdsa_s2c_verify_commit(ctx, &S2C_SIG, DATA32, o));
            if (honest) VF_CHECK(v == (rec == 0), "fixed s2c opening cases: wrong verdict");
            R(secp256k1_anti_exfil_host_verify(ctx, &S2C_SIG, MSG, &PK[0], DATA32, o));
            R(secp256k1_ecdsa_s2c_verify_commit(ctx, &SIG0, MSG, o));
        }
    }
}

/* ---- BP++ */
static int norm_call(const unsigned char *proof, size_t plen, int ri, size_t g_len, size_t c_len, const secp256k1_bppp_generators *gens,
                     const secp256k1_scalar *rho, const secp256k1_ge *commit) {
    secp256k1_sha256 tr; int r;
    secp256k1_scalar *cv = (secp256k1_scalar *)HC(NORM_C[ri], (c_len <= 16 ? c_len : 16) * sizeof(secp256k1_scalar));
    secp256k1_sha256_initialize(&tr);
    r = R(secp256k1_bppp_rangeproof_norm_product_verify(ctx, scratch, proof, plen, &tr, rho, gens, g_len, cv, c_len <= 16 ? c_len : 16, commit));
    VF_CHECK(scratch->alloc_size == 0, "norm verifier left scratch space allocated");
    return r;
}

static void ep_bppp_gens(cur_t *c, unsigned recipe, unsigned ctl, unsigned aux, unsigned declared) {
    unsigned rec; unsigned char *in; secp256k1_bppp_generators *g; long before;
    make_input(AC_BPPPGENS, c, recipe, ctl, declared, 33 * 16, 0, &rec);
    before = lib_allocs;
    in = (unsigned char *)HC(W, Wn);
    g = secp256k1_bppp_generators_parse(ctx, in, Wn);
    mark(Wn % 33 == 0 && Wn > 0, g != NULL);
    if (honest) VF_CHECK(g != NULL, "valid generator list rejected");
    if (g == NULL) {
        if (lib_allocs != before) { vf_class(X_BPPP_REJECT_AFTER_ALLOC); if (Wn >= 66) vf_class(X_BPPP_REJECT_MID); }
        VF_CHECK(lib_live == 0, "bppp_generators_parse leaked memory on a rejected list");
        return;
    }
    {
        size_t n = Wn / 33, ol = Wn, big = Wn + 7; int k;
        unsigned char *out = (unsigned char *)H(Wn), *out2 = (unsigned char *)H(big);
        VF_CHECK(Wn % 33 == 0, "generator list accepted although its length is not a multiple of 33");
        VF_CHECK(R(secp256k1_bppp_generators_serialize(ctx, g, out, &ol)) == 1 && ol == Wn, "bppp_generators_serialize into an exact-size buffer failed");
        VF_CHECK(R(secp256k1_bppp_generators_serialize(ctx, g, out2, &big)) == 1 && big == Wn, "bppp_generators_serialize into a larger buffer failed");
        /* consumer: the norm-argument verifier with a matching recipe */
        for (k = 0; k < 6; k++) if ((size_t)(NORM_G[k] + NORM_H[k]) == n && ((aux >> 1) & 1) == (k & 1)) {
            const art_t *p = art(AC_NORM, (unsigned)k);
            norm_call((unsigned char *)HC(p->b, p->n), p->n, k, (size_t)NORM_G[k], (size_t)NORM_H[k], g, &NORM_RHO[k], &NORM_COMMIT[k]);
            break;
        }
        secp256k1_bppp_generators_destroy(ctx, g);
    }
}

static void ep_norm(cur_t *c, unsigned recipe, unsigned ctl, unsigned aux, unsigned declared) {
    unsigned rec; unsigned char *in; int ok; size_t g_len, c_len, rounds = 0, m;
    secp256k1_scalar rho; secp256k1_ge commit;
    static const size_t ALT[8] = {0, 1, 2, 3, 4, 8, 16, 5};
    make_input(AC_NORM, c, recipe, ctl, declared, 65 * 4 + 64, 0, &rec);
    art(AC_NORM, rec);
    g_len = (size_t)NORM_G[rec]; c_len = (size_t)NORM_H[rec]; rho = NORM_RHO[rec]; commit = NORM_COMMIT[rec];
    if ((aux & 3) == 1) g_len = ALT[(aux >> 2) & 7];
    if ((aux & 3) == 2) c_len = ALT[(aux >> 2) & 7];
    if ((aux & 0x20) && c->n >= 32) { int of = 0; secp256k1_scalar t; secp256k1_scalar_set_b32(&t, c->p, &of); if (!of) rho = t; c->p += 32; c->n -= 32; }
    if ((aux & 0x40) && c->n >= 33) { secp256k1_ge t; if (secp256k1_ge_parse_ext(&t, c->p)) commit = t; c->p += 33; c->n -= 33; }
    in = (unsigned char *)HC(W, Wn);
    ok = norm_call(in, Wn, (int)rec, g_len, c_len, NORM_GENS[rec], &rho, &commit);
    m = g_len > c_len ? g_len : c_len; while (m > 1) { rounds++; m >>= 1; }
    mark(g_len > 0 && c_len > 0 && Wn == 65 * rounds + 64, ok);
    if (ok) vf_class(X_NORM_OK);
    if (honest && !(aux & 0x63)) VF_CHECK(ok == 1, "valid norm argument rejected");
}

/* ------------------------------------------------------------------ driver */
#ifdef VF_PROFILE
#include <time.h>
static double prof_ns[EP_COUNT], prof_t0; static long prof_cnt[EP_COUNT];
static double prof_now(void) { struct timespec t; clock_gettime(CLOCK_MONOTONIC, &t); return t.tv_sec * 1e9 + t.tv_nsec; }
static void prof_dump(void) { int i; for (i = 0; i < EP_COUNT; i++) fprintf(stderr, "PROF %-28s n=%6ld avg=%8.1f us total=%7.2f s\n", VF_CLASS_NAMES[i * 3], prof_cnt[i], prof_cnt[i] ? prof_ns[i] / prof_cnt[i] / 1e3 : 0.0, prof_ns[i] / 1e9); }
#endif
int LLVMFuzzerTestOneInput(const uint8_t *data, size_t size) {
    cur_t c; unsigned sel, recipe, ctl, aux, declared;
    vf_begin();
    if (!ctx) setup();
    if (heavy_credit < 3000 && (vf_execs & 3) == 0) heavy_credit++;
    /* per-iteration state: nothing carries over */
    cb_illegal = 0; cb_error = 0; cb_msg[0] = 0; lib_live = 0; nhb = 0; f_nt = 0; f_ok = 0; honest = 0;
    if (size < 6) return 0;
    c.p = data; c.n = size;
    sel = gb(&c) % EP_COUNT; recipe = gb(&c); ctl = gb(&c); aux = gb(&c); declared = gw(&c);
    cur_ep = (int)sel;
#ifdef VF_PROFILE
    { static int reg = 0; if (!reg) { reg = 1; atexit(prof_dump); } prof_t0 = prof_now(); }
#endif
    switch (sel) {
        case EP_pubkey_parse: ep_pubkey(&c, recipe, ctl, aux, declared); break;
        case EP_xonly_parse: ep_xonly(&c, recipe, ctl, aux, declared); break;
        case EP_sig_parse_der: ep_der(&c, recipe, ctl, aux, declared, 0); break;
        case EP_lax_der: ep_der(&c, recipe, ctl, aux, declared, 1); break;
        case EP_sig_parse_compact: ep_compact(&c, recipe, ctl, aux, declared, 0); break;
        case EP_recsig_parse_compact: ep_compact(&c, recipe, ctl, aux, declared, 1); break;
        case EP_ecdsa_verify: ep_ecdsa_verify(&c, recipe, ctl, aux, declared); break;
        case EP_schnorrsig_verify: ep_schnorr_verify(&c, recipe, ctl, aux, declared); break;
        case EP_musig_pubnonce_parse: ep_musig(&c, recipe, ctl, aux, declared, 0); break;
        case EP_musig_aggnonce_parse: ep_musig(&c, recipe, ctl, aux, declared, 1); break;
        case EP_musig_partial_sig_parse: ep_musig(&c, recipe, ctl, aux, declared, 2); break;
        case EP_rangeproof_verify: ep_rangeproof(&c, recipe, ctl, aux, declared, 0); break;
        case EP_rangeproof_rewind: ep_rangeproof(&c, recipe, ctl, aux, declared, 1); break;
        case EP_rangeproof_info: ep_rangeproof(&c, recipe, ctl, aux, declared, 2); break;
        case EP_surjectionproof_parse: ep_surjection(&c, recipe, ctl, aux, declared); break;
        case EP_whitelist_parse: ep_whitelist(&c, recipe, ctl, aux, declared); break;
        case EP_adaptor_verify: ep_adaptor(&c, recipe, ctl, aux, declared, 0); break;
        case EP_adaptor_decrypt: ep_adaptor(&c, recipe, ctl, aux, declared, 1); break;
        case EP_adaptor_recover: ep_adaptor(&c, recipe, ctl, aux, declared, 2); break;
        case EP_halfagg_verify: ep_halfagg(&c, recipe, ctl, aux, declared, 0); break;
        case EP_halfagg_inc_aggregate: ep_halfagg(&c, recipe, ctl, aux, declared, 1); break;
        case EP_ellswift_decode: ep_ellswift(&c, recipe, ctl, aux, declared, 0); break;
        case EP_ellswift_xdh: ep_ellswift(&c, recipe, ctl, aux, declared, 1); break;
        case EP_commitment_parse: ep_obj33(&c, recipe, ctl, aux, declared, 0); break;
        case EP_generator_parse: ep_obj33(&c, recipe, ctl, aux, declared, 1); break;
        case EP_s2c_opening_parse: ep_obj33(&c, recipe, ctl, aux, declared, 2); break;
        case EP_bppp_generators_parse: ep_bppp_gens(&c, recipe, ctl, aux, declared); break;
        case EP_bppp_norm_verify: ep_norm(&c, recipe, ctl, aux, declared); break;
        default: break;
    }
#ifdef VF_PROFILE
    prof_ns[cur_ep] += prof_now() - prof_t0; prof_cnt[cur_ep]++;
#endif
    vf_class(cur_ep * 3);
    if (f_nt) { vf_class(cur_ep * 3 + 1); vf_nontrivial(data, size); }
    if (f_ok) vf_class(cur_ep * 3 + 2);
    /* end-of-iteration oracles */
    if (cb_illegal != 0 || cb_error != 0) {
        fprintf(stderr, "callback message: %s (illegal=%d error=%d, entry point %s)\n", cb_msg, cb_illegal, cb_error, VF_CLASS_NAMES[cur_ep * 3]);
        vf_fail("illegal/error callback fired although only documented arguments and successfully parsed objects were used");
    }
    if (lib_live != 0) {
        fprintf(stderr, "library allocation balance %ld at the end of the iteration (entry point %s)\n", lib_live, VF_CLASS_NAMES[cur_ep * 3]);
        vf_fail("library memory leaked (malloc/free balance != 0)");
    }
    VF_CHECK(scratch->alloc_size == 0, "scratch space not released");
    H_release();
    return 0;
}
