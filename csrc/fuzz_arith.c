/* E2 target for C05: the arithmetic and hashing kernel against a GMP / textbook-SHA oracle.
 *
 * One binary per build configuration (limb layout, asm, window, comb, VERIFY).  First input byte selects the
 * sub-target, the rest is decoded structurally (integrals from the END, byte strings from the FRONT of the input).
 *   0 field programs      fuzz_arith_fe.inc      5 group programs          fuzz_arith_ge.inc
 *   1 scalar programs     fuzz_arith_sc.inc      6 ecmult(a,P,b)           fuzz_arith_em.inc
 *   2 modinv / jacobi     fuzz_arith_mi.inc      7 ecmult_gen (+blinding)  fuzz_arith_em.inc
 *   3 int128 helpers      fuzz_arith_mi.inc      8 ecmult_const / _xonly   fuzz_arith_em.inc
 *   4 hashing             fuzz_arith_h.inc       9 ecmult_multi_var        fuzz_arith_em.inc
 * Every library result is compared with the mathematical result in canonical byte form, so agreement of every
 * configuration with the oracle implies bit-identity across configurations.
 *
 * Cost control: the sub-targets differ in cost by three orders of magnitude, and libFuzzer decides which inputs it
 * mutates.  To make the CPU cost of a campaign a function of -runs only (budgets are case counts), each call earns
 * a fixed number of cost units (1 unit ~ 10 us) per pool and an expensive input is executed only if its estimated cost
 * is available in its pool; otherwise it is skipped and NOT counted as an execution.  A fresh process starts with
 * full pools, so replaying a single saved input always executes it.
 */
#include "vf_fuzz_common.h"
#include "src/secp256k1.c"
#include "ref_gmp.h"
#include "ref_sha256.h"

enum {
    C_FE_PROG, C_FE_NT, C_FE_MAG_GT1, C_FE_MAG_GE16, C_FE_RAW, C_FE_BOUNDS, C_FE_EDGE, C_FE_MUL_MAG8, C_FE_RAW_GE_P,
    C_FE_SQRT_NONSQ, C_FE_INV_ZERO, C_FE_LIMIT_REJECT, C_FE_MUL_CHOSEN, C_FE_MUL_QUOT, C_FE_SQR_CHOSEN, C_FE_RESULT_WINDOW, C_FE_LIMBPROD,
    C_SC_PROG, C_SC_NT, C_SC_EDGE, C_SC_LOAD_OVERFLOW, C_SC_ADD_OVERFLOW, C_SC_INV_ZERO, C_SC_SPLIT_LAMBDA, C_SC_MUL_SHIFT,
    C_SC_CADD_BIT, C_SC_GETBITS_CROSS, C_SC_MUL_CHOSEN, C_SC_MUL_QUOT, C_SC_SQR_CHOSEN, C_SC_ADD_CHOSEN, C_SC_SHIFT_CHOSEN, C_SC_RESULT_WINDOW, C_SC_LIMBPROD_MUL, C_SC_LIMBPROD_SQR, C_LIMBPROD_DBL_ONES,
    C_MI_P, C_MI_N, C_MI_CUSTOM, C_MI_ZERO, C_MI_JACOBI_UNDECIDED, C_MI_NT,
    C_I128_PROG, C_I128_NT,
    C_H_SHA, C_H_HMAC, C_H_HMAC_LONGKEY, C_H_RFC6979, C_H_TAGGED, C_H_MIDSTATE, C_H_API_TAGGED, C_H_MULTIWRITE,
    C_H_LEN_GT64, C_H_LEN_GT1000, C_H_LEN_GT65536, C_H_NT,
    C_G_PROG, C_G_NT, C_G_ADD_AINF, C_G_ADD_BINF, C_G_ADD_DBL, C_G_ADD_CANCEL, C_G_ADD_DEGEN, C_G_ZNE1, C_G_MAG,
    C_G_ADD_GE, C_G_ADD_VAR, C_G_ADD_GE_VAR, C_G_ADD_ZINV, C_G_DOUBLE, C_G_SET_ALL, C_G_LIFT_FAIL,
    C_EM_ECMULT, C_EM_GEN, C_EM_GEN_BLINDED, C_EM_CONST, C_EM_XONLY, C_EM_XONLY_REJECT, C_EM_RES_INF, C_EM_EDGE_SCALAR, C_EM_NT,
    C_MM_RUN, C_MM_N0, C_MM_N_LT88, C_MM_N_GE88, C_MM_N_GE236, C_MM_SCRATCH_NULL, C_MM_SCRATCH_TINY, C_MM_SCRATCH_STRAUSS,
    C_MM_SCRATCH_PIPP, C_MM_SCRATCH_PART, C_MM_SCRATCH_LARGE, C_MM_RET0, C_MM_CB_FAIL, C_MM_RES_INF, C_MM_PIPP88, C_MM_NT,
    C_SKIPPED_BUDGET, C_N
};
const char *const VF_CLASS_NAMES[] = {
    "fe_prog", "fe_nontrivial", "fe_operand_mag_gt1", "fe_operand_mag_ge16", "fe_raw_limbs", "fe_get_bounds", "fe_edge_const", "fe_mul_mag8",
    "fe_raw_value_ge_p", "fe_sqrt_nonsquare", "fe_inv_zero", "fe_b32_limit_reject", "fe_mul_chosen_result", "fe_mul_chosen_quotient", "fe_sqr_chosen_result", "fe_result_in_fold_window", "fe_limbprod",
    "sc_prog", "sc_nontrivial", "sc_edge_const", "sc_load_overflow", "sc_add_overflow", "sc_inv_zero", "sc_split_lambda", "sc_mul_shift",
    "sc_cadd_bit", "sc_getbits_cross_limb", "sc_mul_chosen_result", "sc_mul_chosen_quotient", "sc_sqr_chosen_result", "sc_add_chosen_result", "sc_mul_shift_chosen", "sc_result_in_fold_window", "sc_limbprod_mul", "sc_limbprod_sqr", "limbprod_doubled_high_all_ones",
    "modinv_p", "modinv_n", "modinv_custom_modulus", "modinv_zero", "jacobi_undecided", "modinv_nontrivial",
    "int128_prog", "int128_nontrivial",
    "h_sha256", "h_hmac", "h_hmac_key_gt64", "h_rfc6979", "h_init_tagged", "h_module_midstate", "h_api_tagged_sha256", "h_multi_write",
    "h_len_gt64", "h_len_gt1000", "h_len_gt65536", "h_nontrivial",
    "ge_prog", "ge_nontrivial", "ge_add_a_inf", "ge_add_b_inf", "ge_add_doubling", "ge_add_cancel", "ge_add_degenerate_y", "ge_z_ne_1", "ge_coord_mag_gt1",
    "ge_op_add_ge", "ge_op_add_var", "ge_op_add_ge_var", "ge_op_add_zinv_var", "ge_op_double", "ge_op_set_all_gej", "ge_lift_x_fail",
    "em_ecmult", "em_gen", "em_gen_blinded", "em_const", "em_const_xonly", "em_xonly_reject", "em_result_inf", "em_edge_scalar", "em_nontrivial",
    "mm_run", "mm_n_0", "mm_n_lt88", "mm_n_ge88", "mm_n_ge236", "mm_scratch_null", "mm_scratch_tiny", "mm_scratch_strauss_exact",
    "mm_scratch_pippenger_exact", "mm_scratch_partial", "mm_scratch_large", "mm_returned_0", "mm_callback_fail", "mm_result_inf", "mm_ge88_with_scratch", "mm_nontrivial",
    "skipped_for_budget"
};
const int VF_N_CLASSES = C_N;

/* ------------------------------------------------------------------ failure reporting */
static const char *g_sub = "?";
static const char *g_op = "?";
static int g_step = 0;
static void a_fail(const char *msg) {
    fprintf(stderr, "C05 sub-target=%s step=%d op=%s\n", g_sub, g_step, g_op);
    vf_fail(msg);
}
#define CHK(cond, msg) do { if (!(cond)) a_fail(msg); } while (0)

/* ------------------------------------------------------------------ cost control */
/* credit pools (units of ~10 us): hashing (short / long), group programs, single multiplications, multi-multiplication (few / many points).  Every call
 * of the target adds a fixed amount to each pool, a sub-target draws only from its own pool (so the cheap ones cannot
 * starve the expensive ones), the field / scalar / modinv / int128 sub-targets are not throttled. */
enum { P_HASH, P_HASHL, P_GROUP, P_EM, P_MM, P_MML, P_N };     /* HASHL: messages > 4096 bytes, MML: n >= 88 points (each would be starved by its cheap siblings) */
#ifndef CREDIT_SCALE
# define CREDIT_SCALE 1
#endif
static const long POOL_ADD[P_N] = {10 * CREDIT_SCALE, 7 * CREDIT_SCALE, 15 * CREDIT_SCALE, 30 * CREDIT_SCALE, 10 * CREDIT_SCALE, 25 * CREDIT_SCALE};   /* tenths of a unit per call */
static const long POOL_MAX[P_N] = {5000, 120000, 20000, 40000, 20000, 60000};                                                                          /* tenths of a unit */
static long g_pool[P_N] = {5000, 120000, 20000, 40000, 20000, 60000};
static void pools_tick(void) { int i; for (i = 0; i < P_N; i++) { g_pool[i] += POOL_ADD[i]; if (g_pool[i] > POOL_MAX[i]) g_pool[i] = POOL_MAX[i]; } }
static int afford(int pool, long cost) {
    cost *= 10;
    if (cost > POOL_MAX[pool]) cost = POOL_MAX[pool];
    if (g_pool[pool] < cost) return 0;
    g_pool[pool] -= cost;
    return 1;
}

/* ------------------------------------------------------------------ input */
static vf_in IN;
static const uint8_t *g_data; static size_t g_size;
static uint32_t U8(void) { return vf_u(&IN, 1); }
static uint32_t U16(void) { return vf_u(&IN, 2); }
static uint32_t U32(void) { return vf_u(&IN, 4); }
static uint64_t U64(void) { uint64_t h = vf_u(&IN, 4); return (h << 32) | vf_u(&IN, 4); }
static int in_left(void) { return IN.n > 0; }

/* ------------------------------------------------------------------ edge-biased 256-bit operands */
#define N_NAMED 44
static mpz_t NAMED[N_NAMED];
static int n_named = 0;
static mpz_t D_v, D_t, D_mask256;
static void named_add_str(const char *hex) { mpz_init_set_str(NAMED[n_named++], hex, 16); }
static void named_add(const mpz_t v) { mpz_init_set(NAMED[n_named], v); mpz_mod(NAMED[n_named], NAMED[n_named], RG_2_256); n_named++; }
static void dec_init(void) {
    mpz_t t; int i;
    mpz_init(D_v); mpz_init(D_t); mpz_init(D_mask256); mpz_sub_ui(D_mask256, RG_2_256, 1);
    mpz_init(t);
    for (i = 0; i < 4; i++) { mpz_set_ui(t, (unsigned long)i); named_add(t); }
    for (i = -2; i <= 2; i++) { if (i < 0) mpz_sub_ui(t, RG_P, (unsigned long)(-i)); else mpz_add_ui(t, RG_P, (unsigned long)i); named_add(t); }
    for (i = -2; i <= 2; i++) { if (i < 0) mpz_sub_ui(t, RG_N, (unsigned long)(-i)); else mpz_add_ui(t, RG_N, (unsigned long)i); named_add(t); }
    for (i = -1; i <= 2; i++) { mpz_set(t, RG_HALF_N); if (i < 0) mpz_sub_ui(t, t, 1); else mpz_add_ui(t, t, (unsigned long)i); named_add(t); }   /* around (n-1)/2 */
    for (i = -1; i <= 1; i++) { mpz_sub(t, RG_P, RG_N); if (i < 0) mpz_sub_ui(t, t, 1); else mpz_add_ui(t, t, (unsigned long)i); named_add(t); }
    named_add(D_mask256); mpz_sub_ui(t, D_mask256, 1); named_add(t);
    mpz_ui_pow_ui(t, 2, 255); named_add(t);
    mpz_ui_pow_ui(t, 2, 128); named_add(t); mpz_sub_ui(t, t, 1); named_add(t); mpz_add_ui(t, t, 2); named_add(t);
    named_add(RG_LAMBDA); mpz_sub(t, RG_N, RG_LAMBDA); named_add(t); named_add(RG_BETA); mpz_sub(t, RG_P, RG_BETA); named_add(t);
    mpz_sub(t, RG_2_256, RG_P); named_add(t);                /* 2^32 + 977 */
    mpz_sub(t, RG_2_256, RG_N); named_add(t);
    /* the lattice basis / rounding constants quoted in the GLV analysis of the scalar module */
    named_add_str("3086D221A7D46BCDE86C90E49284EB15");
    named_add_str("E4437ED6010E88286F547FA90ABFE4C3");
    named_add_str("114CA50F7A8E2F3F657C1108D9D44CFD8");
    named_add_str("3086D221A7D46BCDE86C90E49284EB153DAA8A1471E8CA7FE893209A45DBB031");
    named_add_str("E4437ED6010E88286F547FA90ABFE4C4221208AC9DF506C61571B4AE8AC47F71");
    named_add_str("A2A8918CA85BAFE22016D0B917E4DD77");
    named_add_str("8A65287BD47179FB2BE08846CEA267ED");
    mpz_clear(t);
    if (n_named > N_NAMED) abort();
}

/* basic pattern families; returns 1 when the value is an "edge" value */
static int dec_pattern(mpz_t v, unsigned fam) {
    static const int widths[4] = {52, 26, 64, 32};
    uint8_t raw[32], raw2[32]; int i;
    switch (fam % 6) {
    case 0:
        mpz_set(v, NAMED[U8() % (unsigned)n_named]); return 1;
    case 1: {
        unsigned kind = U8() % 3, k = U8();
        if (kind == 0) { mpz_set_ui(v, 1); mpz_mul_2exp(v, v, k); }
        else if (kind == 1) { mpz_set_ui(v, 1); mpz_mul_2exp(v, v, k + 1u); mpz_sub_ui(v, v, 1); mpz_and(v, v, D_mask256); }
        else { mpz_set_ui(v, 1); mpz_mul_2exp(v, v, k); mpz_sub(v, RG_2_256, v); }
        return 1; }
    case 2: {
        int w = widths[U8() % 4]; unsigned kind = U8() % 3, idx = U8(); int nl = (256 + w - 1) / w;
        mpz_set_ui(D_t, 1); mpz_mul_2exp(D_t, D_t, (mp_bitcnt_t)w); mpz_sub_ui(D_t, D_t, 1);          /* limb of ones */
        if (kind == 2) {
            mpz_set_ui(v, 0);
            for (i = (int)(idx & 1); i < nl; i += 2) { mpz_t s; mpz_init(s); mpz_mul_2exp(s, D_t, (mp_bitcnt_t)(w * i)); mpz_ior(v, v, s); mpz_clear(s); }
        } else {
            mpz_mul_2exp(v, D_t, (mp_bitcnt_t)(w * (int)(idx % (unsigned)nl)));
            if (kind == 1) mpz_xor(v, v, D_mask256);
        }
        mpz_and(v, v, D_mask256);
        return 1; }
    case 3:
        vf_take(&IN, raw, 32); vf_take(&IN, raw2, 32);
        if (U8() & 1) { for (i = 0; i < 32; i++) raw[i] &= raw2[i]; } else { for (i = 0; i < 32; i++) raw[i] |= raw2[i]; }
        rg_from_b32(v, raw); return 1;
    case 4:
        mpz_set_ui(v, (unsigned long)U32()); return mpz_cmp_ui(v, 4) < 0;
    default:
        vf_take(&IN, raw, 32); rg_from_b32(v, raw); return 0;
    }
}

/* out = 32-byte big-endian operand; returns 1 for an edge value, 0 for plain bytes */
static int dec_u256(uint8_t out[32]) {
    unsigned c = U8();
    int edge;
    if ((c & 7) < 3) { vf_take(&IN, out, 32); return 0; }
    edge = dec_pattern(D_v, c >> 3);
    if ((c & 7) == 7) {
        unsigned how = U8() % 7, d = 1 + (U8() % 3);
        switch (how) {
        case 0: mpz_add_ui(D_v, D_v, d); break;
        case 1: mpz_sub_ui(D_v, D_v, d); break;
        case 2: mpz_mod(D_v, D_v, RG_N); if (mpz_sgn(D_v)) mpz_sub(D_v, RG_N, D_v); break;
        case 3: mpz_mod(D_v, D_v, RG_P); if (mpz_sgn(D_v)) mpz_sub(D_v, RG_P, D_v); break;
        case 4: mpz_add(D_t, D_v, RG_N); if (mpz_cmp(D_t, RG_2_256) < 0) mpz_set(D_v, D_t); break;
        case 5: mpz_add(D_t, D_v, RG_P); if (mpz_cmp(D_t, RG_2_256) < 0) mpz_set(D_v, D_t); break;
        default: break;
        }
        mpz_mod(D_v, D_v, RG_2_256);
        edge = 1;
    }
    rg_to_b32(out, D_v);
    return edge;
}


/* ------------------------------------------------------------------ chosen RESULTS (DESIGN 1.5 style)
 * A carry of a reduction step may fire only when the RESULT lies in a thin window (e.g. within 2^256 - m of a multiple of 2^256), which
 * neither random nor edge-valued OPERANDS ever produce.  So the result t is drawn from an edge set relative to the modulus m and its fold
 * constant C = 2^256 - m, and the second operand is solved for with GMP.  Returns 1 when t lies in [C, 3C) (the window of the last fold). */
static mpz_t T_t, T_u;
static int tgt_result(mpz_t t, const mpz_t m, const mpz_t C) {
    static const unsigned widths[6] = {64, 52, 32, 26, 128, 62};
    unsigned k = U8(), d = U8(); uint8_t raw[32]; int dd, win;
    switch (k % 14) {
    case 0: mpz_set_ui(t, 0); break;
    case 1: mpz_set_ui(t, 1); break;
    case 2: mpz_set_ui(t, U16()); break;
    case 3: mpz_sub_ui(t, m, 1); break;
    case 4: mpz_sub_ui(t, m, 1 + U16()); break;
    case 5: mpz_set(t, C); break;
    case 6: mpz_mul_2exp(t, C, 1); break;
    case 7: mpz_mul_ui(t, C, 3); break;
    case 8: case 9: vf_take(&IN, raw, 32); rg_from_b32(t, raw); mpz_mod(t, t, C); mpz_addmul_ui(t, C, 1 + (k >> 4) % 2); break;     /* inside [C,2C) or [2C,3C) */
    case 10: { unsigned w = widths[(k >> 4) % 6], j = 1 + (d >> 4) % (256 / w); mpz_set_ui(t, 1); mpz_mul_2exp(t, t, w * j > 255 ? 255 : w * j); break; }
    case 11: mpz_mul_2exp(t, C, (k >> 4) * 4u); mpz_mod(t, t, m); break;                      /* shifted fold constant */
    case 12: mpz_mul_ui(t, C, 1 + U16()); mpz_mod(t, t, m); break;                             /* small multiple of the fold constant */
    default: dec_u256(raw); rg_from_b32(t, raw); break;
    }
    dd = (int)(d % 7) - 3;
    if (dd >= 0) mpz_add_ui(t, t, (unsigned long)dd); else mpz_sub_ui(t, t, (unsigned long)(-dd));
    mpz_mod(t, t, m);
    if ((d & 0x80) && (k % 14) != 8 && (k % 14) != 9) { mpz_sub(t, m, t); mpz_mod(t, t, m); }
    mpz_mul_ui(T_u, C, 3);
    win = mpz_cmp(t, C) >= 0 && mpz_cmp(t, T_u) < 0;
    return win;
}


/* ------------------------------------------------------------------ chosen LIMB PRODUCTS
 * Carry chains inside the multi-limb product (before any reduction) depend on limb PAIRS whose partial product a_i*b_j has a special high
 * word (all-ones after doubling, 0x7FF..F, 0x800..0, ...) while the running accumulator carries.  For a limb width W (64/32: scalars,
 * 52/26: field) a limb a_i is drawn from a limb edge set, a target partial product T = H*2^W + L with such a high word H is drawn, and
 * the partner limb is a_j = floor or ceil(T / a_i) (isqrt(T) for i == j); the remaining limbs are 0 / all-ones / random / the same pattern.
 * same != 0: one operand carries both limbs (squaring), B is set equal to A.  Values are < 2^(W*NL). */
static uint64_t lp_isqrt(unsigned __int128 v) {
    uint64_t r = 0; int b;
    for (b = 63; b >= 0; b--) { uint64_t c = r | ((uint64_t)1 << b); if ((unsigned __int128)c * c <= v) r = c; }
    return r;
}
static uint64_t lp_limb(unsigned W) {
    uint64_t mask = W == 64 ? ~(uint64_t)0 : (((uint64_t)1 << W) - 1), top = (uint64_t)1 << (W - 1);
    unsigned k = U8();
    switch (k % 16) {
    case 0: return top;
    case 1: return mask;
    case 2: return lp_isqrt((unsigned __int128)1 << (2 * W - 1));            /* ~ 2^(W - 1/2): its square has high word ~ 0x7FF..F */
    case 3: return lp_isqrt((unsigned __int128)1 << (2 * W - 1)) + 1;
    case 4: return 1 + (k >> 4);
    case 5: return (uint64_t)1 << (W / 2);
    case 6: return ((uint64_t)1 << (W / 2)) - 1;
    case 7: return mask - 1;
    case 8: return top - 1;
    case 9: return top + 1;
    case 10: return 0x5555555555555555ULL & mask;
    case 11: return 0xAAAAAAAAAAAAAAAAULL & mask;
    case 12: return lp_isqrt(W == 64 ? ~(unsigned __int128)0 : (((unsigned __int128)1 << (2 * W)) - 1));          /* ~ 2^W - 1 .. its square just below 2^(2W) */
    default: { uint64_t v = U64() & mask; return v ? v : 1; }
    }
}
/* returns 1 when the doubled partial product has an all-ones high word (the "second overflow" situation of muladd2) */
static int limbprod_build(mpz_t A, mpz_t B, unsigned W, unsigned NL, int same) {
    uint64_t mask = W == 64 ? ~(uint64_t)0 : (((uint64_t)1 << W) - 1), top = (uint64_t)1 << (W - 1);
    uint64_t la[10], lb[10], ai, aj, H, L; unsigned i = U8() % NL, j = U8() % NL, hk = U8(), lk = U8(), fa = U8(), fb = U8(), x;
    unsigned __int128 T, q; uint8_t rnd[160]; int ones;
    ai = lp_limb(W); if (ai == 0) ai = 1;
    switch (hk % 8) {
    case 0: H = mask; break;
    case 1: case 2: H = top - 1; break;                                       /* doubled: 0xFF..FE (+ carry of the low word = all-ones) */
    case 3: H = top; break;
    case 4: H = mask - 1; break;
    case 5: H = 0; break;
    case 6: H = 1; break;
    default: H = (top >> 1) - 1; break;
    }
    H = (H + (uint64_t)(int64_t)((int)((hk >> 3) % 5) - 2)) & mask;
    switch (lk % 8) {
    case 0: L = mask; break;
    case 1: L = top; break;
    case 2: L = top - 1; break;
    case 3: L = 0; break;
    case 4: L = mask - (lk >> 3); break;
    case 5: L = top + (lk >> 3); break;
    default: L = U64() & mask; break;
    }
    T = ((unsigned __int128)H << W) | L;
    if (same && i == j) { ai = lp_isqrt(T) + ((hk >> 7) & 1); if (ai > mask) ai = mask; aj = ai; }
    else { q = T / ai; if ((hk >> 7) & 1) q += (T % ai) != 0; aj = q > mask ? mask : (uint64_t)q; }
    vf_take(&IN, rnd, sizeof rnd);
    for (x = 0; x < NL; x++) {
        uint64_t ra, rb; memcpy(&ra, rnd + 8 * x, 8); memcpy(&rb, rnd + 80 + 8 * x, 8);
        la[x] = (fa % 4) == 0 ? 0 : (fa % 4) == 1 ? mask : (fa % 4) == 2 ? (ra & mask) : ai;
        lb[x] = (fb % 4) == 0 ? 0 : (fb % 4) == 1 ? mask : (fb % 4) == 2 ? (rb & mask) : aj;
        if ((fa >> 2) & 1) la[x] ^= (ra & 3);                                  /* perturb the low bits of the filler */
        if ((fb >> 2) & 1) lb[x] ^= (rb & 3);
    }
    la[i] = ai;
    if (same) { la[j] = aj; memcpy(lb, la, sizeof la); } else lb[j] = aj;
    mpz_set_ui(A, 0); mpz_set_ui(B, 0);
    for (x = NL; x-- > 0;) {
        mpz_mul_2exp(A, A, W); rg_from_u64(T_u, la[x]); mpz_add(A, A, T_u);
        mpz_mul_2exp(B, B, W); rg_from_u64(T_u, lb[x]); mpz_add(B, B, T_u);
    }
    T = (unsigned __int128)ai * aj;
    ones = (uint64_t)(((T << 1) >> W) & mask) == mask && ((T >> (2 * W - 1)) == 0);
    if (ones) vf_class(C_LIMBPROD_DBL_ONES);
    return ones;
}

/* ------------------------------------------------------------------ shared library-side state */
static secp256k1_hash_ctx HC;
static secp256k1_context *CTX = NULL;
static int cb_count = 0;
static void count_cb(const char *m, void *d) { (void)m; (void)d; cb_count++; }
static const secp256k1_callback ERRCB = {count_cb, NULL};

/* read a field element that may have any magnitude into GMP through the library's own canonical form */
static void fe_to_mpz(mpz_t r, const secp256k1_fe *a) {
    secp256k1_fe t = *a; uint8_t b[32];
    secp256k1_fe_normalize_var(&t);
    secp256k1_fe_get_b32(b, &t);
    rg_from_b32(r, b);
}
/* load a reduced GMP value (< p) as a normalized field element */
static void fe_from_mpz(secp256k1_fe *r, const mpz_t v) {
    uint8_t b[32];
    rg_to_b32(b, v);
    if (!secp256k1_fe_set_b32_limit(r, b)) a_fail("harness: fe_set_b32_limit rejected a value < p");
}
static void sc_from_mpz(secp256k1_scalar *r, const mpz_t v) {     /* v < n */
    uint8_t b[32]; int ov = 0;
    rg_to_b32(b, v);
    secp256k1_scalar_set_b32(r, b, &ov);
    if (ov) a_fail("harness: scalar_set_b32 reports overflow for a value < n");
}

#include "fuzz_arith_fe.inc"
#include "fuzz_arith_sc.inc"
#include "fuzz_arith_mi.inc"
#include "fuzz_arith_h.inc"
#include "fuzz_arith_ge.inc"
#include "fuzz_arith_em.inc"

static int g_force_sub = -1;
static void arith_init(void) {
    int r;
    if (getenv("VF_ARITH_SUB")) g_force_sub = atoi(getenv("VF_ARITH_SUB")) % 10;
    rg_init();
    if ((r = rg_selftest()) != 0) { fprintf(stderr, "HARNESS: ref_gmp selftest failed (%d)\n", r); abort(); }
    if ((r = rs_selftest()) != 0) { fprintf(stderr, "HARNESS: ref_sha256 selftest failed (%d)\n", r); abort(); }
    dec_init(); mpz_init(T_t); mpz_init(T_u);
    secp256k1_hash_ctx_init(&HC);
    CTX = secp256k1_context_create(SECP256K1_CONTEXT_NONE);
    secp256k1_context_set_illegal_callback(CTX, count_cb, NULL);
    secp256k1_context_set_error_callback(CTX, count_cb, NULL);
    fe_init(); sc_init(); mi_init(); ge_init(); em_init();
}

int LLVMFuzzerTestOneInput(const uint8_t *data, size_t size) {
    static int init = 0;
    int ran = 0, nt = 0;
    unsigned sel;
    vf_begin();
    if (!init) { init = 1; arith_init(); }
    pools_tick();
    if (size < 2) { vf_execs--; return 0; }
    g_data = data; g_size = size;
    sel = data[0] % 10;
    if (g_force_sub >= 0) sel = (unsigned)g_force_sub;          /* development aid: VF_ARITH_SUB=k pins the sub-target */
    IN.p = data + 1; IN.n = size - 1;
    cb_count = 0; g_step = 0; g_op = "start";
    switch (sel) {
    case 0: g_sub = "field";   ran = run_field(&nt); break;
    case 1: g_sub = "scalar";  ran = run_scalar(&nt); break;
    case 2: g_sub = "modinv";  ran = run_modinv(&nt); break;
    case 3: g_sub = "int128";  ran = run_int128(&nt); break;
    case 4: g_sub = "hash";    ran = run_hash(&nt); break;
    case 5: g_sub = "group";   ran = run_group(&nt); break;
    case 6: g_sub = "ecmult";  ran = run_ecmult(&nt); break;
    case 7: g_sub = "ecmult_gen"; ran = run_ecmult_gen(&nt); break;
    case 8: g_sub = "ecmult_const"; ran = run_ecmult_const(&nt); break;
    default: g_sub = "ecmult_multi"; ran = run_ecmult_multi(&nt); break;
    }
    if (!ran) { vf_execs--; vf_class(C_SKIPPED_BUDGET); return 0; }
    CHK(cb_count == 0, "error/illegal callback fired inside the arithmetic kernel");
    if (nt) vf_nontrivial(data, size);
    return 0;
}
