/* Textbook SHA-256 (FIPS 180-4), HMAC-SHA-256 (RFC 2104) and the HMAC_DRBG of RFC 6979 section 3.2,
 * written from the standards for use as the ORACLE inside fuzz targets and (through shim_C05.inc) validated
 * against Python's hashlib/hmac by an E1 test.  One-shot, table-driven, no code shared with /repo/src/hash_impl.h:
 * the whole padded message is built in memory and processed block by block with an explicit 64-entry schedule.
 */
#ifndef VF_REF_SHA256_H
#define VF_REF_SHA256_H
#include <stdint.h>
#include <stdlib.h>
#include <string.h>

static const uint32_t RS_K[64] = {
    0x428a2f98u, 0x71374491u, 0xb5c0fbcfu, 0xe9b5dba5u, 0x3956c25bu, 0x59f111f1u, 0x923f82a4u, 0xab1c5ed5u,
    0xd807aa98u, 0x12835b01u, 0x243185beu, 0x550c7dc3u, 0x72be5d74u, 0x80deb1feu, 0x9bdc06a7u, 0xc19bf174u,
    0xe49b69c1u, 0xefbe4786u, 0x0fc19dc6u, 0x240ca1ccu, 0x2de92c6fu, 0x4a7484aau, 0x5cb0a9dcu, 0x76f988dau,
    0x983e5152u, 0xa831c66du, 0xb00327c8u, 0xbf597fc7u, 0xc6e00bf3u, 0xd5a79147u, 0x06ca6351u, 0x14292967u,
    0x27b70a85u, 0x2e1b2138u, 0x4d2c6dfcu, 0x53380d13u, 0x650a7354u, 0x766a0abbu, 0x81c2c92eu, 0x92722c85u,
    0xa2bfe8a1u, 0xa81a664bu, 0xc24b8b70u, 0xc76c51a3u, 0xd192e819u, 0xd6990624u, 0xf40e3585u, 0x106aa070u,
    0x19a4c116u, 0x1e376c08u, 0x2748774cu, 0x34b0bcb5u, 0x391c0cb3u, 0x4ed8aa4au, 0x5b9cca4fu, 0x682e6ff3u,
    0x748f82eeu, 0x78a5636fu, 0x84c87814u, 0x8cc70208u, 0x90befffau, 0xa4506cebu, 0xbef9a3f7u, 0xc67178f2u};

static const uint32_t RS_IV[8] = {0x6a09e667u, 0xbb67ae85u, 0x3c6ef372u, 0xa54ff53au, 0x510e527fu, 0x9b05688cu, 0x1f83d9abu, 0x5be0cd19u};

static uint32_t rs_rotr(uint32_t x, int n) { return (x >> n) | (x << (32 - n)); }

/* FIPS 180-4 section 6.2.2: process one 512-bit block */
static void rs_block(uint32_t H[8], const uint8_t *blk) {
    uint32_t W[64], a, b, c, d, e, f, g, h, T1, T2;
    int t;
    for (t = 0; t < 16; t++) W[t] = ((uint32_t)blk[4 * t] << 24) | ((uint32_t)blk[4 * t + 1] << 16) | ((uint32_t)blk[4 * t + 2] << 8) | blk[4 * t + 3];
    for (t = 16; t < 64; t++) {
        uint32_t s0 = rs_rotr(W[t - 15], 7) ^ rs_rotr(W[t - 15], 18) ^ (W[t - 15] >> 3);
        uint32_t s1 = rs_rotr(W[t - 2], 17) ^ rs_rotr(W[t - 2], 19) ^ (W[t - 2] >> 10);
        W[t] = s1 + W[t - 7] + s0 + W[t - 16];
    }
    a = H[0]; b = H[1]; c = H[2]; d = H[3]; e = H[4]; f = H[5]; g = H[6]; h = H[7];
    for (t = 0; t < 64; t++) {
        uint32_t S1 = rs_rotr(e, 6) ^ rs_rotr(e, 11) ^ rs_rotr(e, 25);
        uint32_t ch = (e & f) ^ (~e & g);
        uint32_t S0 = rs_rotr(a, 2) ^ rs_rotr(a, 13) ^ rs_rotr(a, 22);
        uint32_t maj = (a & b) ^ (a & c) ^ (b & c);
        T1 = h + S1 + ch + RS_K[t] + W[t];
        T2 = S0 + maj;
        h = g; g = f; f = e; e = d + T1; d = c; c = b; b = a; a = T1 + T2;
    }
    H[0] += a; H[1] += b; H[2] += c; H[3] += d; H[4] += e; H[5] += f; H[6] += g; H[7] += h;
}

/* SHA-256 of the concatenation of up to 4 parts (a NULL / zero-length part is skipped) */
static void rs_sha256_parts(uint8_t out[32], const uint8_t *p0, size_t n0, const uint8_t *p1, size_t n1,
                            const uint8_t *p2, size_t n2, const uint8_t *p3, size_t n3) {
    size_t len = n0 + n1 + n2 + n3;
    size_t padded = ((len + 1 + 8 + 63) / 64) * 64;       /* message || 0x80 || zeros || 64-bit length */
    uint8_t *m = (uint8_t *)calloc(padded, 1);
    uint32_t H[8];
    size_t off = 0, i;
    uint64_t bits = (uint64_t)len * 8u;
    if (!m) abort();
    if (n0) { memcpy(m + off, p0, n0); off += n0; }
    if (n1) { memcpy(m + off, p1, n1); off += n1; }
    if (n2) { memcpy(m + off, p2, n2); off += n2; }
    if (n3) { memcpy(m + off, p3, n3); off += n3; }
    m[off] = 0x80;
    for (i = 0; i < 8; i++) m[padded - 1 - i] = (uint8_t)(bits >> (8 * i));
    memcpy(H, RS_IV, sizeof H);
    for (i = 0; i < padded; i += 64) rs_block(H, m + i);
    for (i = 0; i < 8; i++) { out[4 * i] = (uint8_t)(H[i] >> 24); out[4 * i + 1] = (uint8_t)(H[i] >> 16); out[4 * i + 2] = (uint8_t)(H[i] >> 8); out[4 * i + 3] = (uint8_t)H[i]; }
    free(m);
}

static void rs_sha256(uint8_t out[32], const uint8_t *msg, size_t len) { rs_sha256_parts(out, msg, len, 0, 0, 0, 0, 0, 0); }

/* chaining value after the 64-byte block SHA256(tag) || SHA256(tag)  (BIP-340 tagged-hash prefix) */
static void rs_tagged_midstate(uint32_t H[8], const uint8_t *tag, size_t taglen) {
    uint8_t blk[64];
    rs_sha256(blk, tag, taglen);
    memcpy(blk + 32, blk, 32);
    memcpy(H, RS_IV, 8 * sizeof(uint32_t));
    rs_block(H, blk);
}

/* BIP-340 tagged hash: SHA256(SHA256(tag) || SHA256(tag) || msg) */
static void rs_tagged_sha256(uint8_t out[32], const uint8_t *tag, size_t taglen, const uint8_t *msg, size_t len) {
    uint8_t th[32];
    rs_sha256(th, tag, taglen);
    rs_sha256_parts(out, th, 32, th, 32, msg, len, 0, 0);
}

/* RFC 2104: H((K0 ^ opad) || H((K0 ^ ipad) || text)); the text is the concatenation of up to 3 parts */
static void rs_hmac_parts(uint8_t out[32], const uint8_t *key, size_t keylen, const uint8_t *p0, size_t n0,
                          const uint8_t *p1, size_t n1, const uint8_t *p2, size_t n2) {
    uint8_t k0[64], ipad[64], opad[64], inner[32];
    int i;
    memset(k0, 0, 64);
    if (keylen > 64) rs_sha256(k0, key, keylen); else if (keylen) memcpy(k0, key, keylen);
    for (i = 0; i < 64; i++) { ipad[i] = k0[i] ^ 0x36; opad[i] = k0[i] ^ 0x5c; }
    rs_sha256_parts(inner, ipad, 64, p0, n0, p1, n1, p2, n2);
    rs_sha256_parts(out, opad, 64, inner, 32, 0, 0, 0, 0);
}

static void rs_hmac(uint8_t out[32], const uint8_t *key, size_t keylen, const uint8_t *msg, size_t len) {
    rs_hmac_parts(out, key, keylen, msg, len, 0, 0, 0, 0);
}

/* RFC 6979 section 3.2 HMAC_DRBG instantiated with SHA-256.  `seed` plays the role of int2octets(x) || bits2octets(h1)
 * (steps d and f); rs_drbg_generate returns T (step h.2) of the requested length; a further call first performs the
 * update of step h.3 (K = HMAC_K(V || 0x00), V = HMAC_K(V)). */
typedef struct { uint8_t K[32], V[32]; int again; } rs_drbg;

static void rs_drbg_init(rs_drbg *g, const uint8_t *seed, size_t seedlen) {
    static const uint8_t zero = 0, one = 1;
    memset(g->V, 0x01, 32);                                               /* b */
    memset(g->K, 0x00, 32);                                               /* c */
    rs_hmac_parts(g->K, g->K, 32, g->V, 32, &zero, 1, seed, seedlen);     /* d */
    rs_hmac(g->V, g->K, 32, g->V, 32);                                    /* e */
    rs_hmac_parts(g->K, g->K, 32, g->V, 32, &one, 1, seed, seedlen);      /* f */
    rs_hmac(g->V, g->K, 32, g->V, 32);                                    /* g */
    g->again = 0;
}

static void rs_drbg_generate(rs_drbg *g, uint8_t *out, size_t outlen) {
    static const uint8_t zero = 0;
    size_t off = 0;
    if (g->again) {                                                       /* h.3 */
        rs_hmac_parts(g->K, g->K, 32, g->V, 32, &zero, 1, 0, 0);
        rs_hmac(g->V, g->K, 32, g->V, 32);
    }
    while (off < outlen) {                                                /* h.2 */
        size_t now = outlen - off < 32 ? outlen - off : 32;
        rs_hmac(g->V, g->K, 32, g->V, 32);
        memcpy(out + off, g->V, now);
        off += now;
    }
    g->again = 1;
}

/* Known-answer tests from FIPS 180-2 appendix B, RFC 4231 (cases 1, 2, 6) and RFC 6979 A.2.5 (P-256, SHA-256, "sample").
 * Returns 0 when all pass, otherwise the number of the first failing vector. */
static int rs_hexeq(const uint8_t *b, size_t n, const char *hex) {
    static const char d[] = "0123456789abcdef";
    size_t i;
    for (i = 0; i < n; i++) if (hex[2 * i] != d[b[i] >> 4] || hex[2 * i + 1] != d[b[i] & 15]) return 0;
    return hex[2 * n] == 0;
}

static int rs_selftest(void) {
    uint8_t o[32], key[131];
    {
        rs_sha256(o, (const uint8_t *)"", 0);
        if (!rs_hexeq(o, 32, "e3b0c44298fc1c149afbf4c8996fb92427ae41e4649b934ca495991b7852b855")) return 1;
        rs_sha256(o, (const uint8_t *)"abc", 3);
        if (!rs_hexeq(o, 32, "ba7816bf8f01cfea414140de5dae2223b00361a396177a9cb410ff61f20015ad")) return 2;
        rs_sha256(o, (const uint8_t *)"abcdbcdecdefdefgefghfghighijhijkijkljklmklmnlmnomnopnopq", 56);
        if (!rs_hexeq(o, 32, "248d6a61d20638b8e5c026930c3e6039a33ce45964ff2167f6ecedd419db06c1")) return 3;
    }
    {
        uint8_t *a = (uint8_t *)malloc(1000000);
        if (!a) abort();
        memset(a, 'a', 1000000);
        rs_sha256(o, a, 1000000);
        free(a);
        if (!rs_hexeq(o, 32, "cdc76e5c9914fb9281a1c7e284d73e67f1809a48a497200e046d39ccc7112cd0")) return 4;
    }
    memset(key, 0x0b, 20);
    rs_hmac(o, key, 20, (const uint8_t *)"Hi There", 8);
    if (!rs_hexeq(o, 32, "b0344c61d8db38535ca8afceaf0bf12b881dc200c9833da726e9376c2e32cff7")) return 5;
    rs_hmac(o, (const uint8_t *)"Jefe", 4, (const uint8_t *)"what do ya want for nothing?", 28);
    if (!rs_hexeq(o, 32, "5bdcc146bf60754e6a042426089575c75a003f089d2739839dec58b964ec3843")) return 6;
    memset(key, 0xaa, 131);
    rs_hmac(o, key, 131, (const uint8_t *)"Test Using Larger Than Block-Size Key - Hash Key First", 54);
    if (!rs_hexeq(o, 32, "60e431591ee0b67f0d8a26aacbf5b77f8e0bc6213728c5140546040f0ee37f54")) return 7;
    {
        /* RFC 6979 A.2.5: x, h1 = SHA-256("sample") (already < q, so bits2octets(h1) = h1), expected k */
        static const uint8_t x[32] = {0xC9, 0xAF, 0xA9, 0xD8, 0x45, 0xBA, 0x75, 0x16, 0x6B, 0x5C, 0x21, 0x57, 0x67, 0xB1, 0xD6, 0x93,
                                      0x4E, 0x50, 0xC3, 0xDB, 0x36, 0xE8, 0x9B, 0x12, 0x7B, 0x8A, 0x62, 0x2B, 0x12, 0x0F, 0x67, 0x21};
        uint8_t seed[64];
        rs_drbg g;
        memcpy(seed, x, 32);
        rs_sha256(seed + 32, (const uint8_t *)"sample", 6);
        rs_drbg_init(&g, seed, 64);
        rs_drbg_generate(&g, o, 32);
        if (!rs_hexeq(o, 32, "a6e3c57dd01abe90086538398355dd4c3b17aa873382b0f24d6129493d8aad60")) return 8;
    }
    return 0;
}
#endif
