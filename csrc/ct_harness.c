/* E3 harness for C06: runs a scenario (a list of API invocations with public parameters and concrete
 * secret values) under valgrind memcheck.  For every invocation the secret arguments are marked
 * undefined, the API is called, and exactly what the maintainers declassify in src/ctime_tests.c
 * (the return value and the public outputs) is marked defined again.  memcheck then reports every
 * branch / memory address that depends on a secret.  VALGRIND_COUNT_ERRORS is read around every call
 * under test so that the offending invocation is known.
 *
 * Scenario format: one invocation per line, `<op> name=value name=value ...`; values are decimal
 * integers or hex byte strings.  Every invocation is independent of every other one (own buffers,
 * context state reset at the start), so a list can be cut down to the single offending line.
 *
 * Output (stdout): `CALL <line#> <api> ret=<r> err=<new memcheck errors>` per call under test,
 * `OP <line#> <op> err=<n>` per line, `DONE ops=<n> calls=<n> err=<n>` at the end.
 * Exit status: 0 normally (valgrind turns it into --error-exitcode when it reported errors),
 * 3 = harness / scenario problem (never a property violation).
 *
 * The harness itself never branches on, indexes with, or prints a value that is still secret.
 */
#include <stdio.h>
#include <stdlib.h>
#include <string.h>
#include <stdint.h>

#include "src/secp256k1.c"

#if !SECP256K1_CHECKMEM_ENABLED || !defined(VALGRIND)
# error "ct_harness must be built with -DVALGRIND"
#endif

#define UNDEF(p, n) SECP256K1_CHECKMEM_UNDEFINE((p), (n))
#define DEF(p, n) SECP256K1_CHECKMEM_DEFINE((p), (n))

/* ------------------------------------------------------------------ scenario line parsing */
#define MAXTOK 48
#define LINEMAX 16384
static char g_line[LINEMAX];
static char *g_key[MAXTOK];
static char *g_val[MAXTOK];
static int g_ntok;
static int g_idx;            /* current line number (0-based) */
static const char *g_op = "";

static void die(const char *msg) {
    fflush(stdout);
    fprintf(stderr, "HARNESS-ERROR line=%d op=%s: %s\n", g_idx, g_op, msg);
    exit(3);
}

#define SANITY(cond) do { if (!(cond)) die("sanity check failed: " #cond); } while (0)

static const char *find(const char *name) {
    int i;
    for (i = 0; i < g_ntok; i++) {
        if (strcmp(g_key[i], name) == 0) return g_val[i];
    }
    return NULL;
}

static long long geti(const char *name, long long dflt) {
    const char *v = find(name);
    if (v == NULL) return dflt;
    return strtoll(v, NULL, 10);
}

static uint64_t getu64(const char *name, uint64_t dflt) {
    const char *v = find(name);
    if (v == NULL) return dflt;
    return strtoull(v, NULL, 10);
}

static int hexval(int c) {
    if (c >= '0' && c <= '9') return c - '0';
    if (c >= 'a' && c <= 'f') return c - 'a' + 10;
    if (c >= 'A' && c <= 'F') return c - 'A' + 10;
    return -1;
}

/* decodes the hex value of `name` into out (at most max bytes); returns the length, -1 if absent */
static long geth(const char *name, unsigned char *out, size_t max) {
    const char *v = find(name);
    size_t n, i;
    if (v == NULL) return -1;
    n = strlen(v);
    if (n % 2 != 0 || n / 2 > max) die("bad hex length");
    for (i = 0; i < n / 2; i++) {
        int a = hexval(v[2 * i]), b = hexval(v[2 * i + 1]);
        if (a < 0 || b < 0) die("bad hex digit");
        out[i] = (unsigned char)(a * 16 + b);
    }
    return (long)(n / 2);
}

/* exactly n bytes required */
static void geth_exact(const char *name, unsigned char *out, size_t n) {
    if (geth(name, out, n) != (long)n) die(name);
}

/* ------------------------------------------------------------------ contexts, bookkeeping */
static secp256k1_context *ctx_setup;   /* harness-side public computations; never sees a secret */
static secp256k1_context *ctx_plain;   /* never randomized */
static secp256k1_context *ctx_rand;    /* randomized per invocation, reset afterwards */
static unsigned long g_calls = 0;
static unsigned g_before = 0;

static void illegal_cb(const char *msg, void *data) {
    (void)data;
    fflush(stdout);
    fprintf(stderr, "HARNESS-ERROR line=%d op=%s: illegal argument callback: %s\n", g_idx, g_op, msg);
    exit(3);
}

static void error_cb(const char *msg, void *data) {
    (void)data;
    fflush(stdout);
    fprintf(stderr, "HARNESS-ERROR line=%d op=%s: error callback: %s\n", g_idx, g_op, msg);
    exit(3);
}

static secp256k1_context *new_ctx(void) {
    secp256k1_context *c = secp256k1_context_create(SECP256K1_CONTEXT_DECLASSIFY);
    if (c == NULL) die("context_create");
    secp256k1_context_set_illegal_callback(c, illegal_cb, NULL);
    secp256k1_context_set_error_callback(c, error_cb, NULL);
    return c;
}

#define T_BEGIN() do { g_before = (unsigned)VALGRIND_COUNT_ERRORS; } while (0)
/* `ret` must have been declassified before T_END */
#define T_END(api, ret) do { \
        unsigned now_ = (unsigned)VALGRIND_COUNT_ERRORS; \
        printf("CALL %d %s ret=%d err=%u\n", g_idx, (api), (int)(ret), now_ - g_before); \
        g_calls++; \
    } while (0)

/* The context the invocation runs on.  ctx=0: never randomized; ctx=1: randomized with the public
 * seed `cseed`; ctx=2: randomized with `cseed` as a SECRET (that call is itself under test).  The state
 * depends on this line only: ctx_rand is reset to the unblinded state first and again in op_ctx_done. */
static int g_ctxmode = 0;
static secp256k1_context *op_ctx(void) {
    unsigned char seed[32];
    int ret;
    g_ctxmode = (int)geti("ctx", 0);
    if (g_ctxmode == 0) return ctx_plain;
    if (g_ctxmode != 1 && g_ctxmode != 2) die("ctx mode");
    memset(seed, 0, sizeof(seed));
    geth_exact("cseed", seed, 32);
    SANITY(secp256k1_context_randomize(ctx_rand, NULL) == 1);
    if (g_ctxmode == 2) {
        UNDEF(seed, 32);
        T_BEGIN();
        ret = secp256k1_context_randomize(ctx_rand, seed);
        DEF(&ret, sizeof(ret));
        T_END("context_randomize", ret);
    } else {
        ret = secp256k1_context_randomize(ctx_rand, seed);
    }
    SANITY(ret == 1);
    return ctx_rand;
}

static void op_ctx_done(void) {
    if (g_ctxmode != 0) {
        /* overwrites the (possibly secret) blinding state with the public constants */
        SANITY(secp256k1_context_randomize(ctx_rand, NULL) == 1);
    }
}

/* validity of a secret key, computed on a public copy */
static int key_valid(const unsigned char *key32) {
    unsigned char copy[32];
    memcpy(copy, key32, 32);
    return secp256k1_ec_seckey_verify(ctx_setup, copy);
}

/* ------------------------------------------------------------------ operations */

static void op_keygen(void) {
    secp256k1_context *ctx = op_ctx();
    unsigned char key[32], spk[33];
    secp256k1_pubkey pubkey;
    size_t len = 33;
    int ret, valid;
    geth_exact("key", key, 32);
    valid = key_valid(key);
    memset(&pubkey, 0, sizeof(pubkey));
    UNDEF(key, 32);
    T_BEGIN();
    ret = secp256k1_ec_pubkey_create(ctx, &pubkey, key);
    DEF(&pubkey, sizeof(pubkey));
    DEF(&ret, sizeof(ret));
    T_END("ec_pubkey_create", ret);
    SANITY(ret == valid);
    if (ret) {
        SANITY(secp256k1_ec_pubkey_serialize(ctx_setup, spk, &len, &pubkey, SECP256K1_EC_COMPRESSED) == 1);
    }
    op_ctx_done();
}

/* ecdsa_sign / ecdsa_sign_recoverable.  nf: 0 = NULL nonce function, 1 = secp256k1_nonce_function_default,
 * 2 = secp256k1_nonce_function_rfc6979; ndata: optional 32 public bytes */
static void op_ecdsa_sign(int recoverable) {
    secp256k1_context *ctx = op_ctx();
    unsigned char key[32], msg[32], nd[32], der[74], c64[64];
    secp256k1_ecdsa_signature sig;
    secp256k1_ecdsa_recoverable_signature rsig;
    size_t derlen = 74;
    int nf = (int)geti("nf", 0);
    int have_nd = geth("ndata", nd, 32) == 32;
    secp256k1_nonce_function fp = nf == 0 ? NULL : (nf == 1 ? secp256k1_nonce_function_default : secp256k1_nonce_function_rfc6979);
    int ret, valid, recid = 0;
    geth_exact("key", key, 32);
    geth_exact("msg", msg, 32);
    valid = key_valid(key);
    memset(&sig, 0, sizeof(sig));
    memset(&rsig, 0, sizeof(rsig));
    UNDEF(key, 32);
    T_BEGIN();
    if (recoverable) {
        ret = secp256k1_ecdsa_sign_recoverable(ctx, &rsig, msg, key, fp, have_nd ? nd : NULL);
        DEF(&rsig, sizeof(rsig));
    } else {
        ret = secp256k1_ecdsa_sign(ctx, &sig, msg, key, fp, have_nd ? nd : NULL);
        DEF(&sig, sizeof(sig));
    }
    DEF(&ret, sizeof(ret));
    T_END(recoverable ? "ecdsa_sign_recoverable" : "ecdsa_sign", ret);
    SANITY(ret == valid);
    if (ret) {
        if (recoverable) {
            SANITY(secp256k1_ecdsa_recoverable_signature_serialize_compact(ctx_setup, c64, &recid, &rsig) == 1);
            SANITY(recid >= 0 && recid <= 3);
        } else {
            SANITY(secp256k1_ecdsa_signature_serialize_der(ctx_setup, der, &derlen, &sig) == 1);
        }
    }
    op_ctx_done();
}

/* ecdh: the peer point is public (peer = its discrete logarithm); hf: 0 = NULL, 1 = default hash function pointer */
static void op_ecdh(void) {
    secp256k1_context *ctx = op_ctx();
    unsigned char key[32], peer[32], out[32];
    secp256k1_pubkey point;
    int hf = (int)geti("hf", 0);
    int ret, valid;
    geth_exact("key", key, 32);
    geth_exact("peer", peer, 32);
    valid = key_valid(key);
    SANITY(secp256k1_ec_pubkey_create(ctx_setup, &point, peer) == 1);
    memset(out, 0, sizeof(out));
    UNDEF(key, 32);
    T_BEGIN();
    ret = secp256k1_ecdh(ctx, out, &point, key, hf ? secp256k1_ecdh_hash_function_default : NULL, NULL);
    DEF(&ret, sizeof(ret));
    T_END("ecdh", ret);
    SANITY(ret == valid);
    op_ctx_done();
}

static void op_seckey_verify(void) {
    secp256k1_context *ctx = op_ctx();
    unsigned char key[32];
    int ret, valid;
    geth_exact("key", key, 32);
    valid = key_valid(key);
    UNDEF(key, 32);
    T_BEGIN();
    ret = secp256k1_ec_seckey_verify(ctx, key);
    DEF(&ret, sizeof(ret));
    T_END("ec_seckey_verify", ret);
    SANITY(ret == valid);
    op_ctx_done();
}

static void op_seckey_negate(void) {
    secp256k1_context *ctx = op_ctx();
    unsigned char key[32];
    int ret, valid;
    geth_exact("key", key, 32);
    valid = key_valid(key);
    UNDEF(key, 32);
    T_BEGIN();
    ret = secp256k1_ec_seckey_negate(ctx, key);
    DEF(&ret, sizeof(ret));
    T_END("ec_seckey_negate", ret);
    SANITY(ret == valid);
    op_ctx_done();
}

/* tweak_add / tweak_mul: the key is secret; the tweak is secret when tsec=1 (as in ctime_tests.c) */
static void op_seckey_tweak(int mul) {
    secp256k1_context *ctx = op_ctx();
    unsigned char key[32], tweak[32];
    int tsec = (int)geti("tsec", 1);
    int ret;
    geth_exact("key", key, 32);
    geth_exact("tweak", tweak, 32);
    UNDEF(key, 32);
    if (tsec) UNDEF(tweak, 32);
    T_BEGIN();
    if (mul) {
        ret = secp256k1_ec_seckey_tweak_mul(ctx, key, tweak);
    } else {
        ret = secp256k1_ec_seckey_tweak_add(ctx, key, tweak);
    }
    DEF(&ret, sizeof(ret));
    T_END(mul ? "ec_seckey_tweak_mul" : "ec_seckey_tweak_add", ret);
    SANITY(ret == 0 || ret == 1);
    op_ctx_done();
}

/* keypair_create alone (the key may be invalid: documented result 0) */
static void op_keypair_create(void) {
    secp256k1_context *ctx = op_ctx();
    unsigned char key[32];
    secp256k1_keypair keypair;
    int ret, valid;
    geth_exact("key", key, 32);
    valid = key_valid(key);
    memset(&keypair, 0, sizeof(keypair));
    UNDEF(key, 32);
    T_BEGIN();
    ret = secp256k1_keypair_create(ctx, &keypair, key);
    DEF(&ret, sizeof(ret));
    T_END("keypair_create", ret);
    SANITY(ret == valid);
    op_ctx_done();
}

/* keypair_create (secret key) then keypair_xonly_tweak_add with a PUBLIC tweak (ctime_tests.c: "The tweak is
 * not treated as a secret in keypair_tweak_add"); key must be valid */
static void op_keypair_tweak(void) {
    secp256k1_context *ctx = op_ctx();
    unsigned char key[32], tweak[32];
    secp256k1_keypair keypair;
    int ret;
    geth_exact("key", key, 32);
    geth_exact("tweak", tweak, 32);
    SANITY(key_valid(key));
    memset(&keypair, 0, sizeof(keypair));
    UNDEF(key, 32);
    T_BEGIN();
    ret = secp256k1_keypair_create(ctx, &keypair, key);
    DEF(&ret, sizeof(ret));
    T_END("keypair_create", ret);
    SANITY(ret == 1);
    T_BEGIN();
    ret = secp256k1_keypair_xonly_tweak_add(ctx, &keypair, tweak);
    DEF(&ret, sizeof(ret));
    T_END("keypair_xonly_tweak_add", ret);
    SANITY(ret == 0 || ret == 1);
    op_ctx_done();
}

/* keypair_create (secret key), whole keypair marked secret, keypair_sec */
static void op_keypair_sec(void) {
    secp256k1_context *ctx = op_ctx();
    unsigned char key[32], out[32];
    secp256k1_keypair keypair;
    int ret;
    geth_exact("key", key, 32);
    SANITY(key_valid(key));
    memset(&keypair, 0, sizeof(keypair));
    memset(out, 0, sizeof(out));
    UNDEF(key, 32);
    T_BEGIN();
    ret = secp256k1_keypair_create(ctx, &keypair, key);
    DEF(&ret, sizeof(ret));
    T_END("keypair_create", ret);
    SANITY(ret == 1);
    UNDEF(out, 32);
    UNDEF(&keypair, sizeof(keypair));
    T_BEGIN();
    ret = secp256k1_keypair_sec(ctx, out, &keypair);
    DEF(&ret, sizeof(ret));
    T_END("keypair_sec", ret);
    SANITY(ret == 1);
    op_ctx_done();
}

/* schnorrsig_sign32 (custom=0; aux: optional public 32 bytes) and schnorrsig_sign_custom (custom=1; msg of any
 * length, mnull=1 passes NULL for an empty message; ep: 0 = extraparams NULL, 1 = extraparams with noncefp NULL,
 * 2 = extraparams with noncefp = secp256k1_nonce_function_bip340; aux = extraparams.ndata) */
static unsigned char g_msgbuf[4096];
static void op_schnorr(int custom) {
    secp256k1_context *ctx = op_ctx();
    unsigned char key[32], aux[32], sig[64], sigpub[64];
    secp256k1_keypair keypair;
    secp256k1_keypair kp_pub;
    secp256k1_xonly_pubkey xpk;
    secp256k1_schnorrsig_extraparams ep = SECP256K1_SCHNORRSIG_EXTRAPARAMS_INIT;
    int have_aux = geth("aux", aux, 32) == 32;
    int epmode = (int)geti("ep", 0);
    int mnull = (int)geti("mnull", 0);
    long msglen;
    int ret;
    geth_exact("key", key, 32);
    SANITY(key_valid(key));
    memset(g_msgbuf, 0, sizeof(g_msgbuf));
    msglen = geth("msg", g_msgbuf, sizeof(g_msgbuf));
    if (msglen < 0) die("msg");
    if (!custom && msglen != 32) die("sign32 needs a 32-byte msg");
    /* public key for the harness-side verification, from a public copy */
    SANITY(secp256k1_keypair_create(ctx_setup, &kp_pub, key) == 1);
    SANITY(secp256k1_keypair_xonly_pub(ctx_setup, &xpk, NULL, &kp_pub) == 1);
    memset(&keypair, 0, sizeof(keypair));
    memset(sig, 0, sizeof(sig));
    UNDEF(key, 32);
    T_BEGIN();
    ret = secp256k1_keypair_create(ctx, &keypair, key);
    DEF(&ret, sizeof(ret));
    T_END("keypair_create", ret);
    SANITY(ret == 1);
    T_BEGIN();
    if (!custom) {
        ret = secp256k1_schnorrsig_sign32(ctx, sig, g_msgbuf, &keypair, have_aux ? aux : NULL);
    } else {
        ep.noncefp = epmode == 2 ? secp256k1_nonce_function_bip340 : NULL;
        ep.ndata = have_aux ? aux : NULL;
        ret = secp256k1_schnorrsig_sign_custom(ctx, sig, (msglen == 0 && mnull) ? NULL : g_msgbuf, (size_t)msglen, &keypair, epmode == 0 ? NULL : &ep);
    }
    DEF(&ret, sizeof(ret));
    T_END(custom ? "schnorrsig_sign_custom" : "schnorrsig_sign32", ret);
    SANITY(ret == 1);
    /* harness sanity on a public copy of the (public) signature */
    memcpy(sigpub, sig, 64);
    DEF(sigpub, 64);
    SANITY(secp256k1_schnorrsig_verify(ctx_setup, sigpub, g_msgbuf, (size_t)msglen, &xpk) == 1);
    op_ctx_done();
}

/* One MuSig2 session with n signers; signer `me` is under test, the others are public harness-side computations.
 * keys: n*32 bytes (all valid).  tw: string over {p,x} (plain / x-only tweak) with twv = 32 bytes per tweak.
 * ad=1: adaptor present (secad = 32-byte secret adaptor).  ng: 0 = nonce_gen, 1 = nonce_gen_counter,
 * 2 = both (as ctime_tests.c; the counter nonce signs).  opt: bit0 seckey, bit1 msg, bit2 keyagg_cache,
 * bit3 extra_input present in the nonce generation call(s).  secrand, extra: 32 secret bytes; cnt: counter.
 * kpsec=1 (never generated by the check) additionally marks the keypair given to nonce_gen_counter secret. */
#define MAXS 5
static void op_musig(void) {
    secp256k1_context *ctx = op_ctx();
    unsigned char keys[MAXS * 32], twv[4 * 32], msg[32], secrand[32], extra[32], secad[32], mykey[32];
    unsigned char orand[32], pre_sig[64], sig[64], sigpub[64], extracted[32];
    const char *tw = find("tw");
    secp256k1_pubkey pk[MAXS], adaptor;
    const secp256k1_pubkey *pk_ptr[MAXS];
    secp256k1_xonly_pubkey agg_pk;
    secp256k1_pubkey agg_full;
    secp256k1_musig_keyagg_cache cache;
    secp256k1_musig_secnonce secnonce[MAXS];
    secp256k1_musig_pubnonce pubnonce[MAXS];
    const secp256k1_musig_pubnonce *pubnonce_ptr[MAXS];
    secp256k1_musig_aggnonce aggnonce;
    secp256k1_musig_session session;
    secp256k1_musig_partial_sig psig[MAXS];
    const secp256k1_musig_partial_sig *psig_ptr[MAXS];
    secp256k1_keypair keypair, kp_cnt, kp_other;
    int n = (int)geti("n", 1), me = (int)geti("me", 0), ad = (int)geti("ad", 0);
    int ng = (int)geti("ng", 0), opt = (int)geti("opt", 15);
    uint64_t cnt = getu64("cnt", 0);
    int ntw = tw ? (int)strlen(tw) : 0;
    int i, ret, nonce_parity = 0;

    if (n < 1 || n > MAXS || me < 0 || me >= n || ntw > 4) die("musig parameters");
    memset(keys, 0, sizeof(keys));
    memset(twv, 0, sizeof(twv));
    geth_exact("keys", keys, (size_t)n * 32);
    if (ntw > 0) geth_exact("twv", twv, (size_t)ntw * 32);
    geth_exact("msg", msg, 32);
    geth_exact("secrand", secrand, 32);
    geth_exact("extra", extra, 32);
    geth_exact("secad", secad, 32);
    memset(&cache, 0, sizeof(cache));
    memset(secnonce, 0, sizeof(secnonce));
    memset(pubnonce, 0, sizeof(pubnonce));
    memset(psig, 0, sizeof(psig));
    memset(pre_sig, 0, sizeof(pre_sig));
    memset(sig, 0, sizeof(sig));
    memset(extracted, 0, sizeof(extracted));
    memset(&keypair, 0, sizeof(keypair));

    /* public setup: keys are still public here (ctime_tests.c does the same) */
    for (i = 0; i < n; i++) {
        SANITY(secp256k1_ec_pubkey_create(ctx_setup, &pk[i], keys + 32 * i) == 1);
        pk_ptr[i] = &pk[i];
        pubnonce_ptr[i] = &pubnonce[i];
        psig_ptr[i] = &psig[i];
    }
    SANITY(secp256k1_musig_pubkey_agg(ctx_setup, &agg_pk, &cache, pk_ptr, (size_t)n) == 1);
    for (i = 0; i < ntw; i++) {
        if (tw[i] == 'p') {
            SANITY(secp256k1_musig_pubkey_ec_tweak_add(ctx_setup, NULL, &cache, twv + 32 * i) == 1);
        } else if (tw[i] == 'x') {
            SANITY(secp256k1_musig_pubkey_xonly_tweak_add(ctx_setup, NULL, &cache, twv + 32 * i) == 1);
        } else {
            die("tweak kind");
        }
    }
    SANITY(secp256k1_musig_pubkey_get(ctx_setup, &agg_full, &cache) == 1);
    SANITY(secp256k1_xonly_pubkey_from_pubkey(ctx_setup, &agg_pk, NULL, &agg_full) == 1);
    SANITY(secp256k1_ec_pubkey_create(ctx_setup, &adaptor, secad) == 1);
    /* keypair for nonce_gen_counter, made from the still public key as in ctime_tests.c */
    SANITY(secp256k1_keypair_create(ctx_setup, &kp_cnt, keys + 32 * me) == 1);
    /* the other signers' nonces (public to the harness) */
    for (i = 0; i < n; i++) {
        if (i == me) continue;
        memcpy(orand, keys + 32 * i, 32);
        orand[0] ^= 0x5a; orand[31] ^= (unsigned char)(i + 1); orand[15] |= 1;
        SANITY(secp256k1_musig_nonce_gen(ctx_setup, &secnonce[i], &pubnonce[i], orand, keys + 32 * i, &pk[i], msg, &cache, NULL) == 1);
    }

    /* secrets */
    memcpy(mykey, keys + 32 * me, 32);
    UNDEF(mykey, 32);
    UNDEF(secrand, 32);
    UNDEF(extra, 32);
    UNDEF(secad, 32);
    /* ctime_tests.c hands nonce_gen_counter a keypair made from a public key copy, i.e. the keypair is NOT marked secret
     * there (only extra_input is).  kpsec=1 marks its secret-key half secret; the check never generates that (see notes/C06.md). */
    if (geti("kpsec", 0)) UNDEF(&kp_cnt.data[0], 32);

    if (ng == 0 || ng == 2) {
        T_BEGIN();
        ret = secp256k1_musig_nonce_gen(ctx, &secnonce[me], &pubnonce[me], secrand, (opt & 1) ? mykey : NULL, &pk[me],
                                        (opt & 2) ? msg : NULL, (opt & 4) ? &cache : NULL, (opt & 8) ? extra : NULL);
        DEF(&ret, sizeof(ret));
        T_END("musig_nonce_gen", ret);
        SANITY(ret == 1);
    }
    if (ng == 1 || ng == 2) {
        T_BEGIN();
        ret = secp256k1_musig_nonce_gen_counter(ctx, &secnonce[me], &pubnonce[me], cnt, &kp_cnt,
                                                (opt & 2) ? msg : NULL, (opt & 4) ? &cache : NULL, (opt & 8) ? extra : NULL);
        DEF(&ret, sizeof(ret));
        T_END("musig_nonce_gen_counter", ret);
        SANITY(ret == 1);
    }

    SANITY(secp256k1_musig_nonce_agg(ctx_setup, &aggnonce, pubnonce_ptr, (size_t)n) == 1);
    SANITY(secp256k1_musig_nonce_process(ctx_setup, &session, &aggnonce, msg, &cache, ad ? &adaptor : NULL) == 1);

    T_BEGIN();
    ret = secp256k1_keypair_create(ctx, &keypair, mykey);
    DEF(&ret, sizeof(ret));
    T_END("keypair_create", ret);
    SANITY(ret == 1);
    T_BEGIN();
    ret = secp256k1_musig_partial_sign(ctx, &psig[me], &secnonce[me], &keypair, &cache, &session);
    DEF(&ret, sizeof(ret));
    T_END("musig_partial_sign", ret);
    SANITY(ret == 1);
    DEF(&psig[me], sizeof(psig[me]));

    for (i = 0; i < n; i++) {
        if (i == me) continue;
        SANITY(secp256k1_keypair_create(ctx_setup, &kp_other, keys + 32 * i) == 1);
        SANITY(secp256k1_musig_partial_sign(ctx_setup, &psig[i], &secnonce[i], &kp_other, &cache, &session) == 1);
    }
    SANITY(secp256k1_musig_partial_sig_verify(ctx_setup, &psig[me], &pubnonce[me], &pk[me], &cache, &session) == 1);
    SANITY(secp256k1_musig_partial_sig_agg(ctx_setup, pre_sig, &session, psig_ptr, (size_t)n) == 1);
    DEF(pre_sig, sizeof(pre_sig));
    SANITY(secp256k1_musig_nonce_parity(ctx_setup, &nonce_parity, &session) == 1);

    if (ad) {
        T_BEGIN();
        ret = secp256k1_musig_adapt(ctx, sig, pre_sig, secad, nonce_parity);
        DEF(&ret, sizeof(ret));
        T_END("musig_adapt", ret);
        SANITY(ret == 1);
        /* as in ctime_tests.c the adapted signature is handed to extract_adaptor without declassification */
        T_BEGIN();
        ret = secp256k1_musig_extract_adaptor(ctx, extracted, sig, pre_sig, nonce_parity);
        DEF(&ret, sizeof(ret));
        T_END("musig_extract_adaptor", ret);
        SANITY(ret == 1);
        memcpy(sigpub, sig, 64);
        DEF(sigpub, 64);
    } else {
        memcpy(sigpub, pre_sig, 64);
    }
    /* harness sanity: the final signature is a BIP-340 signature for the (tweaked) aggregate key */
    SANITY(secp256k1_schnorrsig_verify(ctx_setup, sigpub, msg, 32, &agg_pk) == 1);
    op_ctx_done();
}

/* ellswift_create: aux = optional public 32 bytes */
static void op_ellswift_create(void) {
    secp256k1_context *ctx = op_ctx();
    unsigned char key[32], aux[32], ell[64];
    int have_aux = geth("aux", aux, 32) == 32;
    int ret, valid;
    geth_exact("key", key, 32);
    valid = key_valid(key);
    memset(ell, 0, sizeof(ell));
    UNDEF(key, 32);
    T_BEGIN();
    ret = secp256k1_ellswift_create(ctx, ell, key, have_aux ? aux : NULL);
    DEF(&ret, sizeof(ret));
    T_END("ellswift_create", ret);
    DEF(ell, sizeof(ell));
    SANITY(ret == valid);
    op_ctx_done();
}

/* ellswift_xdh: ella / ellb = the two public 64-byte encodings, party 0/1, hf: 0 = bip324 hasher, 1 = prefix hasher
 * with the public 64-byte `prefix` */
static void op_ellswift_xdh(void) {
    secp256k1_context *ctx = op_ctx();
    unsigned char key[32], ella[64], ellb[64], prefix[64], out[32];
    int party = (int)geti("party", 0), hf = (int)geti("hf", 0);
    int ret, valid;
    geth_exact("key", key, 32);
    geth_exact("ella", ella, 64);
    geth_exact("ellb", ellb, 64);
    memset(prefix, 0, sizeof(prefix));
    if (hf) geth_exact("prefix", prefix, 64);
    valid = key_valid(key);
    memset(out, 0, sizeof(out));
    UNDEF(key, 32);
    T_BEGIN();
    if (hf) {
        ret = secp256k1_ellswift_xdh(ctx, out, ella, ellb, key, party, secp256k1_ellswift_xdh_hash_function_prefix, (void *)prefix);
    } else {
        ret = secp256k1_ellswift_xdh(ctx, out, ella, ellb, key, party, secp256k1_ellswift_xdh_hash_function_bip324, NULL);
    }
    DEF(&ret, sizeof(ret));
    T_END("ellswift_xdh", ret);
    SANITY(ret == valid);
    op_ctx_done();
}

/* ecdsa_s2c_sign: key and the committed data are secret (ctime_tests.c); opening=0 passes NULL */
static void op_s2c_sign(void) {
    secp256k1_context *ctx = op_ctx();
    unsigned char key[32], msg[32], data[32];
    secp256k1_ecdsa_signature sig;
    secp256k1_ecdsa_s2c_opening opening;
    int with_opening = (int)geti("opening", 1);
    int ret, valid;
    geth_exact("key", key, 32);
    geth_exact("msg", msg, 32);
    geth_exact("data", data, 32);
    valid = key_valid(key);
    memset(&sig, 0, sizeof(sig));
    memset(&opening, 0, sizeof(opening));
    UNDEF(key, 32);
    UNDEF(data, 32);
    T_BEGIN();
    ret = secp256k1_ecdsa_s2c_sign(ctx, &sig, with_opening ? &opening : NULL, msg, key, data);
    DEF(&ret, sizeof(ret));
    T_END("ecdsa_s2c_sign", ret);
    SANITY(ret == valid);
    op_ctx_done();
}

static void op_host_commit(void) {
    secp256k1_context *ctx = op_ctx();
    unsigned char rnd[32], comm[32];
    int ret;
    geth_exact("rand", rnd, 32);
    memset(comm, 0, sizeof(comm));
    UNDEF(rnd, 32);
    T_BEGIN();
    ret = secp256k1_ecdsa_anti_exfil_host_commit(ctx, comm, rnd);
    DEF(&ret, sizeof(ret));
    T_END("ecdsa_anti_exfil_host_commit", ret);
    SANITY(ret == 1);
    op_ctx_done();
}

/* anti_exfil_signer_commit: key and the host commitment are marked secret, as ctime_tests.c does */
static void op_signer_commit(void) {
    secp256k1_context *ctx = op_ctx();
    unsigned char key[32], msg[32], comm[32];
    secp256k1_ecdsa_s2c_opening opening;
    int ret;
    geth_exact("key", key, 32);
    geth_exact("msg", msg, 32);
    geth_exact("commit", comm, 32);
    memset(&opening, 0, sizeof(opening));
    UNDEF(key, 32);
    UNDEF(comm, 32);
    T_BEGIN();
    ret = secp256k1_ecdsa_anti_exfil_signer_commit(ctx, &opening, msg, key, comm);
    DEF(&ret, sizeof(ret));
    T_END("ecdsa_anti_exfil_signer_commit", ret);
    SANITY(ret == 1);
    op_ctx_done();
}

/* ecdsa_adaptor: encrypt (secret key `key`; public encryption key = enc*G) -> decrypt (secret `dec`) -> recover
 * (the decrypted signature is secret).  steps: 1 = encrypt only, 2 = + decrypt, 3 = + recover.
 * nf: 0 = NULL nonce function, 1 = secp256k1_nonce_function_ecdsa_adaptor; ndata: optional public 32 bytes.
 * An invalid `key` is only given with steps=1, an invalid `dec` only with steps=2. */
static void op_adaptor(void) {
    secp256k1_context *ctx = op_ctx();
    unsigned char key[32], enc[32], dec[32], decpub[32], msg[32], nd[32], asig[162], expected[32];
    secp256k1_pubkey enckey, signer_pk;
    secp256k1_ecdsa_signature sig;
    int steps = (int)geti("steps", 3), nf = (int)geti("nf", 0);
    int have_nd = geth("ndata", nd, 32) == 32;
    int ret, valid, dec_valid, dec_correct;
    geth_exact("key", key, 32);
    geth_exact("enc", enc, 32);
    geth_exact("dec", dec, 32);
    geth_exact("msg", msg, 32);
    valid = key_valid(key);
    dec_valid = key_valid(dec);
    dec_correct = memcmp(enc, dec, 32) == 0;
    memcpy(decpub, dec, 32);
    SANITY(secp256k1_ec_pubkey_create(ctx_setup, &enckey, enc) == 1);
    if (!valid && steps != 1) die("invalid signing key needs steps=1");
    if (!dec_valid && steps != 2) die("invalid decryption key needs steps=2");
    memset(asig, 0, sizeof(asig));
    memset(&sig, 0, sizeof(sig));
    memset(expected, 0, sizeof(expected));
    if (valid) SANITY(secp256k1_ec_pubkey_create(ctx_setup, &signer_pk, key) == 1);

    UNDEF(key, 32);
    T_BEGIN();
    ret = secp256k1_ecdsa_adaptor_encrypt(ctx, asig, key, &enckey, msg, nf ? secp256k1_nonce_function_ecdsa_adaptor : NULL, have_nd ? nd : NULL);
    DEF(asig, sizeof(asig));
    DEF(&ret, sizeof(ret));
    T_END("ecdsa_adaptor_encrypt", ret);
    SANITY(ret == valid);
    if (steps < 2 || !ret) { op_ctx_done(); return; }
    SANITY(secp256k1_ecdsa_adaptor_verify(ctx_setup, asig, &signer_pk, msg, &enckey) == 1);

    UNDEF(dec, 32);
    T_BEGIN();
    ret = secp256k1_ecdsa_adaptor_decrypt(ctx, &sig, dec, asig);
    DEF(&ret, sizeof(ret));
    T_END("ecdsa_adaptor_decrypt", ret);
    SANITY(ret == dec_valid);
    if (steps < 3 || !ret) { op_ctx_done(); return; }

    /* ctime_tests.c marks the signature secret again here (it already is: nothing declassified it) */
    UNDEF(&sig, sizeof(sig));
    T_BEGIN();
    ret = secp256k1_ecdsa_adaptor_recover(ctx, expected, &sig, asig, &enckey);
    DEF(expected, sizeof(expected));
    DEF(&ret, sizeof(ret));
    T_END("ecdsa_adaptor_recover", ret);
    SANITY(ret == 0 || ret == 1);
    if (dec_correct) SANITY(ret == 1 && memcmp(decpub, expected, 32) == 0);
    op_ctx_done();
}

/* context_randomize on a context of its own.  pre: 0 = fresh, 1 = randomized before with the public `pseed`,
 * 2 = randomized and reset (NULL seed) before.  then=1: a key generation with the secret `key` follows on the
 * secretly randomized context. */
static void op_ctx_randomize(void) {
    secp256k1_context *c = new_ctx();
    unsigned char seed[32], pseed[32], key[32];
    secp256k1_pubkey pubkey;
    int pre = (int)geti("pre", 0), then = (int)geti("then", 0);
    int ret;
    geth_exact("seed", seed, 32);
    memset(pseed, 0, sizeof(pseed));
    memset(key, 0, sizeof(key));
    memset(&pubkey, 0, sizeof(pubkey));
    if (pre >= 1) {
        geth_exact("pseed", pseed, 32);
        SANITY(secp256k1_context_randomize(c, pseed) == 1);
    }
    if (pre == 2) SANITY(secp256k1_context_randomize(c, NULL) == 1);
    if (then) {
        geth_exact("key", key, 32);
        SANITY(key_valid(key));
    }
    UNDEF(seed, 32);
    T_BEGIN();
    ret = secp256k1_context_randomize(c, seed);
    DEF(&ret, sizeof(ret));
    T_END("context_randomize", ret);
    SANITY(ret == 1);
    if (then) {
        UNDEF(key, 32);
        T_BEGIN();
        ret = secp256k1_ec_pubkey_create(c, &pubkey, key);
        DEF(&pubkey, sizeof(pubkey));
        DEF(&ret, sizeof(ret));
        T_END("ec_pubkey_create", ret);
        SANITY(ret == 1);
    }
    secp256k1_context_destroy(c);
}

/* ------------------------------------------------------------------ driver */
static void dispatch(void) {
    if (strcmp(g_op, "nop") == 0) return;
    if (strcmp(g_op, "keygen") == 0) { op_keygen(); return; }
    if (strcmp(g_op, "ecdsa_sign") == 0) { op_ecdsa_sign(0); return; }
    if (strcmp(g_op, "ecdsa_sign_recoverable") == 0) { op_ecdsa_sign(1); return; }
    if (strcmp(g_op, "ecdh") == 0) { op_ecdh(); return; }
    if (strcmp(g_op, "seckey_verify") == 0) { op_seckey_verify(); return; }
    if (strcmp(g_op, "seckey_negate") == 0) { op_seckey_negate(); return; }
    if (strcmp(g_op, "seckey_tweak_add") == 0) { op_seckey_tweak(0); return; }
    if (strcmp(g_op, "seckey_tweak_mul") == 0) { op_seckey_tweak(1); return; }
    if (strcmp(g_op, "keypair_create") == 0) { op_keypair_create(); return; }
    if (strcmp(g_op, "keypair_xonly_tweak_add") == 0) { op_keypair_tweak(); return; }
    if (strcmp(g_op, "keypair_sec") == 0) { op_keypair_sec(); return; }
    if (strcmp(g_op, "schnorrsig_sign32") == 0) { op_schnorr(0); return; }
    if (strcmp(g_op, "schnorrsig_sign_custom") == 0) { op_schnorr(1); return; }
    if (strcmp(g_op, "musig") == 0) { op_musig(); return; }
    if (strcmp(g_op, "ellswift_create") == 0) { op_ellswift_create(); return; }
    if (strcmp(g_op, "ellswift_xdh") == 0) { op_ellswift_xdh(); return; }
    if (strcmp(g_op, "ecdsa_s2c_sign") == 0) { op_s2c_sign(); return; }
    if (strcmp(g_op, "anti_exfil_host_commit") == 0) { op_host_commit(); return; }
    if (strcmp(g_op, "anti_exfil_signer_commit") == 0) { op_signer_commit(); return; }
    if (strcmp(g_op, "ecdsa_adaptor") == 0) { op_adaptor(); return; }
    if (strcmp(g_op, "context_randomize") == 0) { op_ctx_randomize(); return; }
    die("unknown op");
}

int main(int argc, char **argv) {
    FILE *f;
    unsigned start_err, op_err;
    int nops = 0;

    if (argc != 2) {
        fprintf(stderr, "usage: valgrind --tool=memcheck ct_harness <scenario file>\n");
        return 3;
    }
    if (!SECP256K1_CHECKMEM_RUNNING()) {
        fprintf(stderr, "HARNESS-ERROR: not running under memcheck\n");
        return 3;
    }
    f = fopen(argv[1], "r");
    if (f == NULL) {
        fprintf(stderr, "HARNESS-ERROR: cannot open scenario file\n");
        return 3;
    }
    ctx_setup = new_ctx();
    ctx_plain = new_ctx();
    ctx_rand = new_ctx();
    start_err = (unsigned)VALGRIND_COUNT_ERRORS;

    g_idx = 0;
    while (fgets(g_line, sizeof(g_line), f) != NULL) {
        size_t len = strlen(g_line);
        char *p;
        if (len + 1 >= sizeof(g_line)) die("line too long");
        while (len > 0 && (g_line[len - 1] == '\n' || g_line[len - 1] == '\r' || g_line[len - 1] == ' ')) g_line[--len] = 0;
        if (len == 0 || g_line[0] == '#') continue;
        g_ntok = 0;
        p = g_line;
        g_op = p;
        while (*p && *p != ' ') p++;
        if (*p) *p++ = 0;
        while (*p) {
            char *key, *eq;
            while (*p == ' ') p++;
            if (!*p) break;
            key = p;
            while (*p && *p != ' ') p++;
            if (*p) *p++ = 0;
            eq = strchr(key, '=');
            if (eq == NULL) die("token without '='");
            *eq = 0;
            if (g_ntok >= MAXTOK) die("too many tokens");
            g_key[g_ntok] = key;
            g_val[g_ntok] = eq + 1;
            g_ntok++;
        }
        op_err = (unsigned)VALGRIND_COUNT_ERRORS;
        dispatch();
        printf("OP %d %s err=%u\n", g_idx, g_op, (unsigned)VALGRIND_COUNT_ERRORS - op_err);
        fflush(stdout);
        g_idx++;
        nops++;
    }
    fclose(f);
    printf("DONE ops=%d calls=%lu err=%u\n", nops, g_calls, (unsigned)VALGRIND_COUNT_ERRORS - start_err);
    fflush(stdout);
    secp256k1_context_destroy(ctx_rand);
    secp256k1_context_destroy(ctx_plain);
    secp256k1_context_destroy(ctx_setup);
    return 0;
}
