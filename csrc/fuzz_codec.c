/* E2 target for C03: byte-level fuzzing of the key / signature codecs.
 *
 * Oracles inside the target (all independent of the library's code):
 *   - a strict DER reader for Ecdsa-Sig-Value written from X.690 (ref_der_parse below): verdict AND values must agree
 *   - a GMP check of "prefix/length right, coordinates < p, on the curve, hybrid parity" for public keys and x-only keys
 *   - range check of 32-byte scalars against n with memcmp
 *   - round trips: serialize(parse(b)) == canonical(b), parse(serialize(o)) == o, DER size negotiation into exact-size heap blocks
 *   - an object left by a failed / out-of-range parse has r == 0 or s == 0 (exactly the objects that verify for no message and key)
 *   - contrib/lax_der_parsing.c: never crashes; strict accept => lax accept; same (r,s) when both numbers are in range
 *   - no illegal / error callback on any input
 *
 * Input layout: byte 0 selects the codec (mod 6), the rest is the string.
 *   0 public key   1 DER signature (strict + lax)   2 compact signature (first 64 bytes)   3 x-only key (first 32 bytes)
 *   4 recoverable compact: byte 1 = recovery id (mod 4), then 64 bytes      5 compact -> DER -> compact round trip (first 64 bytes)
 */
#include "vf_fuzz_common.h"
#include <gmp.h>
#include "src/secp256k1.c"
#include "contrib/lax_der_parsing.c"

const char *const VF_CLASS_NAMES[] = {"pubkey_accept", "pubkey_reject", "der_accept", "der_reject", "compact_accept", "compact_reject",
                                      "xonly_accept", "xonly_reject", "lax_accept", "lax_reject", "hybrid_accept", "der_out_of_range",
                                      "rec_accept", "rec_reject", "der_roundtrip", "pubkey_reject_fullsize", "der_reject_seq"};
const int VF_N_CLASSES = 17;

static secp256k1_context *ctx = NULL;
static int cb_count = 0;
static void count_cb(const char *m, void *d) { (void)m; (void)d; cb_count++; }

static const unsigned char ORDER_N[32] = {0xFF,0xFF,0xFF,0xFF,0xFF,0xFF,0xFF,0xFF,0xFF,0xFF,0xFF,0xFF,0xFF,0xFF,0xFF,0xFE,
                                          0xBA,0xAE,0xDC,0xE6,0xAF,0x48,0xA0,0x3B,0xBF,0xD2,0x5E,0x8C,0xD0,0x36,0x41,0x41};
static const unsigned char ZERO64[64] = {0};

static int below_n(const unsigned char *b32) { return memcmp(b32, ORDER_N, 32) < 0; }
/* an object (r,s) of in-range scalars fails verification for EVERY message and key iff r == 0 or s == 0 */
static int never_verifies(const unsigned char *c64) { return memcmp(c64, ZERO64, 32) == 0 || memcmp(c64 + 32, ZERO64, 32) == 0; }

/* ---------------------------------------------------------------- reference: strict DER (X.690 8.1.3, 8.3, 10.1) */
/* returns 1 and the definite length, advancing *pos; 0 if the length octets are not DER */
static int ref_len(const uint8_t *b, size_t n, size_t *pos, size_t *out) {
    uint8_t b1; size_t k, i; size_t v = 0;
    if (*pos >= n) return 0;
    b1 = b[(*pos)++];
    if (b1 < 0x80) { *out = b1; return 1; }
    if (b1 == 0x80 || b1 == 0xFF) return 0;
    k = b1 & 0x7F;
    if (k > n - *pos) return 0;
    if (b[*pos] == 0) return 0;
    if (k > sizeof(size_t)) return 0;          /* certainly longer than the input */
    for (i = 0; i < k; i++) v = (v << 8) | b[(*pos)++];
    if (v < 128) return 0;
    *out = v;
    return 1;
}

/* INTEGER at b[*pos..end): returns 1 if well-formed; *inrange tells whether 0 <= value < n, val32 = value then */
static int ref_int(const uint8_t *b, size_t end, size_t *pos, int *inrange, unsigned char *val32) {
    size_t len, i; const uint8_t *c;
    if (*pos >= end || b[*pos] != 0x02) return 0;
    (*pos)++;
    if (!ref_len(b, end, pos, &len)) return 0;
    if (len == 0 || len > end - *pos) return 0;
    c = b + *pos;
    if (len > 1 && c[0] == 0x00 && (c[1] & 0x80) == 0) return 0;
    if (len > 1 && c[0] == 0xFF && (c[1] & 0x80) != 0) return 0;
    *pos += len;
    memset(val32, 0, 32);
    *inrange = 0;
    if (c[0] & 0x80) return 1;                 /* negative */
    if (c[0] == 0 && len > 1) { c++; len--; }
    if (len > 32) return 1;                    /* >= 2^256 */
    for (i = 0; i < len; i++) val32[32 - len + i] = c[i];
    if (!below_n(val32)) { memset(val32, 0, 32); return 1; }
    *inrange = 1;
    return 1;
}

static int ref_der_parse(const uint8_t *b, size_t n, int *r_ok, unsigned char *r32, int *s_ok, unsigned char *s32) {
    size_t pos = 0, len;
    if (n < 1 || b[0] != 0x30) return 0;
    pos = 1;
    if (!ref_len(b, n, &pos, &len)) return 0;
    if (len != n - pos) return 0;
    if (!ref_int(b, n, &pos, r_ok, r32)) return 0;
    if (!ref_int(b, n, &pos, s_ok, s32)) return 0;
    return pos == n;
}

/* ---------------------------------------------------------------- reference: curve membership with GMP */
static mpz_t FP; static int gmp_init = 0;
static void ref_init(void) {
    if (!gmp_init) { mpz_init_set_str(FP, "FFFFFFFFFFFFFFFFFFFFFFFFFFFFFFFFFFFFFFFFFFFFFFFFFFFFFFFEFFFFFC2F", 16); gmp_init = 1; }
}
/* rhs = x^3 + 7 mod p ; returns 0 if x >= p */
static int ref_rhs(mpz_t rhs, const unsigned char *x32) {
    mpz_t x; int ok;
    mpz_init(x);
    mpz_import(x, 32, 1, 1, 1, 0, x32);
    ok = mpz_cmp(x, FP) < 0;
    if (ok) { mpz_powm_ui(rhs, x, 3, FP); mpz_add_ui(rhs, rhs, 7); mpz_mod(rhs, rhs, FP); }
    mpz_clear(x);
    return ok;
}
/* 1 iff the string is an admissible public key encoding */
static int ref_pubkey_ok(const uint8_t *b, size_t n) {
    mpz_t rhs, y; int ok = 0;
    ref_init();
    mpz_init(rhs); mpz_init(y);
    if (n == 33 && (b[0] == 2 || b[0] == 3)) {
        /* x < p and x^3+7 a (non-zero) square: rhs = 0 would mean y = 0, impossible on this curve but handle it as a point */
        if (ref_rhs(rhs, b + 1)) ok = (mpz_sgn(rhs) == 0) || (mpz_legendre(rhs, FP) == 1);
    } else if (n == 65 && (b[0] == 4 || b[0] == 6 || b[0] == 7)) {
        if (ref_rhs(rhs, b + 1)) {
            mpz_import(y, 32, 1, 1, 1, 0, b + 33);
            if (mpz_cmp(y, FP) < 0) {
                int odd = mpz_odd_p(y);
                mpz_mul(y, y, y); mpz_mod(y, y, FP);
                ok = mpz_cmp(y, rhs) == 0;
                if (ok && b[0] != 4 && odd != (b[0] == 7)) ok = 0;
            }
        }
    }
    mpz_clear(rhs); mpz_clear(y);
    return ok;
}
static int ref_xonly_ok(const uint8_t *b32) {
    mpz_t rhs; int ok = 0;
    ref_init();
    mpz_init(rhs);
    if (ref_rhs(rhs, b32)) ok = (mpz_sgn(rhs) == 0) || (mpz_legendre(rhs, FP) == 1);
    mpz_clear(rhs);
    return ok;
}

/* DER size negotiation + round trip for any signature object */
static void check_der_serialize(const secp256k1_ecdsa_signature *sig, const unsigned char *expect, size_t expect_len) {
    unsigned char big[80]; size_t ol = sizeof(big), need;
    unsigned char c1[64], c2[64];
    secp256k1_ecdsa_signature back;
    VF_CHECK(secp256k1_ecdsa_signature_serialize_der(ctx, big, &ol, sig) == 1, "der serialize failed with a 80-byte buffer");
    need = ol;
    VF_CHECK(need >= 8 && need <= 72, "der serialization length out of the possible range");
    if (expect) VF_CHECK(need == expect_len && memcmp(big, expect, need) == 0, "DER serialize(parse(b)) != b");
    { unsigned char *small = (unsigned char *)malloc(need - 1); size_t sl = need - 1;
      VF_CHECK(secp256k1_ecdsa_signature_serialize_der(ctx, small, &sl, sig) == 0, "der serialize into a too small buffer succeeded");
      VF_CHECK(sl == need, "der serialize did not report the needed size"); free(small); }
    { unsigned char *exact = (unsigned char *)malloc(need); size_t el = need;
      VF_CHECK(secp256k1_ecdsa_signature_serialize_der(ctx, exact, &el, sig) == 1 && el == need, "der serialize into an exact buffer failed");
      VF_CHECK(memcmp(exact, big, need) == 0, "der serialize not deterministic");
      VF_CHECK(secp256k1_ecdsa_signature_parse_der(ctx, &back, exact, need) == 1, "parse_der(serialize_der(o)) failed");
      free(exact); }
    secp256k1_ecdsa_signature_serialize_compact(ctx, c1, sig);
    secp256k1_ecdsa_signature_serialize_compact(ctx, c2, &back);
    VF_CHECK(memcmp(c1, c2, 64) == 0, "parse_der(serialize_der(o)) != o");
}

int LLVMFuzzerTestOneInput(const uint8_t *data, size_t size) {
    uint8_t sel;
    unsigned char *in;
    const uint8_t *whole = data; size_t whole_size = size;
    vf_begin();
    if (!ctx) {
        ctx = secp256k1_context_create(SECP256K1_CONTEXT_NONE);
        secp256k1_context_set_illegal_callback(ctx, count_cb, NULL);
        secp256k1_context_set_error_callback(ctx, count_cb, NULL);
    }
    cb_count = 0;
    if (size < 1) return 0;
    sel = data[0] % 6; data++; size--;
    /* exact-size heap copy so that any over-read is an ASan report */
    in = (unsigned char *)malloc(size ? size : 1);
    memcpy(in, data, size);
    if (sel == 0) {
        secp256k1_pubkey pk, pk2;
        int ok = secp256k1_ec_pubkey_parse(ctx, &pk, in, size);
        VF_CHECK(ok == ref_pubkey_ok(in, size), "ec_pubkey_parse verdict differs from the format (length/prefix/x,y<p/on curve/hybrid parity)");
        if (ok) {
            unsigned char *out = (unsigned char *)malloc(size), *out2 = (unsigned char *)malloc(size == 33 ? 65 : 33);
            size_t ol = size, ol2 = (size == 33 ? 65 : 33);
            vf_class(0);
            VF_CHECK(secp256k1_ec_pubkey_serialize(ctx, out, &ol, &pk, size == 33 ? SECP256K1_EC_COMPRESSED : SECP256K1_EC_UNCOMPRESSED) == 1, "serialize failed");
            VF_CHECK(ol == size, "serialize length");
            if (in[0] == 6 || in[0] == 7) { vf_class(10); VF_CHECK(out[0] == 4 && memcmp(out + 1, in + 1, 64) == 0, "hybrid does not map to uncompressed"); }
            else VF_CHECK(memcmp(out, in, size) == 0, "serialize(parse(b)) != b");
            VF_CHECK(secp256k1_ec_pubkey_serialize(ctx, out2, &ol2, &pk, size == 33 ? SECP256K1_EC_UNCOMPRESSED : SECP256K1_EC_COMPRESSED) == 1 && ol2 == (size == 33 ? 65u : 33u), "other-format serialize");
            VF_CHECK(memcmp(out2 + 1, in + 1, 32) == 0, "other-format serialization has a different x");
            VF_CHECK(secp256k1_ec_pubkey_parse(ctx, &pk2, out2, ol2) == 1, "parse(serialize(o)) failed");
            VF_CHECK(secp256k1_ec_pubkey_cmp(ctx, &pk, &pk2) == 0, "parse(serialize(o)) != o");
            free(out); free(out2);
            if (in[0] != 2 && in[0] != 3 && in[0] != 4) vf_nontrivial(whole, whole_size);
        } else { vf_class(1); if (size == 33 || size == 65) { vf_class(15); vf_nontrivial(whole, whole_size); } }
    } else if (sel == 1) {
        secp256k1_ecdsa_signature sig, lsig;
        unsigned char r32[32], s32[32], c1[64], c2[64];
        int r_ok = 0, s_ok = 0;
        int ok, lok, ref;
        memset(&sig, 0x77, sizeof(sig));
        ok = secp256k1_ecdsa_signature_parse_der(ctx, &sig, in, size);
        lok = ecdsa_signature_parse_der_lax(ctx, &lsig, in, size);
        ref = ref_der_parse(in, size, &r_ok, r32, &s_ok, s32);
        vf_class(lok ? 8 : 9);
        VF_CHECK(ok == ref, "signature_parse_der verdict differs from strict DER");
        secp256k1_ecdsa_signature_serialize_compact(ctx, c1, &sig);
        if (ok) {
            vf_class(2);
            VF_CHECK(lok, "strict DER accepts, lax parser rejects");
            if (r_ok && s_ok) {
                VF_CHECK(memcmp(c1, r32, 32) == 0 && memcmp(c1 + 32, s32, 32) == 0, "DER-parsed object holds different numbers than encoded");
                check_der_serialize(&sig, in, size);
                secp256k1_ecdsa_signature_serialize_compact(ctx, c2, &lsig);
                VF_CHECK(memcmp(c1, c2, 64) == 0, "lax parser yields different (r,s)");
            } else {
                /* out-of-range number: documented to parse and never to verify; the usable half must not be a reduced value */
                vf_class(11);
                VF_CHECK(never_verifies(c1), "DER with an out-of-range number left an object that can verify");
                check_der_serialize(&sig, NULL, 0);
                vf_nontrivial(whole, whole_size);
            }
        } else {
            vf_class(3);
            VF_CHECK(never_verifies(c1), "rejected DER signature leaves an object that can verify");
            if (size > 6 && in[0] == 0x30) { vf_class(16); vf_nontrivial(whole, whole_size); }
        }
        if (!lok) {
            secp256k1_ecdsa_signature_serialize_compact(ctx, c2, &lsig);
            VF_CHECK(never_verifies(c2), "lax parser rejected but left an object that can verify");
        }
    } else if (sel == 2 || sel == 5) {
        if (size >= 64) {
            secp256k1_ecdsa_signature sig; unsigned char out[64];
            int ok, ref = below_n(in) && below_n(in + 32);
            memset(&sig, 0x77, sizeof(sig));
            ok = secp256k1_ecdsa_signature_parse_compact(ctx, &sig, in);
            VF_CHECK(ok == ref, "signature_parse_compact verdict differs from the range rule");
            secp256k1_ecdsa_signature_serialize_compact(ctx, out, &sig);
            if (ok) {
                vf_class(4);
                VF_CHECK(memcmp(out, in, 64) == 0, "compact serialize(parse(b)) != b");
                if (sel == 5) { vf_class(14); check_der_serialize(&sig, NULL, 0); }
            } else {
                vf_class(5);
                VF_CHECK(never_verifies(out), "rejected compact signature leaves an object that can verify");
                vf_nontrivial(whole, whole_size);
            }
        }
    } else if (sel == 3) {
        if (size >= 32) {
            secp256k1_xonly_pubkey xpk; unsigned char out[32];
            int ok = secp256k1_xonly_pubkey_parse(ctx, &xpk, in);
            VF_CHECK(ok == ref_xonly_ok(in), "xonly_pubkey_parse verdict differs from the format (x<p, on curve)");
            if (ok) {
                vf_class(6);
                VF_CHECK(secp256k1_xonly_pubkey_serialize(ctx, out, &xpk) == 1 && memcmp(out, in, 32) == 0, "xonly roundtrip");
            } else { vf_class(7); vf_nontrivial(whole, whole_size); }
        }
    } else {
        if (size >= 65) {
            secp256k1_ecdsa_recoverable_signature rsig; secp256k1_ecdsa_signature conv; unsigned char out[64];
            int recid = in[0] % 4, rid = -1;
            int ref = below_n(in + 1) && below_n(in + 33);
            int ok = secp256k1_ecdsa_recoverable_signature_parse_compact(ctx, &rsig, in + 1, recid);
            VF_CHECK(ok == ref, "recoverable parse_compact verdict differs from the range rule");
            if (ok) {
                vf_class(12);
                VF_CHECK(secp256k1_ecdsa_recoverable_signature_serialize_compact(ctx, out, &rid, &rsig) == 1, "recoverable serialize failed");
                VF_CHECK(rid == recid && memcmp(out, in + 1, 64) == 0, "recoverable serialize(parse(b)) != b");
                secp256k1_ecdsa_recoverable_signature_convert(ctx, &conv, &rsig);
                secp256k1_ecdsa_signature_serialize_compact(ctx, out, &conv);
                VF_CHECK(memcmp(out, in + 1, 64) == 0, "convert(recoverable) holds a different (r,s)");
            } else { vf_class(13); vf_nontrivial(whole, whole_size); }
        }
    }
    VF_CHECK(cb_count == 0, "illegal/error callback fired on untrusted bytes");
    free(in);
    return 0;
}
