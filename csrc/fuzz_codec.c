/* E2 target for C03: byte-level fuzzing of the key / signature codecs with round-trip oracles. */
#include "vf_fuzz_common.h"
#include "src/secp256k1.c"
#include "contrib/lax_der_parsing.c"

const char *const VF_CLASS_NAMES[] = {"pubkey_accept", "pubkey_reject", "der_accept", "der_reject", "compact_accept", "compact_reject",
                                      "xonly_accept", "xonly_reject", "lax_accept", "lax_reject", "hybrid_accept"};
const int VF_N_CLASSES = 11;

static secp256k1_context *ctx = NULL;
static int cb_count = 0;
static void count_cb(const char *m, void *d) { (void)m; (void)d; cb_count++; }

int LLVMFuzzerTestOneInput(const uint8_t *data, size_t size) {
    uint8_t sel;
    unsigned char *in;
    vf_begin();
    if (!ctx) {
        ctx = secp256k1_context_create(SECP256K1_CONTEXT_NONE);
        secp256k1_context_set_illegal_callback(ctx, count_cb, NULL);
        secp256k1_context_set_error_callback(ctx, count_cb, NULL);
    }
    cb_count = 0;
    if (size < 1) return 0;
    sel = data[0] % 4; data++; size--;
    /* exact-size heap copy so that any over-read is an ASan report */
    in = (unsigned char *)malloc(size ? size : 1);
    memcpy(in, data, size);
    if (sel == 0) {
        secp256k1_pubkey pk, pk2;
        if (secp256k1_ec_pubkey_parse(ctx, &pk, in, size)) {
            unsigned char out[65], out2[65]; size_t ol = 65, ol2 = 33;
            vf_class(0);
            VF_CHECK(size == 33 || size == 65, "pubkey accepted with wrong length");
            VF_CHECK(secp256k1_ec_pubkey_serialize(ctx, out, &ol, &pk, size == 33 ? SECP256K1_EC_COMPRESSED : SECP256K1_EC_UNCOMPRESSED) == 1, "serialize failed");
            VF_CHECK(ol == size, "serialize length");
            if (in[0] == 6 || in[0] == 7) { vf_class(10); VF_CHECK(out[0] == 4 && memcmp(out + 1, in + 1, 64) == 0, "hybrid does not map to uncompressed"); VF_CHECK((in[64] & 1) == (in[0] & 1), "hybrid parity"); }
            else VF_CHECK(memcmp(out, in, size) == 0, "serialize(parse(b)) != b");
            VF_CHECK(secp256k1_ec_pubkey_serialize(ctx, out2, &ol2, &pk, SECP256K1_EC_COMPRESSED) == 1 && ol2 == 33, "compressed serialize");
            VF_CHECK(secp256k1_ec_pubkey_parse(ctx, &pk2, out2, 33) == 1, "parse(serialize(o)) failed");
            VF_CHECK(secp256k1_ec_pubkey_cmp(ctx, &pk, &pk2) == 0, "parse(serialize(o)) != o");
            vf_nontrivial(data - 1, size + 1);
        } else { vf_class(1); if (size == 33 || size == 65) vf_nontrivial(data - 1, size + 1); }
    } else if (sel == 1) {
        secp256k1_ecdsa_signature sig, lsig;
        int ok = secp256k1_ecdsa_signature_parse_der(ctx, &sig, in, size);
        int lok = ecdsa_signature_parse_der_lax(ctx, &lsig, in, size);
        vf_class(lok ? 8 : 9);
        if (ok) {
            unsigned char out[80]; size_t ol = 80; unsigned char c1[64], c2[64];
            size_t need;
            vf_class(2);
            VF_CHECK(secp256k1_ecdsa_signature_serialize_der(ctx, out, &ol, &sig) == 1, "der serialize failed");
            secp256k1_ecdsa_signature_serialize_compact(ctx, c1, &sig);
            {
                /* integers that were negative / oversized parse to 0: then the re-serialisation legitimately differs */
                static const unsigned char z[32] = {0};
                if (memcmp(c1, z, 32) != 0 && memcmp(c1 + 32, z, 32) != 0) {
                    VF_CHECK(ol == size && memcmp(out, in, size) == 0, "DER serialize(parse(b)) != b");
                    VF_CHECK(lok, "strict DER accepts, lax rejects");
                    secp256k1_ecdsa_signature_serialize_compact(ctx, c2, &lsig);
                    VF_CHECK(memcmp(c1, c2, 64) == 0, "lax parser yields different (r,s)");
                }
            }
            need = ol;
            { unsigned char *small = (unsigned char *)malloc(need ? need - 1 : 1); size_t sl = need - 1;
              VF_CHECK(secp256k1_ecdsa_signature_serialize_der(ctx, small, &sl, &sig) == 0, "der serialize into too-small buffer succeeded");
              VF_CHECK(sl == need, "der serialize did not report the needed size"); free(small); }
            { unsigned char *exact = (unsigned char *)malloc(need); size_t el = need;
              VF_CHECK(secp256k1_ecdsa_signature_serialize_der(ctx, exact, &el, &sig) == 1 && el == need, "der serialize into exact buffer failed"); free(exact); }
            vf_nontrivial(data - 1, size + 1);
        } else { vf_class(3); if (size > 6 && in[0] == 0x30) vf_nontrivial(data - 1, size + 1); }
    } else if (sel == 2) {
        if (size >= 64) {
            secp256k1_ecdsa_signature sig; unsigned char out[64];
            if (secp256k1_ecdsa_signature_parse_compact(ctx, &sig, in)) {
                vf_class(4);
                secp256k1_ecdsa_signature_serialize_compact(ctx, out, &sig);
                VF_CHECK(memcmp(out, in, 64) == 0, "compact serialize(parse(b)) != b");
            } else {
                static const unsigned char z[64] = {0};
                vf_class(5);
                secp256k1_ecdsa_signature_serialize_compact(ctx, out, &sig);
                VF_CHECK(memcmp(out, z, 64) == 0, "rejected compact signature leaves a non-zero object");
                vf_nontrivial(data - 1, size + 1);
            }
        }
    } else {
        if (size >= 32) {
            secp256k1_xonly_pubkey xpk; unsigned char out[32];
            if (secp256k1_xonly_pubkey_parse(ctx, &xpk, in)) {
                vf_class(6);
                VF_CHECK(secp256k1_xonly_pubkey_serialize(ctx, out, &xpk) == 1 && memcmp(out, in, 32) == 0, "xonly roundtrip");
            } else { vf_class(7); vf_nontrivial(data - 1, size + 1); }
        }
    }
    VF_CHECK(cb_count == 0, "illegal/error callback fired on untrusted bytes");
    free(in);
    return 0;
}
