/* E4 (C20): multi-thread workload runner, built with plain `clang -O1 -g -fsanitize=thread` (NO libFuzzer
 * instrumentation: its coverage counters are themselves racy).
 *
 *   tsan_harness <casefile>
 *
 * The case file (written by Hypothesis through vf/props/C20.py) is a whitespace separated list of unsigned integers:
 *
 *   nseeds  seed_0 .. seed_{nseeds-1}          input seeds of the probe battery (csrc/shim_C20.inc)
 *   ctxkind                                    0 = secp256k1_context_create, 1 = preallocated_create in caller memory
 *   nprep   (op arg) x nprep                   history applied to the shared context BEFORE the threads start:
 *                                              0 randomize(seed derived from arg)  1 randomize(NULL)  2 own SHA-256 compression on
 *                                              3 compression reset  4 replace by clone  5 replace by preallocated clone
 *   nthreads                                   2..16
 *   per thread: nops (family seedidx) x nops   each op runs one API family of the battery on ONE shared context
 *
 * Oracle: (1) ThreadSanitizer reports nothing (TSAN_OPTIONS=halt_on_error=1 exitcode=66), (2) every thread's record
 * stream for (family, seed) is byte-identical to the stream computed single-threaded on the same context before the
 * threads were started (golden), (3) no illegal/error callback fires.
 * Exit codes: 0 held, 3 output mismatch / callback, 66 TSan report, 2 bad case file (harness problem).
 */
#include <stdio.h>
#include <stdlib.h>
#include <string.h>
#include <stdint.h>
#include <pthread.h>

#include "src/secp256k1.c"

#define VF_EXPORT
#define VF_C20_NO_EXPORTS
static __thread long vf_illegal_count = 0;
static __thread long vf_error_count = 0;
static void vf_illegal_cb(const char *msg, void *data) { (void)msg; (void)data; vf_illegal_count++; }
static void vf_error_cb(const char *msg, void *data) { (void)msg; (void)data; vf_error_count++; }

#include "shim_C20.inc"

/* independent FIPS 180-4 compression function without any shared state (the "replaced but correct" implementation) */
static uint32_t th_ror(uint32_t x, int n) { return (x >> n) | (x << (32 - n)); }
static const uint32_t th_K[64] = {
0x428a2f98,0x71374491,0xb5c0fbcf,0xe9b5dba5,0x3956c25b,0x59f111f1,0x923f82a4,0xab1c5ed5,0xd807aa98,0x12835b01,0x243185be,0x550c7dc3,0x72be5d74,0x80deb1fe,0x9bdc06a7,0xc19bf174,
0xe49b69c1,0xefbe4786,0x0fc19dc6,0x240ca1cc,0x2de92c6f,0x4a7484aa,0x5cb0a9dc,0x76f988da,0x983e5152,0xa831c66d,0xb00327c8,0xbf597fc7,0xc6e00bf3,0xd5a79147,0x06ca6351,0x14292967,
0x27b70a85,0x2e1b2138,0x4d2c6dfc,0x53380d13,0x650a7354,0x766a0abb,0x81c2c92e,0x92722c85,0xa2bfe8a1,0xa81a664b,0xc24b8b70,0xc76c51a3,0xd192e819,0xd6990624,0xf40e3585,0x106aa070,
0x19a4c116,0x1e376c08,0x2748774c,0x34b0bcb5,0x391c0cb3,0x4ed8aa4a,0x5b9cca4f,0x682e6ff3,0x748f82ee,0x78a5636f,0x84c87814,0x8cc70208,0x90befffa,0xa4506ceb,0xbef9a3f7,0xc67178f2};
static void th_sha256_compress(uint32_t *s, const unsigned char *blocks, size_t n_blocks) {
    size_t bl;
    for (bl = 0; bl < n_blocks; bl++) {
        const unsigned char *p = blocks + 64 * bl;
        uint32_t w[64], a[8], t1, t2; int i;
        for (i = 0; i < 16; i++) w[i] = ((uint32_t)p[4*i] << 24) | ((uint32_t)p[4*i+1] << 16) | ((uint32_t)p[4*i+2] << 8) | p[4*i+3];
        for (i = 16; i < 64; i++) {
            uint32_t s0 = th_ror(w[i-15], 7) ^ th_ror(w[i-15], 18) ^ (w[i-15] >> 3);
            uint32_t s1 = th_ror(w[i-2], 17) ^ th_ror(w[i-2], 19) ^ (w[i-2] >> 10);
            w[i] = w[i-16] + s0 + w[i-7] + s1;
        }
        for (i = 0; i < 8; i++) a[i] = s[i];
        for (i = 0; i < 64; i++) {
            uint32_t S1 = th_ror(a[4], 6) ^ th_ror(a[4], 11) ^ th_ror(a[4], 25);
            uint32_t ch = (a[4] & a[5]) ^ (~a[4] & a[6]);
            uint32_t S0 = th_ror(a[0], 2) ^ th_ror(a[0], 13) ^ th_ror(a[0], 22);
            uint32_t mj = (a[0] & a[1]) ^ (a[0] & a[2]) ^ (a[1] & a[2]);
            t1 = a[7] + S1 + ch + th_K[i] + w[i];
            t2 = S0 + mj;
            a[7] = a[6]; a[6] = a[5]; a[5] = a[4]; a[4] = a[3] + t1; a[3] = a[2]; a[2] = a[1]; a[1] = a[0]; a[0] = t1 + t2;
        }
        for (i = 0; i < 8; i++) s[i] += a[i];
    }
}

#define MAXSEEDS 8
#define MAXTHREADS 16
#define MAXOPS 64
#define BUFSZ (1u << 17)

typedef struct { int fam, sidx; } th_op;
typedef struct {
    int index, nops;
    th_op ops[MAXOPS];
    int bad_op;            /* -1 = all fine */
    long bad_len, callbacks;
} th_prog;

static const secp256k1_context *g_ctx;
static uint64_t g_seeds[MAXSEEDS];
static unsigned char *g_golden[VF_C20_NFAM][MAXSEEDS];
static long g_golden_len[VF_C20_NFAM][MAXSEEDS];
static pthread_barrier_t g_barrier;

static void *th_main(void *arg) {
    th_prog *p = (th_prog *)arg;
    unsigned char *buf = (unsigned char *)malloc(BUFSZ);
    int i;
    p->bad_op = -1;
    pthread_barrier_wait(&g_barrier);
    for (i = 0; i < p->nops && buf != NULL; i++) {
        int f = p->ops[i].fam, s = p->ops[i].sidx;
        long n = vf_c20_battery(g_ctx, g_ctx, g_seeds[s], 1u << f, buf, BUFSZ);
        if (n != g_golden_len[f][s] || n < 0 || memcmp(buf, g_golden[f][s], (size_t)n) != 0) {
            if (p->bad_op < 0) { p->bad_op = i; p->bad_len = n; }
        }
    }
    p->callbacks = vf_illegal_count + vf_error_count;
    free(buf);
    return NULL;
}

static int rd(FILE *f, unsigned long long *v) { return fscanf(f, "%llu", v) == 1; }
#define RD(v) do { if (!rd(f, &(v))) { fprintf(stderr, "tsan_harness: truncated case file\n"); return 2; } } while (0)

int main(int argc, char **argv) {
    FILE *f;
    unsigned long long v, nseeds, ctxkind, nprep, nthreads;
    static th_prog progs[MAXTHREADS];
    pthread_t tids[MAXTHREADS];
    secp256k1_context *ctx;
    void *mem[64];
    int nmem = 0, i, j, rc = 0;
    long total_ops = 0;
    if (argc < 2 || (f = fopen(argv[1], "r")) == NULL) { fprintf(stderr, "usage: tsan_harness <casefile>\n"); return 2; }
    RD(nseeds);
    if (nseeds < 1 || nseeds > MAXSEEDS) return 2;
    for (i = 0; i < (int)nseeds; i++) { RD(v); g_seeds[i] = (uint64_t)v; }
    RD(ctxkind);
    if (ctxkind == 0) {
        ctx = secp256k1_context_create(SECP256K1_CONTEXT_NONE);
    } else {
        mem[nmem] = malloc(secp256k1_context_preallocated_size(SECP256K1_CONTEXT_NONE));
        ctx = secp256k1_context_preallocated_create(mem[nmem++], SECP256K1_CONTEXT_NONE);
    }
    if (ctx == NULL) return 2;
    secp256k1_context_set_illegal_callback(ctx, vf_illegal_cb, NULL);
    secp256k1_context_set_error_callback(ctx, vf_error_cb, NULL);
    RD(nprep);
    if (nprep > 40) return 2;
    for (i = 0; i < (int)nprep; i++) {
        unsigned long long op, arg;
        RD(op); RD(arg);
        if (op == 0) {
            unsigned char seed32[32];
            uint64_t s = (uint64_t)arg;
            if (arg < 4) { memset(seed32, arg == 0 ? 0x00 : arg == 1 ? 0xFF : arg == 2 ? 0x80 : 0x01, 32); }
            else for (j = 0; j < 32; j += 8) { uint64_t z = vf_c20_mix(&s); memcpy(seed32 + j, &z, 8); }
            if (!secp256k1_context_randomize(ctx, seed32)) { fprintf(stderr, "MISMATCH randomize returned 0\n"); return 3; }
        } else if (op == 1) {
            if (!secp256k1_context_randomize(ctx, NULL)) { fprintf(stderr, "MISMATCH randomize(NULL) returned 0\n"); return 3; }
        } else if (op == 2) {
            secp256k1_context_set_sha256_compression(ctx, th_sha256_compress);
        } else if (op == 3) {
            secp256k1_context_set_sha256_compression(ctx, NULL);
        } else if (op == 4) {
            /* the original stays alive (destroying it is part of the E1 history machine, not of this runner) */
            secp256k1_context *c2 = secp256k1_context_clone(ctx);
            if (c2 == NULL) return 2;
            ctx = c2;
        } else if (op == 5 && nmem < 64) {
            secp256k1_context *c2;
            mem[nmem] = malloc(secp256k1_context_preallocated_clone_size(ctx));
            c2 = secp256k1_context_preallocated_clone(ctx, mem[nmem++]);
            if (c2 == NULL) return 2;
            ctx = c2;
        }
    }
    g_ctx = ctx;
    RD(nthreads);
    if (nthreads < 1 || nthreads > MAXTHREADS) return 2;
    for (i = 0; i < (int)nthreads; i++) {
        unsigned long long nops;
        RD(nops);
        if (nops > MAXOPS) return 2;
        progs[i].index = i; progs[i].nops = (int)nops;
        for (j = 0; j < (int)nops; j++) {
            unsigned long long fam, sidx;
            RD(fam); RD(sidx);
            if (fam >= VF_C20_NFAM || sidx >= nseeds) return 2;
            progs[i].ops[j].fam = (int)fam; progs[i].ops[j].sidx = (int)sidx;
            total_ops++;
            if (g_golden[fam][sidx] == NULL) {
                g_golden[fam][sidx] = (unsigned char *)malloc(BUFSZ);
                g_golden_len[fam][sidx] = vf_c20_battery(ctx, ctx, g_seeds[sidx], 1u << fam, g_golden[fam][sidx], BUFSZ);
                if (g_golden_len[fam][sidx] < 0) { fprintf(stderr, "tsan_harness: golden overflow\n"); return 2; }
            }
        }
    }
    fclose(f);
    if (vf_illegal_count + vf_error_count != 0) { fprintf(stderr, "MISMATCH callbacks fired while computing golden outputs\n"); return 3; }
    pthread_barrier_init(&g_barrier, NULL, (unsigned)nthreads);
    for (i = 0; i < (int)nthreads; i++) {
        if (pthread_create(&tids[i], NULL, th_main, &progs[i]) != 0) { fprintf(stderr, "tsan_harness: pthread_create failed\n"); return 2; }
    }
    for (i = 0; i < (int)nthreads; i++) pthread_join(tids[i], NULL);
    for (i = 0; i < (int)nthreads; i++) {
        if (progs[i].bad_op >= 0) {
            fprintf(stderr, "MISMATCH thread %d op %d family %d seedidx %d: output differs from the single-thread golden output (len %ld)\n",
                    i, progs[i].bad_op, progs[i].ops[progs[i].bad_op].fam, progs[i].ops[progs[i].bad_op].sidx, progs[i].bad_len);
            rc = 3;
        }
        if (progs[i].callbacks != 0) { fprintf(stderr, "MISMATCH thread %d: %ld illegal/error callbacks fired\n", i, progs[i].callbacks); rc = 3; }
    }
    if (rc == 0) printf("OK threads=%d ops=%ld\n", (int)nthreads, total_ops);
    return rc;
}
