/* Common helpers for libFuzzer targets (engine E2).
 *
 * - vf_class(i): count a case class;  names are given once via VF_CLASS_NAMES
 * - vf_nontrivial(data,size): mark the current input non-trivial; distinct inputs are counted with a
 *   linear-counting bitmap (2^26 bits).  popcount(OR over workers) is a LOWER bound of the number of
 *   distinct non-trivial inputs (collisions only merge), which is what the evidence reports.
 * - vf_fail(msg): semantic-oracle failure: flush counters, print the message, trap (libFuzzer then
 *   writes the crash-<sha1> artifact, which is the replay file).
 * - counters are flushed to $VF_COUNTERS every 4096 executions and at exit.
 */
#ifndef VF_FUZZ_COMMON_H
#define VF_FUZZ_COMMON_H
#include <stdint.h>
#include <stdio.h>
#include <stdlib.h>
#include <string.h>

#define VF_MAX_CLASSES 256
#define VF_BITMAP_BITS (1u << 26)
static uint64_t vf_class_count[VF_MAX_CLASSES];
static uint64_t vf_execs = 0, vf_nt_execs = 0;
static unsigned char *vf_bitmap = NULL;
static const char *vf_counters_path = NULL;
static int vf_samples_written = 0;
static uint64_t vf_known_excluded;
extern const char *const VF_CLASS_NAMES[];
extern const int VF_N_CLASSES;

static uint64_t vf_fnv(const uint8_t *d, size_t n) {
    uint64_t h = 1469598103934665603ULL; size_t i;
    for (i = 0; i < n; i++) { h ^= d[i]; h *= 1099511628211ULL; }
    h ^= h >> 29; h *= 0xbf58476d1ce4e5b9ULL; h ^= h >> 32;
    return h;
}

static void vf_flush(void) {
    FILE *f; int i; char tmp[1200];
    if (!vf_counters_path) return;
    snprintf(tmp, sizeof tmp, "%s.tmp", vf_counters_path);
    f = fopen(tmp, "w");
    if (!f) return;
    fprintf(f, "execs %llu\nnontrivial_execs %llu\nknown_excluded %llu\n", (unsigned long long)vf_execs, (unsigned long long)vf_nt_execs, (unsigned long long)vf_known_excluded);
    for (i = 0; i < VF_N_CLASSES && i < VF_MAX_CLASSES; i++) fprintf(f, "class %s %llu\n", VF_CLASS_NAMES[i], (unsigned long long)vf_class_count[i]);
    fclose(f);
    rename(tmp, vf_counters_path);
    if (vf_bitmap) {
        snprintf(tmp, sizeof tmp, "%s.bitmap", vf_counters_path);
        f = fopen(tmp, "wb");
        if (f) { fwrite(vf_bitmap, 1, VF_BITMAP_BITS / 8, f); fclose(f); }
    }
}

static void vf_flush_light(void) {
    /* counters only (no bitmap) */
    unsigned char *b = vf_bitmap; vf_bitmap = NULL; vf_flush(); vf_bitmap = b;
}

static void vf_begin(void) {
    static int init = 0;
    if (!init) {
        init = 1;
        vf_counters_path = getenv("VF_COUNTERS");
        if (vf_counters_path && !vf_counters_path[0]) vf_counters_path = NULL;
        vf_bitmap = (unsigned char *)calloc(VF_BITMAP_BITS / 8, 1);
        atexit(vf_flush);
    }
    vf_execs++;
    if ((vf_execs & 0xFFF) == 0) vf_flush_light();
}

static void vf_class(int i) { if (i >= 0 && i < VF_MAX_CLASSES) vf_class_count[i]++; }

static void vf_nontrivial(const uint8_t *data, size_t size) {
    uint64_t h = vf_fnv(data, size);
    vf_nt_execs++;
    if (vf_bitmap) vf_bitmap[(h % VF_BITMAP_BITS) >> 3] |= (unsigned char)(1u << (h & 7));
    if (vf_counters_path && vf_samples_written < 6 && (vf_nt_execs == 1 || (vf_nt_execs % 50021) == 0)) {
        char p[1200]; FILE *f; size_t i;
        snprintf(p, sizeof p, "%s.samples", vf_counters_path);
        f = fopen(p, "a");
        if (f) { for (i = 0; i < size && i < 600; i++) fprintf(f, "%02x", data[i]); fprintf(f, "\n"); fclose(f); vf_samples_written++; }
    }
}

static void vf_fail(const char *msg) {
    fprintf(stderr, "VF-ORACLE-FAILURE: %s\n", msg);
    fflush(stderr);
    vf_flush();
    __builtin_trap();
}
/* open known findings (signatures separated by ';' in $VF_KNOWN_OPEN): a target excludes such an input class by
 * construction:  if (bad) { if (vf_known("api: class")) return 0; vf_fail("..."); } */
static int vf_known(const char *sig) {
    const char *k = getenv("VF_KNOWN_OPEN"); size_t n = strlen(sig);
    while (k && *k) {
        const char *e = strchr(k, ';'); size_t l = e ? (size_t)(e - k) : strlen(k);
        if (l == n && memcmp(k, sig, n) == 0) { vf_known_excluded++; return 1; }
        k = e ? e + 1 : NULL;
    }
    return 0;
}
#define VF_CHECK(cond, msg) do { if (!(cond)) vf_fail(msg); } while (0)

/* structured consumption of the fuzz input: integrals from the END, bytes from the FRONT */
typedef struct { const uint8_t *p; size_t n; } vf_in;
static uint32_t vf_u(vf_in *in, int nbytes) { uint32_t v = 0; while (nbytes-- > 0 && in->n > 0) { v = (v << 8) | in->p[--in->n]; } return v; }
static uint32_t vf_range(vf_in *in, uint32_t lo, uint32_t hi) { uint32_t span = hi - lo + 1; return lo + (span ? vf_u(in, span <= 256 ? 1 : (span <= 65536 ? 2 : 4)) % span : 0); }
static size_t vf_take(vf_in *in, uint8_t *out, size_t want) { size_t k = want < in->n ? want : in->n; memcpy(out, in->p, k); if (k < want) memset(out + k, 0, want - k); in->p += k; in->n -= k; return k; }
#endif
