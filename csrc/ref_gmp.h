/* GMP reference arithmetic for secp256k1 (oracle side of the C05 fuzz target).
 *
 * Everything is textbook: integers mod p / mod n as mpz_t, curve points in AFFINE coordinates with an explicit
 * infinity flag, chord-and-tangent addition (one modular inversion per operation), left-to-right double-and-add.
 * Constants are the SEC 2 domain parameters; lambda/beta are checked algebraically by rg_selftest().
 * No code is shared with the library.
 */
#ifndef VF_REF_GMP_H
#define VF_REF_GMP_H
#include <gmp.h>
#include <stdint.h>
#include <string.h>

static mpz_t RG_P, RG_N, RG_GX, RG_GY, RG_LAMBDA, RG_BETA, RG_PP14, RG_2_256, RG_HALF_N;
static mpz_t rg_t1, rg_t2, rg_t3, rg_t4;   /* scratch (the target is single threaded) */
static int rg_ready = 0;

typedef struct { mpz_t x, y; int inf; } rg_pt;

static void rg_pt_init(rg_pt *p) { mpz_init(p->x); mpz_init(p->y); p->inf = 1; }
static void rg_pt_clear(rg_pt *p) { mpz_clear(p->x); mpz_clear(p->y); }
static void rg_pt_set(rg_pt *r, const rg_pt *a) { mpz_set(r->x, a->x); mpz_set(r->y, a->y); r->inf = a->inf; }
static void rg_pt_set_inf(rg_pt *r) { mpz_set_ui(r->x, 0); mpz_set_ui(r->y, 0); r->inf = 1; }
static int rg_pt_eq(const rg_pt *a, const rg_pt *b) {
    if (a->inf || b->inf) return a->inf && b->inf;
    return mpz_cmp(a->x, b->x) == 0 && mpz_cmp(a->y, b->y) == 0;
}

static rg_pt RG_G;

static void rg_init(void) {
    if (rg_ready) return;
    rg_ready = 1;
    mpz_init_set_str(RG_P, "FFFFFFFFFFFFFFFFFFFFFFFFFFFFFFFFFFFFFFFFFFFFFFFFFFFFFFFEFFFFFC2F", 16);
    mpz_init_set_str(RG_N, "FFFFFFFFFFFFFFFFFFFFFFFFFFFFFFFEBAAEDCE6AF48A03BBFD25E8CD0364141", 16);
    mpz_init_set_str(RG_GX, "79BE667EF9DCBBAC55A06295CE870B07029BFCDB2DCE28D959F2815B16F81798", 16);
    mpz_init_set_str(RG_GY, "483ADA7726A3C4655DA4FBFC0E1108A8FD17B448A68554199C47D08FFB10D4B8", 16);
    mpz_init_set_str(RG_LAMBDA, "5363AD4CC05C30E0A5261C028812645A122E22EA20816678DF02967C1B23BD72", 16);
    mpz_init_set_str(RG_BETA, "7AE96A2B657C07106E64479EAC3434E99CF0497512F58995C1396C28719501EE", 16);
    mpz_init(RG_PP14); mpz_add_ui(RG_PP14, RG_P, 1); mpz_fdiv_q_2exp(RG_PP14, RG_PP14, 2);
    mpz_init(RG_2_256); mpz_ui_pow_ui(RG_2_256, 2, 256);
    mpz_init(RG_HALF_N); mpz_fdiv_q_2exp(RG_HALF_N, RG_N, 1);          /* (n-1)/2 */
    mpz_init(rg_t1); mpz_init(rg_t2); mpz_init(rg_t3); mpz_init(rg_t4);
    rg_pt_init(&RG_G); mpz_set(RG_G.x, RG_GX); mpz_set(RG_G.y, RG_GY); RG_G.inf = 0;
}

/* ---- bytes <-> integers (32-byte big endian) */
static void rg_from_b32(mpz_t r, const uint8_t *b) { mpz_import(r, 32, 1, 1, 1, 0, b); }
/* value must be < 2^256 */
static void rg_to_b32(uint8_t *b, const mpz_t v) {
    size_t cnt = 0; uint8_t tmp[40];
    memset(b, 0, 32);
    if (mpz_sgn(v) == 0) return;
    mpz_export(tmp, &cnt, 1, 1, 1, 0, v);
    if (cnt > 32) { memset(b, 0xEE, 32); return; }        /* cannot happen for reduced values; makes a mismatch certain */
    memcpy(b + 32 - cnt, tmp, cnt);
}
static void rg_from_u64(mpz_t r, uint64_t v) { mpz_set_ui(r, (unsigned long)(v >> 32)); mpz_mul_2exp(r, r, 32); mpz_add_ui(r, r, (unsigned long)(v & 0xFFFFFFFFu)); }

/* ---- field */
static void rg_fmod(mpz_t r) { mpz_mod(r, r, RG_P); }
static void rg_fmul(mpz_t r, const mpz_t a, const mpz_t b) { mpz_mul(r, a, b); mpz_mod(r, r, RG_P); }
static void rg_finv(mpz_t r, const mpz_t a) { if (mpz_sgn(a) == 0) mpz_set_ui(r, 0); else mpz_invert(r, a, RG_P); }
/* 1 if a is a square mod p (0 counts as a square) */
static int rg_fis_square(const mpz_t a) { return mpz_sgn(a) == 0 || mpz_jacobi(a, RG_P) == 1; }
/* r = the square root of a (if a is a square, returns 1) or of -a (otherwise, returns 0) that is ITSELF a square.
 * p = 3 mod 4, so exactly one of a, -a is a square (a != 0) and exactly one of the two roots is a square. */
static int rg_fsqrt(mpz_t r, const mpz_t a) {
    int sq = rg_fis_square(a);
    mpz_t t; mpz_init(t);
    if (sq) mpz_set(t, a); else { mpz_sub(t, RG_P, a); }
    mpz_powm(r, t, RG_PP14, RG_P);
    if (!rg_fis_square(r)) { mpz_sub(r, RG_P, r); }
    mpz_clear(t);
    return sq;
}
/* x^3 + 7 */
static void rg_curve_rhs(mpz_t r, const mpz_t x) { mpz_powm_ui(r, x, 3, RG_P); mpz_add_ui(r, r, 7); mpz_mod(r, r, RG_P); }
static int rg_on_curve(const rg_pt *p) {
    int ok;
    if (p->inf) return 1;
    rg_curve_rhs(rg_t1, p->x); mpz_mul(rg_t2, p->y, p->y); mpz_mod(rg_t2, rg_t2, RG_P);
    ok = mpz_cmp(rg_t1, rg_t2) == 0;
    return ok;
}

/* ---- group law, affine */
static void rg_pt_neg(rg_pt *r, const rg_pt *a) {
    rg_pt_set(r, a);
    if (!r->inf && mpz_sgn(r->y) != 0) mpz_sub(r->y, RG_P, r->y);
}
static void rg_pt_dbl(rg_pt *r, const rg_pt *a) {
    if (a->inf || mpz_sgn(a->y) == 0) { rg_pt_set_inf(r); return; }
    /* l = 3x^2 / 2y */
    mpz_mul(rg_t1, a->x, a->x); mpz_mul_ui(rg_t1, rg_t1, 3);
    mpz_mul_2exp(rg_t2, a->y, 1); mpz_invert(rg_t2, rg_t2, RG_P);
    mpz_mul(rg_t1, rg_t1, rg_t2); mpz_mod(rg_t1, rg_t1, RG_P);
    mpz_mul(rg_t2, rg_t1, rg_t1); mpz_sub(rg_t2, rg_t2, a->x); mpz_sub(rg_t2, rg_t2, a->x); mpz_mod(rg_t2, rg_t2, RG_P);   /* x3 */
    mpz_sub(rg_t3, a->x, rg_t2); mpz_mul(rg_t3, rg_t3, rg_t1); mpz_sub(rg_t3, rg_t3, a->y); mpz_mod(rg_t3, rg_t3, RG_P);    /* y3 */
    mpz_set(r->x, rg_t2); mpz_set(r->y, rg_t3); r->inf = 0;
}
static void rg_pt_add(rg_pt *r, const rg_pt *a, const rg_pt *b) {
    if (a->inf) { rg_pt_set(r, b); return; }
    if (b->inf) { rg_pt_set(r, a); return; }
    if (mpz_cmp(a->x, b->x) == 0) {
        if (mpz_cmp(a->y, b->y) == 0) rg_pt_dbl(r, a); else rg_pt_set_inf(r);
        return;
    }
    mpz_sub(rg_t1, b->y, a->y); mpz_sub(rg_t2, b->x, a->x); mpz_mod(rg_t2, rg_t2, RG_P); mpz_invert(rg_t2, rg_t2, RG_P);
    mpz_mul(rg_t1, rg_t1, rg_t2); mpz_mod(rg_t1, rg_t1, RG_P);                                                             /* l */
    mpz_mul(rg_t2, rg_t1, rg_t1); mpz_sub(rg_t2, rg_t2, a->x); mpz_sub(rg_t2, rg_t2, b->x); mpz_mod(rg_t2, rg_t2, RG_P);   /* x3 */
    mpz_sub(rg_t3, a->x, rg_t2); mpz_mul(rg_t3, rg_t3, rg_t1); mpz_sub(rg_t3, rg_t3, a->y); mpz_mod(rg_t3, rg_t3, RG_P);    /* y3 */
    mpz_set(r->x, rg_t2); mpz_set(r->y, rg_t3); r->inf = 0;
}
/* r = k*a, k any non-negative integer (not reduced: the result is the same) */
static void rg_pt_mul(rg_pt *r, const mpz_t k, const rg_pt *a) {
    rg_pt acc, base; long i;
    rg_pt_init(&acc); rg_pt_init(&base); rg_pt_set(&base, a);
    for (i = (long)mpz_sizeinbase(k, 2) - 1; i >= 0; i--) {
        rg_pt_dbl(&acc, &acc);
        if (mpz_tstbit(k, (mp_bitcnt_t)i)) rg_pt_add(&acc, &acc, &base);
    }
    rg_pt_set(r, &acc);
    rg_pt_clear(&acc); rg_pt_clear(&base);
}
static void rg_pt_mulg(rg_pt *r, const mpz_t k) { rg_pt_mul(r, k, &RG_G); }
/* lift x: returns 0 if x^3+7 is not a square; else y is the root with the given parity (odd = 0/1) or, if odd < 0, the root that is a square */
static int rg_pt_lift(rg_pt *r, const mpz_t x, int odd) {
    mpz_t c; int sq;
    mpz_init(c); rg_curve_rhs(c, x);
    sq = rg_fis_square(c);
    if (sq) {
        mpz_set(r->x, x); mpz_mod(r->x, r->x, RG_P);
        rg_fsqrt(r->y, c);
        if (odd >= 0 && (int)mpz_odd_p(r->y) != (odd != 0) && mpz_sgn(r->y) != 0) mpz_sub(r->y, RG_P, r->y);
        r->inf = 0;
    }
    mpz_clear(c);
    return sq;
}


/* square root modulo an odd prime m (Tonelli-Shanks, textbook); returns 0 if a is a non-residue */
static int rg_sqrtm(mpz_t r, const mpz_t a, const mpz_t m) {
    mpz_t q, z, c, t, b, x; unsigned long s = 0, i, k; int ok = 1;
    if (mpz_sgn(a) == 0) { mpz_set_ui(r, 0); return 1; }
    if (mpz_jacobi(a, m) != 1) return 0;
    mpz_init(q); mpz_init(z); mpz_init(c); mpz_init(t); mpz_init(b); mpz_init(x);
    mpz_sub_ui(q, m, 1);
    while (mpz_even_p(q)) { mpz_fdiv_q_2exp(q, q, 1); s++; }
    mpz_set_ui(z, 2);
    while (mpz_jacobi(z, m) != -1) mpz_add_ui(z, z, 1);
    mpz_powm(c, z, q, m);
    mpz_add_ui(t, q, 1); mpz_fdiv_q_2exp(t, t, 1); mpz_powm(x, a, t, m);       /* x = a^((q+1)/2) */
    mpz_powm(t, a, q, m);                                                       /* t = a^q */
    k = s;
    while (mpz_cmp_ui(t, 1) != 0) {
        mpz_set(b, t);
        for (i = 0; i < k && mpz_cmp_ui(b, 1) != 0; i++) { mpz_mul(b, b, b); mpz_mod(b, b, m); }
        if (i >= k) { ok = 0; break; }
        mpz_set(b, c);
        { unsigned long j; for (j = 0; j + i + 1 < k; j++) { mpz_mul(b, b, b); mpz_mod(b, b, m); } }
        mpz_mul(x, x, b); mpz_mod(x, x, m);
        mpz_mul(c, b, b); mpz_mod(c, c, m);
        mpz_mul(t, t, c); mpz_mod(t, t, m);
        k = i;
    }
    if (ok) { mpz_mul(t, x, x); mpz_mod(t, t, m); mpz_mod(b, a, m); ok = mpz_cmp(t, b) == 0; }
    if (ok) mpz_set(r, x);
    mpz_clear(q); mpz_clear(z); mpz_clear(c); mpz_clear(t); mpz_clear(b); mpz_clear(x);
    return ok;
}

/* Algebraic self test: returns 0 or the number of the failing identity */
static int rg_selftest(void) {
    rg_pt a, b, c; mpz_t k; int bad = 0;
    rg_init();
    rg_pt_init(&a); rg_pt_init(&b); rg_pt_init(&c); mpz_init(k);
    if (!rg_on_curve(&RG_G)) bad = 1;
    /* 2G from SEC 2 test data */
    rg_pt_dbl(&a, &RG_G);
    mpz_set_str(k, "C6047F9441ED7D6D3045406E95C07CD85C778E4B8CEF3CA7ABAC09B95C709EE5", 16);
    if (!bad && mpz_cmp(a.x, k) != 0) bad = 2;
    mpz_set_str(k, "1AE168FEA63DC339A3C58419466CEAEEF7F632653266D0E1236431A950CFE52A", 16);
    if (!bad && mpz_cmp(a.y, k) != 0) bad = 3;
    /* n*G = infinity, (n-1)*G = -G */
    rg_pt_mulg(&a, RG_N); if (!bad && !a.inf) bad = 4;
    mpz_sub_ui(k, RG_N, 1); rg_pt_mulg(&a, k); rg_pt_neg(&b, &RG_G); if (!bad && !rg_pt_eq(&a, &b)) bad = 5;
    /* lambda*(x,y) = (beta*x, y); lambda^3 = 1 mod n; beta^3 = 1 mod p */
    rg_pt_mulg(&a, RG_LAMBDA); rg_fmul(k, RG_BETA, RG_GX);
    if (!bad && (a.inf || mpz_cmp(a.x, k) != 0 || mpz_cmp(a.y, RG_GY) != 0)) bad = 6;
    mpz_powm_ui(k, RG_LAMBDA, 3, RG_N); if (!bad && mpz_cmp_ui(k, 1) != 0) bad = 7;
    mpz_powm_ui(k, RG_BETA, 3, RG_P); if (!bad && mpz_cmp_ui(k, 1) != 0) bad = 8;
    /* (a+b)G = aG + bG, P + (-P) = inf, P + inf = P */
    mpz_set_str(k, "123456789ABCDEF0FEDCBA9876543210", 16); rg_pt_mulg(&a, k);
    mpz_add_ui(k, k, 77); rg_pt_mulg(&b, k); mpz_set_ui(k, 77); rg_pt_mulg(&c, k); rg_pt_add(&c, &c, &a);
    if (!bad && !rg_pt_eq(&b, &c)) bad = 9;
    rg_pt_neg(&c, &a); rg_pt_add(&c, &c, &a); if (!bad && !c.inf) bad = 10;
    rg_pt_set_inf(&c); rg_pt_add(&c, &a, &c); if (!bad && !rg_pt_eq(&c, &a)) bad = 11;
    if (!bad && (!rg_on_curve(&a) || !rg_on_curve(&b))) bad = 12;
    /* sqrt */
    {
        mpz_t m; int ret; mpz_init(m);
        mpz_set_ui(k, 4); ret = rg_fsqrt(m, k); rg_fmul(k, m, m);
        if (!bad && (ret != 1 || mpz_cmp_ui(k, 4) != 0 || !rg_fis_square(m))) bad = 13;
        mpz_sub_ui(k, RG_P, 4); ret = rg_fsqrt(m, k); rg_fmul(k, m, m);        /* -4 is a non-residue: root of +4 is returned, flag 0 */
        if (!bad && (ret != 0 || mpz_cmp_ui(k, 4) != 0 || !rg_fis_square(m))) bad = 14;
        mpz_clear(m);
    }
    {   /* sqrt mod n of 9 and of (n-5)^2; a non-residue is refused */
        mpz_t m; mpz_init(m);
        mpz_set_ui(k, 9); if (!bad && (!rg_sqrtm(m, k, RG_N) || (mpz_cmp_ui(m, 3) != 0 && (mpz_add_ui(m, m, 3), mpz_cmp(m, RG_N) != 0)))) bad = 15;
        mpz_set_ui(k, 2); while (mpz_jacobi(k, RG_N) != -1) mpz_add_ui(k, k, 1);
        if (!bad && rg_sqrtm(m, k, RG_N)) bad = 16;
        mpz_clear(m);
    }
    rg_pt_clear(&a); rg_pt_clear(&b); rg_pt_clear(&c); mpz_clear(k);
    return bad;
}
#endif
