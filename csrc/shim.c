/* E1 shim: the library's single translation unit plus thin exported wrappers.
 *
 * Built by vf/build.py from /repo's CURRENT working tree on every check invocation
 * (content-addressed cache).  Nothing here changes library behaviour: malloc/free are
 * macro-interposed only to count allocations, and the wrappers expose `static` internals
 * to ctypes.
 */
#include <stdlib.h>
#include <string.h>
#include <stdint.h>
#include <stdio.h>

static long vf_alloc_count = 0;   /* number of malloc calls */
static long vf_alloc_live = 0;    /* malloc - free */
static void *vf_malloc(size_t n) { void *p = malloc(n); if (p) { vf_alloc_count++; vf_alloc_live++; } return p; }
static void vf_free(void *p) { if (p) vf_alloc_live--; free(p); }
#define malloc(n) vf_malloc(n)
#define free(p) vf_free(p)

#ifdef VF_SMALL_ORDER
# define EXHAUSTIVE_TEST_ORDER VF_SMALL_ORDER
#endif

#include "src/secp256k1.c"

#ifdef VF_SMALL_ORDER
# include "src/ecmult_compute_table_impl.h"
# include "src/ecmult_gen_compute_table_impl.h"
#endif

#undef malloc
#undef free

#define VF_EXPORT __attribute__((visibility("default")))

/* ------------------------------------------------------------------ bookkeeping */
static long vf_illegal_count = 0;
static long vf_error_count = 0;
static char vf_last_cb_msg[256];
static void vf_illegal_cb(const char *msg, void *data) { (void)data; vf_illegal_count++; strncpy(vf_last_cb_msg, msg ? msg : "", 255); }
static void vf_error_cb(const char *msg, void *data) { (void)data; vf_error_count++; strncpy(vf_last_cb_msg, msg ? msg : "", 255); }

VF_EXPORT long vf_get_illegal(void) { return vf_illegal_count; }
VF_EXPORT long vf_get_error(void) { return vf_error_count; }
VF_EXPORT const char *vf_get_cb_msg(void) { return vf_last_cb_msg; }
VF_EXPORT void vf_reset_counters(void) { vf_illegal_count = 0; vf_error_count = 0; vf_last_cb_msg[0] = 0; }
VF_EXPORT long vf_get_alloc_count(void) { return vf_alloc_count; }
VF_EXPORT long vf_get_alloc_live(void) { return vf_alloc_live; }

VF_EXPORT void vf_install_callbacks(secp256k1_context *ctx) {
    secp256k1_context_set_illegal_callback(ctx, vf_illegal_cb, NULL);
    secp256k1_context_set_error_callback(ctx, vf_error_cb, NULL);
}

/* One-time initialisation.  For the small-group builds the precomputed tables have to be
 * computed at run time (the shipped ones are for the real generator). */
VF_EXPORT int vf_init(void) {
#ifdef VF_SMALL_ORDER
    static int done = 0;
    if (!done) {
        secp256k1_ecmult_gen_compute_table((secp256k1_ge_storage *)&secp256k1_ecmult_gen_prec_table[0][0], &secp256k1_ge_const_g, COMB_BLOCKS, COMB_TEETH, COMB_SPACING);
        secp256k1_ecmult_compute_two_tables((secp256k1_ge_storage *)secp256k1_pre_g, (secp256k1_ge_storage *)secp256k1_pre_g_128, WINDOW_G, &secp256k1_ge_const_g);
        done = 1;
    }
#endif
    return 1;
}

VF_EXPORT secp256k1_context *vf_ctx_new(void) {
    secp256k1_context *ctx;
    vf_init();
    ctx = secp256k1_context_create(SECP256K1_CONTEXT_NONE);
    vf_install_callbacks(ctx);
    return ctx;
}

VF_EXPORT const secp256k1_context *vf_ctx_static(void) { return secp256k1_context_static; }

VF_EXPORT int vf_config(char *out, size_t n) {
    snprintf(out, n, "widemul=%s asm=%d window=%d comb=%dx%d verify=%d order=%s",
#if defined(SECP256K1_WIDEMUL_INT128)
# if defined(SECP256K1_INT128_NATIVE)
        "int128",
# else
        "int128_struct",
# endif
#else
        "int64",
#endif
#ifdef USE_ASM_X86_64
        1,
#else
        0,
#endif
        ECMULT_WINDOW_SIZE, COMB_BLOCKS, COMB_TEETH,
#ifdef VERIFY
        1,
#else
        0,
#endif
#ifdef EXHAUSTIVE_TEST_ORDER
        "small"
#else
        "full"
#endif
    );
    return 1;
}

/* a correct SHA-256 compression function written independently of the library (FIPS 180-4),
 * used as the "replaced but correct" compression function of C15 / C20 */
static uint32_t vf_ror(uint32_t x, int n) { return (x >> n) | (x << (32 - n)); }
static const uint32_t vf_K[64] = {
0x428a2f98,0x71374491,0xb5c0fbcf,0xe9b5dba5,0x3956c25b,0x59f111f1,0x923f82a4,0xab1c5ed5,0xd807aa98,0x12835b01,0x243185be,0x550c7dc3,0x72be5d74,0x80deb1fe,0x9bdc06a7,0xc19bf174,
0xe49b69c1,0xefbe4786,0x0fc19dc6,0x240ca1cc,0x2de92c6f,0x4a7484aa,0x5cb0a9dc,0x76f988da,0x983e5152,0xa831c66d,0xb00327c8,0xbf597fc7,0xc6e00bf3,0xd5a79147,0x06ca6351,0x14292967,
0x27b70a85,0x2e1b2138,0x4d2c6dfc,0x53380d13,0x650a7354,0x766a0abb,0x81c2c92e,0x92722c85,0xa2bfe8a1,0xa81a664b,0xc24b8b70,0xc76c51a3,0xd192e819,0xd6990624,0xf40e3585,0x106aa070,
0x19a4c116,0x1e376c08,0x2748774c,0x34b0bcb5,0x391c0cb3,0x4ed8aa4a,0x5b9cca4f,0x682e6ff3,0x748f82ee,0x78a5636f,0x84c87814,0x8cc70208,0x90befffa,0xa4506ceb,0xbef9a3f7,0xc67178f2};
static long vf_compress_calls = 0;
static void vf_sha256_compress(uint32_t *s, const unsigned char *blocks, size_t n_blocks) {
    size_t b;
    for (b = 0; b < n_blocks; b++) {
        const unsigned char *p = blocks + 64 * b;
        uint32_t w[64], a[8], t1, t2; int i;
        vf_compress_calls++;
        for (i = 0; i < 16; i++) w[i] = ((uint32_t)p[4*i] << 24) | ((uint32_t)p[4*i+1] << 16) | ((uint32_t)p[4*i+2] << 8) | p[4*i+3];
        for (i = 16; i < 64; i++) {
            uint32_t s0 = vf_ror(w[i-15], 7) ^ vf_ror(w[i-15], 18) ^ (w[i-15] >> 3);
            uint32_t s1 = vf_ror(w[i-2], 17) ^ vf_ror(w[i-2], 19) ^ (w[i-2] >> 10);
            w[i] = w[i-16] + s0 + w[i-7] + s1;
        }
        for (i = 0; i < 8; i++) a[i] = s[i];
        for (i = 0; i < 64; i++) {
            uint32_t S1 = vf_ror(a[4], 6) ^ vf_ror(a[4], 11) ^ vf_ror(a[4], 25);
            uint32_t ch = (a[4] & a[5]) ^ (~a[4] & a[6]);
            uint32_t S0 = vf_ror(a[0], 2) ^ vf_ror(a[0], 13) ^ vf_ror(a[0], 22);
            uint32_t mj = (a[0] & a[1]) ^ (a[0] & a[2]) ^ (a[1] & a[2]);
            t1 = a[7] + S1 + ch + vf_K[i] + w[i];
            t2 = S0 + mj;
            a[7] = a[6]; a[6] = a[5]; a[5] = a[4]; a[4] = a[3] + t1; a[3] = a[2]; a[2] = a[1]; a[1] = a[0]; a[0] = t1 + t2;
        }
        for (i = 0; i < 8; i++) s[i] += a[i];
    }
}
VF_EXPORT void vf_ctx_set_own_sha256(secp256k1_context *ctx, int on) {
    secp256k1_context_set_sha256_compression(ctx, on ? vf_sha256_compress : NULL);
}
VF_EXPORT long vf_get_compress_calls(void) { return vf_compress_calls; }

#include "shim_internal.inc"
