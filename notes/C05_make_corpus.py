#!/usr/bin/env python3
"""Regenerates corpus/fuzz_arith/*: a few small structured seed inputs per sub-target of csrc/fuzz_arith.c.
Input layout: byte 0 selects the sub-target; integrals are consumed from the END (so they are written reversed), byte strings from the FRONT."""
import os, sys

OUT = os.path.join(os.path.dirname(os.path.abspath(__file__)), "..", "corpus", "fuzz_arith")


class Enc:
    def __init__(self, sel):
        self.sel, self.front, self.ints = sel, b"", []

    def u8(self, *vs):
        for v in vs:
            self.ints.append(v & 255)
        return self

    def u16(self, v):
        return self.u8(v >> 8, v)

    def u32(self, v):
        return self.u8(v >> 24, v >> 16, v >> 8, v)

    def raw(self, b):
        self.front += bytes(b)
        return self

    def named(self, idx):           # dec_u256: pattern family 0 (named constant idx)
        return self.u8(0 * 8 + 3, idx)

    def pow2(self, kind, k):        # family 1
        return self.u8(1 * 8 + 3, kind, k)

    def limbpat(self, w, kind, idx):  # family 2
        return self.u8(2 * 8 + 3, w, kind, idx)

    def rawval(self, b32):
        self.u8(0)
        return self.raw(b32)

    def bytes(self):
        return bytes([self.sel]) + self.front + bytes(reversed(self.ints))


def save(name, enc):
    with open(os.path.join(OUT, name), "wb") as f:
        f.write(enc.bytes())


os.makedirs(OUT, exist_ok=True)
F = dict(LOAD_MOD=0, LOAD_LIMIT=1, LOAD_BOUNDS=2, LOAD_RAW=3, LOAD_RAWNORM=5, LOAD_INT=6, ADD=7, ADD_INT=8, MUL_INT=9, NEGATE=10, MUL=11, SQR=12, HALF=13, CMOV=14,
         INV=15, INV_VAR=16, SQRT=17, IS_SQUARE=18, NORM=19, NORM_WEAK=20, NORM_VAR=21, NTZ=22, EQUAL=23, CMP=24, ZERO_ODD=25, STORAGE=26, GETB32=27, COPY=28)
# field 1: bounds(8) * (p-1), sqr, normalize, get_b32
e = Enc(0)
e.u8(F["LOAD_BOUNDS"], 0, 0, 8); e.u8(F["LOAD_MOD"], 1, 0).named(4 + 1)
e.u8(F["MUL"], 2, 0, 1); e.u8(F["SQR"], 3, 2, 0); e.u8(F["NORM"], 3, 0); e.u8(F["GETB32"], 0, 3); e.u8(F["INV"], 4, 3); e.u8(F["SQRT"], 5, 4)
save("fe_bounds_mul", e)
# field 2: raw limbs magnitude 31 (k odd -> ms[6] = 31), all limbs at the bound, negate, add, normalize variants, equal/cmp
e = Enc(0)
e.u8(F["LOAD_RAW"], 0, 0, (6 << 1) | 1, 1, 0)
e.u8(F["LOAD_RAW"], 1, 0, (0 << 1) | 1, 1, 0)
e.u8(F["ADD"], 0, 1); e.u8(F["NORM_VAR"], 0, 0); e.u8(F["NTZ"], 0, 0); e.u8(F["LOAD_RAWNORM"], 2, 0).named(4); e.u8(F["CMP"], 2, 0); e.u8(F["STORAGE"], 3, 2, 1)
save("fe_raw_mag31", e)
# field 3: magnitude-8 operands of mul from raw limbs, half, cmov, is_square
e = Enc(0)
e.u8(F["LOAD_RAW"], 0, 0, (4 << 1) | 1, 0, 0, 0, 1, 2, 3, 4, 5, 0, 0, 0, 0)
e.u8(F["LOAD_RAW"], 1, 0, (4 << 1) | 1, 2, 3, 5)
e.u8(F["MUL"], 2, 0, 1); e.u8(F["HALF"], 2, 0); e.u8(F["CMOV"], 3, 2, 1); e.u8(F["IS_SQUARE"], 0, 2); e.u8(F["NEGATE"], 4, 2, 3, 0); e.u8(F["MUL_INT"], 4, 0, 3); e.u8(F["EQUAL"], 4, 3)
save("fe_mul_mag8", e)

S = dict(LOAD=0, SECKEY=2, INT=3, U64=4, ADD=5, NEG=6, MUL=7, SQR=8, INV=9, INV_VAR=10, HALF=11, CNEG=12, PRED=13, EQ=14, CMOV=15, CADD=16, BITS32=17, BITSV=18,
         MULSHIFT=19, SPLITL=20, SPLIT128=21, COPY=22)
e = Enc(1)
e.u8(S["LOAD"], 0, 0, 0).named(9 + 1).u8(1)          # n-1
e.u8(S["LOAD"], 1, 0, 0).named(27).u8(1)             # lambda
e.u8(S["MUL"], 2, 0, 1); e.u8(S["ADD"], 3, 0, 0); e.u8(S["INV"], 4, 2, 0); e.u8(S["SPLITL"], 5, 2, 0); e.u8(S["PRED"], 0, 5, 0); e.u8(S["HALF"], 7, 3, 0)
save("sc_edge_mul_split", e)
e = Enc(1)
e.u8(S["LOAD"], 0, 0, 0).rawval(bytes(range(1, 33))).u8(0)
e.u8(S["LOAD"], 1, 0, 0).pow2(1, 127).u8(1)
e.u8(S["MULSHIFT"], 2, 0, 1).u16(128).u8(0); e.u8(S["BITSV"], 0, 2, 0, 30, 50); e.u8(S["CADD"], 2, 0, 0, 200, 1); e.u8(S["SPLIT128"], 3, 0, 0); e.u8(S["CNEG"], 3, 0, 0, 1)
save("sc_shift_bits", e)
e = Enc(1)
e.u8(S["SECKEY"], 0, 0, 0).named(11)                 # n
e.u8(S["U64"], 1, 0, 0).u32(0xFFFFFFFF).u32(0xFFFFFFFE).u8(1); e.u8(S["SQR"], 2, 1, 0); e.u8(S["INV_VAR"], 3, 2, 0); e.u8(S["NEG"], 4, 3, 0); e.u8(S["EQ"], 0, 4, 3)
save("sc_seckey_u64", e)

for i, kind in enumerate((0, 1, 2)):
    e = Enc(2).u8(kind)
    if kind >= 2:
        e.limbpat(0, 1, 3)
    e.named(5 + i)
    save("modinv_%d" % kind, e)

e = Enc(3)
for op in (0, 1, 2, 3, 4, 6, 7, 8, 9, 10, 11, 14, 15, 16):
    e.u8(op, (4 << 1) | 1, (6 << 1) | 1, (3 << 1) | 1, (5 << 1) | 1)
save("int128_edges", e)

# hashing: mode, length (hot list), message kind, chunk mode
for mode, name in ((0, "sha_chunks"), (1, "hmac"), (3, "tagged"), (4, "midstate"), (6, "api_tagged")):
    e = Enc(4).u8(mode)
    e.u8((22 << 2) | 2)                # hot length 300
    e.u8(2).u32(0x12345678).u8(0x61)   # h_msg: xorshift pattern
    e.raw(b"abc")
    e.u8(1, 63, 1, 64, 65, 0, 200)     # chunk list
    if mode == 1:
        e.u8((9 << 2) | 2, 0).u32(7).u8(0)
    if mode in (3, 6):
        e.u8((4 << 2) | 2, 1).u32(1).u8(0x54)
    if mode == 4:
        e.u8(5)
    save("h_" + name, e)
e = Enc(4).u8(2).u8((8 << 2) | 2).u8(3).u8(0).u32(3).u8(0).raw(b"seed").u8(1, 3, 5, 200)
save("h_rfc6979", e)
e = Enc(4).u8(0).u8((17 << 2) | 3, 1).u16(777).u8(1).u32(1).u8(0x80).u8(3)   # ~2^17 bytes, many small writes
save("h_sha_long", e)

G = dict(LOADA=0, LOADJ=1, LOADA_FROM=2, LOADJ_FROM=3, ADD_VAR=4, ADD_GE=5, ADD_GE_VAR=6, ADD_ZINV=7, DOUBLE=8, DOUBLE_VAR=9, NEG=10, RESCALE=11, CMOV=12, EQ=13,
         EQ_X=14, QUADY=15, SET_GEJ=16, SET_ALL=17, LAMBDA=18, STORAGE=19, BYTES=20, VALID=21, LIFT=22, XCURVE=23, SPECIAL=26)
e = Enc(5)
e.u8(G["LOADJ"], 0, 0, 0, 0x0B, 3, 7).u8(0).raw(bytes([9] * 32))          # table point 7, rescaled
e.u8(G["LOADA"], 1, 0, 0, 3, 9, 5)
e.u8(G["ADD_GE"], 2, 0, 1); e.u8(G["ADD_VAR"], 3, 2, 0, 1); e.u8(G["DOUBLE"], 4, 3, 0); e.u8(G["SET_GEJ"], 2, 4, 0, 1); e.u8(G["EQ"], 0, 4, 2, 1)
save("ge_add_chain", e)
e = Enc(5)
e.u8(G["LOADJ"], 0, 0, 0, 0, 3, 11)
for rel in range(9):
    e.u8(G["SPECIAL"], 1 + rel % 4, 0, 2, rel, rel % 4, 0x45, 20)
save("ge_special_pairs", e)
e = Enc(5)
e.u8(G["LIFT"], 0, 0, 0, 1, 0, 1).named(2); e.u8(G["LOADJ_FROM"], 1, 0, 0, 4, 9).u8(0).raw(bytes([3] * 32)); e.u8(G["ADD_ZINV"], 2, 1, 0).named(3)
e.u8(G["SET_ALL"], 0, 0, 0, 1, 0xE4, 0x1B); e.u8(G["LAMBDA"], 3, 0, 0); e.u8(G["STORAGE"], 4, 0, 3, 1); e.u8(G["XCURVE"], 0, 0, 0).named(1).named(2)
save("ge_lift_zinv", e)

e = Enc(6).u8(0x25, 3, 17).named(9).named(27)                  # ecmult: table point, na = n-1, ng = lambda
save("em_ecmult_edge", e)
e = Enc(6).u8(0x01, 1).named(1).rawval(bytes(range(32)))       # infinity point
save("em_ecmult_inf", e)
e = Enc(7).u8(2, 1).rawval(b"\x11" * 32).rawval(b"\x22" * 32).named(9).named(14)
save("em_gen_blinded", e)
e = Enc(8).u8(0x02, 3, 40).named(9)
save("em_const", e)
e = Enc(8).u8(0x0B, 3, 41).rawval(bytes(range(3, 35))).rawval(b"\x05" * 32)
save("em_const_xonly", e)
for n_code, skind, name in (((1 << 1) | 0, 0, "pippenger88"), ((7 << 1) | 0, 7, "large236"), ((0 << 1) | 0, 1, "small3_noscratch"), ((2 << 1), 5, "partial"), ((5 << 1), 3, "strauss137")):
    e = Enc(9).u8(n_code).u8(1, skind, 0x80).u16(3).u32(0xC0FFEE).named(27)
    e.u8(3, 0x64, 0x83, 0x25, 0, 0x01, 2, 0x42)                 # a few explicit (point, scalar) descriptors, the rest comes from the PRNG
    save("mm_" + name, e)
# chosen-result constructions (result drawn from the fold-window edge set, second operand solved for by the target)
e = Enc(1)
e.u8(S["LOAD"], 0, 0, 0).named(27).u8(1)
for k in (5, 6, 8, 9, 3, 12):
    e.u8(23, 2, 0, 1, k, 3).raw(bytes(range(40, 72)))
e.u8(25, 3, 4, 5, 40).raw(bytes(range(1, 33))).u8(8, 3).raw(bytes(range(9, 41))).u32(5).u32(77).u8(1, 1)
e.u8(26, 6, 4, 5, 5, 3, 1, 1); e.u8(27, 7, 0, 1, 6, 3); e.u8(28, 7, 2, 3, 0, 0x85, 30, 1).raw(bytes(range(7, 39))).u8(1)
save("sc_chosen_result", e)
e = Enc(0)
e.u8(F["LOAD_MOD"], 0, 0).named(4)
for k in (5, 6, 8, 12, 11, 3):
    e.u8(30, 2, 0, k, 1, k, 3).raw(bytes(range(50, 82)))
e.u8(32, 3, 4, 60, 0x85, 5).raw(bytes(range(2, 34))).u8(9, 3).raw(bytes(range(3, 35))).raw(bytes(range(4, 36)))
e.u8(33, 6, 4, 0x83, 5, 8, 3).raw(bytes(range(5, 37)))
save("fe_chosen_result", e)
print("wrote", len(os.listdir(OUT)), "seeds to", os.path.normpath(OUT))
