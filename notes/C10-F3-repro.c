/* F3 (property C10): secp256k1_rangeproof_rewind uses unwritten stack entries for a VALID proof whose sender wrote a value side channel
 * with a top base-4 digit (3) that lies outside the last ring (size 2: mantissa 1, committed value 1).  Public API only.
 *
 * Data made by /verif/pyref/rangeproof.py (honest_material(side_value=3) + prove); generator = secp256k1_generator_h.
 *
 * Build (from /verif/notes), against a tree WITHOUT the fix "reject rewound values whose top digit lies outside the last ring":
 *   D="-DENABLE_MODULE_GENERATOR=1 -DENABLE_MODULE_RANGEPROOF=1 -DECMULT_WINDOW_SIZE=15 -DCOMB_BLOCKS=43 -DCOMB_TEETH=6 -DUSE_FORCE_WIDEMUL_INT128=1"
 *   echo '#include "src/secp256k1.c"' > lib.c
 *   gcc -O1 -g -w $D         -I$REPO -I$REPO/src -I$REPO/include C10-F3-repro.c lib.c $REPO/src/precomputed_ecmult.c $REPO/src/precomputed_ecmult_gen.c -o f3_prod
 *   gcc -O1 -g -w $D -DVERIFY=1 -I$REPO -I$REPO/src -I$REPO/include C10-F3-repro.c lib.c $REPO/src/precomputed_ecmult.c $REPO/src/precomputed_ecmult_gen.c -o f3_verify
 * Observed on the pinned tree (before the fix):
 *   valgrind ./f3_prod          -> verify = 1, rewind = 0, "Conditional jump or move depends on uninitialised value(s) ... secp256k1_rangeproof_verify_impl
 *                                  (rangeproof_impl.h:666) ... Uninitialised value was created by a stack allocation at secp256k1_rangeproof_verify_impl (rangeproof_impl.h:543)"
 *   PAINT=255 ./f3_verify       -> verify = 1, then "scalar_impl.h:43: test condition failed: secp256k1_scalar_check_overflow(r) == 0", abort (rc 134)
 *   ./f3_verify, ./f3_prod      -> verify = 1, rewind = 0 (fresh stack: the unwritten entries happen to be valid scalars)
 * After the fix: rewind = 0 in every variant, valgrind clean, no abort.
 * PAINT=<byte> pre-fills the stack region the library frames will occupy (models an application that used its stack before the call). */
#include <stdio.h>
#include <stdlib.h>
#include <string.h>
#include <secp256k1.h>
#include <secp256k1_generator.h>
#include <secp256k1_rangeproof.h>
static const unsigned char COMMIT[33] = {
    0x09, 0x6a, 0x07, 0xb3, 0xe1, 0x62, 0x8e, 0x97, 0x72, 0x0f, 0xd2, 0x61, 0xc1, 0xa4, 0x0f, 0x2e,
    0xb2, 0x24, 0x8e, 0x89, 0x89, 0x06, 0x2e, 0xc7, 0xc0, 0x4f, 0x71, 0xa7, 0x1a, 0x8b, 0xba, 0xf6,
    0x94
};
static const unsigned char NONCE[32] = {
    0xb4, 0x26, 0xed, 0xb3, 0xff, 0x12, 0x2b, 0x48, 0x89, 0x39, 0xf4, 0x4d, 0x06, 0xb2, 0x1d, 0x8e,
    0xad, 0xe4, 0xa7, 0x2b, 0x0d, 0xde, 0x11, 0x7f, 0xc5, 0xd9, 0x55, 0x44, 0xc2, 0x16, 0xd1, 0x92
};
static const unsigned char PROOF[98] = {
    0x40, 0x00, 0xca, 0x8d, 0x96, 0x09, 0xf2, 0x63, 0x2a, 0x17, 0x37, 0xc4, 0x49, 0x92, 0x7e, 0xa6,
    0xa8, 0x80, 0x01, 0x9b, 0xf0, 0x2d, 0x64, 0xc9, 0x3d, 0x26, 0xbe, 0x2c, 0x3d, 0x21, 0xd8, 0x9e,
    0x16, 0x2a, 0xd8, 0xa8, 0x70, 0x1f, 0x84, 0x26, 0x6b, 0x2d, 0xbc, 0x56, 0xae, 0xda, 0xbb, 0xcd,
    0x23, 0xe4, 0xdb, 0xd3, 0xe5, 0xb4, 0x42, 0x2f, 0x71, 0xb4, 0x96, 0x44, 0x9a, 0xf6, 0x56, 0x70,
    0x8d, 0x26, 0x51, 0x92, 0x7e, 0x64, 0x7b, 0xd1, 0x63, 0x8f, 0xd6, 0xde, 0x4d, 0x7d, 0x49, 0xa5,
    0x0a, 0x16, 0xe1, 0xd3, 0x99, 0xe9, 0xc2, 0x14, 0x47, 0x0e, 0xd7, 0xf0, 0x6a, 0x91, 0xb5, 0xa2,
    0x5b, 0x5c
};

static __attribute__((noinline)) void paint(int byte) {
    volatile unsigned char a[96 * 1024];
    size_t i;
    for (i = 0; i < sizeof(a); i++) a[i] = (unsigned char)byte;
}

int main(void) {
    secp256k1_context *ctx = secp256k1_context_create(SECP256K1_CONTEXT_NONE);
    secp256k1_pedersen_commitment commit;
    unsigned char blind[32], msg[4096];
    uint64_t value = 0, minv = 0, maxv = 0;
    size_t outlen = sizeof(msg);
    int r;
    const char *p = getenv("PAINT");
    if (!secp256k1_pedersen_commitment_parse(ctx, &commit, COMMIT)) return 2;
    r = secp256k1_rangeproof_verify(ctx, &minv, &maxv, &commit, PROOF, sizeof(PROOF), NULL, 0, secp256k1_generator_h);
    printf("verify = %d  range [%llu, %llu]\n", r, (unsigned long long)minv, (unsigned long long)maxv);
    if (p) paint(atoi(p));
    r = secp256k1_rangeproof_rewind(ctx, blind, &value, msg, &outlen, NONCE, &minv, &maxv, &commit, PROOF, sizeof(PROOF), NULL, 0, secp256k1_generator_h);
    printf("rewind = %d\n", r);
    secp256k1_context_destroy(ctx);
    return 0;
}
