/* Standalone reproducer for the C05 finding "fe_equal: b of magnitude 31".
 *
 * field.h documents secp256k1_fe_equal(a, b) for "magnitudes not exceeding 1 and 31, respectively".  The implementation
 * computes negate(a, 1) (magnitude 2) and adds b, i.e. needs 2 + magnitude(b) <= 32: magnitude 31 is one too many.
 *   - VERIFY builds abort in secp256k1_fe_add (field_impl.h: r->magnitude + a->magnitude <= 32);
 *   - the 10x26 field (USE_FORCE_WIDEMUL_INT64) without VERIFY overflows its uint32_t limbs (65*(2^26-1) > 2^32) and returns 0
 *     for two representations of the SAME value;  the 5x52 field happens to return the right answer.
 * No caller inside the library passes such an operand: latent contract defect, not reachable through the public API.
 *
 * gcc -O2 -I/repo -I/repo/src -I/repo/include -DUSE_FORCE_WIDEMUL_INT64=1 -DECMULT_WINDOW_SIZE=2 -DCOMB_BLOCKS=2 -DCOMB_TEETH=5 \
 *     C05_fe_equal_mag31_repro.c /repo/src/precomputed_ecmult.c /repo/src/precomputed_ecmult_gen.c -o repro && ./repro
 *   prints "fe_equal(a, b) = 0 (expected 1)";  add -DVERIFY=1 -> abort;  with -DUSE_FORCE_WIDEMUL_INT128=1 -> 1.
 */
#include <stdio.h>
#include "src/secp256k1.c"

int main(void) {
    secp256k1_fe a, b, t;
    unsigned char a32[32], t32[32];
    secp256k1_fe_get_bounds(&b, 31);           /* a valid field element of magnitude 31 (documented as allowed for b) */
    a = b;
    secp256k1_fe_normalize(&a);                /* the same value, normalized: magnitude 1 */
    t = b; secp256k1_fe_normalize_var(&t);
    secp256k1_fe_get_b32(a32, &a); secp256k1_fe_get_b32(t32, &t);
    printf("same value: %d\n", memcmp(a32, t32, 32) == 0);
    printf("fe_equal(a, b) = %d (expected 1)\n", secp256k1_fe_equal(&a, &b));
    return 0;
}
