/* Standalone reproducer for the C05 finding "fe_normalize (10x26): magnitude 32 at the documented limb maximum".
 *
 * field_10x26.h documents "Magnitude m requires n[i] <= 2*m*(2^26-1) for i=0..8, n[9] <= 2*m*(2^22-1)", field.h allows magnitudes
 * up to 32, secp256k1_fe_verify accepts exactly that, and secp256k1_fe_get_bounds(r, 32) produces it.  For m = 32 the limbs are
 * 0xFFFFFFC0, and the first folding step of every normalisation routine of the 10x26 field
 *       t0 += x * 0x3D1;  t1 += (x << 6);          (x = n[9] >> 22 = 63)
 * overflows the uint32_t limbs 0 and 1: normalize / normalize_var / normalize_weak return a DIFFERENT field element and
 * normalizes_to_zero{,_var}, inv, is_square_var inherit it.  Magnitude <= 31, and the 5x52 field at every magnitude, are fine.
 * Elements built by negate/add/mul_int from reduced values never get there (their limbs are bounded by 2*m*p_i, a little less),
 * so this is a gap between the documented representation contract and the implementation, not reachable through the public API.
 *
 * gcc -O2 -w -I/repo -I/repo/src -I/repo/include -DUSE_FORCE_WIDEMUL_INT64=1 -DECMULT_WINDOW_SIZE=2 -DCOMB_BLOCKS=2 -DCOMB_TEETH=5 \
 *     C05_fe_normalize_10x26_mag32_repro.c /repo/src/precomputed_ecmult.c /repo/src/precomputed_ecmult_gen.c -o repro && ./repro
 *   int64:            the two lines differ (…fc00003e0000f02f vs …00400000f400)      [also with -DVERIFY=1: no assertion fires]
 *   -DUSE_FORCE_WIDEMUL_INT128=1: the two lines are equal
 */
#include <stdio.h>
#include "src/secp256k1.c"

static void show(const char *what, secp256k1_fe *a) {
    unsigned char o[32]; int i;
    secp256k1_fe_normalize(a);
    secp256k1_fe_get_b32(o, a);
    printf("%-44s", what);
    for (i = 0; i < 32; i++) printf("%02x", o[i]);
    printf("\n");
}

int main(void) {
    secp256k1_fe a, b;
    secp256k1_fe_get_bounds(&a, 32);                 /* magnitude 32, every limb at its documented maximum */
    secp256k1_fe_get_bounds(&b, 1);                  /* the limbs of a are exactly 32 times the limbs of b ... */
    secp256k1_fe_normalize(&b);
    secp256k1_fe_mul_int_unchecked(&b, 32);          /* ... so a == 32 * b as field elements */
    show("normalize(get_bounds(32))", &a);
    show("normalize(32 * normalize(get_bounds(1)))", &b);
    return 0;
}
