/* Standalone reproducer for the C06 observation "musig_nonce_gen_counter branches on the validity bit of the secret key
 * inside the keypair" (NOT asserted by the check: src/ctime_tests.c passes a keypair made from a public key copy here).
 *
 *   gcc -O2 -g -DVALGRIND -DENABLE_MODULE_EXTRAKEYS=1 -DENABLE_MODULE_SCHNORRSIG=1 -DENABLE_MODULE_MUSIG=1 \
 *       -DECMULT_WINDOW_SIZE=15 -DCOMB_BLOCKS=43 -DCOMB_TEETH=6 -I/repo -I/repo/src -I/repo/include \
 *       notes/C06_nonce_gen_counter_repro.c /repo/src/precomputed_ecmult.c /repo/src/precomputed_ecmult_gen.c -o /var/tmp/vf-c06-repro
 *   valgrind -q --error-exitcode=42 /var/tmp/vf-c06-repro
 *
 * Expected on the pinned tree: one "Conditional jump or move depends on uninitialised value(s)" at
 * secp256k1_musig_nonce_gen_counter (session_impl.h:486): `if (!secp256k1_musig_nonce_gen_internal(...)) return 0;` where the
 * result carries `secp256k1_scalar_set_b32_seckey(&sk, seckey)`.  For a keypair made by secp256k1_keypair_create the bit is
 * always 1, so nothing about the key is revealed; secp256k1_keypair_seckey_load declassifies the same bit explicitly with
 * that argument, nonce_gen_counter does not.
 */
#include <stdio.h>
#include <string.h>
#include "src/secp256k1.c"

int main(void) {
    secp256k1_context *ctx = secp256k1_context_create(SECP256K1_CONTEXT_DECLASSIFY);
    unsigned char key[32];
    secp256k1_keypair keypair;
    secp256k1_musig_secnonce secnonce;
    secp256k1_musig_pubnonce pubnonce;
    int ret, i;
    for (i = 0; i < 32; i++) key[i] = i + 65;
    ret = secp256k1_keypair_create(ctx, &keypair, key);
    if (!ret) return 1;
    /* the secret-key half of the keypair is secret, the public-key half is public */
    SECP256K1_CHECKMEM_UNDEFINE(&keypair.data[0], 32);
    ret = secp256k1_musig_nonce_gen_counter(ctx, &secnonce, &pubnonce, 0, &keypair, NULL, NULL, NULL);
    SECP256K1_CHECKMEM_DEFINE(&ret, sizeof(ret));
    printf("ret=%d\n", ret);
    secp256k1_context_destroy(ctx);
    return 0;
}
