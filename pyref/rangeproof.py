"""Reference model: Back-Maxwell range proofs over Borromean ring signatures (secp256k1-zkp wire format).

Written from DESIGN.md Appendix A ("Range proof", "Rewind data") and include/secp256k1_rangeproof.h.

  info(proof)                      header parser: (exp, mantissa, min, max) or None
  verify(proof, C, H, extra)       (ok, min, max)  -- the specified acceptance set
  prove(...)                       adversarial prover: every free value is an argument (header fields, digit blinds,
                                   ring nonces, forged scalars, spare sign bits, trailing bytes, x+p re-encodings ...)
  stream(...) / honest_material()  the sender-side derivation of blinds / forged scalars / nonces from the 32-byte nonce,
                                   with the value side-channel and the message embedded (what `rewind` undoes)

Points are affine tuples (x, y) / None.  C = commitment point, H = generator point.
"""
from . import ec, borromean, pedersen
from .ec import P, N, b2i, i2b, sha256
from .rfc6979 import HmacDrbg

U64 = (1 << 64) - 1


# ------------------------------------------------------------------------------------------------ header
def parse_header(proof):
    """-> dict(exp, mantissa, min, max, scale, offset) or None.  exp = -1 / mantissa = 0: exact-value proof."""
    plen = len(proof)
    if plen < 65:
        return None
    b0 = proof[0]
    if b0 & 0x80:
        return None
    off = 1
    exp, mantissa, maxv = -1, 0, 0
    if b0 & 0x40:
        exp = b0 & 0x1F
        if exp > 18:
            return None
        mantissa = proof[1] + 1
        if mantissa > 64:
            return None
        off = 2
        maxv = (1 << mantissa) - 1
    scale = 1
    for _ in range(max(exp, 0)):
        if maxv * 10 > U64:
            return None
        maxv *= 10
        scale *= 10
    minv = 0
    if b0 & 0x20:
        if plen - off < 8:
            return None
        minv = b2i(proof[off:off + 8])
        off += 8
    if maxv + minv > U64:
        return None
    return {"exp": exp, "mantissa": mantissa, "min": minv, "max": maxv + minv, "scale": scale, "offset": off}


def info(proof):
    h = parse_header(proof)
    return None if h is None else (h["exp"], h["mantissa"], h["min"], h["max"])


def ring_sizes(mantissa):
    """mantissa 0 = exact value: one ring with one member"""
    if mantissa == 0:
        return [1]
    rs = [4] * (mantissa // 2)
    if mantissa & 1:
        rs.append(2)
    return rs


def sign_bytes(rings):
    return (rings + 6) // 8


def body_len(rsizes):
    rings = len(rsizes)
    return 32 * (sum(rsizes) + rings - 1) + 32 + sign_bytes(rings)


_HMUL = {}


def hmul(k, H):
    """k*H, memoised (the same few multiples of the generator recur for every mutation of one proof)"""
    key = (k, H)
    v = _HMUL.get(key)
    if v is None:
        if len(_HMUL) > 256:
            _HMUL.clear()
        v = _HMUL[key] = (ec.mul(k, H),)
    return v[0]


def ring_keys(first, rsizes, scale, H):
    """first[i] = P_{i,0}; P_{i,j} = P_{i,0} - j * scale * 4^i * H  (flat list)"""
    pubs = []
    step = ec.neg(hmul(scale, H))                 # -scale * 4^i * H, quadrupled from ring to ring
    for i, rs in enumerate(rsizes):
        cur = first[i]
        for j in range(rs):
            pubs.append(cur)
            if j != rs - 1:
                cur = ec.add(cur, step)
        step = ec.add(step, step)
        step = ec.add(step, step)
    return pubs


def message_hash(C, H, header, signs, xs, extra):
    d = pedersen.enc_qr(C, 0) + pedersen.enc_qr(H, 0) + bytes(header)
    for sg, x in zip(signs, xs):
        d += bytes([sg]) + bytes(x)
    return sha256(d + bytes(extra))


# ------------------------------------------------------------------------------------------------ verifier
def parse(proof, C, H):
    """Everything before the ring equation.  -> dict or None (rejected by the format)."""
    h = parse_header(proof)
    if h is None:
        return None
    off = h["offset"]
    rsizes = ring_sizes(h["mantissa"])
    rings = len(rsizes)
    npub = sum(rsizes)
    if len(proof) - off < body_len(rsizes):
        return None
    nsb = sign_bytes(rings)
    sb = proof[off:off + nsb]
    signs = [(sb[i >> 3] >> (i & 7)) & 1 for i in range(rings - 1)]
    if (rings - 1) & 7 and (sb[nsb - 1] >> ((rings - 1) & 7)) != 0:
        return None
    hdr = proof[:off]
    off += nsb
    xs = []
    first = []
    acc = hmul(h["min"], H) if h["min"] else None
    for i in range(rings - 1):
        xb = proof[off:off + 32]
        off += 32
        x = b2i(xb)
        if x >= P:
            return None
        y = pedersen.qr_root((x * x * x + 7) % P)
        if y is None:
            return None
        if signs[i]:
            y = (-y) % P
        xs.append(xb)
        first.append((x, y))
        acc = ec.add(acc, (x, y))
    last = ec.sub(C, acc)
    if last is None:
        return None
    first.append(last)
    e0 = proof[off:off + 32]
    off += 32
    s = []
    for _ in range(npub):
        v = b2i(proof[off:off + 32])
        off += 32
        if v >= N:
            return None
        s.append(v)
    if off != len(proof):
        return None
    h.update({"rsizes": rsizes, "signs": signs, "xs": xs, "first": first, "e0": e0, "s": s, "hdr": hdr})
    return h


def verify(proof, C, H, extra=b"", bverify=borromean.verify):
    """-> (ok, min, max); min/max are None when rejected."""
    proof = bytes(proof)
    h = parse(proof, C, H)
    if h is None:
        return (False, None, None)
    pubs = ring_keys(h["first"], h["rsizes"], h["scale"], H)
    m = message_hash(C, H, h["hdr"], h["signs"], h["xs"], extra)
    if not bverify(h["e0"], h["s"], pubs, h["rsizes"], m):
        return (False, None, None)
    return (True, h["min"], h["max"])


# ------------------------------------------------------------------------------------------------ sender-side derivation (rewind data)
def stream(nonce32, C, H, header, rsizes, prep=None):
    """The deterministic randomness of an honest sender: RFC 6979 HMAC-DRBG keyed with nonce || enc(C) || enc(H) || header.
    For every ring but the last: one discarded 32-byte block, then 32-byte blocks until one is a valid non-zero scalar (digit blind);
    the last digit blind is minus the sum of the others.  Then one 32-byte block per ring member, XORed with prep[(4*i+j)*32 ...]
    (side channel / message); the result is the member's scalar slot.
    -> (sec list, slots: flat list of 32-byte strings, raw: flat list of the un-XORed blocks)"""
    rng = HmacDrbg(bytes(nonce32) + pedersen.enc_qr(C, 0) + pedersen.enc_qr(H, 0) + bytes(header))
    rings = len(rsizes)
    sec, slots, raw = [], [], []
    acc = 0
    for i, rs in enumerate(rsizes):
        if i < rings - 1:
            rng.generate(32)
            while True:
                v = b2i(rng.generate(32))
                if 0 < v < N:
                    break
            sec.append(v)
            acc = (acc + v) % N
        else:
            sec.append((-acc) % N)
        for j in range(rs):
            blk = rng.generate(32)
            raw.append(blk)
            if prep is not None:
                o = (4 * i + j) * 32
                blk = bytes(a ^ b for a, b in zip(blk, prep[o:o + 32]))
            slots.append(blk)
    return sec, slots, raw


def side_channel(v):
    v8 = (v & U64).to_bytes(8, "big")
    return b"\x80" + bytes(7) + v8 + v8 + v8


def honest_material(nonce32, C, H, header, rsizes, digits, blind, side_value, message=b"", side_slot=None):
    """What an honest sender derives: -> (sec, nonces k, forged s) or None when a slot is not a valid scalar.
    digits[i] = index of the real member of ring i.  side_value = the integer written into the value side channel (honest: the mantissa value);
    side_slot: index inside the last ring (default: the last member, or the one before when that is the real one)."""
    rings = len(rsizes)
    prep = bytearray(4096)
    prep[:len(message)] = message
    if rsizes[-1] > 1:
        idx = rsizes[-1] - 1
        if digits[-1] == idx:
            idx -= 1
        if side_slot is not None:
            idx = side_slot
        o = ((rings - 1) * 4 + idx) * 32
        prep[o:o + 32] = side_channel(side_value)
    sec, slots, _ = stream(nonce32, C, H, header, rsizes, bytes(prep))
    sv = [b2i(b) for b in slots]
    if any(v == 0 or v >= N for v in sv):
        return None
    sec[-1] = (sec[-1] + blind) % N
    k = []
    c = 0
    for i, rs in enumerate(rsizes):
        k.append(sv[c + digits[i]])
        c += rs
    return sec, k, sv


# ------------------------------------------------------------------------------------------------ prover with free choices
def header_bytes(exp, mantissa_byte, min_value, reserved=False, lowbits=0):
    """exp = -1: exact-value header (no range; lowbits fill bits 0..4); min_value None: no minimum field"""
    b0 = (0x80 if reserved else 0)
    if exp >= 0:
        b0 |= 0x40 | (exp & 0x1F)
    else:
        b0 |= lowbits & 0x1F
    if min_value is not None:
        b0 |= 0x20
    out = bytes([b0])
    if exp >= 0:
        out += bytes([mantissa_byte & 0xFF])
    if min_value is not None:
        out += (min_value & U64).to_bytes(8, "big")
    return out


def prove(C, H, header, rsizes, scale, min_value, digits, sec, nonces, forged, extra=b"",
          spare_bits=0, trailing=b"", xplus=(), e0_override=None, allow_inf_last=False):
    """Build a proof string.  Nothing is checked against the documented parameter ranges: the caller chooses everything.

    C, H          commitment / generator points
    header        raw header bytes (hashed and emitted as given)
    rsizes        ring sizes (len = rings); scale = integer multiplier of the digit weights (10^exp); min_value integer
    digits[i]     index of the real member of ring i;  sec[i] its secret key (digit blind; sum of sec = commitment blind)
    nonces[i]     ring nonces;  forged: flat list of scalars for the other members (entries at real positions ignored)
    spare_bits    OR-ed into the unused high bits of the last sign byte;  trailing: appended bytes
    xplus         ring indices whose digit commitment is emitted (and hashed) as x + p  (needs x + p < 2^256)
    allow_inf_last  go on when the implicit last digit commitment C - min*H - sum(C_i) is the point at infinity
    -> bytes or None (a degenerate point / challenge occurred)"""
    rings = len(rsizes)
    first, xs, signs = [], [], []
    acc = ec.mul(min_value, H) if min_value % N else None
    for i in range(rings - 1):
        Ci = ec.lincomb((sec[i], 'G'), (digits[i] * scale * (4 ** i), H))
        if Ci is None:
            return None
        first.append(Ci)
        acc = ec.add(acc, Ci)
    last = ec.sub(C, acc)
    if last is None and not allow_inf_last:
        return None
    first.append(last)
    pubs_first = []
    for i in range(rings):
        # P_{i,0} = C_i ; the real member is P_{i,d} = C_i - d*w_i*H, which must equal sec_i*G for the proof to be valid
        pubs_first.append(first[i])
    for i in range(rings - 1):
        e = pedersen.enc_qr(first[i], 0)
        x = b2i(e[1:])
        if i in xplus:
            if x + P >= 1 << 256:
                return None
            x += P
        signs.append(e[0])
        xs.append(i2b(x))
    m = message_hash(C, H, header, signs, xs, extra)
    pubs = ring_keys(pubs_first, rsizes, scale, H)
    r = borromean.sign(pubs, rsizes, digits, sec, nonces, forged, m)
    if r is None:
        return None
    e0, s = r
    if e0_override is not None:
        e0 = e0_override
    nsb = sign_bytes(rings)
    sb = bytearray(nsb)
    for i, sg in enumerate(signs):
        sb[i >> 3] |= sg << (i & 7)
    if nsb and (rings - 1) & 7:
        sb[nsb - 1] |= (spare_bits << ((rings - 1) & 7)) & 0xFF
    out = bytes(header) + bytes(sb) + b"".join(xs) + e0 + b"".join(i2b(v % (1 << 256)) for v in s) + bytes(trailing)
    return out


def digits_of(v, rsizes):
    return [(v >> (2 * i)) & 3 for i in range(len(rsizes))]


def prove_honest(blind, value, H, nonce32, exp, mantissa, min_value, message=b"", extra=b"", C=None):
    """The proof an honest sender makes for the given header parameters (exp = -1 / mantissa = 0: exact value).
    -> bytes or None.  Used to validate the derivation (byte-equality with the library's proof for the same header)."""
    if C is None:
        C = pedersen.commit_point(blind, value, H)
    rsizes = ring_sizes(mantissa)
    scale = 10 ** max(exp, 0)
    header = header_bytes(exp, (mantissa - 1) & 0xFF, min_value if min_value else None)
    v = (value - min_value) // scale
    digits = digits_of(v, rsizes) if mantissa else [0]
    hm = honest_material(nonce32, C, H, header, rsizes, digits, blind, v, message)
    if hm is None:
        return None
    sec, k, sv = hm
    if sec[-1] == 0:
        return None
    return prove(C, H, header, rsizes, scale, min_value, digits, sec, k, sv, extra)


def selftest():
    # algebraic / structural identities (there is no external vector for this wire format)
    assert ring_sizes(0) == [1] and ring_sizes(1) == [2] and ring_sizes(2) == [4] and ring_sizes(5) == [4, 4, 2]
    assert len(ring_sizes(64)) == 32 and sum(ring_sizes(64)) == 128 and sum(ring_sizes(63)) == 126
    # the documented maximum proof size 5134 = 10 header bytes + body for mantissa 64
    assert 10 + body_len(ring_sizes(64)) == 5134
    # documented maximum message: 128 bytes per ring except the last
    assert 128 * (len(ring_sizes(64)) - 1) == 3968
    # header arithmetic
    assert parse_header(bytes([0x40 | 18, 0]) + bytes(80))["max"] == 10 ** 18
    assert parse_header(bytes([0x40 | 19, 0]) + bytes(80)) is None
    assert parse_header(bytes([0x40, 63]) + bytes(80))["max"] == U64
    assert parse_header(bytes([0x60, 63]) + (1).to_bytes(8, "big") + bytes(80)) is None
    assert parse_header(bytes([0x60, 62]) + (1 << 63).to_bytes(8, "big") + bytes(80))["max"] == U64
    assert parse_header(bytes([0x80]) + bytes(80)) is None and parse_header(bytes(64)) is None
    assert parse_header(bytes([0x1f]) + bytes(80))["exp"] == -1
    # completeness + soundness smoke test of prover/verifier pair on a tiny range, an exact-value proof and a wrong witness
    H = pedersen.generate(bytes(32))
    b, val = 0x1234567, 9
    C = pedersen.commit_point(b, val, H)
    nonce = sha256(b"rangeproof selftest")
    pr = prove_honest(b, val, H, nonce, 0, 5, 0, b"hello", b"xc")
    assert pr is not None and verify(pr, C, H, b"xc") == (True, 0, 31)
    assert verify(pr, C, H, b"xd")[0] is False and verify(pr + b"\x00", C, H, b"xc")[0] is False
    assert verify(pr, pedersen.commit_point(b, val + 1, H), H, b"xc")[0] is False
    pr = prove_honest(b, val, H, nonce, -1, 0, val)
    assert verify(pr, C, H) == (True, 9, 9) and len(pr) == 73
    pr = prove_honest(b, 10, H, nonce, 0, 5, 0, C=C)       # a witness for 10 while C commits to 9
    assert pr is not None and verify(pr, C, H)[0] is False
    pr = prove_honest(b, 1200 + 7, H, nonce, 2, 4, 7)
    assert verify(pr, pedersen.commit_point(b, 1207, H), H) == (True, 7, 1507)
    return True
