"""Reference model of secp256k1_ecdh (include/secp256k1_ecdh.h): hash of the coordinates of secret * Peer.

Default hash (== secp256k1_ecdh_hash_function_sha256): "SHA256 applied to the compressed public key", i.e.
SHA256( (0x02 | (y & 1)) || x32 ).  A custom hash receives (x32, y32).
The call fails (None) iff the secret is 0 or >= n, or the hash callback reports failure.
"""
from . import ec

N = ec.N


def shared_point(sk, peer):
    if not 1 <= sk < N or peer is None:
        return None
    return ec.mul(sk, peer)


def hash_sha256(x32, y32):
    return ec.sha256(bytes([0x02 | (y32[31] & 1)]) + x32)


def ecdh(sk, peer, hashfn=None):
    """hashfn(x32, y32) -> bytes or None (failure).  Returns the output bytes or None."""
    pt = shared_point(sk, peer)
    if pt is None:
        return None
    return (hashfn or hash_sha256)(ec.i2b(pt[0]), ec.i2b(pt[1]))


def selftest():
    a = 0x0123456789ABCDEF0123456789ABCDEF0123456789ABCDEF0123456789ABCDEF
    b = ec.N - 0xFEDCBA9876543210
    A, B = ec.mulg(a), ec.mulg(b)
    assert ecdh(a, B) == ecdh(b, A) == ec.sha256(ec.ser33(ec.mulg(a * b % N)))
    assert ecdh(1, ec.G) == ec.sha256(bytes.fromhex("0279BE667EF9DCBBAC55A06295CE870B07029BFCDB2DCE28D959F2815B16F81798"))
    assert ecdh(N - 1, ec.G) == ec.sha256(bytes.fromhex("0379BE667EF9DCBBAC55A06295CE870B07029BFCDB2DCE28D959F2815B16F81798"))
    assert ecdh(0, A) is None and ecdh(N, A) is None and ecdh((1 << 256) - 1, A) is None
    assert ecdh(a, B, lambda x, y: None) is None
    assert ecdh(a, B, lambda x, y: x + y) == ec.i2b(ec.mulg(a * b % N)[0]) + ec.i2b(ec.mulg(a * b % N)[1])
    return True


if __name__ == "__main__":
    selftest()
    print("ok")
