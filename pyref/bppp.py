"""Reference model for the Bulletproofs++ pieces of the library (DESIGN.md Appendix A, "Generator derivation" and "BP++ norm argument";
the recursion itself is the norm-argument round of the Bulletproofs++ paper, Eagen / Kanjalkar / Ruffing / Nick, section 4).

* generator list: RFC 6979 HMAC-DRBG keyed with G.x || G.y, the i-th 32-byte output seeds the i-th `pedersen.generate`;
  list serialization = concatenation of the 33-byte QR-y generator encodings (prefix 10 / 11).
* norm-argument commitment  C = v*G + <n, G_vec> + <l, H_vec>,  v = sum_i mu^(i+1) n_i^2 + <l, c>.
* one round (vectors split into even / odd positions, a_0 = a[0::2], a_1 = a[1::2]; weights of the folded norm are mu^2):
      X = (2 rho^-1 <n_0,n_1>_{mu^2} + <c_0,l_1> + <c_1,l_0>) G + <rho^-1 n_0, G_1> + <rho n_1, G_0> + <l_0,H_1> + <l_1,H_0>
      R = (<n_1,n_1>_{mu^2} + <c_1,l_1>) G + <n_1,G_1> + <l_1,H_1>
      gamma = SHA256(transcript || X,R encoding (65 bytes) || le64(0)) mod n      (the 65 bytes stay absorbed)
      n' = rho^-1 n_0 + gamma n_1,  l' = l_0 + gamma l_1,  c' = c_0 + gamma c_1,  G' = rho G_0 + gamma G_1,  H' = H_0 + gamma H_1,
      C' = C + gamma X + (gamma^2 - 1) R,   rho' = rho^2 (= mu),  mu' = mu^2
  a vector that has reached length 1 is no longer folded (and then rho / mu of the n side stay as they are);
  rounds = max(log2 |n|, log2 |l|); the proof is the rounds' 65-byte encodings followed by the final scalars n, l.
* verification = the same recursion on the public side, unrolled: C + sum_j gamma_j X_j + (gamma_j^2 - 1) R_j
      == v G + n <s_g, G_vec> + l <s_h, H_vec>,   v = mu_final n^2 + l <s_h, c>
  where s_g / s_h are the coefficients with which the original generators enter the completely folded G' / H'.

Points: affine tuples, None = point at infinity (as in pyref.ec).
"""
import functools
import hashlib

from . import ec, pedersen
from .ec import N, P, b2i, i2b
from .rfc6979 import HmacDrbg

TAG = b"Bulletproofs_pp/v0/commitment"


# ---------------------------------------------------------------- generator lists
_GENS = []
_DRBG = [None]


def generators(n):
    """the first n generators of the (infinite, deterministic) BP++ generator sequence"""
    if _DRBG[0] is None:
        _DRBG[0] = HmacDrbg(i2b(ec.GX) + i2b(ec.GY))
    while len(_GENS) < n:
        g = pedersen.generate(_DRBG[0].generate(32))
        assert g is not None
        _GENS.append(g)
    return list(_GENS[:n])


def serialize_generators(gens):
    return b"".join(pedersen.enc_qr(g, 10) for g in gens)


@functools.lru_cache(maxsize=4096)
def _dec_generator(b33):
    return pedersen.dec_qr(b33, 10)


def parse_generators(data):
    """-> list of points, or None (length not a multiple of 33, or some 33-byte chunk is not a valid generator encoding)"""
    if len(data) % 33:
        return None
    out = []
    for i in range(0, len(data), 33):
        g = _dec_generator(bytes(data[i:i + 33]))
        if g is None:
            return None
        out.append(g)
    return out


# ---------------------------------------------------------------- transcript
def transcript_prefix(prefix, tagged):
    """bytes the caller's SHA-256 state has absorbed: optionally the BIP-340 style tag block, then the caller's own data"""
    if tagged:
        t = hashlib.sha256(TAG).digest()
        return t + t + prefix
    return prefix


def challenge(absorbed, idx=0):
    return b2i(hashlib.sha256(absorbed + int(idx).to_bytes(8, "little")).digest()) % N


# ---------------------------------------------------------------- two points in 65 bytes
def _parse_half(sign, xb):
    """-> (ok, point)"""
    if xb == bytes(32):
        return (sign == 0, None)
    x = b2i(xb)
    if x >= P:
        return (False, None)
    pt = ec.lift_x(x, odd=sign)
    return (pt is not None, pt)


def parse_points(b65):
    """-> ((okX, X), (okR, R)); the whole encoding is invalid if the sign byte exceeds 3"""
    if len(b65) != 65 or b65[0] > 3:
        return ((False, None), (False, None))
    return (_parse_half((b65[0] >> 1) & 1, b65[1:33]), _parse_half(b65[0] & 1, b65[33:65]))


def serialize_points(X, R):
    def half(pt):
        return (0, bytes(32)) if pt is None else (pt[1] & 1, i2b(pt[0]))
    sx, bx = half(X)
    sr, br = half(R)
    return bytes([2 * sx + sr]) + bx + br


# ---------------------------------------------------------------- helpers
def is_pow2(n):
    return n > 0 and n & (n - 1) == 0


def ilog2(n):
    return n.bit_length() - 1


def msm(terms, g_scalar=0):
    """g_scalar*G + sum k_i*P_i  (P_i may be None = infinity)"""
    t = [(g_scalar % N, 'G')] if g_scalar % N else []
    t += [(k % N, p) for k, p in terms if p is not None and k % N]
    return ec.lincomb(*t) if t else None


def wnorm(a, b, mu):
    """sum_i mu^(i+1) a_i b_i"""
    acc, w = 0, mu % N
    for x, y in zip(a, b):
        acc = (acc + w * x * y) % N
        w = w * mu % N
    return acc


def ip(a, b):
    return sum(x * y for x, y in zip(a, b)) % N


def commit(gens, n_vec, l_vec, c_vec, mu):
    """C = v G + <n,G_vec> + <l,H_vec> with v = |n|^2_mu + <l,c>; gens = G_vec followed by H_vec"""
    assert len(gens) == len(n_vec) + len(l_vec) and len(l_vec) == len(c_vec)
    v = (wnorm(n_vec, n_vec, mu) + ip(l_vec, c_vec)) % N
    return msm(list(zip(list(n_vec) + list(l_vec), gens)), v)


# ---------------------------------------------------------------- prover (the recursion, literally)
def prove(prefix, rho, gens, n_vec, l_vec, c_vec):
    """-> proof bytes.  prefix: everything the transcript has absorbed so far.  Requires rho != 0 mod n, power-of-two lengths."""
    nv, lv, cv = [x % N for x in n_vec], [x % N for x in l_vec], [x % N for x in c_vec]
    G, H = list(gens[:len(nv)]), list(gens[len(nv):])
    assert is_pow2(len(nv)) and is_pow2(len(lv)) and len(cv) == len(lv) == len(H) and rho % N
    rho %= N
    mu = rho * rho % N
    absorbed = prefix
    out = b""
    while len(nv) > 1 or len(lv) > 1:
        fold_n, fold_l = len(nv) > 1, len(lv) > 1
        rinv = pow(rho, -1, N)
        mu2 = mu * mu % N
        n0, n1, G0, G1 = (nv[0::2], nv[1::2], G[0::2], G[1::2]) if fold_n else ([], [], [], [])
        l0, l1, c0, c1, H0, H1 = (lv[0::2], lv[1::2], cv[0::2], cv[1::2], H[0::2], H[1::2]) if fold_l else ([], [], [], [], [], [])
        xv = (2 * rinv * wnorm(n0, n1, mu2) + ip(c0, l1) + ip(c1, l0)) % N
        X = msm([(rinv * a, g) for a, g in zip(n0, G1)] + [(rho * a, g) for a, g in zip(n1, G0)] + list(zip(l0, H1)) + list(zip(l1, H0)), xv)
        rv = (wnorm(n1, n1, mu2) + ip(c1, l1)) % N
        R = msm(list(zip(n1, G1)) + list(zip(l1, H1)), rv)
        enc = serialize_points(X, R)
        out += enc
        absorbed += enc
        gamma = challenge(absorbed)
        if fold_n:
            nv = [(rinv * a + gamma * b) % N for a, b in zip(n0, n1)]
            G = [msm([(rho, a), (gamma, b)]) for a, b in zip(G0, G1)]
            rho, mu = mu, mu2
        if fold_l:
            lv = [(a + gamma * b) % N for a, b in zip(l0, l1)]
            cv = [(a + gamma * b) % N for a, b in zip(c0, c1)]
            H = [msm([(1, a), (gamma, b)]) for a, b in zip(H0, H1)]
    return out + i2b(nv[0]) + i2b(lv[0])


# ---------------------------------------------------------------- verifier
def _unroll(proof, prefix, rho, gens, g_len, c_vec, pad_l=False):
    """format checks and the unrolled recursion.  -> (reason, None) for a malformed input, otherwise
    (None, (v, gen_terms, proof_terms)):  the final equation reads  C + sum proof_terms == v*G + sum gen_terms.
    pad_l (used ONLY to build adversarial inputs, never for a verdict): read a non-power-of-two |c| as the next power of two
    whose missing generators are the point at infinity."""
    h_len = len(c_vec)
    if g_len == 0 or h_len == 0:
        return "zero_len", None
    if not is_pow2(g_len) or not (is_pow2(h_len) or pad_l):
        return "not_pow2", None
    if len(gens) != g_len + h_len:
        return "gen_count", None
    lg, lh = ilog2(g_len), ilog2(h_len) if is_pow2(h_len) else h_len.bit_length()
    rounds = max(lg, lh)
    if len(proof) != 65 * rounds + 64:
        return "length", None
    n = b2i(proof[65 * rounds:65 * rounds + 32])
    l = b2i(proof[65 * rounds + 32:])
    if n >= N or l >= N:
        return "scalar_range", None
    rho %= N
    if rho == 0:
        return "rho_zero", None
    proof_terms, gammas = [], []
    for j in range(rounds):
        (okx, X), (okr, R) = parse_points(proof[65 * j:65 * j + 65])
        if not (okx and okr):
            return "point", None
        g = challenge(prefix + proof[:65 * (j + 1)])
        gammas.append(g)
        proof_terms += [(g, X), ((g * g - 1) % N, R)]
    # coefficients of the original generators in the completely folded ones: undo the folding from the last round to the first
    rhos = [pow(rho, 1 << j, N) for j in range(lg + 1)]       # rho in force in the j-th round in which n is folded
    s_g = [1]
    for j in reversed(range(lg)):
        s_g = [x for s in s_g for x in (s * rhos[j] % N, s * gammas[j] % N)]
    s_h = [1]
    for j in reversed(range(lh)):
        s_h = [x for s in s_h for x in (s, s * gammas[j] % N)]
    mu_final = rhos[lg] * rhos[lg] % N
    v = (mu_final * n * n + l * ip(s_h, [c % N for c in c_vec])) % N
    gen_terms = [(n * s % N, g) for s, g in zip(s_g, gens[:g_len])] + [(l * s % N, h) for s, h in zip(s_h, gens[g_len:])]
    return None, (v, gen_terms, proof_terms)


def verify_ex(proof, prefix, rho, gens, g_len, c_vec, commitment):
    """-> (verdict, reason).  prefix: bytes absorbed by the caller's transcript; rho: int (taken mod n); gens: list of points
    (G_vec then H_vec); g_len: declared length of n_vec; c_vec: list of ints; commitment: point or None (infinity)."""
    why, eq = _unroll(proof, prefix, rho, gens, g_len, c_vec)
    if why is not None:
        return False, why
    v, gen_terms, proof_terms = eq
    defect = msm([(1, commitment)] + proof_terms + [(-k, p) for k, p in gen_terms], -v)
    return (True, "equation_holds") if defect is None else (False, "equation")


def verify(proof, prefix, rho, gens, g_len, c_vec, commitment):
    return verify_ex(proof, prefix, rho, gens, g_len, c_vec, commitment)[0]


def solve_commitment(proof, prefix, rho, gens, g_len, c_vec, pad_l=False):
    """the unique commitment (None = infinity) for which a WELL-FORMED proof string satisfies the final equation;
    raises ValueError(reason) if the string / parameters are malformed (then no commitment verifies).
    pad_l=True builds the commitment a verifier WITHOUT the power-of-two check on |c| would accept (adversarial input; the
    specified verdict for it is still 'reject')."""
    why, eq = _unroll(proof, prefix, rho, gens, g_len, c_vec, pad_l)
    if why is not None:
        raise ValueError(why)
    v, gen_terms, proof_terms = eq
    return msm(gen_terms + [(-k, p) for k, p in proof_terms], v)


# ---------------------------------------------------------------- selftest
# Verification vectors published with the BP++ norm-argument implementation (produced by a third-party implementation of the paper,
# not by this library's prover).  Generators are plain SEC1 points there; transcript = SHA-256 with nothing absorbed.
_VGENS = bytes.fromhex(
    "03af2c40ad03cdc5768c071e58d68c7345baebb53f40fa8bbf736e7b4a5406ed3203cc1119222ca10a4523af9b400da45e0624f45f078988cd71ae77c1f5874efca5"
    "03de61b18f2cac18f5e4068f6555a1305ef5f484ed6bddc2cce85138b8a54c43bd02a5f98c1f822dc6f30f53db7477c79104b0b1a617b291f48b933ebb73153e5ad1"
    "0244f5c64e77608183ffc28e06fe670c9a4bf234b9eae937da30e23227f3885f2a021d495d04ed619537dd95b14f640e1efb479fa7d7e07ab1028195d1a57eb2748f"
    "0326a5ece9714637ac3d748426cb7ce8fe4eb06d703d00101a3a5bb8aa2959931503e1a539447516285fba69a24a2ac35b631f401036f94cd2760fcf7f50306e2b1d")
_NM = "fffffffffffffffffffffffffffffffebaaedce6af48a03bbfd25e8cd03641"
_P7 = ("00bc4c42677169526a65fea0cb3f588b48486e59fc555110b9bf6a7dbf32344e7dbad5cbcc19edaa9f8d93265e3f3eaadf0b1cb3dc37b6dbae436392b5ff0d1c77"
       "027e2bb887858113701f03657dd89183e57e8b9e6f1c089c9c5fa4125fd3eee2747a2c583a294f6410e789bfb2e5d9d5c562830ca8dd1e246dd1588d8074f3d93a"
       "687bf512c6c23f7147dfcfc8e2c459df4fec86e9f931946a5fd91e6b09cdcf5d" + _NM + "3e")
_VECTORS = [
    # (commit33, |n|, c_vec hex list, rho, proof, expected)
    ("03cf7f08f58a06745cdbcec651f3e5e4dcadf4403cfae678be492d90c8d0163d78", 2, [_NM + "3c", "%064x" % 3, _NM + "30", "%064x" % 13], _NM + "3a",
     "00d2ece253972868225934efe47b874de957d5b7c772f4c9ea661459e1a9d5b210dfe2fff5a4386bfe3689e49d909f7119e6a31eaaaa4efec2d337bbdedb4643c2"
     "01425ffcc625a0b4f07699f47ce98382ed7c95bad0e65b88fd38ea2354d4bdd437b82b49af81fdbe88b2e53ff4305200639dae8244e962872a238910e49a649f71"
     "d932573bcbac30ae7161e9501fcb499c52ba0cc400587363d342de425ec597e5da8876496c8b9299eed0a9eb6ecae19381562ecaf38ef004d296d8dbeeee1c44", True),
    ("027aaab27ea55b7708e543b6227fc9ac531032617b7dacb1b6f6acde6379829c24", 4, [_NM + "3c"], _NM + "34", _P7, True),
    ("022d4ff9b71522bcb08bf8ba310a80767ae9a98300bc5a01cce9008356ea77eb75", 4, [_NM + "3c"], _NM + "34", _P7, False),
    ("03628ac2f1f200e081bda0a96d2553b417c10293503e91d4d13a828902247849a5", 2, [_NM + "3c"], _NM + "34", "00" + "00" * 96 + _NM + "3a", True),
    ("03628ac2f1f200e081bda0a96d2553b417c10293503e91d4d13a828902247849a5", 2, [_NM + "3c"], _NM + "34", "01" + "00" * 96 + _NM + "3a", False),
]


def selftest():
    vg = [ec.parse_pubkey(_VGENS[i:i + 33]) for i in range(0, len(_VGENS), 33)]
    for c33, gl, cv, rho, proof, expect in _VECTORS:
        cv = [int(x, 16) for x in cv]
        got = verify(bytes.fromhex(proof), b"", int(rho, 16), vg[:gl + len(cv)], gl, cv, ec.parse_pubkey(bytes.fromhex(c33)))
        assert got == expect, (c33, got)
    # codec round trip incl. infinity; the sign bit of an infinity encoding must be clear
    A, B = ec.mulg(5), ec.mulg(7)
    for X in (A, ec.neg(A), None):
        for R in (B, ec.neg(B), None):
            e = serialize_points(X, R)
            assert parse_points(e) == ((True, X), (True, R))
    assert parse_points(bytes([2]) + bytes(64))[0][0] is False and parse_points(bytes([1]) + bytes(64))[1][0] is False
    assert parse_points(bytes([4]) + i2b(A[0]) + i2b(B[0])) == ((False, None), (False, None))
    # generator sequence: on the curve, distinct, prefix property by construction, serialization round trip
    g = generators(12)
    assert all(ec.on_curve(x) for x in g) and len(set(g)) == 12
    assert parse_generators(serialize_generators(g)) == g
    assert parse_generators(serialize_generators(g)[:-1]) is None
    # completeness of the recursion against the unrolled verification equation (algebraic identity, all shapes up to 8 x 8),
    # and soundness smoke checks
    k = 0
    for gl in (1, 2, 4, 8):
        for hl in (1, 2, 4, 8):
            k += 1
            gens = generators(gl + hl)
            nv = [(3 * i + k) * 0x1234567 % N for i in range(gl)]
            lv = [(N - 1 - i * k) % N for i in range(hl)]
            cv = [(i * i + 5 * k) % N for i in range(hl)]
            rho = (0xdeadbeef * k) % N
            C = commit(gens, nv, lv, cv, rho * rho % N)
            pre = b"selftest" * k
            pr = prove(pre, rho, gens, nv, lv, cv)
            assert len(pr) == 65 * max(ilog2(gl), ilog2(hl)) + 64
            assert verify(pr, pre, rho, gens, gl, cv, C), (gl, hl)
            assert solve_commitment(pr, pre, rho, gens, gl, cv) == C
            assert not verify(pr, pre + b"x", rho, gens, gl, cv, C) or (gl == 1 and hl == 1)
            assert not verify(pr, pre, rho + 1, gens, gl, cv, C)
            assert not verify(pr, pre, rho, gens, gl, cv, ec.add(C, ec.G))
            bad = bytearray(pr)
            bad[-1] ^= 1
            assert not verify(bytes(bad), pre, rho, gens, gl, cv, C)
            assert not verify(pr + b"\x00", pre, rho, gens, gl, cv, C)
            assert not verify(pr, pre, 0, gens, gl, cv, C)
    # all-zero witness: commitment and every round point are the point at infinity
    gens = generators(4)
    pr = prove(b"", 3, gens, [0, 0], [0, 0], [1, 2])
    assert pr == bytes(65 + 64) and verify(pr, b"", 3, gens, 2, [1, 2], None)
    assert not verify(bytes([1]) + pr[1:], b"", 3, gens, 2, [1, 2], None)
    return True
