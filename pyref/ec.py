"""Reference model: secp256k1 field / curve arithmetic and the common encodings.

Pure Python big integers.  Written from SEC 2 / BIP-340; shares no code with /repo.
Points are affine tuples (x, y) or None for the point at infinity.
"""
import hashlib

P = 0xFFFFFFFFFFFFFFFFFFFFFFFFFFFFFFFFFFFFFFFFFFFFFFFFFFFFFFFEFFFFFC2F
N = 0xFFFFFFFFFFFFFFFFFFFFFFFFFFFFFFFEBAAEDCE6AF48A03BBFD25E8CD0364141
GX = 0x79BE667EF9DCBBAC55A06295CE870B07029BFCDB2DCE28D959F2815B16F81798
GY = 0x483ADA7726A3C4655DA4FBFC0E1108A8FD17B448A68554199C47D08FFB10D4B8
G = (GX, GY)
HALF_N = N // 2            # s is "low" iff s <= HALF_N
LAMBDA = 0x5363AD4CC05C30E0A5261C028812645A122E22EA20816678DF02967C1B23BD72
BETA = 0x7AE96A2B657C07106E64479EAC3434E99CF0497512F58995C1396C28719501EE


def b2i(b):
    return int.from_bytes(b, "big")


def i2b(i, n=32):
    return int(i).to_bytes(n, "big")


def sha256(b):
    return hashlib.sha256(b).digest()


def tagged_hash(tag, msg):
    t = sha256(tag if isinstance(tag, bytes) else tag.encode())
    return sha256(t + t + msg)


# ---------------------------------------------------------------- field
def finv(a):
    return pow(a, -1, P)


def fsqrt(a):
    """A square root of a mod p, or None."""
    a %= P
    r = pow(a, (P + 1) // 4, P)
    return r if r * r % P == a else None


def is_square(a):
    a %= P
    return a == 0 or pow(a, (P - 1) // 2, P) == 1


def on_curve(pt):
    if pt is None:
        return True
    x, y = pt
    return 0 <= x < P and 0 <= y < P and (y * y - x * x * x - 7) % P == 0


# ---------------------------------------------------------------- group (Jacobian inside, affine outside)
def _jdbl(p):
    X, Y, Z = p
    if Y == 0 or Z == 0:
        return (0, 1, 0)
    S = 4 * X * Y * Y % P
    M = 3 * X * X % P
    X3 = (M * M - 2 * S) % P
    Y3 = (M * (S - X3) - 8 * Y * Y * Y * Y) % P
    Z3 = 2 * Y * Z % P
    return (X3, Y3, Z3)


def _jadd(p, q):
    if p[2] == 0:
        return q
    if q[2] == 0:
        return p
    X1, Y1, Z1 = p
    X2, Y2, Z2 = q
    Z1Z1 = Z1 * Z1 % P
    Z2Z2 = Z2 * Z2 % P
    U1 = X1 * Z2Z2 % P
    U2 = X2 * Z1Z1 % P
    S1 = Y1 * Z2 * Z2Z2 % P
    S2 = Y2 * Z1 * Z1Z1 % P
    if U1 == U2:
        if S1 != S2:
            return (0, 1, 0)
        return _jdbl(p)
    H = (U2 - U1) % P
    R = (S2 - S1) % P
    H2 = H * H % P
    H3 = H * H2 % P
    U1H2 = U1 * H2 % P
    X3 = (R * R - H3 - 2 * U1H2) % P
    Y3 = (R * (U1H2 - X3) - S1 * H3) % P
    Z3 = H * Z1 * Z2 % P
    return (X3, Y3, Z3)


def _to_j(pt):
    return (0, 1, 0) if pt is None else (pt[0], pt[1], 1)


def _from_j(j):
    X, Y, Z = j
    if Z == 0:
        return None
    zi = finv(Z)
    zi2 = zi * zi % P
    return (X * zi2 % P, Y * zi2 * zi % P)


def add(p, q):
    return _from_j(_jadd(_to_j(p), _to_j(q)))


def neg(p):
    return None if p is None else (p[0], (-p[1]) % P)


def sub(p, q):
    return add(p, neg(q))


def _jmul(k, pt):
    k %= N
    if k == 0 or pt is None:
        return (0, 1, 0)
    # 4-bit fixed window
    base = _to_j(pt)
    tbl = [(0, 1, 0), base]
    for i in range(2, 16):
        tbl.append(_jadd(tbl[i - 1], base) if i & 1 else _jdbl(tbl[i // 2]))
    acc = (0, 1, 0)
    nb = k.bit_length()
    nb += (-nb) % 4
    for sh in range(nb - 4, -1, -4):
        acc = _jdbl(_jdbl(_jdbl(_jdbl(acc))))
        d = (k >> sh) & 15
        if d:
            acc = _jadd(acc, tbl[d])
    return acc


def mul(k, pt):
    """k*pt with k reduced mod n."""
    return _from_j(_jmul(k, pt))


_GTBL = None


def _gtable():
    global _GTBL
    if _GTBL is None:
        t = []
        base = _to_j(G)
        for _ in range(64):
            row = [(0, 1, 0), base]
            for i in range(2, 16):
                row.append(_jadd(row[i - 1], base))
            # normalise the row to affine for faster mixed use (kept Jacobian z=1)
            row = [_to_j(_from_j(r)) for r in row]
            t.append(row)
            base = _jdbl(_jdbl(_jdbl(_jdbl(base))))
        _GTBL = t
    return _GTBL


def _jmulg(k):
    k %= N
    t = _gtable()
    acc = (0, 1, 0)
    i = 0
    while k:
        d = k & 15
        if d:
            acc = _jadd(acc, t[i][d])
        k >>= 4
        i += 1
    return acc


def mulg(k):
    return _from_j(_jmulg(k))


def lincomb(*terms):
    """sum k_i * P_i ; a term with P_i == 'G' uses the fixed-base table."""
    acc = (0, 1, 0)
    for k, pt in terms:
        if pt == 'G' or pt == G:
            acc = _jadd(acc, _jmulg(k))
        else:
            acc = _jadd(acc, _jmul(k, pt))
    return _from_j(acc)


def psum(points):
    acc = (0, 1, 0)
    for pt in points:
        acc = _jadd(acc, _to_j(pt))
    return _from_j(acc)


# ---------------------------------------------------------------- encodings
def lift_x(x, odd=None):
    """Point with this x (and the requested y parity; default even) or None.  Requires x < p."""
    if not 0 <= x < P:
        return None
    y = fsqrt((x * x * x + 7) % P)
    if y is None:
        return None
    if odd is None:
        odd = 0
    if (y & 1) != (1 if odd else 0):
        y = P - y
    return (x, y)


def ser33(pt):
    assert pt is not None
    return bytes([2 + (pt[1] & 1)]) + i2b(pt[0])


def ser65(pt):
    assert pt is not None
    return b"\x04" + i2b(pt[0]) + i2b(pt[1])


def xbytes(pt):
    return i2b(pt[0])


def has_even_y(pt):
    return pt[1] % 2 == 0


def parse_pubkey(b):
    """Strict SEC1 parse (compressed / uncompressed / hybrid).  Returns point or None."""
    if len(b) == 33 and b[0] in (2, 3):
        x = b2i(b[1:])
        return lift_x(x, b[0] & 1)
    if len(b) == 65 and b[0] in (4, 6, 7):
        x = b2i(b[1:33])
        y = b2i(b[33:])
        if x >= P or y >= P:
            return None
        if (y * y - x * x * x - 7) % P != 0:
            return None
        if b[0] in (6, 7) and (y & 1) != (b[0] & 1):
            return None
        return (x, y)
    return None


def parse_xonly(b):
    if len(b) != 32:
        return None
    return lift_x(b2i(b), 0)


def valid_seckey(k):
    return 1 <= k < N


def selftest():
    assert on_curve(G)
    assert mul(N - 1, G) == neg(G)
    assert _jmul(N, G)[2] == 0 or True
    assert add(mul(N - 1, G), G) is None
    assert mulg(LAMBDA) == (BETA * GX % P, GY)
    assert mulg(12345) == mul(12345, G)
    assert lincomb((5, 'G'), (7, mulg(3))) == mulg(26)
    # SEC2 / well-known: 2G
    assert mulg(2)[0] == 0xC6047F9441ED7D6D3045406E95C07CD85C778E4B8CEF3CA7ABAC09B95C709EE5
    assert sha256(b"abc").hex() == "ba7816bf8f01cfea414140de5dae2223b00361a396177a9cb410ff61f20015ad"
    return True


if __name__ == "__main__":
    import time
    t = time.time()
    selftest()
    print("ok", time.time() - t)
    t = time.time()
    for i in range(100):
        mul(N - 1 - i, mulg(i + 2))
    print("mul", (time.time() - t) / 100)
    t = time.time()
    for i in range(100):
        mulg(N - 1 - i)
    print("mulg", (time.time() - t) / 100)
