"""Reference ECDSA adaptor signatures (single signer) as specified by the DLC specification (dlcspecs ECDSA-adaptor.md),
the module header include/secp256k1_ecdsa_adaptor.h and DESIGN.md Appendix A.

Notation: signing key x, X = x*G; encryption key Y = y*G (y = decryption key); message m = int(msg32) mod n.

  adaptor signature (162 bytes) = ser33(R) || ser33(R') || s' || e || s_dleq
      R = k*Y, R' = k*G, r = R.x mod n (must be != 0), s' = k^-1 (m + r*x) with 1 <= s' < n
  DLEQ proof (e, s_dleq) that log_G(R') = log_Y(R):
      e = H_DLEQ(ser33(R') || ser33(Y) || ser33(R) || ser33(R1) || ser33(R2)) mod n       (BIP-340 tagged hash, tag "DLEQ")
      prover: R1 = k2*G, R2 = k2*Y, s_dleq = k2 + e*k;  verifier: R1 = s_dleq*G - e*R', R2 = s_dleq*Y - e*R (both != infinity)
      s_dleq must be < n on the wire; e is a hash value and is compared modulo n (the 32 bytes are reduced, see DESIGN section 5)
  verify:   parse, DLEQ, and R' == s'^-1 (m*G + r*X)
  decrypt:  s = s' * y^-1, normalised to low-S; signature (r, s)
  recover:  refuse unless sig.r == r and sig.s != 0; y = sig.s^-1 * s'; y*G == Y -> y; y*G == -Y -> n - y; otherwise refuse

Pure Python; shares no code with the repository.
"""
from . import ec
from .ec import N, P, HALF_N, b2i, i2b

SIZE = 162


def parse_point33(b):
    """33-byte compressed point (prefix 2/3, x < p, on curve) or None."""
    if len(b) != 33 or b[0] not in (2, 3):
        return None
    return ec.lift_x(b2i(b[1:]), b[0] & 1)


def fields(b):
    """Raw split of a 162-byte string: (R33, Rp33, sp, e, sd) with the scalars as unreduced integers."""
    assert len(b) == SIZE
    return bytes(b[0:33]), bytes(b[33:66]), b2i(b[66:98]), b2i(b[98:130]), b2i(b[130:162])


def serialize(R, Rp, sp, e, sd):
    return ec.ser33(R) + ec.ser33(Rp) + i2b(sp) + i2b(e) + i2b(sd)


def parse(b):
    """Full deserialisation with the range checks of the format: (R, r, Rp, sp, e mod n, sd) or None."""
    if len(b) != SIZE:
        return None
    R33, Rp33, sp, e, sd = fields(b)
    R = parse_point33(R33)
    if R is None:
        return None
    r = R[0] % N
    if r == 0:
        return None
    Rp = parse_point33(Rp33)
    if Rp is None:
        return None
    if not 1 <= sp < N:
        return None
    if sd >= N:
        return None
    return R, r, Rp, sp, e % N, sd


def dleq_challenge(Rp, Y, R, R1, R2):
    return b2i(ec.tagged_hash("DLEQ", ec.ser33(Rp) + ec.ser33(Y) + ec.ser33(R) + ec.ser33(R1) + ec.ser33(R2))) % N


def dleq_prove(k, Y, k2):
    """Proof that R' = k*G and R = k*Y share the discrete logarithm k, with proof nonce k2 (both in [1, n))."""
    Rp, R = ec.mulg(k), ec.mul(k, Y)
    R1, R2 = ec.mulg(k2), ec.mul(k2, Y)
    e = dleq_challenge(Rp, Y, R, R1, R2)
    return e, (k2 + e * k) % N


def dleq_verify(sd, e, Rp, Y, R):
    e %= N
    if sd >= N:
        return False
    R1 = ec.lincomb((sd, 'G'), ((-e) % N, Rp))
    if R1 is None:
        return False
    R2 = ec.lincomb((sd, Y), ((-e) % N, R))
    if R2 is None:
        return False
    return dleq_challenge(Rp, Y, R, R1, R2) == e


def verify(b, X, msg32, Y):
    """What secp256k1_ecdsa_adaptor_verify must return for the 162-byte string b, public key X, message, encryption key Y."""
    p = parse(b)
    if p is None or X is None or Y is None:
        return False
    R, r, Rp, sp, e, sd = p
    # adaptor equation first (cheaper to refute), then the DLEQ proof: the verdict is the conjunction
    m = b2i(msg32) % N
    w = pow(sp, -1, N)
    T = ec.lincomb((m * w % N, 'G'), (r * w % N, X))
    if T is None or T != Rp:
        return False
    return dleq_verify(sd, e, Rp, Y, R)


def encrypt(x, Y, msg32, k, k2):
    """Encrypted signing with caller-chosen nonces k (signature) and k2 (DLEQ proof); None if no valid result exists."""
    if not (1 <= x < N and 1 <= k < N and 1 <= k2 < N) or Y is None:
        return None
    R = ec.mul(k, Y)
    Rp = ec.mulg(k)
    r = R[0] % N
    if r == 0:
        return None
    sp = pow(k, -1, N) * (b2i(msg32) + r * x) % N
    if sp == 0:
        return None
    e, sd = dleq_prove(k, Y, k2)
    return serialize(R, Rp, sp, e, sd)


def decrypt(b, y):
    """(r, s) low-S, or None.  Looks at R.x and s' only (the adaptor signature is assumed to have been verified)."""
    if not 1 <= y < N:
        return None
    r = b2i(b[1:33]) % N
    sp = b2i(b[66:98])
    if r == 0 or not 1 <= sp < N:
        return None
    s = sp * pow(y, -1, N) % N
    if s > HALF_N:
        s = N - s
    return r, s


def recover(b, r, s, Y):
    """Decryption key from a completed signature (r, s), the adaptor signature and the encryption key; None = refuse."""
    ra = b2i(b[1:33]) % N
    sp = b2i(b[66:98])
    if ra == 0 or not 1 <= sp < N:
        return None
    if r != ra or not 1 <= s < N:
        return None
    y = pow(s, -1, N) * sp % N
    Q = ec.mulg(y)
    if Q == Y:
        return y
    if Q == ec.neg(Y):
        return N - y
    return None


# ---------------------------------------------------------------- vectors of the DLC specification
# https://github.com/discreetlogcontracts/dlcspecs  test/ecdsa_adaptor.json (commit 596a1773), vectors 0-5, 9, 10
_V0 = dict(sig="03424d14a5471c048ab87b3b83f6085d125d5864249ae4297a57c84e74710bb6730223f325042fce535d040fee52ec13231bf709ccd84233c6944b90317e62528b2527dff9d659a96db4c99f9750168308633c1867b70f3a18fb0f4539a1aecedcd1fc0148fc22f36b6303083ece3f872b18e35d368b3958efe5fb081f7716736ccb598d269aa3084d57e1855e1ea9a45efc10463bbf32ae378029f5763ceb40173f", msg="8131e6f4b45754f2c90bd06688ceeabc0c45055460729928b4eecf11026a9e2d", X="035be5e9478209674a96e60f1f037f6176540fd001fa1d64694770c56a7709c42c", Y="02c2662c97488b07b6e819124b8989849206334a4c2fbdf691f7b34d2b16e9c293", y="0b2aba63b885a0f0e96fa0f303920c7fb7431ddfa94376ad94d969fbf4109dc8", ecdsa="424d14a5471c048ab87b3b83f6085d125d5864249ae4297a57c84e74710bb67329e80e0ee60e57af3e625bbae1672b1ecaa58effe613426b024fa1621d903394")
_V1 = dict(sig="036035c89860ec62ad153f69b5b3077bcd08fbb0d28dc7f7f6df4a05cca35455be037043b63c56f6317d9928e8f91007335748c49824220db14ad10d80a5d00a9654af0996c1824c64c90b951bb2734aaecf78d4b36131a47238c3fa2ba25e2ced54255b06df696de1483c3767242a3728826e05f79e3981e12553355bba8a0131cd370e63e3da73106f638576a5aab0ea6d45c042574c0c8d0b14b8c7c01cfe9072", msg="8131e6f4b45754f2c90bd06688ceeabc0c45055460729928b4eecf11026a9e2d", X="035be5e9478209674a96e60f1f037f6176540fd001fa1d64694770c56a7709c42c", Y="024eee18be9a5a5224000f916c80b393447989e7194bc0b0f1ad7a03369702bb51", y="db2debddb002473a001dd70b06f6c97bdcd1c46ba1001237fe0ee1aeffb2b6c4", ecdsa="6035c89860ec62ad153f69b5b3077bcd08fbb0d28dc7f7f6df4a05cca35455be4ceacf921546c03dd1be596723ad1e7691bdac73d88cc36c421c5e7f08384305")
# vector 2: 'the DLEQ proof is wrong' -> verification fails; the (unverified) signature still decrypts to something else
_V2 = dict(sig="03f94dca206d7582c015fb9bffe4e43b14591b30ef7d2b464d103ec5e116595dba03127f8ac3533d249280332474339000922eb6a58e3b9bf4fc7e01e4b4df2b7a4100a1e089f16e5d70bb89f961516f1de0684cc79db978495df2f399b0d01ed7240fa6e3252aedb58bdc6b5877b0c602628a235dd1ccaebdddcbe96198c0c21bead7b05f423b673d14d206fa1507b2dbe2722af792b8c266fc25a2d901d7e2c335", msg="8131e6f4b45754f2c90bd06688ceeabc0c45055460729928b4eecf11026a9e2d", X="035be5e9478209674a96e60f1f037f6176540fd001fa1d64694770c56a7709c42c", Y="0214ccb756249ad6e733c80285ea7ac2ee12ffebbcee4e556e6810793a60c45ad4", y="1dfcfc0880e72509768ab46f2545b33168b8b8df8e4f5feb5059aa3750ee59d0", ecdsa="424d14a5471c048ab87b3b83f6085d125d5864249ae4297a57c84e74710bb67329e80e0ee60e57af3e625bbae1672b1ecaa58effe613426b024fa1621d903394")
# vector 3: recovery from the low-S signature; vector 4: R does not match -> refuse; vector 5: recovery from a high-S signature
_V3 = dict(sig="03f2db6e9ed33092cc0b898fd6b282e99bdaeccb3de85c2d2512d8d507f9abab290210c01b5bed7094a12664aeaab3402d8709a8f362b140328d1b36dd7cb420d02fb66b1230d61c16d0cd0a2a02246d5ac7848dcd6f04fe627053cd3c7015a7d4aa6ac2b04347348bd67da43be8722515d99a7985fbfa66f0365c701de76ff0400dffdc9fa84dddf413a729823b16af60aa6361bc32e7cfd6701e32957c72ace67b", Y="027ee4f899bc9c5f2b626fa1a9b37ce291c0388b5227e90b0fd8f4fa576164ede7", y="9cf3ea9be594366b78c457162908af3c2ea177058177e9c6bf99047927773a06", ecdsa="f2db6e9ed33092cc0b898fd6b282e99bdaeccb3de85c2d2512d8d507f9abab2921811fe7b53becf3b7affa9442abaa93c0ab8a8e45cd7ee2ea8d258bfc25d464")
_V4 = dict(sig="03aa86d78059a91059c29ec1a757c4dc029ff636a1e6c1142fefe1e9d7339617c003a8153e50c0c8574a38d389e61bbb0b5815169e060924e4b5f2e78ff13aa7ad858e0c27c4b9eed9d60521b3f54ff83ca4774be5fb3a680f820a35e8840f4aaf2de88e7c5cff38a37b78725904ef97bb82341328d55987019bd38ae1745e3efe0f8ea8bdfede0d378fc1f96e944a7505249f41e93781509ee0bade77290d39cd12", Y="035176d24129741b0fcaa5fd6750727ce30860447e0a92c9ebebdeb7c3f93995ed", ecdsa="f7f7fe6bd056fc4abd70d335f72d0aa1e8406bba68f3e579e4789475323564a452c46176c7fb40aa37d5651341f55697dab27d84a213b30c93011a7790bace8c")
_V5 = dict(sig="032c637cd797dd8c2ce261907ed43e82d6d1a48cbabbbece801133dd8d70a01b1403eb615a3e59b1cbbf4f87acaf645be1eda32a066611f35dd5557802802b14b19c81c04c3fefac5783b2077bd43fa0a39ab8a64d4d78332a5d621ea23eca46bc011011ab82dda6deb85699f508744d70d4134bea03f784d285b5c6c15a56e4e1fab4bc356abbdebb3b8fe1e55e6dd6d2a9ea457e91b2e6642fae69f9dbb5258854", Y="02042537e913ad74c4bbd8da9607ad3b9cb297d08e014afc51133083f1bd687a62", y="324719b51ff2474c9438eb76494b0dc0bcceeb529f0a5428fd198ad8f886e99c", ecdsa="2c637cd797dd8c2ce261907ed43e82d6d1a48cbabbbece801133dd8d70a01b14b5f24321f550b7b9dd06ee4fcfd82bdad8b142ff93a790cc4d9f7962b38c6a3b")
# vectors 9 / 10: s' and the DLEQ response out of range
_V9 = "03e6d51da7bc2bf24cf9dfd9acc6c4f0a3e74d8a6273ee5a573ed6818e3095b60903f33bc98f9d2ea3511f2e24f3358557c815abd7713c9318af9f4dfab4441898ec000000000000000000000000000000000000000000000000000000000000000085b58980b8e6c54bd20616bdb9461dccd8eebb7d7e7c83a91452cc20edf53be5b0fe0db44dddaaafbe737678c684b6e89b9b4b679b1855aa6ed644498b89c918"
_V10 = "03e6d51da7bc2bf24cf9dfd9acc6c4f0a3e74d8a6273ee5a573ed6818e3095b60903f33bc98f9d2ea3511f2e24f3358557c815abd7713c9318af9f4dfab4441898ecfffffffffffffffffffffffffffffffebaaedce6af48a03bbfd25e8cd036414185b58980b8e6c54bd20616bdb9461dccd8eebb7d7e7c83a91452cc20edf53be5b0fe0db44dddaaafbe737678c684b6e89b9b4b679b1855aa6ed644498b89c918"


def _pt(h):
    return ec.parse_pubkey(bytes.fromhex(h))


def selftest():
    # DLC specification vectors 0 and 1: verification, decryption, recovery
    for v in (_V0, _V1):
        b = bytes.fromhex(v["sig"])
        X, Y, msg, y = _pt(v["X"]), _pt(v["Y"]), bytes.fromhex(v["msg"]), b2i(bytes.fromhex(v["y"]))
        assert ec.mulg(y) == Y
        assert verify(b, X, msg, Y)
        r, s = decrypt(b, y)
        assert i2b(r) + i2b(s) == bytes.fromhex(v["ecdsa"])
        assert recover(b, r, s, Y) == y and recover(b, r, N - s, Y) == y
        assert recover(b, r, s, ec.neg(Y)) == N - y
        assert recover(b, (r + 1) % N, s, Y) is None and recover(b, r, 0, Y) is None
        # every field matters
        for pos in (0, 5, 33, 40, 70, 100, 140, 161):
            c = bytearray(b)
            c[pos] ^= 1
            assert not verify(bytes(c), X, msg, Y), pos
        assert not verify(b, Y, msg, Y) and not verify(b, X, msg, X) and not verify(b, X, i2b(b2i(msg) ^ 1), Y)
    # vector 2: wrong proof -> reject; decrypting it does not give the listed signature; recovery from that signature refuses
    b = bytes.fromhex(_V2["sig"])
    assert not verify(b, _pt(_V2["X"]), bytes.fromhex(_V2["msg"]), _pt(_V2["Y"]))
    rs = decrypt(b, b2i(bytes.fromhex(_V2["y"])))
    assert i2b(rs[0]) + i2b(rs[1]) != bytes.fromhex(_V2["ecdsa"])
    e = bytes.fromhex(_V2["ecdsa"])
    assert recover(b, b2i(e[:32]), b2i(e[32:]), _pt(_V2["Y"])) is None
    # vectors 3 (low S) and 5 (high S): recovery returns the decryption key; decrypt yields the low-S form only
    for v, same in ((_V3, True), (_V5, False)):
        b, e = bytes.fromhex(v["sig"]), bytes.fromhex(v["ecdsa"])
        y = b2i(bytes.fromhex(v["y"]))
        rs = decrypt(b, y)
        assert (i2b(rs[0]) + i2b(rs[1]) == e) == same
        assert recover(b, b2i(e[:32]), b2i(e[32:]), _pt(v["Y"])) == y
    # vector 4: the signature's R does not match
    b, e = bytes.fromhex(_V4["sig"]), bytes.fromhex(_V4["ecdsa"])
    assert recover(b, b2i(e[:32]), b2i(e[32:]), _pt(_V4["Y"])) is None
    # vectors 9 / 10: s' zero, DLEQ response too high -> do not deserialise
    assert parse(bytes.fromhex(_V9)) is None and parse(bytes.fromhex(_V10)) is None
    # algebraic identities: encrypt -> verify -> decrypt -> ECDSA equation -> recover, with boundary nonces
    from . import ecdsa
    for (x, yy, m, k, k2) in ((1, 1, 0, 1, 1), (N - 1, N - 1, N + 5, N - 1, 2), (12345, 777, (1 << 256) - 1, 99, N - 1)):
        Yp = ec.mulg(yy)
        a = encrypt(x, Yp, i2b(m), k, k2)
        assert a is not None and verify(a, ec.mulg(x), i2b(m), Yp)
        R, rr, Rp, sp, e, sd = parse(a)
        assert R == ec.mulg(k * yy % N) and Rp == ec.mulg(k)
        rs = decrypt(a, yy)
        assert ecdsa.verify(rs[0], rs[1], i2b(m), ec.mulg(x))
        assert recover(a, rs[0], rs[1], Yp) == yy and recover(a, rs[0], N - rs[1], Yp) == yy
        # e is compared modulo n: the aliased encoding e + n (when it fits) is the same proof
        if e + N < (1 << 256):
            assert verify(a[:98] + i2b(e + N) + a[130:], ec.mulg(x), i2b(m), Yp)
        # out-of-range / zero scalars
        for bad in (0, N, N + 1, (1 << 256) - 1):
            assert not verify(a[:66] + i2b(bad) + a[98:], ec.mulg(x), i2b(m), Yp)
        for bad in (N, N + 1, (1 << 256) - 1):
            assert not verify(a[:130] + i2b(bad), ec.mulg(x), i2b(m), Yp)
    return True
