"""Reference model: the key algebra of the public API (secret keys are ints, public keys are affine points).

Written from include/secp256k1.h, include/secp256k1_extrakeys.h and BIP-340/341; shares no code with /repo.
Every function returns None where the API documents a failure (return value 0):
  * secret key not in [1, n-1]
  * tweak >= n                 (additive tweak 0 is allowed, multiplicative tweak 0 is not)
  * result 0 / point at infinity
"""
from . import ec

N, P = ec.N, ec.P


# ------------------------------------------------------------------ secret side
def seckey_valid(sk):
    return 1 <= sk < N


def seckey_negate(sk):
    if not seckey_valid(sk):
        return None
    return N - sk


def seckey_tweak_add(sk, t):
    if not seckey_valid(sk) or not 0 <= t < N:
        return None
    r = (sk + t) % N
    return r if r else None


def seckey_tweak_mul(sk, t):
    if not seckey_valid(sk) or not 1 <= t < N:
        return None
    return sk * t % N


# ------------------------------------------------------------------ public side
def pubkey_create(sk):
    return ec.mulg(sk) if seckey_valid(sk) else None


def pubkey_negate(pt):
    return ec.neg(pt)


def pubkey_tweak_add(pt, t):
    if pt is None or not 0 <= t < N:
        return None
    return ec.add(pt, ec.mulg(t))          # None == infinity == failure


def pubkey_tweak_mul(pt, t):
    if pt is None or not 1 <= t < N:
        return None
    return ec.mul(t, pt)


def pubkey_combine(pts):
    """sum of >= 1 valid points; None iff the sum is the point at infinity"""
    if not pts:
        return None
    return ec.psum(pts)


# ------------------------------------------------------------------ x-only / keypair / Taproot
def xonly_from_point(pt):
    """-> (even-y point with the same x, parity) ; parity = 1 iff the x-only key is the negation of pt"""
    par = pt[1] & 1
    return ((pt[0], P - pt[1]) if par else pt), par


def xonly_seckey(sk):
    """the secret key of the x-only (even-y) public key of sk"""
    pt = ec.mulg(sk)
    return N - sk if pt[1] & 1 else sk


def xonly_tweak_add(xpt, t):
    """xpt: even-y point (the internal key).  -> full point internal + t*G or None"""
    assert xpt[1] & 1 == 0
    return pubkey_tweak_add(xpt, t)


def xonly_tweak_add_check(x32, parity, xpt, t):
    """the documented predicate: (x32, parity) is the x-only serialization and parity of xonly_tweak_add(xpt, t)"""
    q = xonly_tweak_add(xpt, t)
    if q is None:
        return False
    return ec.i2b(q[0]) == bytes(x32) and (q[1] & 1) == parity


def keypair_xonly_tweak_add(sk, t):
    """-> new secret key (whose public key is xonly(sk*G) + t*G) or None"""
    if not seckey_valid(sk):
        return None
    return seckey_tweak_add(xonly_seckey(sk), t)


def taproot_tweak(xpt, merkle_root=b""):
    """BIP-341: t = H_TapTweak(x(P) || merkle_root)"""
    return ec.b2i(ec.tagged_hash("TapTweak", ec.i2b(xpt[0]) + merkle_root))


# ------------------------------------------------------------------ ordering
def sort_key(pt):
    return ec.ser33(pt)


def cmp(a, b):
    ka, kb = sort_key(a), sort_key(b)
    return (ka > kb) - (ka < kb)


def sort(pts):
    return sorted(pts, key=sort_key)


def selftest():
    # BIP-340 test vectors 0 and 1 (secret key -> x-only public key)
    sk0 = 3
    assert ec.i2b(xonly_from_point(ec.mulg(sk0))[0][0]).hex().upper() == "F9308A019258C31049344F85F89D5229B531C845836F99B08601F113BCE036F9"
    sk1 = 0xB7E151628AED2A6ABF7158809CF4F3C762E7160F38B4DA56A784D9045190CFEF
    assert ec.i2b(ec.mulg(sk1)[0]).hex().upper() == "DFF1D77F2A671C5F36183726DB2341BE58FEAE1DA2DECED843240F7B502BA659"
    # algebra: secret side then derive == derive then public side (independent paths: mulg vs add/mul)
    a, t = 0x1234567890ABCDEF1234567890ABCDEF1234567890ABCDEF1234567890ABCDEF, N - 12345
    A = ec.mulg(a)
    assert ec.mulg(seckey_tweak_add(a, t)) == pubkey_tweak_add(A, t)
    assert ec.mulg(seckey_tweak_mul(a, t)) == pubkey_tweak_mul(A, t)
    assert ec.mulg(seckey_negate(a)) == pubkey_negate(A)
    assert seckey_tweak_add(a, N - a) is None and pubkey_tweak_add(A, N - a) is None
    assert seckey_tweak_add(a, N) is None and pubkey_tweak_add(A, N) is None
    assert seckey_tweak_add(a, 0) == a and pubkey_tweak_add(A, 0) == A
    assert seckey_tweak_mul(a, 0) is None and pubkey_tweak_mul(A, 0) is None and seckey_tweak_mul(a, N) is None
    assert seckey_tweak_add(0, 1) is None and seckey_tweak_add(N, 1) is None and seckey_negate(0) is None
    for sk in (a, N - a, 3, N - 3):
        xp, par = xonly_from_point(ec.mulg(sk))
        assert xp[1] % 2 == 0 and ec.mulg(xonly_seckey(sk)) == xp and par == (ec.mulg(sk)[1] & 1)
        nsk = keypair_xonly_tweak_add(sk, t)
        q = xonly_tweak_add(xp, t)
        assert ec.mulg(nsk) == q
        assert xonly_tweak_add_check(ec.i2b(q[0]), q[1] & 1, xp, t)
        assert not xonly_tweak_add_check(ec.i2b(q[0]), 1 - (q[1] & 1), xp, t)
        assert keypair_xonly_tweak_add(sk, N - xonly_seckey(sk)) is None
    assert pubkey_combine([A, ec.neg(A)]) is None and pubkey_combine([A, ec.neg(A), A]) == A and pubkey_combine([A, A]) == ec.mulg(2 * a)
    # ordering: 02.. < 03.. for the same x, otherwise by x
    assert cmp(A, A) == 0 and cmp(xonly_from_point(A)[0], ec.neg(xonly_from_point(A)[0])) == -1
    g2 = ec.mulg(2)
    assert cmp(ec.G, g2) == (-1 if ec.G[0] < g2[0] else 1)
    assert [sort_key(p) for p in sort([g2, ec.G, ec.neg(ec.G)])] == sorted(sort_key(p) for p in [g2, ec.G, ec.neg(ec.G)])
    return True


if __name__ == "__main__":
    selftest()
    print("ok")
