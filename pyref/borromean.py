"""Reference model: Borromean ring signatures (Maxwell/Poelstra) as used by the range-proof,
surjection and whitelist modules.  Written from DESIGN.md Appendix A."""
from . import ec
from .ec import sha256, i2b, b2i, N


def bhash(e, m, ridx, eidx):
    return sha256(e + m + ridx.to_bytes(4, "big") + eidx.to_bytes(4, "big"))


def verify(e0, s, pubs, rsizes, m):
    """e0: 32 bytes; s: flat list of ints (already range-checked by the caller as the format demands);
    pubs: flat list of points (None = infinity); rsizes: ring sizes; m: message bytes."""
    count = 0
    tail = b""
    for i, rs in enumerate(rsizes):
        e = b2i(bhash(e0, m, i, 0))
        for j in range(rs):
            if e >= N or e == 0 or s[count] % N == 0 or pubs[count] is None:
                return False
            R = ec.lincomb((e, pubs[count]), (s[count], 'G'))
            if R is None:
                return False
            enc = ec.ser33(R)
            if j != rs - 1:
                e = b2i(bhash(enc, m, i, j + 1))
            else:
                tail += enc
            count += 1
    return sha256(tail + m) == e0


def sign(pubs, rsizes, secidx, secs, nonces, forged, m):
    """Prover with free choices.  forged: flat list of ints (entries at the secret positions are ignored).
    Returns (e0, s list) or None if a hash lands outside [1,n) or a point degenerates."""
    s = list(forged)
    offs = []
    c = 0
    for rs in rsizes:
        offs.append(c)
        c += rs
    tail = b""
    for i, rs in enumerate(rsizes):
        R = ec.mulg(nonces[i])
        if R is None:
            return None
        for j in range(secidx[i] + 1, rs):
            e = b2i(bhash(ec.ser33(R), m, i, j))
            if e >= N or e == 0:
                return None
            R = ec.lincomb((e, pubs[offs[i] + j]), (s[offs[i] + j], 'G'))
            if R is None:
                return None
        tail += ec.ser33(R)
    e0 = sha256(tail + m)
    for i, rs in enumerate(rsizes):
        e = b2i(bhash(e0, m, i, 0))
        if e >= N or e == 0:
            return None
        for j in range(secidx[i]):
            R = ec.lincomb((e, pubs[offs[i] + j]), (s[offs[i] + j], 'G'))
            if R is None:
                return None
            e = b2i(bhash(ec.ser33(R), m, i, j + 1))
            if e >= N or e == 0:
                return None
        s[offs[i] + secidx[i]] = (nonces[i] - e * secs[i]) % N
        if s[offs[i] + secidx[i]] == 0:
            return None
    return e0, s
