"""Reference ECDSA over secp256k1: verification (with the library's low-S rule), deterministic signing, recovery."""
from . import ec, rfc6979
from .ec import N, P, HALF_N, b2i, i2b


def verify_eq(r, s, m, Q):
    """The bare ECDSA equation for 1 <= r,s < n (no low-S rule).  m: int (any size), Q: point."""
    if not (1 <= r < N and 1 <= s < N) or Q is None:
        return False
    w = pow(s, -1, N)
    R = ec.lincomb((m % N * w % N, 'G'), (r * w % N, Q))
    if R is None:
        return False
    return R[0] % N == r


def verify(r, s, msg32, Q):
    """What secp256k1_ecdsa_verify must return: equation holds and 1 <= s <= n/2."""
    return 1 <= s <= HALF_N and verify_eq(r, s, b2i(msg32), Q)


def sign_with_nonce(d, m, k):
    """-> (r, s, recid) with low-S, or None if r == 0 or s == 0.  d, m, k ints (k in [1,n))."""
    R = ec.mulg(k)
    r = R[0] % N
    if r == 0:
        return None
    recid = (2 if R[0] >= N else 0) | (R[1] & 1)
    s = pow(k, -1, N) * ((m % N) + r * d) % N
    if s == 0:
        return None
    if s > HALF_N:
        s = N - s
        recid ^= 1
    return r, s, recid


def sign(sk32, msg32, extra=None, nonce_source=None):
    """Deterministic signature of the library: RFC 6979 nonces, retry on invalid nonce / zero r,s.
    nonce_source(counter) -> 32 bytes or None (failure) overrides RFC 6979."""
    d = b2i(sk32)
    if not 1 <= d < N:
        return None
    counter = 0
    while True:
        nb = nonce_source(counter) if nonce_source else rfc6979.nonce(sk32, msg32, extra, None, counter)
        if nb is None:
            return None
        k = b2i(nb)
        if 1 <= k < N:
            r = sign_with_nonce(d, b2i(msg32), k)
            if r is not None:
                return r
        counter += 1
        if counter > 1000:
            raise RuntimeError("nonce source never produces a valid nonce")


def recover(r, s, recid, msg32):
    """Public key from a recoverable signature, or None."""
    if not (1 <= r < N and 1 <= s < N):
        return None
    x = r
    if recid & 2:
        if x + N >= P:
            return None
        x += N
    R = ec.lift_x(x, recid & 1)
    if R is None:
        return None
    rinv = pow(r, -1, N)
    Q = ec.lincomb(((-b2i(msg32)) % N * rinv % N, 'G'), (s * rinv % N, R))
    return Q


def construct_from_R(xR, odd, s, m):
    """Build a satisfying (r, s, m, Q) from a chosen nonce point R (by x coordinate), s and m: Q = r^-1 (s R - m G).
    Returns (r, Q) or None if x is not on the curve / r == 0 / Q infinity."""
    R = ec.lift_x(xR % P, odd) if xR < P else None
    if R is None:
        return None
    r = R[0] % N
    if r == 0 or not 1 <= s < N:
        return None
    rinv = pow(r, -1, N)
    Q = ec.lincomb((s * rinv % N, R), ((-m) % N * rinv % N, 'G'))
    if Q is None:
        return None
    return r, Q


def selftest():
    import hashlib
    # deterministic vectors (RFC 6979 on secp256k1, bitcoin test suites): key 1, "Satoshi Nakamoto"
    m = hashlib.sha256(b"Satoshi Nakamoto").digest()
    r, s, rec = sign(i2b(1), m)
    assert "%064x%064x" % (r, s) == "934b1ea10a4b3c1757e2b0c017d0b6143ce3c9a7e6a4a49860d7a6ab210ee3d82442ce9d2b916064108014783e923ec36b49743e2ffa1c4496f01a512aafd9e5"
    assert verify(r, s, m, ec.G)
    assert not verify(r, N - s, m, ec.G) and verify_eq(r, N - s, b2i(m), ec.G)
    assert recover(r, s, rec, m) == ec.G
    c = construct_from_R(ec.mulg(77)[0], 0, 5, 12345)
    assert c and verify_eq(c[0], 5, 12345, c[1])
    return True
