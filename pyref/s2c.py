"""Reference sign-to-contract for ECDSA and the ECDSA anti-exfil protocol (include/secp256k1_ecdsa_s2c.h, DESIGN.md Appendix A).

  H_data(d)      = tagged_hash("s2c/ecdsa/data", d)                      (what the host commits to, and the nonce's extra entropy)
  H_point(O, d)  = tagged_hash("s2c/ecdsa/point", ser33(O) || d)         (the sign-to-contract tweak)
  sign(sk, msg, d):   k = RFC6979(sk, msg mod n, extra = H_data(d)) (the library's documented ECDSA derivation, i-th retry = i-th output),
                      O = k*G is the opening, k' = k + H_point(O, d), signature = ECDSA with nonce k' (low-S)
  verify_commit(r, d, O):   (O + H_point(O, d)*G).x mod n == r        (looks at r only; by documented design s is not involved)
  host_commit(rho) = H_data(rho);  signer_commit(msg, sk, c) = RFC6979(sk, msg mod n, extra = c)*G
  host_verify = verify_commit and ecdsa_verify

Pure Python; shares no code with the repository.
"""
from . import ec, ecdsa, rfc6979
from .ec import N, b2i, i2b


def data_hash(d32):
    return ec.tagged_hash("s2c/ecdsa/data", d32)


def point_tweak(O, d32):
    return b2i(ec.tagged_hash("s2c/ecdsa/point", ec.ser33(O) + d32))


def parse_opening(b33):
    """An opening is a compressed point: prefix 2/3, x < p, on the curve."""
    if len(b33) != 33 or b33[0] not in (2, 3):
        return None
    return ec.lift_x(b2i(b33[1:]), b33[0] & 1)


def original_nonce(sk32, msg32, extra32, counter=0):
    return b2i(rfc6979.nonce(sk32, msg32, extra32, None, counter))


def sign(sk32, msg32, d32):
    """-> (r, s, opening point) or None (invalid key; or the negligible tweak failure)."""
    d = b2i(sk32)
    if not 1 <= d < N:
        return None
    extra = data_hash(d32)
    for counter in range(64):
        k = original_nonce(sk32, msg32, extra, counter)
        if not 1 <= k < N:
            continue
        O = ec.mulg(k)
        t = point_tweak(O, d32)
        if t >= N or (k + t) % N == 0:
            return None
        res = ecdsa.sign_with_nonce(d, b2i(msg32), (k + t) % N)
        if res is not None:
            return res[0], res[1], O
    raise RuntimeError("no valid nonce in 64 attempts")


def commitment_point(O, d32):
    if O is None:
        return None
    t = point_tweak(O, d32)
    if t >= N:
        return None
    return ec.add(O, ec.mulg(t))


def verify_commit(r, d32, O):
    C = commitment_point(O, d32)
    return C is not None and C[0] % N == r


def host_commit(rho32):
    return data_hash(rho32)


def signer_commit(msg32, sk32, commitment32):
    for counter in range(64):
        k = original_nonce(sk32, msg32, commitment32, counter)
        if 1 <= k < N:
            return ec.mulg(k)
    raise RuntimeError("no valid nonce in 64 attempts")


def host_verify(r, s, msg32, Q, rho32, O):
    return verify_commit(r, rho32, O) and ecdsa.verify(r, s, msg32, Q)


def selftest():
    # no external vectors exist for this scheme: algebraic identities only
    import hashlib
    for i, (sk, msg) in enumerate(((1, 0), (N - 1, N + 7), (0xC0FFEE, (1 << 256) - 1))):
        d = hashlib.sha256(bytes([i])).digest()
        r, s, O = sign(i2b(sk), i2b(msg), d)
        Q = ec.mulg(sk)
        assert ecdsa.verify(r, s, i2b(msg), Q)
        assert verify_commit(r, d, O) and not verify_commit(r, hashlib.sha256(d).digest(), O)
        assert not verify_commit(r, d, ec.neg(O)) and not verify_commit((r + 1) % N, d, O)
        # the signature's nonce point is the commitment point (up to sign: low-S normalisation)
        C = commitment_point(O, d)
        w = pow(s, -1, N)
        Rsig = ec.lincomb((msg % N * w % N, 'G'), (r * w % N, Q))
        assert Rsig[0] == C[0]
        # anti-exfil: the signer's early commitment is the opening of the later signature
        assert signer_commit(i2b(msg), i2b(sk), host_commit(d)) == O
        assert host_verify(r, s, i2b(msg), Q, d, O) and not host_verify(r, N - s, i2b(msg), Q, d, O)
        # msg and msg mod n derive the same nonce
        if msg >= N:
            assert sign(i2b(sk), i2b(msg - N), d) == (r, s, O)
    assert parse_opening(ec.ser33(ec.G)) == ec.G and parse_opening(b"\x04" + ec.ser33(ec.G)[1:]) is None
    return True
