"""Validation of the reference model against vectors that do not come from the library."""
import importlib
import sys

MODS = ["ec", "rfc6979", "ecdsa", "bip340", "der", "keys", "pedersen", "borromean", "rangeproof", "surjection", "whitelist",
        "musig", "adaptor", "s2c", "halfagg", "ecdh", "ellswift", "bppp"]


def main():
    n = 0
    for m in MODS:
        try:
            mod = importlib.import_module("pyref." + m)
        except ModuleNotFoundError:
            continue
        if hasattr(mod, "selftest"):
            mod.selftest()
            n += 1
    print("pyref selftest ok (%d modules)" % n)


if __name__ == "__main__":
    main()
