"""Reference model: generators (Shallue-van de Woestijne, two-hash derivation), quadratic-residue-y encodings,
Pedersen commitments, tallies and blind sums.  Written from DESIGN.md Appendix A / Fouque-Tibouchi."""
from . import ec
from .ec import P, N, b2i, i2b, sha256

B = 7
# c = sqrt(-3) with the sign convention of the specification: -c = 0xf5d2d456...e32a03dd
NEGC = 0xf5d2d456caf80e20dcc88f3d586869d339e092ea25eb132b8272d850e32a03dd
C = (-NEGC) % P
assert C * C % P == (-3) % P
D = (C - 1) * pow(2, -1, P) % P


def qr_root(a):
    """the square root of a that is itself a square (p = 3 mod 4: a^((p+1)/4)), or None"""
    return ec.fsqrt(a)


def svdw(t):
    t %= P
    t2 = t * t % P
    wden = (1 + B + t2) % P
    winv = pow(wden, -1, P)                       # 1+b+t^2 is never 0 (-8 is a non-residue)
    w = C * t % P * winv % P
    x1 = (D - t * w) % P
    x2 = (-(x1 + 1)) % P
    w2 = w * w % P
    x3 = (1 + (pow(w2, -1, P) if w2 else 0)) % P    # 1/0 := 0  (t = 0)
    for x in (x1, x2, x3):
        y = qr_root((x * x * x + B) % P)
        if y is not None:
            if t & 1:
                y = (-y) % P
            return (x, y)
    raise AssertionError("svdw: no candidate on curve")


def generate(seed32, blind=None):
    """-> point or None (seed not acceptable / blind out of range).  blind: int or None"""
    ok = True
    acc = None
    if blind is not None:
        if blind >= N:
            ok = False
        acc = ec.mulg(blind % N)
    for prefix in (b"1st generation: ", b"2nd generation: "):
        t = b2i(sha256(prefix + seed32))
        if t >= P:
            ok = False
            t %= P
        acc = ec.add(acc, svdw(t))
    return acc if ok else None


def enc_qr(pt, base):
    """flag byte + x: base (8 commitments / 10 generators / 0 range-proof hash input) when y is a square, base+1 otherwise"""
    return bytes([base + (0 if ec.is_square(pt[1]) else 1)]) + i2b(pt[0])


def dec_qr(b33, base):
    """strict decoder: prefix base/base+1, x < p, on curve -> point or None"""
    if len(b33) != 33 or (b33[0] & 0xFE) != base:
        return None
    x = b2i(b33[1:])
    if x >= P:
        return None
    y = qr_root((x * x * x + B) % P)
    if y is None:
        return None
    if b33[0] & 1:
        y = (-y) % P
    return (x, y)


def commit_point(blind, value, H):
    return ec.lincomb((blind, 'G'), (value, H))


def commit(blind, value, H):
    """-> 33 bytes or None (blind >= n or the point is infinity)"""
    if blind >= N:
        return None
    pt = commit_point(blind, value, H)
    if pt is None:
        return None
    return enc_qr(pt, 8)


def tally(pos, neg):
    """pos, neg: lists of points; True iff sum(pos) - sum(neg) is infinity"""
    return ec.psum(list(pos) + [ec.neg(p) for p in neg]) is None


def blind_sum(blinds, npositive):
    """-> int or None if some input >= n"""
    acc = 0
    for i, b in enumerate(blinds):
        if b >= N:
            return None
        acc = (acc + b) % N if i < npositive else (acc - b) % N
    return acc


def selftest():
    # svdw output must be on the curve and negate with t; generator derivation is a sum of two such points
    for t in (0, 1, 2, 3, 5, P - 1, 1 << 200, 0xdeadbeef):
        pt = svdw(t)
        assert ec.on_curve(pt)
        assert svdw((-t) % P) == (ec.neg(pt) if t % P else pt) or t % P == 0
    g = generate(bytes(32))
    assert ec.on_curve(g)
    assert dec_qr(enc_qr(g, 10), 10) == g
    return True
