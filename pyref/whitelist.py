"""Reference model: whitelist ring signatures (src/modules/whitelist/whitelist.md, Appendix A)."""
from . import ec, borromean
from .ec import sha256, b2i, i2b, N


def ring_keys(online, offline, W):
    """-> (list of ring keys (None = infinity), message)"""
    h = ec.ser33(W)
    keys = []
    for on, off in zip(online, offline):
        h += ec.ser33(off) + ec.ser33(on)
        T = ec.add(off, W)
        if T is not None:
            t = b2i(sha256(ec.ser33(T)))
            # t == 0 or >= n is cryptographically unreachable; the format then leaves T untweaked
            if 0 < t < N:
                T = ec.mul(t, T)
        keys.append(ec.add(T, on))
    return keys, sha256(h)


def parse(b):
    """-> (n_keys, e0, [s ints]) or None"""
    if len(b) == 0:
        return None
    n = b[0]
    if n > 255 or len(b) != 1 + 32 * (n + 1):
        return None
    return n, b[1:33], [b2i(b[33 + 32 * i:65 + 32 * i]) for i in range(n)]


def serialize(e0, s):
    return bytes([len(s)]) + e0 + b"".join(i2b(x) for x in s)


def verify(sigbytes, online, offline, W):
    """The property's acceptance set: a parsed signature, a NON-EMPTY list with matching count,
    every scalar in [1,n), and the ring equation."""
    p = parse(sigbytes)
    if p is None:
        return False
    n, e0, s = p
    if n == 0 or n != len(online) or n != len(offline):
        return False
    for x in s:
        if x == 0 or x >= N:
            return False
    keys, m = ring_keys(online, offline, W)
    return borromean.verify(e0, s, keys, [n], m)


def tweaked_seckey(online_sk, summed_sk):
    t = b2i(sha256(ec.ser33(ec.mulg(summed_sk))))
    return (online_sk + t * summed_sk) % N


def sign(online, offline, W, online_sk, summed_sk, index, nonce, forged):
    keys, m = ring_keys(online, offline, W)
    sec = tweaked_seckey(online_sk, summed_sk)
    r = borromean.sign(keys, [len(online)], [index], [sec], [nonce], forged, m)
    if r is None:
        return None
    e0, s = r
    return serialize(e0, s)
