"""Half-aggregation of BIP-340 signatures (draft BIP "half-aggregation", BlockstreamResearch/cross-input-aggregation).

Written from the draft specification's pseudocode (Aggregate / IncAggregate / VerifyAggregate):

  aggregate signature = r_0 || ... || r_{u-1} || bytes(s)                      (32*(u+1) bytes)
  z_0 = 1,  z_i = int(hash_{HalfAgg/randomizer}(r_0 || pk_0 || m_0 || ... || r_i || pk_i || m_i)) mod n
  s   = sum z_i * s_i mod n
  VerifyAggregate: fail if len(aggsig) != 32*(u+1); P_i = lift_x(pk_i), R_i = lift_x(r_i) (fail if either fails);
                   e_i = int(hash_{BIP0340/challenge}(r_i || pk_i || m_i)) mod n;  fail if s >= n;
                   accept iff s*G == sum z_i*(R_i + e_i*P_i)

pms = list of (pk32, msg32[, sig64]) tuples.  No code shared with the library.
"""
from . import ec
from .ec import N, P, b2i, i2b, tagged_hash

MAXN = 1 << 16      # the draft fails for u >= 2^16


def randomizers(triples):
    """triples: list of (r32, pk32, m32) -> [z_0, ..., z_{u-1}]"""
    z = []
    acc = b""
    for i, (r, pk, m) in enumerate(triples):
        acc += r + pk + m
        z.append(1 if i == 0 else b2i(tagged_hash("HalfAgg/randomizer", acc)) % N)
    return z


def inc_aggregate(aggsig, pm_aggd, pms_to_agg):
    """IncAggregate.  pm_aggd: [(pk, m)], pms_to_agg: [(pk, m, sig)].  Returns bytes or None (failure)."""
    v, u = len(pm_aggd), len(pms_to_agg)
    if v + u >= MAXN:
        return None
    if len(aggsig) != 32 * (v + 1):
        return None
    triples = []
    for i in range(v):
        pk, m = pm_aggd[i]
        triples.append((aggsig[32 * i:32 * i + 32], pk, m))
    ss = []
    for (pk, m, sig) in pms_to_agg:
        triples.append((sig[0:32], pk, m))
        ss.append(b2i(sig[32:64]))
    z = randomizers(triples)
    s = b2i(aggsig[32 * v:32 * v + 32])
    for j in range(u):
        s = (s + z[v + j] * ss[j]) % N
    return b"".join(t[0] for t in triples) + i2b(s % N)


def aggregate(pms):
    return inc_aggregate(bytes(32), [], pms)


def verify(aggsig, pm_aggd):
    """VerifyAggregate -> bool"""
    u = len(pm_aggd)
    if u >= MAXN:
        return False
    if len(aggsig) != 32 * (u + 1):
        return False
    triples = []
    pts = []
    for i in range(u):
        pk, m = pm_aggd[i]
        if len(pk) != 32:
            return False
        Pi = ec.lift_x(b2i(pk), 0)
        if Pi is None:
            return False
        r = aggsig[32 * i:32 * i + 32]
        Ri = ec.lift_x(b2i(r), 0)
        if Ri is None:
            return False
        e = b2i(tagged_hash("BIP0340/challenge", r + pk + m)) % N
        triples.append((r, pk, m))
        pts.append((Ri, e, Pi))
    z = randomizers(triples)
    s = b2i(aggsig[32 * u:32 * u + 32])
    if s >= N:
        return False
    terms = []
    for zi, (Ri, e, Pi) in zip(z, pts):
        terms.append((zi, Ri))
        terms.append((zi * e % N, Pi))
    rhs = ec.lincomb(*terms) if terms else None
    return ec.mulg(s) == rhs


# verification vectors of the draft specification (hacspec-halfagg/tests/tests.rs): (pubkeys, messages, aggsig)
SPEC_VECTORS = [
    ([], [], "00" * 32),
    (["1b84c5567b126440995d3ed5aaba0565d71e1834604819ff9c17f5e9d5dd078f"], ["02" * 32],
     "b070aafcea439a4f6f1bbfc2eb66d29d24b0cab74d6b745c3cfb009cc8fe4aa8"
     "0e066c34819936549ff49b6fd4d41edfc401a367b87ddd59fee38177961c225f"),
    (["1b84c5567b126440995d3ed5aaba0565d71e1834604819ff9c17f5e9d5dd078f", "462779ad4aad39514614751a71085f2f10e1c7a593e4e030efb5b8721ce55b0b"],
     ["02" * 32, "05" * 32],
     "b070aafcea439a4f6f1bbfc2eb66d29d24b0cab74d6b745c3cfb009cc8fe4aa8"
     "a3afbdb45a6a34bf7c8c00f1b6d7e7d375b54540f13716c87b62e51e2f4f22ff"
     "bf8913ec53226a34892d60252a7052614ca79ae939986828d81d2311957371ad"),
]


def selftest():
    from . import bip340
    for pks, msgs, agg in SPEC_VECTORS:
        pm = [(bytes.fromhex(a), bytes.fromhex(b)) for a, b in zip(pks, msgs)]
        agg = bytes.fromhex(agg)
        assert verify(agg, pm), "draft-spec verification vector rejected"
        if pm:
            bad = bytearray(agg)
            bad[-1] ^= 1
            assert not verify(bytes(bad), pm)
            assert not verify(agg + bytes(32), pm) and not verify(agg[:-1], pm) and not verify(agg[:-32], pm)
    # the spec vectors are produced from sk_i = (3i+1)*32, m_i = (3i+2)*32, aux_i = (3i+3)*32 by BIP-340 signing and Aggregate
    pms = []
    for i in range(2):
        sk = b2i(bytes([3 * i + 1]) * 32)
        m = bytes([3 * i + 2]) * 32
        sig = bip340.sign(sk, m, bytes([3 * i + 3]) * 32)
        pms.append((bip340.pubkey_gen(sk), m, sig))
    assert [p[0].hex() for p in pms] == SPEC_VECTORS[2][0], "spec vector keys"
    assert aggregate(pms[:1]).hex() == SPEC_VECTORS[1][2], "Aggregate does not reproduce draft-spec vector 1"
    assert aggregate(pms).hex() == SPEC_VECTORS[2][2], "Aggregate does not reproduce draft-spec vector 2"
    assert aggregate([]) == bytes(32)
    # incremental == one-shot; algebraic consistency on a few more signatures
    pms = []
    for i in range(5):
        sk = b2i(ec.sha256(b"halfagg selftest" + bytes([i]))) % (N - 1) + 1
        m = ec.sha256(b"m" + bytes([i]))
        pms.append((bip340.pubkey_gen(sk), m, bip340.sign(sk, m, None)))
    one = aggregate(pms)
    pm = [(a, b) for a, b, _ in pms]
    assert len(one) == 32 * 6 and verify(one, pm)
    for cut in range(6):
        a = aggregate(pms[:cut])
        assert inc_aggregate(a, pm[:cut], pms[cut:]) == one
    assert not verify(one, pm[::-1])
    assert not verify(one, pm[:4]) and not verify(one[:32 * 5], pm[:4])
    sw = one[32:64] + one[0:32] + one[64:]
    assert not verify(sw, pm)
    # s + n re-encoding is out of range; r >= p is rejected
    s = b2i(one[-32:])
    if s + N < (1 << 256):
        assert not verify(one[:-32] + i2b(s + N), pm)
    assert not verify(i2b(P) + one[32:], pm)
    assert inc_aggregate(one[:-1], pm, []) is None
    return True
