"""BIP-340 Schnorr signatures (reference implementation following the BIP's pseudocode)."""
from . import ec
from .ec import N, P, b2i, i2b, tagged_hash


def pubkey_gen(sk):
    return ec.xbytes(ec.mulg(sk))


def sign(sk, msg, aux=None):
    """sk int in [1,n); msg bytes of any length; aux 32 bytes or None (= 32 zero bytes).  -> 64 bytes"""
    assert 1 <= sk < N
    if aux is None:
        aux = bytes(32)
    Pt = ec.mulg(sk)
    d = sk if ec.has_even_y(Pt) else N - sk
    t = i2b(d ^ b2i(tagged_hash("BIP0340/aux", aux)))
    k0 = b2i(tagged_hash("BIP0340/nonce", t + ec.xbytes(Pt) + msg)) % N
    if k0 == 0:
        return None
    R = ec.mulg(k0)
    k = k0 if ec.has_even_y(R) else N - k0
    e = b2i(tagged_hash("BIP0340/challenge", ec.xbytes(R) + ec.xbytes(Pt) + msg)) % N
    return ec.xbytes(R) + i2b((k + e * d) % N)


def verify(pk32, msg, sig):
    if len(pk32) != 32 or len(sig) != 64:
        return False
    Pt = ec.lift_x(b2i(pk32), 0)
    r = b2i(sig[:32])
    s = b2i(sig[32:])
    if Pt is None or r >= P or s >= N:
        return False
    e = b2i(tagged_hash("BIP0340/challenge", sig[:32] + pk32 + msg)) % N
    R = ec.lincomb((s, 'G'), ((N - e) % N, Pt))
    if R is None or not ec.has_even_y(R) or R[0] != r:
        return False
    return True


def selftest():
    # BIP-340 test vectors 0, 1, 4 (verify-only), 15-18 (variable length messages)
    v = [
        (3, "F9308A019258C31049344F85F89D5229B531C845836F99B08601F113BCE036F9", "00" * 32, "00" * 32,
         "E907831F80848D1069A5371B402410364BDF1C5F8307B0084C55F1CE2DCA821525F66A4A85EA8B71E482A74F382D2CE5EBEEE8FDB2172F477DF4900D310536C0"),
        (0xB7E151628AED2A6ABF7158809CF4F3C762E7160F38B4DA56A784D9045190CFEF, "DFF1D77F2A671C5F36183726DB2341BE58FEAE1DA2DECED843240F7B502BA659",
         "0000000000000000000000000000000000000000000000000000000000000001", "243F6A8885A308D313198A2E03707344A4093822299F31D0082EFA98EC4E6C89",
         "6896BD60EEAE296DB48A229FF71DFE071BDE413E6D43F917DC8DCF8C78DE33418906D11AC976ABCCB20B091292BFF4EA897EFCB639EA871CFA95F6DE339E4B0A"),
        (0x0340034003400340034003400340034003400340034003400340034003400340, "778CAA53B4393AC467774D09497A87224BF9FAB6F6E68B23086497324D6FD117",
         "00" * 32, "", "71535DB165ECD9FBBC046E5FFAEA61186BB6AD436732FCCC25291A55895464CF6069CE26BF03466228F19A3A62DB8A649F2D560FAC652827D1AF0574E427AB63"),
        (0x0340034003400340034003400340034003400340034003400340034003400340, "778CAA53B4393AC467774D09497A87224BF9FAB6F6E68B23086497324D6FD117",
         "00" * 32, "11", "08A20A0AFEF64124649232E0693C583AB1B9934AE63B4C3511F3AE1134C6A303EA3173BFEA6683BD101FA5AA5DBC1996FE7CACFC5A577D33EC14564CEC2BACBF"),
        (0x0340034003400340034003400340034003400340034003400340034003400340, "778CAA53B4393AC467774D09497A87224BF9FAB6F6E68B23086497324D6FD117",
         "00" * 32, "99" * 100, "403B12B0D8555A344175EA7EC746566303321E5DBFA8BE6F091635163ECA79A8585ED3E3170807E7C03B720FC54C7B23897FCBA0E9D0B4A06894CFD249F22367"),
    ]
    for sk, pk, aux, msg, sig in v:
        assert pubkey_gen(sk).hex().upper() == pk
        assert sign(sk, bytes.fromhex(msg), bytes.fromhex(aux)).hex().upper() == sig, "bip340 sign vector"
        assert verify(bytes.fromhex(pk), bytes.fromhex(msg), bytes.fromhex(sig))
    # vector 4 (verify only)
    assert verify(bytes.fromhex("D69C3509BB99E412E68B0FE8544E72837DFA30746D8BE2AA65975F29D22DC7B9"),
                  bytes.fromhex("4DF3C3F68FCC83B27E9D42C90431A72499F17875C81A599B566C9889B9696703"),
                  bytes.fromhex("00000000000000000000003B78CE563F89A0ED9414F5AA28AD0D96D6795F9C6376AFB1548AF603B3EB45C9F8207DEE1060CB71C04E80F593060B07D28308D7F4"))
    # vector 5: public key not on the curve
    assert not verify(bytes.fromhex("EEFDEA4CDB677750A420FEE807EACF21EB9898AE79B9768766E4FAA04A2D4A34"), bytes(32), bytes(64))
    return True
