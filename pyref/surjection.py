"""Reference model: surjection proofs (include/secp256k1_surjectionproof.h, src/modules/surjection/surjection.md,
DESIGN.md Appendix A) and the asset-blinding bookkeeping helper of include/secp256k1_generator.h.

A proof is  n_inputs (2 bytes little-endian, <= 256) || bitmap ceil(n/8) bytes (bit i = byte i/8, bit i%8; padding bits zero)
|| e0 (32) || one 32-byte big-endian scalar per set bit  -- exact length.  It is one Borromean ring whose keys are
Output - Input_i for the set bits, over the message SHA256(tagenc(Input_0) || ... || tagenc(Input_{n-1}) || tagenc(Output)),
tagenc = (2 + (y mod 2)) || x  (every input is hashed, selected or not).

Points are affine tuples, None = infinity.  Shares no code with the library."""
from . import ec, borromean
from .ec import sha256, b2i, i2b, N

MAX_N_INPUTS = 256


def tagenc(pt):
    return bytes([2 + (pt[1] & 1)]) + i2b(pt[0])


def message(inputs, output):
    return sha256(b"".join(tagenc(p) for p in inputs) + tagenc(output))


def bitmap_bytes(n, used):
    bm = bytearray((n + 7) // 8)
    for i in used:
        bm[i // 8] |= 1 << (i % 8)
    return bytes(bm)


def serialize(n, used, e0, s):
    """used: sorted list of selected indices (< n); s: list of ints (any 256-bit value), one per selected index"""
    return bytes([n & 255, n >> 8]) + bitmap_bytes(n, used) + e0 + b"".join(i2b(x) for x in s)


def parse(b):
    """canonical parser -> (n_inputs, [used indices], e0, [s ints]) or None"""
    if len(b) < 2:
        return None
    n = b[0] | (b[1] << 8)
    if n > MAX_N_INPUTS:
        return None
    nb = (n + 7) // 8
    if len(b) < 2 + nb:
        return None
    bm = b[2:2 + nb]
    used = [i for i in range(8 * nb) if bm[i // 8] >> (i % 8) & 1]
    if any(i >= n for i in used):
        return None                      # padding bit set
    if len(b) != 2 + nb + 32 * (1 + len(used)):
        return None
    off = 2 + nb
    return n, used, b[off:off + 32], [b2i(b[off + 32 + 32 * k:off + 64 + 32 * k]) for k in range(len(used))]


def ring_keys(inputs, output, used):
    return [ec.sub(output, inputs[i]) for i in used]


def verify(proof, inputs, output):
    """The property's acceptance set: canonical encoding, at least one selected input, as many tags as the proof says,
    every scalar < n, no ring key at infinity (selected input == output), and the ring equation."""
    p = parse(proof)
    if p is None:
        return False
    n, used, e0, s = p
    if len(used) == 0 or n != len(inputs):
        return False
    if any(x >= N for x in s):
        return False
    keys = ring_keys(inputs, output, used)
    return borromean.verify(e0, s, keys, [len(used)], message(inputs, output))


def prove(inputs, output, used, sec_pos, sec, nonce, forged):
    """Prover with free choices.  used: sorted selected indices; sec_pos: position inside `used` of the member whose key
    Output - Input equals sec*G; forged: one int per selected member (the one at sec_pos is ignored).
    -> proof bytes or None (a hash fell outside [1,n) / a point degenerated / nothing selected)."""
    if not used:
        return None
    keys = ring_keys(inputs, output, used)
    r = borromean.sign(keys, [len(used)], [sec_pos], [sec], [nonce], list(forged), message(inputs, output))
    if r is None:
        return None
    e0, s = r
    return serialize(len(inputs), used, e0, s)


def blind_generator_blind_sum(values, generator_blinds, blinding_factors, n_inputs):
    """include/secp256k1_generator.h: a commitment v*(A + r*G) + r'*G carries the blinding v*r + r'.  The helper subtracts the signed sum
    of all (v*r + r') -- the first n_inputs entries count negative -- from the LAST blinding factor, which makes the total zero.
    -> the new last blinding factor, or None if some r or r' is >= n."""
    total = 0
    for i, (v, r, rp) in enumerate(zip(values, generator_blinds, blinding_factors)):
        if r >= N or rp >= N:
            return None
        t = (v * r + rp) % N
        total = (total - t) % N if i < n_inputs else (total + t) % N
    return (blinding_factors[-1] - total) % N


def selftest():
    # algebraic identities: an honestly built ring verifies, its s+n re-encoding and every structural edit does not
    out_sk, in_sk = 77, 5
    A = ec.mulg(123456789)
    inputs = [ec.mulg(11), ec.add(A, ec.mulg(in_sk)), ec.mulg(13)]
    output = ec.add(A, ec.mulg(out_sk))
    pr = prove(inputs, output, [0, 1, 2], 1, (out_sk - in_sk) % N, 99, [3, 0, 4])
    assert pr is not None and verify(pr, inputs, output)
    assert parse(pr)[1] == [0, 1, 2] and serialize(3, *parse(pr)[1:]) == pr
    n, used, e0, s = parse(pr)
    assert s[0] == 3 and s[2] == 4
    twin = serialize(3, used, e0, [s[0] + N, s[1], s[2]])
    assert parse(twin) is not None and not verify(twin, inputs, output)
    assert not verify(pr, inputs[:2], output) and not verify(pr, inputs, ec.mulg(5))
    assert parse(pr[:-1]) is None and parse(pr + b"\0") is None
    assert parse(bytes([3, 0, 0x0f]) + bytes(32 * 4)) is None            # padding bit
    assert parse(bytes([1, 1]) + bytes(33) + bytes(32)) is None            # 257 inputs
    assert parse(bytes([0, 1]) + bytes(32) + bytes(32)) == (256, [], bytes(32), [])
    # empty selection never verifies, even with e0 = H(m)
    m = message(inputs, output)
    assert not verify(serialize(3, [], sha256(m), []), inputs, output)
    # selected input equal to the output: ring key at infinity
    pr2 = prove([output, inputs[1]], output, [0, 1], 1, (out_sk - in_sk) % N, 5, [9, 0])
    assert pr2 is not None and not verify(pr2, [output, inputs[1]], output)
    # blinding bookkeeping: after completion the signed total is zero
    vals, rs, rps = [5, 7, 12], [3, N - 1, 10], [100, 200, 300]
    last = blind_generator_blind_sum(vals, rs, rps, 1)
    rps2 = rps[:2] + [last]
    tot = sum((-1 if i < 1 else 1) * (v * r + rp) for i, (v, r, rp) in enumerate(zip(vals, rs, rps2))) % N
    assert tot == 0
    assert blind_generator_blind_sum([1], [N], [1], 0) is None and blind_generator_blind_sum([1], [1], [N], 0) is None
    return True
