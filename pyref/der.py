"""Reference: strict DER (X.690) codec for ECDSA signatures  Ecdsa-Sig-Value ::= SEQUENCE { r INTEGER, s INTEGER }.

Written from X.690 (8.1.3 length octets, 8.3 integer, 10.1 DER length forms) and from the header documentation of
secp256k1_ecdsa_signature_parse_der:  "accept any valid DER encoded signature, even if the encoded numbers are out of range";
an out-of-range number (negative or >= n) yields an object that never verifies.  Shares no code with /repo.

parse(b)       -> None (not valid DER for this type)  |  (r, s) as Python ints exactly as encoded (may be negative or huge)
in_range(v)    -> 0 <= v < n
serialize(r,s) -> the unique DER encoding (any integers)
"""
from .ec import N


def read_len(b, pos):
    """DER definite length at b[pos:].  -> (length, position after the length octets) or None."""
    if pos >= len(b):
        return None
    b1 = b[pos]
    pos += 1
    if b1 < 0x80:
        return b1, pos                      # short form
    if b1 == 0x80:
        return None                         # indefinite form: BER only
    if b1 == 0xFF:
        return None                         # reserved (8.1.3.5 c)
    k = b1 & 0x7F
    if pos + k > len(b):
        return None
    v = int.from_bytes(b[pos:pos + k], "big")
    if b[pos] == 0:
        return None                         # leading zero octet: not the minimal number of length octets
    if v < 128:
        return None                         # the short form was required
    return v, pos + k


def read_int(b, pos, end):
    """INTEGER TLV at b[pos:end] -> (value, new position) or None."""
    if pos >= end or b[pos] != 0x02:
        return None
    r = read_len(b[:end], pos + 1)
    if r is None:
        return None
    ln, pos = r
    if ln == 0 or pos + ln > end:
        return None
    c = b[pos:pos + ln]
    if ln > 1:
        # 8.3.2: the first nine bits must not be all zero or all one
        if c[0] == 0x00 and c[1] < 0x80:
            return None
        if c[0] == 0xFF and c[1] >= 0x80:
            return None
    return int.from_bytes(c, "big", signed=True), pos + ln


def parse(b):
    b = bytes(b)
    if len(b) < 1 or b[0] != 0x30:
        return None
    r = read_len(b, 1)
    if r is None:
        return None
    ln, pos = r
    if pos + ln != len(b):
        return None                         # truncated, or bytes after the sequence
    ri = read_int(b, pos, len(b))
    if ri is None:
        return None
    si = read_int(b, ri[1], len(b))
    if si is None:
        return None
    if si[1] != len(b):
        return None                         # extra content inside the sequence
    return ri[0], si[0]


def in_range(v):
    return 0 <= v < N


def enc_len(n):
    if n < 128:
        return bytes([n])
    k = (n.bit_length() + 7) // 8
    return bytes([0x80 | k]) + n.to_bytes(k, "big")


def enc_int_body(v):
    """minimal two's complement content octets"""
    # smallest ln with -2^(8ln-1) <= v < 2^(8ln-1)
    bits = v.bit_length() if v >= 0 else (-v - 1).bit_length()
    ln = bits // 8 + 1
    return v.to_bytes(ln, "big", signed=True)


def enc_int(v):
    c = enc_int_body(v)
    return b"\x02" + enc_len(len(c)) + c


def serialize(r, s):
    body = enc_int(r) + enc_int(s)
    return b"\x30" + enc_len(len(body)) + body


def selftest():
    # X.690 8.3 examples of minimal two's complement contents
    assert enc_int(0) == bytes.fromhex("020100")
    assert enc_int(127) == bytes.fromhex("02017f")
    assert enc_int(128) == bytes.fromhex("02020080")
    assert enc_int(256) == bytes.fromhex("02020100")
    assert enc_int(-128) == bytes.fromhex("020180")
    assert enc_int(-129) == bytes.fromhex("0202ff7f")
    assert enc_int(-1) == bytes.fromhex("0201ff")
    # X.690 8.1.3.5 example: length 201 is 81 C9; 38 is 26
    assert enc_len(201) == bytes.fromhex("81c9") and enc_len(38) == bytes.fromhex("26") and enc_len(256) == bytes.fromhex("820100")
    # published signature (RFC 6979 secp256k1 vector, key 1, "Satoshi Nakamoto") in the DER form found in Bitcoin test fixtures
    d = bytes.fromhex("3045022100934b1ea10a4b3c1757e2b0c017d0b6143ce3c9a7e6a4a49860d7a6ab210ee3d8"
                      "02202442ce9d2b916064108014783e923ec36b49743e2ffa1c4496f01a512aafd9e5")
    r = 0x934b1ea10a4b3c1757e2b0c017d0b6143ce3c9a7e6a4a49860d7a6ab210ee3d8
    s = 0x2442ce9d2b916064108014783e923ec36b49743e2ffa1c4496f01a512aafd9e5
    assert parse(d) == (r, s) and serialize(r, s) == d
    # BIP-66 style negatives: each of these must be rejected
    bad = [d[:-1], d + b"\x00", b"\x31" + d[1:], d[:1] + b"\x81\x45" + d[2:], d[:1] + b"\x46" + d[2:] + b"\x00",
           d[:2] + b"\x03" + d[3:], bytes.fromhex("3006020100020100")[:-1], bytes.fromhex("30080202000102020001"),
           bytes.fromhex("30080202ffff02020001"), bytes.fromhex("300402000201"), bytes.fromhex("3080020101020101"),
           bytes.fromhex("30ff020101020101"), b"", b"\x30", b"\x30\x00", bytes.fromhex("3003020101"),
           bytes.fromhex("300702010102010100"), bytes.fromhex("300602010102010100"), bytes.fromhex("30810602010102 0101".replace(" ", "")),
           bytes.fromhex("3007028101010201 01".replace(" ", "")), bytes.fromhex("300602010102010 1".replace(" ", ""))[:-1] + b"\x01\x00"]
    assert parse(bytes.fromhex("3006020101020101")) == (1, 1)
    for x in bad:
        assert parse(x) is None, x.hex()
    # out-of-range numbers are valid DER
    assert parse(serialize(-5, N)) == (-5, N) and not in_range(-5) and not in_range(N) and in_range(N - 1) and in_range(0)
    assert parse(serialize(1 << 256, (1 << 1100) + 7)) == (1 << 256, (1 << 1100) + 7)
    for v in (0, 1, 127, 128, 255, 256, N - 1, N, (1 << 256) - 1, -1, -(1 << 255), -(1 << 255) - 1):
        assert parse(serialize(v, v)) == (v, v)
    return True
