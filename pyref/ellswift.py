"""Reference model of the ElligatorSwift module: XSwiftEC (decode), XSwiftECInv (partial inverses), x-only ECDH with the
BIP-324 and the prefix hasher.

Written from include/secp256k1_ellswift.h (definition of f(u,t)), doc/ellswift.md sections 2.1 / 3.5 / 4.1 and BIP-324;
X and Y of the paper are evaluated explicitly (no fraction tricks), shares no code with /repo.
"""
from . import ec

P, N = ec.P, ec.N
# "a square root of -3" as printed in the header
C = 0x0a2d2ba93507f1df233770c2a797962cc61f6d15da14ecd47d8d27ae1cd5f852
assert C * C % P == P - 3


def g(x):
    return (x * x * x + 7) % P


def is_valid_x(x):
    # no curve point has y = 0 (odd group order), so "square" here always means non-zero square
    return ec.is_square(g(x))


def xswiftec_ex(u, t):
    """The map f(u,t) of the header.  u, t are field elements (already reduced).  Returns (x, branch, remaps) where
    branch in {3,2,1} names the formula x3/x2/x1 that produced x and remaps lists which exceptional-case rules fired."""
    assert 0 <= u < P and 0 <= t < P
    remaps = []
    if u == 0:
        u = 1
        remaps.append("u0")
    if t == 0:
        t = 1
        remaps.append("t0")
    if (g(u) + t * t) % P == 0:
        t = 2 * t % P
        remaps.append("dbl")
    X = (g(u) - t * t) * ec.finv(2 * t) % P
    Y = (X + t) * ec.finv(C * u) % P
    assert Y != 0
    # the point (X, Y) lies on the conic S_u:  X^2 + 3u^2 Y^2 = -g(u)
    assert (X * X + 3 * u * u * Y * Y + g(u)) % P == 0
    XY = X * ec.finv(Y) % P
    half = ec.finv(2)
    cands = ((3, (u + 4 * Y * Y) % P), (2, (-XY - u) * half % P), (1, (XY - u) * half % P))
    for br, x in cands:
        if is_valid_x(x):
            return x, br, remaps
    raise AssertionError("no candidate on the curve: contradicts the SwiftEC theorem")


def xswiftec(u, t):
    return xswiftec_ex(u, t)[0]


def decode_ex(ell64):
    """64 bytes -> ((x, y), branch, remaps).  u, t are taken modulo p; y gets the parity of t (as a field element)."""
    assert len(ell64) == 64
    u = ec.b2i(ell64[:32]) % P
    t = ec.b2i(ell64[32:]) % P
    x, br, remaps = xswiftec_ex(u, t)
    return ec.lift_x(x, t & 1), br, remaps


def decode(ell64):
    return decode_ex(ell64)[0]


def xswiftec_inv(x, u, c):
    """G_{c,u}(x) of doc/ellswift.md section 3.5: a t with xswiftec(u, t) == x, or None."""
    assert 0 <= x < P and 0 <= u < P and 0 <= c < 8
    if u == 0:
        return None
    if c & 2 == 0:
        if is_valid_x((-u - x) % P):
            return None
        den = (u * u + u * x + x * x) % P
        s = -g(u) * ec.finv(den) % P
        v = x
    else:
        s = (x - u) % P
        r = ec.fsqrt(-s * (4 * g(u) + 3 * s * u * u) % P)
        if r is None:
            return None
        if c & 1 and r == 0:
            return None
        if s == 0:
            return None
        v = (r * ec.finv(s) - u) * ec.finv(2) % P
    w = ec.fsqrt(s)
    if w is None:
        return None
    half = ec.finv(2)
    k = c & 5
    if k == 0:
        t = w * ((C - 1) * half * u - v)
    elif k == 1:
        t = w * ((C + 1) * half * u + v)
    elif k == 4:
        t = w * ((1 - C) * half * u + v)
    else:
        t = w * ((-C - 1) * half * u - v)
    return t % P


def encode_with(pt, u, c):
    """A 64-byte encoding of the point pt with the given u through inverse branch c (t's parity fixed up), or None."""
    t = xswiftec_inv(pt[0], u, c)
    if t is None:
        return None
    if (t & 1) != (pt[1] & 1):
        t = P - t          # t != 0 here: t = 0 is never produced for this curve
    return ec.i2b(u) + ec.i2b(t)


# ------------------------------------------------------------------ x-only ECDH
def hash_bip324(x32, ell_a64, ell_b64):
    return ec.tagged_hash("bip324_ellswift_xonly_ecdh", ell_a64 + ell_b64 + x32)


def hash_prefix(prefix64):
    assert len(prefix64) == 64
    return lambda x32, ell_a64, ell_b64: ec.sha256(prefix64 + ell_a64 + ell_b64 + x32)


def shared_x(sk, theirs64):
    """x coordinate (32 bytes) of sk * lift_x(XSwiftEC(theirs)), or None for an invalid secret"""
    if not 1 <= sk < N:
        return None
    pt = decode(theirs64)
    return ec.i2b(ec.mul(sk, pt)[0])


def xdh(ell_a64, ell_b64, sk, party, hashfn=hash_bip324):
    """party 0: we are A (theirs = ell_b64); party != 0: we are B.  hashfn(x32, a, b) -> bytes or None"""
    x32 = shared_x(sk, ell_a64 if party else ell_b64)
    if x32 is None:
        return None
    return hashfn(x32, ell_a64, ell_b64)


# BIP-324 test vectors (ellswift_decode_test_vectors.csv, xswiftec_inv_test_vectors.csv, packet_encoding_test_vectors.csv: the ECDH part).
_DECODE = [
    # ellswift (u || t), x, y odd
    ("00" * 64, "edd1fd3e327ce90cc7a3542614289aee9682003e9cf7dcc9cf2ca9743be5aa0c", 0),
    ("00" * 32 + "01d3475bf7655b0fb2d852921035b2ef607f49069b97454e6795251062741771", "b5da00b73cd6560520e7c364086e7cd23a34bf60d0e707be9fc34d4cd5fdfa2c", 1),
    ("00" * 32 + "82277c4a71f9d22e66ece523f8fa08741a7c0912c66a69ce68514bfd3515b49f", "f482f2e241753ad0fb89150d8491dc1e34ff0b8acfbb442cfe999e2e5e6fd1d2", 1),
    ("00" * 32 + "8421cc930e77c9f514b6915c3dbe2a94c6d8f690b5b739864ba6789fb8a55dd0", "9f59c40275f5085a006f05dae77eb98c6fd0db1ab4a72ac47eae90a4fc9e57e0", 0),
    ("00" * 32 + "bde70df51939b94c9c24979fa7dd04ebd9b3572da7802290438af2a681895441", "aaaaaaaaaaaaaaaaaaaaaaaaaaaaaaaaaaaaaaaaaaaaaaaaaaaaaaa9fffffd6b", 1),
]
_XDH = [
    # priv_ours, ellswift_ours, ellswift_theirs, initiating, shared secret
    ("61062ea5071d800bbfd59e2e8b53d47d194b095ae5a4df04936b49772ef0d4d7",
     "ec0adff257bbfe500c188c80b4fdd640f6b45a482bbc15fc7cef5931deff0aa186f6eb9bba7b85dc4dcc28b28722de1e3d9108b985e2967045668f66098e475b",
     "a4a94dfce69b4a2a0a099313d10f9f7e7d649d60501c9e1d274c300e0d89aafaffffffffffffffffffffffffffffffffffffffffffffffffffffffff8faf88d5",
     1, "c6992a117f5edbea70c3f511d32d26b9798be4b81a62eaee1a5acaa8459a3592"),
    ("1f9c581b35231838f0f17cf0c979835baccb7f3abbbb96ffcc318ab71e6e126f",
     "a1855e10e94e00baa23041d916e259f7044e491da6171269694763f018c7e63693d29575dcb464ac816baa1be353ba12e3876cba7628bd0bd8e755e721eb0140",
     "fffffffffffffffffffffffffffffffffffffffffffffffffffffffefffffc2f" + "00" * 32,
     0, "a0138f564f74d0ad70bc337dacc9d0bf1d2349364caf1188a1e6e8ddb3b7b184"),
    ("0286c41cd30913db0fdff7a64ebda5c8e3e7cef10f2aebc00a7650443cf4c60d",
     "d1ee8a93a01130cbf299249a258f94feb5f469e7d0f2f28f69ee5e9aa8f9b54a60f2c3ff2d023634ec7f4127a96cc11662e402894cf1f694fb9a7eaa5f1d9244",
     "ffffffffffffffffffffffffffffffffffffffffffffffffffffffff22d5e441524d571a52b3def126189d3f416890a99d4da6ede2b0cde1760ce2c3f98457ae",
     1, "250b93570d411149105ab8cb0bc5079914906306368c23e9d77c2a33265b994c"),
]


def selftest():
    for ell, x, odd in _DECODE:
        pt = decode(bytes.fromhex(ell))
        assert ec.on_curve(pt) and pt[0] == int(x, 16) and (pt[1] & 1) == odd, ell
    for priv, ours, theirs, init, secret in _XDH:
        ours, theirs = bytes.fromhex(ours), bytes.fromhex(theirs)
        a, b = (ours, theirs) if init else (theirs, ours)
        assert xdh(a, b, int(priv, 16), 0 if init else 1).hex() == secret
    assert hash_prefix(ec.sha256(b"bip324_ellswift_xonly_ecdh") * 2)(b"\x01" * 32, b"\x02" * 64, b"\x03" * 64) == \
        hash_bip324(b"\x01" * 32, b"\x02" * 64, b"\x03" * 64)
    # algebra: every (u,t) incl. the remapped exceptional cases lands on the curve; inverses round-trip; 0, 4 or 8 inverses
    seen = set()
    for i in range(1, 40):
        u = ec.b2i(ec.sha256(b"u%d" % i)) % P
        t = ec.b2i(ec.sha256(b"t%d" % i)) % P
        x, br, _ = xswiftec_ex(u, t)
        assert is_valid_x(x)
        seen.add(br)
        assert xswiftec(u, P - t) == x                      # negating t does not change x
        ts = [xswiftec_inv(x, u, c) for c in range(8)]
        ok = [v for v in ts if v is not None]
        assert len(ok) in (4, 8) and len(set(ok)) == len(ok) and (t in ok)
        assert all(xswiftec(u, v) == x for v in ok)
        pt = ec.mulg(i)
        for c in range(8):
            e = encode_with(pt, u, c)
            assert e is None or decode(e) == pt
    assert seen == {1, 2, 3}
    for u in (0, 1, 2, P - 1, P - 2):
        for t in (0, 1, P - 1):
            assert is_valid_x(xswiftec(u, t))
    # exceptional family u^3 + t^2 + 7 = 0 (remapped to 2t), also combined with the t = 0 -> 1 remap at u = -2
    n = 0
    for u in range(2, 60):
        t = ec.fsqrt(-g(u) % P)
        if t is not None:
            x, _, rm = xswiftec_ex(u, t)
            assert rm == ["dbl"] and is_valid_x(x) and x == xswiftec(u, 2 * t % P)
            n += 1
    assert n > 10
    assert xswiftec_ex(P - 2, 0)[2] == ["t0", "dbl"] and xswiftec(P - 2, 0) == xswiftec(P - 2, 2)
    return True


if __name__ == "__main__":
    selftest()
    print("ok")
