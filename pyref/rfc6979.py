"""RFC 6979 HMAC-DRBG (SHA-256) as a byte generator, and the library's documented ECDSA nonce derivation:
key material = seckey(32) || msg mod n (32) || [extra data (32)] || [algo (16)]; the i-th retry takes the i-th 32-byte output."""
import hashlib
import hmac

from .ec import N, b2i, i2b


def _h(k, d):
    return hmac.new(k, d, hashlib.sha256).digest()


class HmacDrbg:
    def __init__(self, keydata):
        self.v = b"\x01" * 32
        self.k = b"\x00" * 32
        self.k = _h(self.k, self.v + b"\x00" + keydata)
        self.v = _h(self.k, self.v)
        self.k = _h(self.k, self.v + b"\x01" + keydata)
        self.v = _h(self.k, self.v)
        self.retry = False

    def generate(self, n):
        if self.retry:
            self.k = _h(self.k, self.v + b"\x00")
            self.v = _h(self.k, self.v)
        out = b""
        while len(out) < n:
            self.v = _h(self.k, self.v)
            out += self.v
        self.retry = True
        return out[:n]


def nonce(seckey32, msg32, extra=None, algo16=None, counter=0):
    kd = seckey32 + i2b(b2i(msg32) % N)
    if extra is not None:
        kd += extra
    if algo16 is not None:
        kd += algo16
    g = HmacDrbg(kd)
    out = None
    for _ in range(counter + 1):
        out = g.generate(32)
    return out


def selftest():
    # RFC 6979 A.2.5-style check via a secp256k1 vector that is widely published (Trezor / bitcoinj test vector):
    # key = 1, message = SHA256("Satoshi Nakamoto") -> k = 8F8A276C19F4149656B280621E358CCE24F5F52542772691EE69063B74F15D15
    import hashlib as H
    m = H.sha256(b"Satoshi Nakamoto").digest()
    assert nonce(i2b(1), m).hex().upper() == "8F8A276C19F4149656B280621E358CCE24F5F52542772691EE69063B74F15D15"
    m = H.sha256(b"All those moments will be lost in time, like tears in rain. Time to die...").digest()
    assert nonce(i2b(1), m).hex().upper() == "38AA22D72376B4DBC472E06C3BA403EE0A394DA63FC58D88686C611ABA98D6B3"
    return True
