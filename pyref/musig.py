"""BIP-327 (MuSig2) reference, written from the BIP's pseudocode, plus the two extensions this library documents:
adaptor signatures (DESIGN.md Appendix A "MuSig2 extension") and counter-based nonce generation
(include/secp256k1_musig.h: `secp256k1_musig_nonce_gen_counter`).

Conventions: public keys / nonces are byte strings in the BIP's wire formats (33 / 66 / 32 bytes); points are pyref.ec
affine tuples or None (infinity).  Functions return None where the BIP says "fail".
No code is shared with /repo.
"""
from . import ec
from .ec import N, P, G, b2i, i2b, tagged_hash


# ---------------------------------------------------------------- encodings
def cbytes(pt):
    return ec.ser33(pt)


def cbytes_ext(pt):
    return bytes(33) if pt is None else ec.ser33(pt)


def cpoint(b):
    """33-byte compressed encoding -> point or None (fail)."""
    if len(b) != 33 or b[0] not in (2, 3):
        return None
    return ec.lift_x(b2i(b[1:]), b[0] & 1)


def cpoint_ext(b):
    """-> (ok, point); 33 zero bytes encode infinity."""
    if b == bytes(33):
        return True, None
    pt = cpoint(b)
    return (pt is not None), pt


# ---------------------------------------------------------------- key aggregation
def hash_keys(pks):
    return tagged_hash("KeyAgg list", b"".join(pks))


def get_second_key(pks):
    for pk in pks[1:]:
        if pk != pks[0]:
            return pk
    return bytes(33)


def key_agg_coeff_internal(pks, pk, pk2):
    L = hash_keys(pks)
    if pk == pk2:
        return 1
    return b2i(tagged_hash("KeyAgg coefficient", L + pk)) % N


def key_agg_coeff(pks, pk):
    return key_agg_coeff_internal(pks, pk, get_second_key(pks))


class KeyAggCtx:
    """(Q, gacc, tacc) of BIP-327 + the key list (needed for the session coefficient)."""

    def __init__(self, pks, Q, gacc, tacc):
        self.pks = list(pks)
        self.Q = Q
        self.gacc = gacc
        self.tacc = tacc

    def xonly(self):
        return ec.xbytes(self.Q)

    def parity(self):
        return self.Q[1] & 1


def key_agg(pks):
    """pks: list of 33-byte plain public keys -> KeyAggCtx or None."""
    if not pks:
        return None
    pk2 = get_second_key(pks)
    terms = []
    L = hash_keys(pks)
    cache = {}
    for pk in pks:
        Pi = cpoint(pk)
        if Pi is None:
            return None
        if pk not in cache:
            cache[pk] = 1 if pk == pk2 else b2i(tagged_hash("KeyAgg coefficient", L + pk)) % N
        terms.append((cache[pk], Pi))
    # sum a_i * P_i, equal keys merged (pure optimisation: a*P + a*P = 2a*P)
    merged = {}
    for a, Pi in terms:
        merged[Pi] = (merged.get(Pi, 0) + a) % N
    Q = ec.lincomb(*[(a, Pi) for Pi, a in merged.items()])
    if Q is None:
        return None
    return KeyAggCtx(pks, Q, 1, 0)


def apply_tweak(ctx, tweak32, is_xonly):
    """-> new KeyAggCtx or None (tweak >= n, or the result is infinity)."""
    if len(tweak32) != 32:
        return None
    g = N - 1 if (is_xonly and not ec.has_even_y(ctx.Q)) else 1
    t = b2i(tweak32)
    if t >= N:
        return None
    Q = ec.lincomb((g, ctx.Q), (t, 'G')) if g != 1 else ec.add(ctx.Q, ec.mulg(t))
    if Q is None:
        return None
    return KeyAggCtx(ctx.pks, Q, g * ctx.gacc % N, (t + g * ctx.tacc) % N)


# ---------------------------------------------------------------- nonce generation
def _nonce_hash(rand, pk, aggpk, msg, extra_in, i):
    if msg is None:
        m_prefix = b"\x00"
    else:
        m_prefix = b"\x01" + len(msg).to_bytes(8, "big") + msg
    buf = rand + len(pk).to_bytes(1, "big") + pk + len(aggpk).to_bytes(1, "big") + aggpk + m_prefix \
        + len(extra_in).to_bytes(4, "big") + extra_in + bytes([i])
    return b2i(tagged_hash("MuSig/nonce", buf)) % N


def nonce_gen_internal(rand_, pk, sk=None, aggpk=None, msg=None, extra_in=None):
    """BIP-327 NonceGen with rand' given.  sk: 32 bytes or None; pk: 33 bytes; aggpk: 32 bytes or None; msg: bytes or None;
    extra_in: bytes or None.  -> (secnonce 97 bytes, pubnonce 66 bytes) or None."""
    if sk is not None:
        h = tagged_hash("MuSig/aux", rand_)
        rand = bytes(a ^ b for a, b in zip(sk, h))
    else:
        rand = rand_
    aggpk = b"" if aggpk is None else aggpk
    extra_in = b"" if extra_in is None else extra_in
    k1 = _nonce_hash(rand, pk, aggpk, msg, extra_in, 0)
    k2 = _nonce_hash(rand, pk, aggpk, msg, extra_in, 1)
    if k1 == 0 or k2 == 0:
        return None
    R1 = ec.mulg(k1)
    R2 = ec.mulg(k2)
    return i2b(k1) + i2b(k2) + pk, cbytes(R1) + cbytes(R2)


def nonce_gen_counter(counter, sk, pk=None, aggpk=None, msg=None, extra_in=None):
    """The library's counter variant: rand' = be64(counter) || 24 zero bytes, the secret key is mandatory."""
    assert 0 <= counter < (1 << 64) and sk is not None
    if pk is None:
        pk = cbytes(ec.mulg(b2i(sk)))
    return nonce_gen_internal(counter.to_bytes(8, "big") + bytes(24), pk, sk, aggpk, msg, extra_in)


def parse_pubnonce(b):
    """-> (R1, R2) or None"""
    if len(b) != 66:
        return None
    R1, R2 = cpoint(b[:33]), cpoint(b[33:])
    if R1 is None or R2 is None:
        return None
    return R1, R2


def parse_aggnonce(b):
    if len(b) != 66:
        return None
    o1, R1 = cpoint_ext(b[:33])
    o2, R2 = cpoint_ext(b[33:])
    if not (o1 and o2):
        return None
    return R1, R2


def nonce_agg(pubnonces):
    """list of 66-byte pubnonces -> 66-byte aggnonce or None (an invalid contribution)."""
    if not pubnonces:
        return None
    out = b""
    pts = [parse_pubnonce(pn) for pn in pubnonces]
    if any(p is None for p in pts):
        return None
    for j in (0, 1):
        out += cbytes_ext(ec.psum([p[j] for p in pts]))
    return out


# ---------------------------------------------------------------- session
class Session:
    """Session values of BIP-327 GetSessionValues, with this library's adaptor extension:
    if an adaptor point T is given it is added to the first aggregate nonce before b is hashed."""

    def __init__(self, aggnonce, keyctx, msg, adaptor=None):
        self.keyctx = keyctx
        self.msg = msg
        pts = parse_aggnonce(aggnonce)
        self.ok = pts is not None
        if not self.ok:
            return
        R1, R2 = pts
        if adaptor is not None:
            R1 = ec.add(R1, adaptor)
        self.R1, self.R2 = R1, R2
        Q = keyctx.Q
        self.b = b2i(tagged_hash("MuSig/noncecoef", cbytes_ext(R1) + cbytes_ext(R2) + ec.xbytes(Q) + msg)) % N
        Rp = ec.add(R1, ec.mul(self.b, R2))
        self.R_was_inf = Rp is None
        self.R = G if Rp is None else Rp
        self.e = b2i(tagged_hash("BIP0340/challenge", ec.xbytes(self.R) + ec.xbytes(Q) + msg)) % N

    def nonce_parity(self):
        return self.R[1] & 1


def sign(secnonce, sk, session):
    """secnonce: 97 bytes (k1 || k2 || pk), sk: int -> partial signature scalar (int) or None (fail)."""
    k1p, k2p = b2i(secnonce[:32]), b2i(secnonce[32:64])
    if not (0 < k1p < N and 0 < k2p < N):
        return None
    if not 0 < sk < N:
        return None
    even = ec.has_even_y(session.R)
    k1 = k1p if even else N - k1p
    k2 = k2p if even else N - k2p
    Pt = ec.mulg(sk)
    pk = cbytes(Pt)
    if pk != secnonce[64:97]:
        return None
    ctx = session.keyctx
    if pk not in ctx.pks:
        return None
    a = key_agg_coeff(ctx.pks, pk)
    g = 1 if ec.has_even_y(ctx.Q) else N - 1
    d = g * ctx.gacc * sk % N
    return (k1 + session.b * k2 + session.e * a * d) % N


def partial_sig_verify(psig32, pubnonce, pk, session):
    """PartialSigVerifyInternal for an arbitrary (pubnonce, pk) pair: bool."""
    s = b2i(psig32)
    if s >= N:
        return False
    pn = parse_pubnonce(pubnonce)
    Pt = cpoint(pk)
    if pn is None or Pt is None:
        return False
    Re = ec.add(pn[0], ec.mul(session.b, pn[1]))
    if not ec.has_even_y(session.R):
        Re = ec.neg(Re)
    ctx = session.keyctx
    a = key_agg_coeff(ctx.pks, pk)
    g = 1 if ec.has_even_y(ctx.Q) else N - 1
    gp = g * ctx.gacc % N
    return ec.mulg(s) == ec.add(Re, ec.mul(session.e * a * gp % N, Pt))


def partial_sig_agg(psigs, session):
    """list of 32-byte partial signatures -> 64-byte signature or None (a scalar >= n)."""
    s = 0
    for ps in psigs:
        si = b2i(ps)
        if si >= N:
            return None
        s = (s + si) % N
    ctx = session.keyctx
    g = 1 if ec.has_even_y(ctx.Q) else N - 1
    s = (s + session.e * g * ctx.tacc) % N
    return ec.xbytes(session.R) + i2b(s)


# ---------------------------------------------------------------- adaptor extension
def adapt(pre_sig64, t32, nonce_parity):
    s, t = b2i(pre_sig64[32:]), b2i(t32)
    if s >= N or t >= N:
        return None
    return pre_sig64[:32] + i2b((s + (N - t if nonce_parity else t)) % N)


def extract_adaptor(sig64, pre_sig64, nonce_parity):
    s, sp = b2i(sig64[32:]), b2i(pre_sig64[32:])
    if s >= N or sp >= N:
        return None
    t = (s - sp) % N
    return i2b((N - t) % N if nonce_parity else t)


# ---------------------------------------------------------------- validation against the BIP's own vectors
def _h(s):
    return bytes.fromhex(s)


def selftest():
    from . import bip340
    # --- key_agg_vectors.json
    X = [_h("02F9308A019258C31049344F85F89D5229B531C845836F99B08601F113BCE036F9"),
         _h("03DFF1D77F2A671C5F36183726DB2341BE58FEAE1DA2DECED843240F7B502BA659"),
         _h("023590A94E768F8E1815C2F24B4D80A8E3149316C3518CE7B7AD338368D038CA66")]
    for idx, exp in [([0, 1, 2], "90539EEDE565F5D054F32CC0C220126889ED1E5D193BAF15AEF344FE59D4610C"),
                     ([2, 1, 0], "6204DE8B083426DC6EAF9502D27024D53FC826BF7D2012148A0575435DF54B2B"),
                     ([0, 0, 0], "B436E3BAD62B8CD409969A224731C193D051162D8C5AE8B109306127DA3AA935"),
                     ([0, 0, 1, 1], "69BC22BFA5D106306E48A20679DE1D7389386124D07571D0D872686028C26A3E")]:
        assert key_agg([X[i] for i in idx]).xonly().hex().upper() == exp, "BIP-327 key aggregation vector"
    assert key_agg([X[0], _h("020000000000000000000000000000000000000000000000000000000000000005")]) is None
    assert key_agg([X[0], _h("02FFFFFFFFFFFFFFFFFFFFFFFFFFFFFFFFFFFFFFFFFFFFFFFFFFFFFFFEFFFFFC30")]) is None
    c = key_agg([X[0], X[1]])
    assert apply_tweak(c, i2b(N), True) is None
    # tweak = -(secret of the single key G... ) : key 6 of the vector is -G-related: Q + tG = infinity must fail
    c = key_agg([_h("03935F972DA013F80AE011890FA89B67A27B7BE6CCB24D3274D18B2D4067F261A9")])
    assert apply_tweak(c, _h("252E4BD67410A76CDF933D30EAA1608214037F1B105A013ECCD3C5C184A6110B"), False) is None
    # --- nonce_gen_vectors.json
    sn, pn = nonce_gen_internal(_h("0F" * 32), _h("024D4B6CD1361032CA9BD2AEB9D900AA4D45D9EAD80AC9423374C451A7254D0766"), _h("02" * 32), _h("07" * 32),
                                _h("01" * 32), _h("08" * 32))
    assert sn.hex().upper() == ("B114E502BEAA4E301DD08A50264172C84E41650E6CB726B410C0694D59EFFB6495B5CAF28D045B973D63E3C99A44B807BDE375FD6CB39E46DC4A511708D0E9D2"
                                "024D4B6CD1361032CA9BD2AEB9D900AA4D45D9EAD80AC9423374C451A7254D0766")
    assert pn.hex().upper() == "02F7BE7089E8376EB355272368766B17E88E7DB72047D05E56AA881EA52B3B35DF02C29C8046FDD0DED4C7E55869137200FBDBFE2EB654267B6D7013602CAED3115A"
    sn, pn = nonce_gen_internal(_h("0F" * 32), X[0])
    assert sn.hex().upper() == ("89BDD787D0284E5E4D5FC572E49E316BAB7E21E3B1830DE37DFE80156FA41A6D0B17AE8D024C53679699A6FD7944D9C4A366B514BAF43088E0708B1023DD2897"
                                "02F9308A019258C31049344F85F89D5229B531C845836F99B08601F113BCE036F9")
    assert pn.hex().upper() == "02C96E7CB1E8AA5DAC64D872947914198F607D90ECDE5200DE52978AD5DED63C000299EC5117C2D29EDEE8A2092587C3909BE694D5CFF0667D6C02EA4059F7CD9786"
    # --- nonce_agg_vectors.json
    PN = [_h("020151C80F435648DF67A22B749CD798CE54E0321D034B92B709B567D60A42E66603BA47FBC1834437B3212E89A84D8425E7BF12E0245D98262268EBDCB385D50641"),
          _h("03FF406FFD8ADB9CD29877E4985014F66A59F6CD01C0E88CAA8E5F3166B1F676A60248C264CDD57D3C24D79990B0F865674EB62A0F9018277A95011B41BFC193B833"),
          _h("020151C80F435648DF67A22B749CD798CE54E0321D034B92B709B567D60A42E6660279BE667EF9DCBBAC55A06295CE870B07029BFCDB2DCE28D959F2815B16F81798"),
          _h("03FF406FFD8ADB9CD29877E4985014F66A59F6CD01C0E88CAA8E5F3166B1F676A60379BE667EF9DCBBAC55A06295CE870B07029BFCDB2DCE28D959F2815B16F81798")]
    assert nonce_agg(PN[:2]).hex().upper() == ("035FE1873B4F2967F52FEA4A06AD5A8ECCBE9D0FD73068012C894E2E87CCB5804B"
                                               "024725377345BDE0E9C33AF3C43C0A29A9249F2F2956FA8CFEB55C8573D0262DC8")
    assert nonce_agg(PN[2:]).hex().upper() == "035FE1873B4F2967F52FEA4A06AD5A8ECCBE9D0FD73068012C894E2E87CCB5804B" + "00" * 33
    assert nonce_agg([PN[0], _h("04" + PN[1].hex()[2:])]) is None
    assert nonce_agg([PN[0], PN[1][:65] + b"\x31"]) is None
    # --- sign_verify_vectors.json
    sk = 0x7FB9E0E687ADA1EEBF7ECFE2F21E73EBDB51A7D450948DFE8D76D7F2D1007671
    pks = [_h("03935F972DA013F80AE011890FA89B67A27B7BE6CCB24D3274D18B2D4067F261A9"), X[0],
           _h("02DFF1D77F2A671C5F36183726DB2341BE58FEAE1DA2DECED843240F7B502BA661")]
    secn = _h("508B81A611F100A6B2B6B29656590898AF488BCF2E1F55CF22E5CFB84421FE61FA27FD49B1D50085B481285E1CA205D55C82CC1B31FF5CD54A489829355901F7"
              "03935F972DA013F80AE011890FA89B67A27B7BE6CCB24D3274D18B2D4067F261A9")
    pubn = [_h("0337C87821AFD50A8644D820A8F3E02E499C931865C2360FB43D0A0D20DAFE07EA0287BF891D2A6DEAEBADC909352AA9405D1428C15F4B75F04DAE642A95C2548480"),
            _h("0279BE667EF9DCBBAC55A06295CE870B07029BFCDB2DCE28D959F2815B16F817980279BE667EF9DCBBAC55A06295CE870B07029BFCDB2DCE28D959F2815B16F81798"),
            _h("032DE2662628C90B03F5E720284EB52FF7D71F4284F627B68A853D78C78E1FFE9303E4C5524E83FFE1493B9077CF1CA6BEB2090C93D930321071AD40B2F44E599046"),
            _h("0237C87821AFD50A8644D820A8F3E02E499C931865C2360FB43D0A0D20DAFE07EA0387BF891D2A6DEAEBADC909352AA9405D1428C15F4B75F04DAE642A95C2548480")]
    aggn = [_h("028465FCF0BBDBCF443AABCCE533D42B4B5A10966AC09A49655E8C42DAAB8FCD61037496A3CC86926D452CAFCFD55D25972CA1675D549310DE296BFF42F72EEEA8C9"),
            bytes(66)]
    msg = _h("F95466D086770E689964664219266FE5ED215C92AE20BAB5C9D79ADDDDF3C0CF")
    assert nonce_agg(pubn[:3]) == aggn[0]
    assert nonce_agg([pubn[0], pubn[3]]) == aggn[1]
    for keys, an, signer, exp in [([0, 1, 2], 0, 0, "012ABBCB52B3016AC03AD82395A1A415C48B93DEF78718E62A7A90052FE224FB"),
                                  ([1, 0, 2], 0, 1, "9FF2F7AAA856150CC8819254218D3ADEEB0535269051897724F9DB3789513A52"),
                                  ([1, 2, 0], 0, 2, "FA23C359F6FAC4E7796BB93BC9F0532A95468C539BA20FF86D7C76ED92227900"),
                                  ([0, 1], 1, 0, "AE386064B26105404798F75DE2EB9AF5EDA5387B064B83D049CB7C5E08879531")]:
        ses = Session(aggn[an], key_agg([pks[i] for i in keys]), msg)
        s = sign(secn, sk, ses)
        assert i2b(s).hex().upper() == exp, "BIP-327 sign vector"
        assert partial_sig_verify(i2b(s), pubn[0], pks[0], ses)
        if an == 1:
            assert ses.R == G and ses.R_was_inf
    ses = Session(aggn[0], key_agg(pks), msg)
    assert not partial_sig_verify(_h("FED54434AD4CFE953FC527DC6A5E5BE8F6234907B7C187559557CE87A0541C46"), pubn[0], pks[0], ses)   # negated signature
    assert not partial_sig_verify(_h("012ABBCB52B3016AC03AD82395A1A415C48B93DEF78718E62A7A90052FE224FB"), pubn[1], pks[1], ses)   # wrong signer
    assert not partial_sig_verify(i2b(N), pubn[0], pks[0], ses)
    # --- tweak_vectors.json
    tpks = [pks[0], X[0], _h("02DFF1D77F2A671C5F36183726DB2341BE58FEAE1DA2DECED843240F7B502BA659")]
    tw = [_h("E8F791FF9225A2AF0102AFFF4A9A723D9612A682A25EBE79802B263CDFCD83BB"), _h("AE2EA797CC0FE72AC5B97B97F3C6957D7E4199A167A58EB08BCAFFDA70AC0455"),
          _h("F52ECBC565B3D8BEA2DFD5B75A4F457E54369809322E4120831626F290FA87E0"), _h("1969AD73CC177FA0B4FCED6DF1F7BF9907E665FDE9BA196A74FED0A3CF5AEF9D")]
    for tws, exp in [([(0, 1)], "E28A5C66E61E178C2BA19DB77B6CF9F7E2F0F56C17918CD13135E60CC848FE91"),
                     ([(0, 0)], "38B0767798252F21BF5702C48028B095428320F73A4B14DB1E25DE58543D2D2D"),
                     ([(0, 0), (1, 1)], "408A0A21C4A0F5DACAF9646AD6EB6FECD7F7A11F03ED1F48DFFF2185BC2C2408"),
                     ([(0, 0), (1, 0), (2, 1), (3, 1)], "45ABD206E61E3DF2EC9E264A6FEC8292141A633C28586388235541F9ADE75435"),
                     ([(0, 1), (1, 0), (2, 1), (3, 0)], "B255FDCAC27B40C7CE7848E2D3B7BF5EA0ED756DA81565AC804CCCA3E1D5D239")]:
        kc = key_agg([tpks[1], tpks[2], tpks[0]])
        for ti, xo in tws:
            kc = apply_tweak(kc, tw[ti], bool(xo))
        ses = Session(aggn[0], kc, msg)
        s = sign(secn, sk, ses)
        assert i2b(s).hex().upper() == exp, "BIP-327 tweak vector"
        assert partial_sig_verify(i2b(s), pubn[0], tpks[0], ses)
    # --- sig_agg_vectors.json
    apk = [pks[0], _h("02D2DC6F5DF7C56ACF38C7FA0AE7A759AE30E19B37359DFDE015872324C7EF6E05"),
           _h("03C7FB101D97FF930ACD0C6760852EF64E69083DE0B06AC6335724754BB4B0522C"), _h("02352433B21E7E05D3B452B81CAE566E06D2E003ECE16D1074AABA4289E0E3D581")]
    atw = [_h("B511DA492182A91B0FFB9A98020D55F260AE86D7ECBD0399C7383D59A5F2AF7C"), _h("A815FE049EE3C5AAB66310477FBC8BCCCAC2F3395F59F921C364ACD78A2F48DC"),
           _h("75448A87274B056468B977BE06EB1E9F657577B7320B0A3376EA51FD420D18A8")]
    ps = [_h(x) for x in ("B15D2CD3C3D22B04DAE438CE653F6B4ECF042F42CFDED7C41B64AAF9B4AF53FB", "6193D6AC61B354E9105BBDC8937A3454A6D705B6D57322A5A472A02CE99FCB64",
                          "9A87D3B79EC67228CB97878B76049B15DBD05B8158D17B5B9114D3C226887505", "66F82EA90923689B855D36C6B7E032FB9970301481B99E01CDB4D6AC7C347A15",
                          "4F5AEE41510848A6447DCD1BBC78457EF69024944C87F40250D3EF2C25D33EFE", "DDEF427BBB847CC027BEFF4EDB01038148917832253EBC355FC33F4A8E2FCCE4",
                          "97B890A26C981DA8102D3BC294159D171D72810FDF7C6A691DEF02F0F7AF3FDC", "53FA9E08BA5243CBCB0D797C5EE83BC6728E539EB76C2D0BF0F971EE4E909971")]
    amsg = _h("599C67EA410D005B9DA90817CF03ED3B1C868E4DA4EDF00A5880B0082C237869")
    for keys, tws, an, psi, exp in [
        ([0, 1], [], "0341432722C5CD0268D829C702CF0D1CBCE57033EED201FD335191385227C3210C03D377F2D258B64AADC0E16F26462323D701D286046A2EA93365656AFD9875982B", [0, 1],
         "041DA22223CE65C92C9A0D6C2CAC828AAF1EEE56304FEC371DDF91EBB2B9EF0912F1038025857FEDEB3FF696F8B99FA4BB2C5812F6095A2E0004EC99CE18DE1E"),
        ([0, 2], [], "0224AFD36C902084058B51B5D36676BBA4DC97C775873768E58822F87FE437D792028CB15929099EEE2F5DAE404CD39357591BA32E9AF4E162B8D3E7CB5EFE31CB20", [2, 3],
         "1069B67EC3D2F3C7C08291ACCB17A9C9B8F2819A52EB5DF8726E17E7D6B52E9F01800260A7E9DAC450F4BE522DE4CE12BA91AEAF2B4279219EF74BE1D286ADD9"),
        ([0, 2], [(0, 0)], "0208C5C438C710F4F96A61E9FF3C37758814B8C3AE12BFEA0ED2C87FF6954FF186020B1816EA104B4FCA2D304D733E0E19CEAD51303FF6420BFD222335CAA402916D", [4, 5],
         "5C558E1DCADE86DA0B2F02626A512E30A22CF5255CAEA7EE32C38E9A71A0E9148BA6C0E6EC7683B64220F0298696F1B878CD47B107B81F7188812D593971E0CC"),
        ([0, 3], [(0, 1), (1, 0), (2, 1)], "02B5AD07AFCD99B6D92CB433FBD2A28FDEB98EAE2EB09B6014EF0F8197CD58403302E8616910F9293CF692C49F351DB86B25E352901F0E237BAFDA11F1C1CEF29FFD", [6, 7],
         "839B08820B681DBA8DAF4CC7B104E8F2638F9388F8D7A555DC17B6E6971D7426CE07BF6AB01F1DB50E4E33719295F4094572B79868E440FB3DEFD3FAC1DB589E")]:
        kc = key_agg([apk[i] for i in keys])
        for ti, xo in tws:
            kc = apply_tweak(kc, atw[ti], bool(xo))
        ses = Session(_h(an), kc, amsg)
        sig = partial_sig_agg([ps[i] for i in psi], ses)
        assert sig.hex().upper() == exp, "BIP-327 sig agg vector"
        assert bip340.verify(kc.xonly(), amsg, sig)
    assert partial_sig_agg([ps[0], i2b(N)], ses) is None
    # --- adaptor extension: algebraic identities (no external vectors exist)
    d = [0x1111, N - 5, 0x7777777]
    kpks = [cbytes(ec.mulg(x)) for x in d]
    kc = apply_tweak(apply_tweak(key_agg(kpks), i2b(12345), True), i2b(777), False)
    nn = [nonce_gen_internal(bytes([i + 1]) * 32, kpks[i], i2b(d[i]), kc.xonly(), amsg, None) for i in range(3)]
    an = nonce_agg([x[1] for x in nn])
    for t in (5, N - 9):
        ses = Session(an, kc, amsg, adaptor=ec.mulg(t))
        pss = [i2b(sign(nn[i][0], d[i], ses)) for i in range(3)]
        assert all(partial_sig_verify(pss[i], nn[i][1], kpks[i], ses) for i in range(3))
        assert not partial_sig_verify(pss[0], nn[1][1], kpks[0], ses)
        pre = partial_sig_agg(pss, ses)
        assert not bip340.verify(kc.xonly(), amsg, pre)
        sig = adapt(pre, i2b(t), ses.nonce_parity())
        assert bip340.verify(kc.xonly(), amsg, sig)
        assert extract_adaptor(sig, pre, ses.nonce_parity()) == i2b(t)
    # counter variant = NonceGen with rand' = be64(counter) || 0^24
    assert nonce_gen_counter((1 << 32) + 5, i2b(d[0])) == nonce_gen_internal(_h("0000000100000005") + bytes(24), kpks[0], i2b(d[0]))
    assert nonce_gen_counter((1 << 32) + 5, i2b(d[0])) != nonce_gen_counter(5, i2b(d[0]))
    return True


if __name__ == "__main__":
    selftest()
    print("musig selftest ok")
