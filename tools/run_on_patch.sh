#!/bin/sh
# usage: run_on_patch.sh <patch.diff> <Cxx> [quick|thorough]  — run a check against a scratch copy of /repo with the patch applied
P="$(readlink -f "$1")"; C="$2"; T="${3:-quick}"
D=$(mktemp -d /var/tmp/vf-mut-XXXXXX)
trap 'rm -rf "$D"' EXIT
rsync -a /repo/src /repo/include /repo/contrib "$D/" || exit 2
( cd "$D" && patch -p1 -s < "$P" ) || { echo "patch failed"; exit 2; }
cd /verif && VERIF_REPO="$D" ./check "$C" "$T"
