#!/usr/bin/env python3
"""Prints the per-property status table of DESIGN.md §10.2 from the current evidence files."""
import json, glob
CAL = {"C01": "9 / 11 (2 equivalent) + 2 follow-up", "C02": "6 / 6 + 1", "C03": "15 / 15 + 1", "C04": "14 / 14 + 2", "C05": "11 / 12 (modinv64 with 9 rounds survives: no constructive worst-case input known)",
       "C06": "12 / 12", "C07": "11 / 12 (1 equivalent) + 2", "C08": "13 / 13 + 2", "C09": "7 / 8 (1 equivalent) + 1", "C10": "11 / 11 + 1", "C11": "12 / 12 + 2", "C12": "8 / 8",
       "C13": "7 / 7 + 2", "C14": "11 / 11 + 1", "C15": "9 / 9", "C16": "5 / 5", "C17": "6 / 6 + 2", "C18": "12 / 12", "C19": "15 / 15 + 2", "C20": "8 / 8"}
print("| id | tests / targets | configurations | cases | distinct non-trivial | wall s (16 idle cores) | calibration mutants by the builder (killed / tried; + = follow-up rounds) |")
print("|---|---|---|---|---|---|---|")
for f in sorted(glob.glob('/verif/evidence/C*.json')):
    e = json.load(open(f)); c = e['coverage']
    tests = sorted(c.get('per_test', {}).keys())
    tg = sorted(k for k in c.get('per_target', {}).keys())
    names = ", ".join(tests + ["`%s`" % t for t in tg]) or "scenario lists under memcheck"
    builds = sorted({k.split("/")[-1] if "/" in k else k for k in c.get('builds', {}).keys()})
    print("| %s | %s | %s | %s | %s | %.0f | %s |" % (e['property_id'], names, ", ".join(builds), "{:,}".format(c['evaluations']).replace(",", " "),
          "{:,}".format(c['distinct_nontrivial']).replace(",", " "), e['wall_s'], CAL.get(e['property_id'], "")))
