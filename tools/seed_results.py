#!/usr/bin/env python3
"""Builds seeded/RESULTS.md and the detection fields of seeded/*/meta.json from the run log (/var/tmp/vf-seedruns.txt, appended by tools/run_seeds.sh)
plus seeded/detections.json (the persistent copy of that log)."""
import glob, json, os, re
LOG = "/var/tmp/vf-seedruns.txt"
STORE = "/verif/seeded/detections.json"
store = json.load(open(STORE)) if os.path.exists(STORE) else []
seen = {(d["id"], d["check"], d["order"]) for d in store}
if os.path.exists(LOG):
    order = 0
    for line in open(LOG):
        m = re.match(r'(C\d\d-\d) check=(C\d\d) exit=(\d+) secs=(\d+) ::\s*(.*)', line.rstrip("\n"))
        if not m:
            continue
        order += 1
        sid, chk, rc, secs, msg = m.groups()
        if (sid, chk, order) in seen:
            continue
        store.append({"id": sid, "check": chk, "exit": int(rc), "seconds": int(secs), "message": msg.strip()[:400], "order": order})
    json.dump(store, open(STORE, "w"), indent=0)
runs = {}
for d in store:
    runs.setdefault(d["id"], []).append(d)
rows = []
stats = {"own_first": 0, "own_after": 0, "other_only": 0, "missed": 0, "total": 0}
NOTES = {
 "C10-6": "not a violation: rangeproof_verify is documented '(not secp256k1_context_static)', so answering the static context with the illegal-argument callback is documented behaviour (C20 accepts either)",
 "C15-6": "needs host randomness whose tagged-hash commitment starts with 32 zero bits (a 2^-32 condition on a hash output; the demonstration ground 2^33 compressions offline): out of reach of generated search within the tiers, recorded as a limit (DESIGN §7)",
 "C06-3": "not decidable by definedness tracking: the change explicitly declassifies secret-dependent Jacobian coordinates before a variable-time inversion (DESIGN §7)",
 "C17-4": "not a violation of the documented contract: it only changes behaviour for inc_aggregate(n_before = 0) on a buffer that does not hold the empty aggregate (header: the first 32*(n_before+1) bytes should hold the input aggsig); not asserted",
}
for d in sorted(glob.glob('/verif/seeded/C*-*')):
    sid = os.path.basename(d)
    meta = json.load(open(d + '/meta.json'))
    prop = sid.split("-")[0]
    summ = (meta.get('summary') or '')[:260].replace('|', '/').replace('\n', ' ')
    rr = sorted(runs.get(sid, []), key=lambda x: x["order"])
    own = [x for x in rr if x["check"] == prop]
    other = [x for x in rr if x["check"] != prop]
    parts = []
    if own:
        first, last = own[0], own[-1]
        if first["exit"] == 1:
            parts.append("%s: caught (%d s)" % (prop, first["seconds"])); cat = "own_first"
        elif last["exit"] == 1:
            parts.append("%s: missed at first, caught after strengthening (%d s)" % (prop, last["seconds"])); cat = "own_after"
        else:
            parts.append("%s: missed" % prop); cat = None
    else:
        cat = None
    oc = {}
    for x in other:
        oc[x["check"]] = x
    for chk, x in oc.items():
        parts.append("%s: %s (%d s)" % (chk, "caught" if x["exit"] == 1 else "missed", x["seconds"]))
    if cat is None:
        cat = "other_only" if any(x["exit"] == 1 for x in oc.values()) else "missed"
    stats[cat] += 1; stats["total"] += 1
    if sid in NOTES:
        parts.append(NOTES[sid])
    what = ""
    caught = [x for x in rr if x["exit"] == 1]
    if caught:
        what = re.sub(r'VIOLATION property=.*', '', caught[-1]["message"])
        what = re.sub(r'candidate failure in ', '', what).strip()[:170].replace('|', '/')
    rows.append("| %s | %s | %s | %s |" % (sid, summ, "; ".join(parts), what))
    meta["detection_by_checks"] = [{"check": x["check"], "result": "caught" if x["exit"] == 1 else ("missed" if x["exit"] == 0 else "exit %d" % x["exit"]),
                                    "seconds": x["seconds"], "message": x["message"][:300]} for x in rr]
    if sid in NOTES:
        meta["note"] = NOTES[sid]
    json.dump(meta, open(d + '/meta.json', 'w'), indent=1)
hdr = ("# Seeded changes and which checks catch them\n\nEach change was produced by a fresh sub-agent that saw only the property text (second round: plus one-line summaries of the first-round "
       "changes to avoid), passes the 317 repository tests, and was re-confirmed by `tools/confirm_seed.sh` in a fresh worktree. Ids `-1`, `-2` are the first round, `-3`, `-4` the second.\n"
       "Detection = `tools/run_on_patch.sh seeded/<id>/patch.diff <Cxx> quick` (scratch copy of the tree, never `/repo`).\n\n"
       "Totals: %(total)d changes; own check at first attempt %(own_first)d; own check after strengthening %(own_after)d; only by another property's check %(other_only)d; not caught %(missed)d.\n\n"
       "| id | change | detection | failing message |\n|---|---|---|---|\n" % stats)
open('/verif/seeded/RESULTS.md', 'w').write(hdr + "\n".join(rows) + "\n")
print(stats)
