#!/bin/sh
# usage: run_seeds.sh <id>...   e.g. run_seeds.sh C02-1 C02-2   — run the property's own quick check against each seeded change
cd /verif || exit 2
for id in "$@"; do
  prop=${id%%-*}
  [ -n "$SEED_PROP" ] && prop=$SEED_PROP
  t0=$(date +%s)
  tools/run_on_patch.sh seeded/$id/patch.diff $prop quick > /var/tmp/vf-seedrun-$id-$prop.log 2>&1
  rc=$?
  t1=$(date +%s)
  v=$(grep -E "^VIOLATION|^INCONCLUSIVE|^candidate" /var/tmp/vf-seedrun-$id-$prop.log | head -2 | tr '\n' ' ' | cut -c1-400)
  echo "$id check=$prop exit=$rc secs=$((t1-t0)) :: $v" | tee -a /var/tmp/vf-seedruns.txt
done
