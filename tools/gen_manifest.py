#!/usr/bin/env python3
"""Regenerates MANIFEST.json from the table below (one entry per claimed property)."""
import json, os
V = os.path.dirname(os.path.dirname(os.path.abspath(__file__)))

E1 = "E1-pbt"; E2 = "E2-fuzz"; E3 = "E3-ctgrind"; E4 = "E4-tsan"
T = {
 "C01": (E1, "property-based testing: differential against an independent RFC 6979 / ECDSA reference; signatures constructed from a chosen nonce point to reach R.x >= n, half-order s and recid 2/3",
         "Generated keys, messages (20% >= n), nonce sources (NULL / default / scripted callbacks forcing retries / failing), verification triples from five classes (honest, high-S twin, constructed from chosen R, mutated, parser-boundary) and all recovery ids, each decided against pyref.ecdsa (byte-exact signatures, exact verify/recover verdicts) on the shipped and the ASan+UBSan+VERIFY build; thorough adds the int64 and int128_struct limb configurations."),
 "C02": (E1, "property-based testing: byte-exact differential against the BIP-340 reference over message lengths 0..10^5; small-group builds for the s >= n clause",
         "Generated keypairs of both parities, messages of every length 0..300 and sampled to 10^5, aux present/absent/zero, every signing entry point, candidate signatures (honest, bit flips, r >= p, off-curve r, s >= n, other key/message) decided against pyref.bip340; in the order-13/199 builds every re-encoding s + k*order of a valid signature must be rejected."),
 "C03": (E1 + "+" + E2, "bounded exhaustive enumeration of encoding grids + property-based mutation + coverage-guided fuzzing with round-trip / strict-parser differential oracles",
         "Enumerated grids (public keys: every prefix byte x every length x boundary / on-curve / tiny-coordinate x and y incl. x+p, y+p re-encodings; DER: every structural variant x boundary scalars; compact incl. (r, s+n) of constructed valid signatures), Hypothesis mutations and a libFuzzer target, all decided by pyref's strict parsers and by round trips; failed-parse objects are checked never to verify."),
 "C04": (E1, "model-based property testing: generated tweak histories applied to the secret side, the public side and an integer/point model; list properties for combine / cmp / sort",
         "Generated histories (up to 40 mixed add/mul/negate/x-only/keypair/taproot operations with state-relative boundary tweaks such as -key and n) compared step by step with a reference model of the key algebra incl. exact failure conditions and unusable outputs; combine/cmp/sort over lists of 0..200 keys with duplicates and cancelling pairs (sortedness and permutation); argument aliasing (tweak buffer = key buffer, in-place operations) and backward-constructed outputs with tiny coordinates; int64 / int128_struct builds in the quick tier."),
 "C05": (E2 + "+" + E1, "coverage-guided fuzzing of generated straight-line field/scalar/group/ecmult/hash programs against a GMP + textbook SHA-256 oracle, one binary per build configuration",
         "libFuzzer targets built for each limb / int128 / asm / table configuration decode the input into programs over every internal arithmetic routine (operands incl. raw limbs up to the permitted magnitude, special cases of the group law, multi-scalar batches across the Strauss/Pippenger thresholds, arbitrary hash write splits) and compare every result with GMP / an independent SHA-256; operands are also CONSTRUCTED (chosen result / chosen quotient / chosen limb product solved with GMP) so that reduction and carry-chain corner cases of probability 2^-64..2^-126 are reached; equality with the mathematical result on every configuration implies bit-identity across them."),
 "C06": (E3, "generated scenario lists executed under valgrind memcheck with secrets marked undefined (definedness tracking as the oracle), shrunk to the offending invocation",
         "Hypothesis generates public-parameter variations of every API on the maintainers' constant-time list; each runs under memcheck on four limb configurations at the shipped optimisation level with all secret arguments undefined; any branch or address depending on undeclassified secret data is reported."),
 "C07": (E2 + "+" + E1, "structure-aware coverage-guided fuzzing of every parser / verifier under ASan+UBSan+VERIFY with callback counters, return-value and allocation-balance oracles inside the target",
         "A libFuzzer target takes memoised valid artifacts of every type, applies decoded mutations or raw bytes, calls each untrusted-bytes entry point on exact-size heap copies with declared lengths 0..max+64, pushes successfully parsed objects through every consumer, and checks: no sanitizer report or VERIFY abort, no illegal/error callback, return values in {0,1}, allocation balance 0; documented NULL-with-zero-length arguments are exercised; an E1 supplement declares lengths of k*2^32 (+-1) trailing bytes in a lazily mapped region for the parsers."),
 "C08": (E1, "property-based testing: differential against an independent Pedersen / generator model (Shallue-van de Woestijne), enumerated parser grids, tally ground truth by reference point sums",
         "Generated blinding factors, values, generators from four sources, tallies over mixed generators balanced and unbalanced by one unit, blind-sum helpers, and all 33-byte strings over every prefix x boundary/on/off-curve x, decided against pyref.pedersen."),
 "C09": (E1, "property-based testing: round-trip (sign -> verify / info / rewind), determinism and documented parameter-region oracles over edge-biased parameters",
         "Generated (value, min_value, exp, min_bits, blind, nonce, message, extra commitment, buffer size, generator) tuples; documented-invalid sets must fail, the strict interior of the documented-valid set must succeed, and every success must satisfy size bound, verification, range, info equality, rewind of value/blind/message, wrong-nonce failure and byte determinism."),
 "C10": (E1, "property-based testing: differential against an independent range-proof verifier, with a reference PROVER that chooses every free value adversarially",
         "Library proofs with every/sampled bit flips, truncations, extensions, other commitments, and reference-prover proofs with chosen header fields, small forged scalars and their s+n twins, re-encoded digit commitments, spare sign bits, trailing bytes, overflowing ranges; verdict and reported range must equal pyref.rangeproof; rewind of crafted valid proofs must be clean; cancelling digit commitments, digit commitments on tiny-x points (x+p twins) and declared lengths beyond 2^32 are constructed."),
 "C11": (E1, "bounded exhaustive enumeration (n <= 8) + property-based testing: differential against an independent surjection-proof verifier and reference prover, canonical-parser oracle",
         "All input counts / subset sizes / positions and multiplicities of the matching tag for n <= 8, sampled up to 256, adversarial and mutated proofs from a reference prover, parser strings over every n_inputs value, padding pattern and length, decided against pyref.surjection."),
 "C12": (E1, "model-based property testing: generated MuSig2 sessions compared value by value with an independent BIP-327 reference (+ adaptor extension)",
         "Generated sessions (1..16 signers, duplicate keys, tweak sequences flipping parity, both nonce-generation entry points with every optional argument, counters across 2^32, cancelling nonces giving infinity, adaptor) where every API output must equal pyref.musig and the protocol invariants (partial verification, final BIP-340 validity, adapt/extract inverses) must hold."),
 "C13": (E1, "bounded exhaustive enumeration of call histories (depth 3 quick / 4 thorough over a 28-operation alphabet) against an abstract single-use model + randomized long histories",
         "Every history up to the bound over nonce generation and partial signing with valid / invalid / NULL / negated-key arguments on two nonce slots is executed by a C sequence runner and its per-step observations (return value, secnonce all-zero, randomness wiped, callback, signature validity) compared with the single-use model; objects live at generated byte offsets (alignment as an input dimension) and generation ops alias the randomness buffer with other arguments."),
 "C14": (E1, "property-based testing: pipeline round trips + differential against an independent adaptor-signature reference (DLEQ + adaptor equation) over all single-bit flips and field substitutions; small-group builds for scalar range checks",
         "Generated keys/messages incl. boundaries and >= n, all nonce sources, every single-bit flip and boundary substitution of the 162-byte format decided by pyref.adaptor, recovery from both s twins and refusal of unrelated signatures; order-13/199 builds for the s' and DLEQ-response range checks."),
 "C15": (E1, "property-based testing: protocol histories (sign-to-contract, anti-exfil) with round-trip, metamorphic (same / different host randomness) and differential oracles across context variants",
         "Generated keys, messages (incl. >= n), data, contexts (fresh, randomised, cloned, replaced SHA-256), repeated protocol runs and all single-bit mutations of signature / datum / opening, decided against pyref.s2c and the stated equalities between signer-commit and signing."),
 "C16": (E1, "property-based testing: differential against an independent whitelist ring-signature reference + reference prover with adversarial free choices and public-data forgeries",
         "Generated sign/verify pipelines over key lists of 0..255 pairs, adversarial signature strings (reference prover with small scalars and s+n twins, forgeries from public data incl. the empty-list forgery, bit flips, permuted / replaced keys, count mismatch) and parser strings, decided against pyref.whitelist."),
 "C17": (E1, "property-based testing: all incremental schedules vs one-shot aggregation (bytes equal), differential against an independent half-aggregation verifier; small-group builds for s >= n",
         "Generated signature sequences n = 0..64 with every composition for n <= 6, buffer sizes, honest / mutated / reordered aggregates decided by pyref.halfagg; order-13/199 builds for the s range check."),
 "C18": (E1, "property-based testing: differential against the group law and an independent XSwiftEC reference, both-party agreement, round trips over every 64-byte string class",
         "Generated secrets (0, 1, n-1, n, edge), peers, all hash choices incl. failing callbacks, 64-byte encodings with u/t in {0, >= p} and the u^3+t^2+7=0 family, encode/create/decode round trips, decided against pyref.ecdh / pyref.ellswift."),
 "C19": (E1, "property-based testing through internal wrappers: differential against an independent norm-argument verification equation, mutation of proofs, generator-list derivation / round-trip / leak accounting",
         "All power-of-two size pairs, boundary scalar vectors, rho edge values, scratch sizes, honest and mutated proof strings decided by pyref.bppp; generator lists 0..256 against the reference derivation, prefix consistency, serialization round trip and allocation balance on malformed strings."),
 "C20": (E1 + "+" + E4, "model-based property testing over context histories (probe battery equality), generated multi-thread workloads under ThreadSanitizer, static-context disjunction, symbol-table scan",
         "Generated histories of create / preallocated / clone / randomize / replace-hash / destroy interleaved with a fixed probe battery over every API family (outputs must equal the golden outputs), allocation counting, every API on the static context and a byte copy (same result or counted illegal callback), generated 2..16-thread programs on one context under TSan, and a scan for writable global symbols."),
}

NOTES = {
 "C05": "open known finding F5 (10x26 normalisation at the documented magnitude-32 limb maximum) is excluded by construction and reported as KNOWN-FINDING",
}

ENGINES = [
 {"name": E1, "path": "vf/worker.py", "kind_free_text": "Hypothesis-generated (or exhaustively enumerated) cases executed through a ctypes shim of the library built from the current tree (shipped flags, ASan+UBSan+VERIFY, alternative limb configurations, order-13/199 groups) and compared with the pure-Python reference model pyref/"},
 {"name": E2, "path": "vf/fuzz.py", "kind_free_text": "libFuzzer targets (clang, ASan+UBSan, optional VERIFY) with the semantic oracle (GMP / reference SHA-256 / round trips / counters) inside the target"},
 {"name": E3, "path": "vf/props/C06.py", "kind_free_text": "Hypothesis-generated scenario lists run under valgrind memcheck with secrets marked undefined"},
 {"name": E4, "path": "csrc/tsan_harness.c", "kind_free_text": "Hypothesis-generated multi-thread case files run by a ThreadSanitizer-instrumented runner"},
]


def main():
    ready = [l.strip() for l in open(os.path.join(V, "tools", "claimed.txt")) if l.strip() and not l.startswith("#")]
    na = []
    if os.path.exists(os.path.join(V, "tools", "not_applicable.json")):
        na = json.load(open(os.path.join(V, "tools", "not_applicable.json")))
    checks = []
    for pid in sorted(ready):
        eng, tech, text = T[pid]
        checks.append({
            "property_id": pid, "quick_cmd": "./check %s quick" % pid, "thorough_cmd": "./check %s thorough" % pid,
            "evidence_file": "/verif/evidence/%s.json" % pid, "replay_cmd_template": "./check %s --replay {path}" % pid,
            "engine": eng,
            "level_claimed": {"category": "exploration", "text": text + " Exploration with measured class coverage and counted distinct non-trivial cases; it establishes that the property held on what was generated, not absence of violations.",
                              "design_ref": "DESIGN.md §4 %s, §10, notes/%s.md" % (pid, pid)},
            "level_note": "trusted base: the reference model pyref/ (validated by pyref.selftest against BIP/RFC vectors and algebraic identities), Hypothesis / libFuzzer, gcc/clang and their sanitizers, GMP, valgrind where used; " + NOTES.get(pid, "no open known findings for this property"),
            "technique": tech})
    engines = []
    for e in ENGINES:
        e = dict(e)
        e["serves_properties"] = [c["property_id"] for c in checks if e["name"] in c["engine"]]
        engines.append(e)
    m = {
        "version": 1, "setup_cmd": "./setup.sh",
        "hooks": {"guard": "SECP256K1_ZKP_VERIF",
                  "enable": "no hooks exist in the repository: every harness #includes src/secp256k1.c into its own translation unit (as tests.c does) and passes -DSECP256K1_ZKP_VERIF=1, which nothing in /repo tests at present",
                  "baseline_off_cmd": "cmake --build /repo/_build -j16 && ctest --test-dir /repo/_build -j8 --timeout 900",
                  "source_commits": [], "add_only": True},
        "engines": engines, "checks": checks, "not_applicable": na,
        "notes": "fix: commits in /repo: 21fae7a (F1 whitelist empty list), bd4b855 (F2 adaptor_recover s=0), 0ffc40d (F3 rangeproof rewind digit outside last ring), 143cc4d (F4 fe_equal magnitude contract); open known finding F5 (C05). See known_findings.json and DESIGN.md §10."}
    with open(os.path.join(V, "MANIFEST.json"), "w") as f:
        json.dump(m, f, indent=1)
    print("MANIFEST.json: %d checks" % len(checks))

main()
