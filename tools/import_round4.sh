#!/bin/sh
# usage: import_round4.sh <Cxx> <out-dir>  — confirm a round-4 seeded change (tools/confirm_seed.sh) and, if confirmed, copy it to seeded/<Cxx>-<next>/
cd /verif || exit 2
P="$1"; O="$2"
[ -f "$O/patch.diff" ] && [ -f "$O/demo.sh" ] || { echo "$P: incomplete output in $O"; exit 2; }
R=$(tools/confirm_seed.sh "$O" 8 2>&1 | grep RESULT); rc=$?
echo "$P confirm: $R"
case "$R" in *"clean_demo_exit=0 patched_demo_exit=0"*|*apply-failed*) exit 1;; esac
case "$R" in *"100% tests passed, 0 tests failed out of 317"*) ;; *) exit 1;; esac
case "$R" in *"clean_demo_exit=0 "*) ;; *) exit 1;; esac
k=1; while [ -d "seeded/$P-$k" ]; do k=$((k+1)); done
D="seeded/$P-$k"; mkdir "$D"
cp "$O"/patch.diff "$O"/demo* "$D"/ ; [ -f "$O/meta.json" ] && cp "$O/meta.json" "$D"/
python3 - "$D" "$P" "$R" <<'PY'
import json,sys,os
d,p,r=sys.argv[1:4]
try: m=json.load(open(d+'/meta.json'))
except Exception as e: m={"property":p,"note":"agent meta.json unreadable: %s"%e}
m["breaks_property"]=p; m["round"]=4
m["confirmed_by_lead"]={"how":"tools/confirm_seed.sh in a fresh scratch worktree of /repo HEAD: patch applies, pinned cmake build, 317 ctest entries pass, demo.sh exits 0 on the clean tree and non-zero on the patched tree","result":r}
json.dump(m,open(d+'/meta.json','w'),indent=1)
PY
echo "imported $D"
