#!/bin/sh
# usage: sweep.sh <tier> <Cxx>...  — run checks sequentially, print one line each
tier=$1; shift
cd /verif
for c in "$@"; do
  t0=$(date +%s)
  ./check $c $tier > /var/tmp/vf-sweep-$c-$tier.log 2>&1
  rc=$?
  t1=$(date +%s)
  echo "$c $tier exit=$rc secs=$((t1-t0)) :: $(tail -1 /var/tmp/vf-sweep-$c-$tier.log | cut -c1-200)" | tee -a /var/tmp/vf-sweep.txt
done
