#!/usr/bin/env python3
"""usage: mut.py <Cxx> <relative file> <old text> <new text> [tier]   (or: mut.py <Cxx> @spec.json)
Copy the repo sources to a scratch dir, replace exactly one occurrence of <old text> in <file>, run ./check on it, clean up.
Prints KILLED / SURVIVED / BROKEN(exit 2) and the time."""
import json, os, shutil, subprocess, sys, tempfile, time

def main():
    prop, rel, old, new = sys.argv[1:5]
    tier = sys.argv[5] if len(sys.argv) > 5 else "quick"
    d = tempfile.mkdtemp(prefix="vf-mut-", dir="/var/tmp")
    try:
        for sub in ("src", "include", "contrib"):
            shutil.copytree(os.path.join("/repo", sub), os.path.join(d, sub))
        p = os.path.join(d, rel)
        s = open(p).read()
        if s.count(old) != 1:
            print("MUTATION-ERROR: %d occurrences of old text in %s" % (s.count(old), rel)); return 3
        open(p, "w").write(s.replace(old, new))
        env = dict(os.environ, VERIF_REPO=d)
        t0 = time.time()
        r = subprocess.run(["./check", prop, tier], cwd="/verif", env=env, capture_output=True, text=True)
        dt = time.time() - t0
        tail = [l for l in r.stdout.splitlines() if l.startswith(("VIOLATION", "INCONCLUSIVE", "candidate"))]
        verdict = {0: "SURVIVED", 1: "KILLED", 2: "BROKEN"}.get(r.returncode, "EXIT%d" % r.returncode)
        print("%s %s in %.0fs :: %s" % (verdict, prop, dt, " | ".join(t[:200] for t in tail[:2])))
        return 0 if r.returncode == 1 else 1
    finally:
        shutil.rmtree(d, ignore_errors=True)

sys.exit(main())
