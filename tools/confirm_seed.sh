#!/bin/sh
# usage: confirm_seed.sh <dir with patch.diff, demo.sh>   — confirm a seeded change in a fresh scratch worktree:
#   applies, builds like the pinned build, the 317 tests pass, demo fails with the change and passes without.
S="$(cd "$1" && pwd)"; J="${2:-8}"
W=$(mktemp -d /var/tmp/vf-confirm-XXXXXX)
rmdir "$W"
git -C /repo worktree add -q --detach "$W" HEAD || exit 2
trap 'git -C /repo worktree remove --force "$W" >/dev/null 2>&1; rm -rf "$W"' EXIT
( cd "$W" && sh "$S/demo.sh" "$W" >/dev/null 2>&1 ); CLEAN=$?
git -C "$W" apply "$S/patch.diff" || { echo "RESULT apply-failed"; exit 1; }
TESTS=$(/verif/tools/bt.sh "$W" "$J" 2>&1 | grep -E "tests passed|tests failed" | head -1)
( cd "$W" && sh "$S/demo.sh" "$W" >/dev/null 2>&1 ); PATCHED=$?
echo "RESULT clean_demo_exit=$CLEAN patched_demo_exit=$PATCHED tests='$TESTS'"
case "$TESTS" in "100% tests passed, 0 tests failed out of 317") ;; *) exit 1;; esac
[ "$CLEAN" = 0 ] && [ "$PATCHED" != 0 ] && exit 0
exit 1
