#!/usr/bin/env python3
"""Copies confirmed seeded changes from /tmp/seed-out into /verif/seeded/<Cxx>-<k>/ (patch.diff, demo.*, meta.json)."""
import glob, json, os, shutil, sys
# wave 1: /tmp/seed-out -> seeded/Cxx-1,2 ; wave 2: /tmp/seed2-out -> seeded/Cxx-3,4
WAVES = [("/var/tmp/vf-confirm-logs", "/tmp/seed-out", 0), ("/var/tmp/vf-confirm2-logs", "/tmp/seed2-out", 2),
         ("/var/tmp/vf-confirm3-logs", "/tmp/seed3-out", 4)]
items = []
for logs, out, off in WAVES:
    for res in sorted(glob.glob(logs + "/*.result")):
        items.append((res, out, off))
for res, out, off in items:
    sid0 = os.path.basename(res)[:-7]          # C03-1
    line = open(res).read().strip()
    prop, k = sid0.split("-")
    sid = "%s-%d" % (prop, int(k) + off)
    if not line.startswith("exit=0"):
        print("NOT CONFIRMED", sid, "(", res, ")", line); continue
    src = "%s/%s/%s" % (out, prop, k)
    dst = "/verif/seeded/%s" % sid
    if os.path.isdir(dst):
        continue
    os.makedirs(dst)
    for fn in os.listdir(src):
        if fn in ("patch.diff", "meta.json") or fn.startswith("demo"):
            shutil.copy(os.path.join(src, fn), os.path.join(dst, fn))
    try:
        meta = json.load(open(os.path.join(dst, "meta.json")))
    except Exception as e:
        meta = {"property": prop, "note": "agent meta.json unreadable: %s" % e}
    meta["breaks_property"] = prop
    meta["confirmed_by_lead"] = {"how": "tools/confirm_seed.sh in a fresh scratch worktree of /repo HEAD: patch applies, pinned cmake build, 317 ctest entries pass, demo.sh exits 0 on the clean tree and non-zero on the patched tree",
                                 "result": line}
    json.dump(meta, open(os.path.join(dst, "meta.json"), "w"), indent=1)
    print("imported", sid)
