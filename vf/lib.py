"""ctypes access to a built shim.  Thin and explicit: every helper maps to one API call."""
import ctypes
import os
import weakref
from ctypes import c_void_p, c_char_p, c_size_t, c_int, c_uint, c_uint64, c_int64, byref, create_string_buffer, POINTER, cast

from . import build as B

SECP256K1_EC_COMPRESSED = 258
SECP256K1_EC_UNCOMPRESSED = 2

NONCEFN = ctypes.CFUNCTYPE(c_int, c_void_p, c_void_p, c_void_p, c_void_p, c_void_p, c_uint)
# schnorr nonce fn: (nonce32, msg, msglen, key32, xonly_pk32, algo, algolen, data)
NONCEFN_HARDENED = ctypes.CFUNCTYPE(c_int, c_void_p, c_void_p, c_size_t, c_void_p, c_void_p, c_void_p, c_size_t, c_void_p)
# ecdsa adaptor nonce fn: (nonce32, msg32, key32, pk33, algo, algolen, data)
NONCEFN_ADAPTOR = ctypes.CFUNCTYPE(c_int, c_void_p, c_void_p, c_void_p, c_void_p, c_void_p, c_size_t, c_void_p)
ECDH_HASHFN = ctypes.CFUNCTYPE(c_int, c_void_p, c_void_p, c_void_p, c_void_p)
ELLSWIFT_HASHFN = ctypes.CFUNCTYPE(c_int, c_void_p, c_void_p, c_void_p, c_void_p, c_void_p)


_MALLOC_BUF = os.environ.get("VF_MALLOC_BUF") == "1"
_libc = None


def buf(n, init=None):
    """zero-initialised byte buffer of exactly n bytes.  In sanitizer workers it is a libc-malloc block (ASan red zones on
    both sides: over-reads / overruns by the library are reported); ctypes' own arrays come from pymalloc or live inline
    in the Python object and have no red zones."""
    global _libc
    if _MALLOC_BUF and n > 0:
        if _libc is None:
            _libc = ctypes.CDLL(None)
            _libc.malloc.restype = c_void_p
            _libc.malloc.argtypes = [c_size_t]
            _libc.free.argtypes = [c_void_p]
            _libc.free.restype = None
        p = _libc.malloc(n)
        ctypes.memset(p, 0, n)
        b = (ctypes.c_char * n).from_address(p)
        weakref.finalize(b, _libc.free, p)
    else:
        b = create_string_buffer(n)
    if init is not None:
        assert len(init) <= n
        ctypes.memmove(b, bytes(init), len(init))
    return b


def ptr_array(objs):
    arr = (c_void_p * max(1, len(objs)))()
    for i, o in enumerate(objs):
        arr[i] = ctypes.addressof(o)
    return arr


class Lib:
    def __init__(self, cfgname="prod", path=None):
        self.cfgname = cfgname
        self.path = path or B.build(B.CONFIGS[cfgname])
        self.dll = ctypes.CDLL(self.path)
        d = self.dll
        for fn in ("vf_ctx_new", "vf_ctx_static", "secp256k1_context_create", "secp256k1_context_clone",
                   "secp256k1_context_preallocated_create", "secp256k1_context_preallocated_clone",
                   "secp256k1_scratch_space_create", "secp256k1_bppp_generators_create", "secp256k1_bppp_generators_parse"):
            if hasattr(d, fn):
                getattr(d, fn).restype = c_void_p
        for fn in ("vf_get_illegal", "vf_get_error", "vf_get_alloc_count", "vf_get_alloc_live", "vf_get_compress_calls"):
            getattr(d, fn).restype = ctypes.c_long
        for fn in ("secp256k1_context_preallocated_size", "secp256k1_context_preallocated_clone_size",
                   "secp256k1_rangeproof_max_size", "secp256k1_surjectionproof_serialized_size",
                   "secp256k1_surjectionproof_n_total_inputs", "secp256k1_surjectionproof_n_used_inputs",
                   "secp256k1_whitelist_signature_n_keys"):
            getattr(d, fn).restype = c_size_t
        d.vf_get_cb_msg.restype = c_char_p
        d.vf_init()
        self.ctx = c_void_p(d.vf_ctx_new())
        self.static_ctx = c_void_p(d.vf_ctx_static())
        cb = buf(200)
        d.vf_config(cb, 200)
        self.config = cb.value.decode()
        # addresses of exported nonce functions / generator
        self.nonce_rfc6979 = cast(c_void_p.in_dll(d, "secp256k1_nonce_function_rfc6979"), c_void_p)
        self.nonce_default = cast(c_void_p.in_dll(d, "secp256k1_nonce_function_default"), c_void_p)
        self.nonce_bip340 = cast(c_void_p.in_dll(d, "secp256k1_nonce_function_bip340"), c_void_p)

    # ---------------------------------------------------------------- counters
    def reset(self):
        self.dll.vf_reset_counters()

    def illegal(self):
        return self.dll.vf_get_illegal()

    def errors(self):
        return self.dll.vf_get_error()

    def cbmsg(self):
        return self.dll.vf_get_cb_msg().decode(errors="replace")

    # ---------------------------------------------------------------- keys
    def pubkey_parse(self, b, ctx=None):
        pk = buf(64)
        r = self.dll.secp256k1_ec_pubkey_parse(ctx or self.ctx, pk, bytes(b), c_size_t(len(b)))
        return (r, pk)

    def pubkey_serialize(self, pk, compressed=True, ctx=None):
        out = buf(65)
        n = c_size_t(33 if compressed else 65)
        r = self.dll.secp256k1_ec_pubkey_serialize(ctx or self.ctx, out, byref(n), pk,
                                                   c_uint(SECP256K1_EC_COMPRESSED if compressed else SECP256K1_EC_UNCOMPRESSED))
        return out.raw[:n.value] if r == 1 else None

    def pubkey_create(self, sk32, ctx=None):
        pk = buf(64)
        r = self.dll.secp256k1_ec_pubkey_create(ctx or self.ctx, pk, bytes(sk32))
        return (r, pk)

    def pubkey_from_point(self, pt):
        """pubkey object for a reference point (through the strict parser)."""
        from pyref import ec
        r, pk = self.pubkey_parse(ec.ser65(pt))
        assert r == 1, "reference point rejected by parser"
        return pk

    def point_of_pubkey(self, pk):
        from pyref import ec
        s = self.pubkey_serialize(pk, compressed=False)
        if s is None:
            return None
        return (ec.b2i(s[1:33]), ec.b2i(s[33:65]))

    def xonly_parse(self, b32, ctx=None):
        pk = buf(64)
        r = self.dll.secp256k1_xonly_pubkey_parse(ctx or self.ctx, pk, bytes(b32))
        return (r, pk)

    def xonly_serialize(self, xpk, ctx=None):
        out = buf(32)
        r = self.dll.secp256k1_xonly_pubkey_serialize(ctx or self.ctx, out, xpk)
        return out.raw if r == 1 else None

    def keypair_create(self, sk32, ctx=None):
        kp = buf(96)
        r = self.dll.secp256k1_keypair_create(ctx or self.ctx, kp, bytes(sk32))
        return (r, kp)

    # ---------------------------------------------------------------- ecdsa
    def sig_parse_compact(self, b64):
        sig = buf(64)
        r = self.dll.secp256k1_ecdsa_signature_parse_compact(self.ctx, sig, bytes(b64))
        return (r, sig)

    def sig_serialize_compact(self, sig):
        out = buf(64)
        r = self.dll.secp256k1_ecdsa_signature_serialize_compact(self.ctx, out, sig)
        return out.raw if r == 1 else None

    def sig_parse_der(self, b):
        sig = buf(64)
        # exact-size heap copy so that ASan sees over-reads
        inp = buf(max(1, len(b)), b)
        r = self.dll.secp256k1_ecdsa_signature_parse_der(self.ctx, sig, inp, c_size_t(len(b)))
        return (r, sig)

    def sig_serialize_der(self, sig, size=80):
        out = buf(max(1, size))
        n = c_size_t(size)
        r = self.dll.secp256k1_ecdsa_signature_serialize_der(self.ctx, out, byref(n), sig)
        return (r, out.raw[:min(n.value, size)] if r == 1 else None, n.value)

    def ecdsa_verify(self, sig, msg32, pk):
        return self.dll.secp256k1_ecdsa_verify(self.ctx, sig, bytes(msg32), pk)

    def ecdsa_sign(self, msg32, sk32, noncefp=None, ndata=None):
        sig = buf(64, b"\xAA" * 64)
        r = self.dll.secp256k1_ecdsa_sign(self.ctx, sig, bytes(msg32), bytes(sk32), noncefp, ndata)
        return (r, sig)

    def sig_normalize(self, sig):
        out = buf(64)
        r = self.dll.secp256k1_ecdsa_signature_normalize(self.ctx, out, sig)
        return (r, out)

    # ---------------------------------------------------------------- schnorr
    def schnorr_verify(self, sig64, msg, xpk):
        m = buf(max(1, len(msg)), msg)
        return self.dll.secp256k1_schnorrsig_verify(self.ctx, bytes(sig64), m, c_size_t(len(msg)), xpk)

    def schnorr_sign32(self, msg32, kp, aux=None):
        sig = buf(64, b"\xAA" * 64)
        r = self.dll.secp256k1_schnorrsig_sign32(self.ctx, sig, bytes(msg32), kp, bytes(aux) if aux is not None else None)
        return (r, sig.raw)
