"""./check <Cxx> quick|thorough      |      ./check <Cxx> --replay <file>"""
import concurrent.futures
import glob
import importlib
import json
import math
import os
import shutil
import subprocess
import sys
import tempfile
import time

from . import build as B
from . import core
from .core import jdump

VERIF = core.VERIF
NCPU = int(os.environ.get("VERIF_JOBS", "16"))
CFG_WEIGHT = {"vsan": 0.34, "small13": 1.0, "small199": 1.0}


LIBPATHS = {}


def log(*a):
    print(*a, flush=True)


def worker_env(cfg):
    env = dict(os.environ)
    env["PYTHONPATH"] = VERIF + os.pathsep + env.get("PYTHONPATH", "")
    env["PYTHONHASHSEED"] = "0"
    if B.CONFIGS[cfg].san == "asan":
        env["LD_PRELOAD"] = B.asan_preload()
        env["ASAN_OPTIONS"] = "detect_leaks=0:abort_on_error=1:handle_abort=1:allocator_may_return_null=1:symbolize=1:quarantine_size_mb=32"
        env["UBSAN_OPTIONS"] = "print_stacktrace=1:halt_on_error=1"
        # route Python's own allocations (ctypes buffers) through the sanitizer's malloc so that they get red zones
        # vf.lib.buf() hands out libc-malloc blocks in sanitizer workers (ASan red zones around every buffer given to the library).
        # Routing ALL Python allocations through the sanitizer allocator (PYTHONMALLOC=malloc) would also cover raw `bytes`
        # arguments, but it slows the big-integer reference model 4-20x inside these workers (measured), so it is opt-in.
        if os.environ.get("VF_PYMALLOC") == "1":
            env["PYTHONMALLOC"] = "malloc"
        env["VF_MALLOC_BUF"] = "1"
        if os.environ.get("VF_ASAN_EXTRA"):
            env["ASAN_OPTIONS"] += ":" + os.environ["VF_ASAN_EXTRA"]
    return env


def spawn(spec, cfg, workdir, tag):
    sp = os.path.join(workdir, tag + ".spec.json")
    spec = dict(spec)
    spec.setdefault("libpath", LIBPATHS.get(cfg))
    spec["out"] = os.path.join(workdir, tag + ".out.json")
    spec["journal"] = os.path.join(workdir, tag + ".journal.json")
    with open(sp, "w") as f:
        f.write(jdump(spec))
    errp = os.path.join(workdir, tag + ".stderr")
    p = subprocess.Popen([sys.executable, "-m", "vf.worker", sp], cwd=VERIF, env=worker_env(cfg),
                         stdout=open(os.path.join(workdir, tag + ".stdout"), "w"), stderr=open(errp, "w"))
    return p, spec, errp


def collect(p, spec, errp):
    """-> (result dict or None, crashed: bool, stderr tail)"""
    err = ""
    try:
        with open(errp, errors="replace") as f:
            err = f.read()[-20000:]
    except OSError:
        pass
    if os.path.exists(spec["out"]):
        with open(spec["out"]) as f:
            return json.load(f), False, err
    return None, True, err


def sanitizer_summary(err):
    """the informative part of a sanitizer / assertion report"""
    lines = err.splitlines()
    for i, l in enumerate(lines):
        if "ERROR: AddressSanitizer" in l or "runtime error:" in l or "test condition failed" in l or "ERROR: LeakSanitizer" in l or "WARNING: ThreadSanitizer" in l:
            return "\n".join(lines[max(0, i - 1):i + 14])
    return err[-1500:]


def replay_case(prop, cfg, test, case, workdir, times=3, timeout=1800):
    """Re-executes one case in fresh processes.  Returns list of 'fail'/'pass'/'crash'/'error' and messages."""
    outcomes = []
    for i in range(times):
        spec = {"prop": prop, "cfg": cfg, "seed": 0, "worker": 0, "nworkers": 1, "tests": [],
                "replay": {"test": test, "case": case}}
        p, spec, errp = spawn(spec, cfg, workdir, "replay%d-%d" % (i, int(time.time() * 1000) % 100000))
        try:
            p.wait(timeout=timeout)
        except subprocess.TimeoutExpired:
            p.kill()
            outcomes.append(("timeout", "replay timed out"))
            continue
        res, crashed, err = collect(p, spec, errp)
        if crashed:
            outcomes.append(("crash", err[-3000:]))
        elif not res["ok"]:
            outcomes.append(("error", res["error"]))
        elif res.get("replay") == "fail":
            outcomes.append(("fail", res["failure"]["message"]))
        else:
            outcomes.append(("pass", ""))
    return outcomes


def write_replay(prop, cfg, failure, extra=None):
    d = os.path.join(VERIF, "evidence", "replay")
    os.makedirs(d, exist_ok=True)
    body = {"property": prop, "cfg": cfg, "test": failure["test"], "case": failure["case"],
            "message": failure.get("message"), "signature": failure.get("signature"),
            "details": failure.get("details")}
    if extra:
        body.update(extra)
    name = "%s-%s.json" % (prop, core.digest64({"t": failure["test"], "c": failure["case"]}))
    path = os.path.join(d, name)
    with open(path, "w") as f:
        f.write(jdump(body, indent=1))
    return path


def do_replay(prop, path):
    os.environ["VERIF_PROP"] = prop
    with open(path) as f:
        body = json.load(f)
    mod = importlib.import_module("vf.props." + prop)
    if body.get("engine") == "fuzz":
        from . import fuzz
        return fuzz.replay_fuzz(prop, body, path, mod.FUZZ_TARGETS)
    if hasattr(mod, "custom_replay") and body.get("engine"):
        return mod.custom_replay(body, path)
    cfgs = [body["cfg"]] if body.get("cfg") else ["prod", "vsan"]
    workdir = tempfile.mkdtemp(prefix="vf-replay-", dir="/var/tmp")
    try:
        bad = False
        for cfg in cfgs:
            LIBPATHS[cfg] = B.build(B.CONFIGS[cfg])
            oc = replay_case(prop, cfg, body["test"], body["case"], workdir, times=1)
            log("replay cfg=%s outcome=%s %s" % (cfg, oc[0][0], oc[0][1][:2000]))
            if oc[0][0] in ("fail", "crash"):
                bad = True
        if bad:
            log("VIOLATION property=%s replay=%s" % (prop, path))
            return 1
        return 0
    finally:
        shutil.rmtree(workdir, ignore_errors=True)


def run(prop, tier):
    os.environ["VERIF_PROP"] = prop
    t0 = time.time()
    seed = int(os.environ.get("VERIF_SEED", "1") or "1") or 1
    mod = importlib.import_module("vf.props." + prop)
    if hasattr(mod, "custom_main"):
        return mod.custom_main(tier, seed)
    workdir = tempfile.mkdtemp(prefix="vf-%s-" % prop, dir="/var/tmp")
    try:
        return _run(prop, tier, seed, mod, workdir, t0)
    finally:
        shutil.rmtree(workdir, ignore_errors=True)
        B.gc_builds()


def _run(prop, tier, seed, mod, workdir, t0):
    tests = list(getattr(mod, "TESTS", []))
    only = os.environ.get("VERIF_ONLY")
    if only:
        tests = [t for t in tests if t.name in only.split(",")]
    cfgs = sorted({c for t in tests for c in t.cfgs[tier]})
    # ---- build (always from the repo's current tree; cache is content-addressed)
    try:
        with concurrent.futures.ThreadPoolExecutor(max_workers=8) as ex:
            for c, pth in zip(cfgs, ex.map(lambda c: B.build(B.CONFIGS[c]), cfgs)):
                LIBPATHS[c] = pth
    except B.BuildError as e:
        log("INCONCLUSIVE build: " + str(e)[-4000:])
        return 2
    known_open = core.known_open_for(prop)

    # ---- regress replay tier
    regress_n = 0
    for path in sorted(glob.glob(os.path.join(VERIF, "regress", prop, "*.json"))):
        with open(path) as f:
            body = json.load(f)
        if body.get("engine") or body.get("test") not in {t.name for t in tests}:
            continue
        for cfg in ([body["cfg"]] if body.get("cfg") in cfgs else cfgs[:1]):
            oc = replay_case(prop, cfg, body["test"], body["case"], workdir, times=1)
            regress_n += 1
            if oc[0][0] in ("fail", "crash"):
                log("regression case fails: %s cfg=%s: %s" % (path, cfg, oc[0][1][:1500]))
                log("VIOLATION property=%s replay=%s" % (prop, path))
                write_evidence(prop, tier, seed, mod, [], t0, violations=1, note="regress case failed", known_open=known_open)
                return 1

    # ---- job list
    jobs = []
    for t in tests:
        tcfgs = t.cfgs[tier]
        for cfg in tcfgs:
            n = t.n[tier]
            w = CFG_WEIGHT.get(cfg, 1.0) if len(tcfgs) > 1 else 1.0
            n_cfg = max(1, int(n * w))
            if t.kind == "enum":
                nsh = t.max_workers
            else:
                # a sanitizer worker costs ~15 CPU-s before its first case (ASan-preloaded interpreter), so use fewer, longer shards
                per_shard = 150 if B.CONFIGS[cfg].san else 40
                nsh = max(1, min(t.max_workers, NCPU, n_cfg // per_shard or 1))
            per = int(math.ceil(n_cfg / nsh))
            for sh in range(nsh):
                jobs.append({"test": t.name, "cfg": cfg, "n": per, "shard": sh, "nshards": nsh})
    jobs.sort(key=lambda j: -j["n"])
    running = []
    results = []
    failure = None
    infra = None
    deadline = time.time() + (4 * 3600 if tier == "thorough" else 2700)  # generous infrastructure guard, started after the builds
    ji = 0
    while (ji < len(jobs) or running) and failure is None and infra is None:
        while ji < len(jobs) and len(running) < NCPU:
            j = jobs[ji]
            ji += 1
            spec = {"prop": prop, "cfg": j["cfg"], "seed": seed, "tier": tier, "worker": j["shard"], "nworkers": j["nshards"],
                    "tests": [[j["test"], j["n"]]]}
            p, spec, errp = spawn(spec, j["cfg"], workdir, "w%d" % ji)
            running.append((p, spec, errp, j))
        time.sleep(0.05)
        still = []
        for (p, spec, errp, j) in running:
            if p.poll() is None:
                still.append((p, spec, errp, j))
                continue
            res, crashed, err = collect(p, spec, errp)
            if crashed:
                case = None
                try:
                    with open(spec["journal"]) as f:
                        case = json.load(f)
                except Exception:
                    pass
                if case is None:
                    infra = "worker died without journal (cfg=%s test=%s): %s" % (j["cfg"], j["test"], err[-3000:])
                else:
                    failure = ({"test": case["test"], "case": case["case"], "message": "worker crashed (sanitizer / assertion / signal %s): %s" % (p.returncode, sanitizer_summary(err)),
                                "signature": None, "details": {}}, j["cfg"], True)
            elif not res["ok"]:
                infra = "harness error (cfg=%s test=%s): %s" % (j["cfg"], j["test"], res["error"])
            else:
                results.append((j, res))
                if res.get("failure"):
                    failure = (res["failure"], j["cfg"], False)
        running = still
        if time.time() > deadline:
            infra = "time budget exhausted (inconclusive)"
    for (p, spec, errp, j) in running:
        p.kill()
    for (p, spec, errp, j) in running:
        p.wait()

    if infra is not None and failure is None:
        log("INCONCLUSIVE " + infra)
        write_evidence(prop, tier, seed, mod, results, t0, violations=0, note="INCONCLUSIVE: " + infra[:300], known_open=known_open, regress_n=regress_n)
        return 2

    if failure is not None:
        f, cfg, crashed = failure
        log("candidate failure in test=%s cfg=%s: %s" % (f["test"], cfg, f["message"][:3000]))
        oc = replay_case(prop, cfg, f["test"], f["case"], workdir, times=3)
        log("replays: " + ", ".join(o[0] for o in oc))
        nfail = sum(1 for o in oc if o[0] in ("fail", "crash"))
        path = write_replay(prop, cfg, f, {"replays": [o[0] for o in oc], "crashed": crashed})
        write_evidence(prop, tier, seed, mod, results, t0, violations=1 if nfail else 0, note="failure: " + f["message"][:300], known_open=known_open, regress_n=regress_n, failing=f)
        if nfail >= 1:
            log("case: " + jdump(core.shorten(f["case"]))[:3000])
            log("VIOLATION property=%s replay=%s" % (prop, path))
            return 1
        log("INCONCLUSIVE flaky: failure did not reproduce in 3 fresh replays; case kept at " + path)
        return 2

    # ---- coverage obligations of the generators
    agg = aggregate(results)
    missing = []
    for t in tests:
        for c in t.must_cover:
            if agg["classes"].get(t.name + ":" + c, 0) == 0:
                missing.append(t.name + ":" + c)
    if missing:
        write_evidence(prop, tier, seed, mod, results, t0, violations=0, known_open=known_open, regress_n=regress_n,
                       note="generator starved: " + ",".join(missing))
        log("INCONCLUSIVE generator: classes never produced: " + ", ".join(missing))
        return 2
    if getattr(mod, "FUZZ_TARGETS", None) and not only:
        from . import fuzz
        log("%s %s: E1 part held on %d cases (%d distinct non-trivial) in %.1fs; starting fuzz targets" % (prop, tier, agg["evaluations"], len(agg["nontrivial"]), time.time() - t0))
        return fuzz.run_fuzz(prop, tier, seed, mod.FUZZ_TARGETS, mod, e1_results=results, t0=t0, regress_n=regress_n)
    write_evidence(prop, tier, seed, mod, results, t0, violations=0, known_open=known_open, regress_n=regress_n)
    for k in known_open:
        log("KNOWN-FINDING: property=%s %s" % (prop, k["what"]))
    log("%s %s: held on %d cases (%d distinct non-trivial) in %.1fs" % (prop, tier, agg["evaluations"], len(agg["nontrivial"]), time.time() - t0))
    return 0


def aggregate(results):
    agg = {"evaluations": 0, "nontrivial": set(), "classes": {}, "samples": [], "per_test": {}, "excluded": {}, "builds": {}}
    for j, res in results:
        s = res["stats"]
        agg["evaluations"] += s["evaluations"]
        agg["nontrivial"].update(s["nontrivial"])
        for k, v in s["classes"].items():
            agg["classes"][k] = agg["classes"].get(k, 0) + v
        for k, v in s["excluded"].items():
            agg["excluded"][k] = agg["excluded"].get(k, 0) + v
        for k, v in s["per_test"].items():
            pt = agg["per_test"].setdefault(k, {"evaluations": 0, "nontrivial_evaluations": 0})
            pt["evaluations"] += v["evaluations"]
            pt["nontrivial_evaluations"] += v["nontrivial"]
        if len(agg["samples"]) < 12:
            have = sum(1 for x in agg["samples"] if x["test"] == j["test"])
            for smp in s["samples"]:
                if have < 2:
                    smp = dict(smp)
                    smp["cfg"] = j["cfg"]
                    agg["samples"].append(smp)
                    have += 1
        if res.get("config"):
            agg["builds"][j["cfg"]] = res["config"]
    return agg


def evidence_dir():
    """evidence/ for runs against /repo; a scratch directory for runs against another tree (mutant calibration must not
    overwrite the evidence of the real tree)"""
    if os.path.realpath(B.REPO) == "/repo":
        return os.path.join(VERIF, "evidence")
    return os.path.join("/var/tmp", "vf-evidence-alt")


def write_evidence(prop, tier, seed, mod, results, t0, violations=0, note=None, known_open=(), regress_n=0, extra=None, failing=None):
    agg = aggregate(results)
    if failing is not None:
        # the failing case was executed too: count it and show it
        agg["evaluations"] += 1
        agg["samples"].insert(0, {"test": failing.get("test"), "case": core.shorten(failing.get("case")), "failing": True})
    cov = {
        "evaluations": agg["evaluations"],
        "distinct_nontrivial": len(agg["nontrivial"]),
        "rule": getattr(mod, "RULE", ""),
        "samples": agg["samples"][:12],
        "classes": dict(sorted(agg["classes"].items())),
        "per_test": agg["per_test"],
        "builds": agg["builds"],
        "excluded_known": agg["excluded"],
        "regress_cases_replayed": regress_n,
        "repo_tree_digest": B.tree_digest()[:16],
    }
    if extra:
        extra = dict(extra)
        cov["evaluations"] += extra.pop("evaluations", 0)
        cov["distinct_nontrivial"] += extra.pop("distinct_nontrivial", 0)
        cov["samples"] = (cov["samples"] + list(extra.pop("samples", [])))[:16]
        cov["classes"].update(extra.pop("classes", {}))
        cov["builds"].update(extra.pop("builds", {}))
        cov.update(extra)
    if note:
        cov["note"] = note
    ev = {
        "property_id": prop, "tier": tier, "seed": seed, "level": "exploration", "coverage": cov,
        "assumptions": getattr(mod, "ASSUMPTIONS", []) + [
            "exploration only: the property held on the generated cases, absence of violations elsewhere is not established",
            "known findings (open): " + (", ".join(k["signature"] for k in known_open) or "none")],
        "wall_s": round(time.time() - t0, 2), "violations": violations,
    }
    edir = evidence_dir()
    os.makedirs(edir, exist_ok=True)
    p = os.path.join(edir, prop + ".json")
    with open(p + ".tmp", "w") as f:
        f.write(jdump(ev, indent=1))
    os.rename(p + ".tmp", p)


def main(argv):
    if len(argv) < 3:
        log(__doc__)
        return 2
    prop = argv[1]
    if argv[2] == "--replay":
        return do_replay(prop, argv[3])
    tier = argv[2]
    if tier not in ("quick", "thorough"):
        log(__doc__)
        return 2
    return run(prop, tier)


if __name__ == "__main__":
    sys.exit(main(sys.argv))
