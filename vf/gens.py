"""Shared edge-biased Hypothesis strategies.  All randomness comes from Hypothesis."""
from hypothesis import strategies as st

from pyref import ec

P, N = ec.P, ec.N
M256 = (1 << 256) - 1

NAMED = [0, 1, 2, 3, P - 1, P, P + 1, N - 1, N, N + 1, (N - 1) // 2, (N + 1) // 2, (N - 1) // 2 - 1, (N + 1) // 2 + 1,
         P - N, P - N - 1, P - N + 1, M256, 1 << 255, (1 << 128) - 1, 1 << 128, (1 << 128) + 1,
         ec.LAMBDA, N - ec.LAMBDA, ec.BETA, N - 2, P - 2, M256 - 1,
         # GLV split bounds used by the library's split_lambda analysis
         0x3086D221A7D46BCDE86C90E49284EB15, 0xE4437ED6010E88286F547FA90ABFE4C3, 0x114CA50F7A8E2F3F657C1108D9D44CFD8,
         ]


def _limb_patterns():
    out = []
    for bits in (52, 26, 64, 32):
        nl = (256 + bits - 1) // bits
        ones = (1 << bits) - 1
        for i in range(nl):
            out.append(((ones << (bits * i)) & M256))                 # single limb all-ones
            out.append((M256 ^ (ones << (bits * i))) & M256)          # all but one limb
        alt = 0
        for i in range(0, nl, 2):
            alt |= ones << (bits * i)
        out.append(alt & M256)
        out.append((~alt) & M256)
    return out


LIMB = _limb_patterns()

_base = st.one_of(
    st.sampled_from(NAMED),
    st.sampled_from(LIMB),
    st.integers(0, 255).map(lambda k: 1 << k),
    st.integers(1, 256).map(lambda k: (1 << k) - 1),
    st.integers(0, 255).map(lambda k: (M256 + 1) - (1 << k)),
    st.integers(0, M256),
    st.integers(0, M256),
    st.integers(0, 1 << 32),
    st.binary(min_size=32, max_size=32).map(ec.b2i),
)


def _derive(v, how, d):
    if how == 0:
        return v
    if how == 1:
        return (v + d) & M256
    if how == 2:
        return (v - d) & M256
    if how == 3:
        return (-v) % N
    if how == 4:
        return (-v) % P
    if how == 5:
        return v + N if v + N <= M256 else v
    if how == 6:
        return v + P if v + P <= M256 else v
    return v


u256_edge = st.builds(_derive, _base, st.sampled_from([0, 0, 0, 0, 1, 2, 3, 4, 5, 6]), st.integers(1, 3))

seckey_valid = st.one_of(
    st.sampled_from([1, 2, 3, N - 1, N - 2, (N - 1) // 2, (N + 1) // 2, ec.LAMBDA, N - ec.LAMBDA, 1 << 128, (1 << 128) - 1, 1 << 255]),
    u256_edge.map(lambda v: v % N or 1),
    st.integers(1, N - 1),
)
seckey_any = st.one_of(seckey_valid, seckey_valid, seckey_valid, seckey_valid, seckey_valid,
                       st.sampled_from([0, N, N + 1, M256, P]), st.integers(N, M256))
msg32 = st.one_of(u256_edge, st.integers(0, M256), st.integers(N, M256), st.sampled_from([0, N - 1, N, N + 1, M256]))
scalar_any = u256_edge

U64 = (1 << 64) - 1
u64_edge = st.one_of(
    st.sampled_from([0, 1, 2, 3, 9, 10, 11, (1 << 63) - 2, (1 << 63) - 1, 1 << 63, (1 << 63) + 1, U64 - 1, U64, (1 << 32) - 1, 1 << 32, (1 << 32) + 1]),
    st.integers(0, 19).map(lambda k: 10 ** k),
    st.integers(0, 19).flatmap(lambda k: st.sampled_from([10 ** k - 1, 10 ** k + 1])),
    st.integers(0, 63).map(lambda k: 1 << k),
    st.integers(1, 64).map(lambda k: (1 << k) - 1),
    st.integers(1, 63).map(lambda k: (1 << k) + 1),
    st.integers(0, U64),
    st.integers(0, 1 << 20),
)

_LEN_HOT = [0, 1, 31, 32, 33, 55, 56, 57, 63, 64, 65, 119, 120, 127, 128, 129, 255, 256, 257, 299, 300, 301, 999, 1000, 1001]


def length(maxlen):
    hot = [x for x in _LEN_HOT if x <= maxlen]
    parts = [st.sampled_from(hot), st.integers(0, min(maxlen, 300))]
    if maxlen > 300:
        # log-uniform tail
        import math
        parts.append(st.floats(math.log(300), math.log(maxlen)).map(lambda f: min(maxlen, int(math.exp(f)))))
    return st.one_of(*parts)


def hexbytes(n):
    return st.binary(min_size=n, max_size=n).map(bytes.hex)


def message(maxlen):
    """message bytes (hex) with edge-biased length; content random or patterned"""
    return length(maxlen).flatmap(lambda n: st.one_of(
        st.binary(min_size=n, max_size=n),
        st.sampled_from([b"\x00", b"\xff", b"\x80", b"a"]).map(lambda c: c * n))).map(bytes.hex)


bytes32_edge = st.one_of(u256_edge.map(lambda v: ec.i2b(v).hex()), hexbytes(32))

# a point given by a scalar multiple of G (the reference computes it)
point_scalar = st.one_of(st.sampled_from([1, 2, 3, N - 1, N - 2, ec.LAMBDA]), seckey_valid)


def i2h(v, n=32):
    return int(v).to_bytes(n, "big").hex()


def h2b(h):
    return bytes.fromhex(h)
