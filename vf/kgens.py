"""Point specifications (JSON-able) and their strategies, shared by C04 and C18.

A point spec is a list:
  ["k", k]            k*G  (1 <= k < n)
  ["x", x0, odd]      the curve point with the smallest valid x >= x0 (mod p) and the given y parity  (no known discrete log)
  ["lam", spec]       lambda * P = (beta*x, y)
  ["neg", spec]       -P
"""
import functools

from hypothesis import strategies as st

from pyref import ec
from . import gens

P, N = ec.P, ec.N


@functools.lru_cache(maxsize=4096)
def _mulg(k):
    return ec.mulg(k)


def point_of(spec):
    kind = spec[0]
    if kind == "k":
        k = spec[1] % N
        assert k
        return _mulg(k)
    if kind == "x":
        x = spec[1] % P
        while True:
            pt = ec.lift_x(x, spec[2] & 1)
            if pt is not None:
                return pt
            x = (x + 1) % P
    if kind == "lam":
        pt = point_of(spec[1])
        return (ec.BETA * pt[0] % P, pt[1])
    if kind == "neg":
        return ec.neg(point_of(spec[1]))
    raise ValueError(spec)


def scalar_of(spec):
    """discrete log if known, else None"""
    kind = spec[0]
    if kind == "k":
        return spec[1] % N
    if kind == "x":
        return None
    s = scalar_of(spec[1])
    if s is None:
        return None
    return s * ec.LAMBDA % N if kind == "lam" else (N - s) % N


_k_spec = st.one_of(st.sampled_from([1, 2, 3, N - 1, N - 2, ec.LAMBDA, N - ec.LAMBDA, (N - 1) // 2, (N + 1) // 2]), gens.seckey_valid,
                    st.integers(1, 300)).map(lambda k: ["k", k])
_x_spec = st.builds(lambda x, odd: ["x", x, odd],
                    st.one_of(st.integers(0, 1 << 32), st.integers(1, 1 << 16).map(lambda d: P - d), gens.u256_edge.map(lambda v: v % P),
                              st.integers(0, P - 1)),
                    st.integers(0, 1))
_base = st.one_of(_k_spec, _k_spec, _x_spec)
point_spec = st.one_of(_base, _base, _base.map(lambda s: ["lam", s]), _base.map(lambda s: ["neg", s]))


def classes_of_spec(spec):
    out = ["pt:" + spec[0]]
    if spec[0] == "x" and spec[1] % P < (1 << 33):
        out.append("pt:tiny_x")
    return out
