"""Engine E2: libFuzzer campaigns with the semantic oracle inside the target."""
import glob
import hashlib
import json
import os
import re
import shutil
import subprocess
import tempfile
import time

from . import build as B
from . import core
from .core import jdump
from .main import log, write_evidence, VERIF, NCPU


class FuzzTarget:
    def __init__(self, name, source, cfgs=None, runs=None, workers=None, max_len=512, corpus=None, link=(), cflags=(),
                 timeout=60, extra_sources=()):
        self.name = name
        self.source = source
        self.cfgs = cfgs or {"quick": ["vsan"], "thorough": ["vsan", "prod"]}
        self.runs = runs or {"quick": 150000, "thorough": 5000000}
        self.workers = workers or {"quick": 8, "thorough": 16}
        self.max_len = max_len
        self.corpus = corpus
        self.link = tuple(link)
        self.cflags = tuple(cflags)
        self.timeout = timeout
        self.extra_sources = tuple(extra_sources)


def build_target(t, cfgname):
    cfg = B.fuzz_cfg(B.CONFIGS[cfgname])
    return B.build(cfg, kind="exe", sources=[t.source] + list(t.extra_sources), out=t.name, link=t.link, cflags=t.cflags)


def _env(counters, known):
    env = dict(os.environ)
    env["VF_COUNTERS"] = counters
    env["VF_KNOWN_OPEN"] = ";".join(known)
    env["ASAN_OPTIONS"] = "detect_leaks=1:allocator_may_return_null=1:symbolize=1:abort_on_error=0"
    env["UBSAN_OPTIONS"] = "print_stacktrace=1:halt_on_error=1"
    env.pop("LD_PRELOAD", None)
    return env


def popcount_or(paths):
    acc = None
    for p in paths:
        try:
            with open(p, "rb") as f:
                b = int.from_bytes(f.read(), "little")
        except OSError:
            continue
        acc = b if acc is None else acc | b
    return bin(acc).count("1") if acc is not None else 0


def run_once(exe, path, timeout=300):
    try:
        r = subprocess.run([exe, path], capture_output=True, text=True, errors="replace", timeout=timeout,
                           env=_env("", []))
    except subprocess.TimeoutExpired:
        return "timeout", ""
    return ("fail" if r.returncode != 0 else "pass"), (r.stderr or "")[-5000:]


def run_fuzz(prop, tier, seed, targets, mod, e1_results=(), t0=None, regress_n=0):
    t0 = t0 or time.time()
    e1_results = list(e1_results)
    known_open = core.known_open_for(prop)
    known_sigs = [k["signature"] for k in known_open]
    workdir = tempfile.mkdtemp(prefix="vf-%s-fuzz-" % prop, dir="/var/tmp")
    try:
        # ---- build all (target, cfg)
        exes = {}
        try:
            import concurrent.futures
            pairs = [(t, c) for t in targets for c in t.cfgs[tier]]
            with concurrent.futures.ThreadPoolExecutor(max_workers=8) as ex:
                for (t, c), exe in zip(pairs, ex.map(lambda tc: build_target(tc[0], tc[1]), pairs)):
                    exes[(t.name, c)] = exe
        except B.BuildError as e:
            log("INCONCLUSIVE build: " + str(e)[-4000:])
            return 2
        # ---- regress tier: saved crash inputs
        for path in sorted(glob.glob(os.path.join(VERIF, "regress", prop, "*.json"))):
            with open(path) as f:
                body = json.load(f)
            if body.get("engine") != "fuzz":
                continue
            key = (body["target"], body.get("cfg"))
            cands = [k for k in exes if k[0] == body["target"]]
            if not cands:
                continue
            exe = exes.get(key) or exes[cands[0]]
            ip = os.path.join(workdir, "regress-input")
            with open(ip, "wb") as f:
                f.write(bytes.fromhex(body["input_hex"]))
            regress_n += 1
            oc, err = run_once(exe, ip)
            if oc == "fail":
                log("regression input fails: %s\n%s" % (path, err[-2000:]))
                log("VIOLATION property=%s replay=%s" % (prop, path))
                write_evidence(prop, tier, seed, mod, e1_results, t0, violations=1, note="regress input failed", known_open=known_open)
                return 1
        # ---- campaigns
        jobs = []
        for t in targets:
            for c in t.cfgs[tier]:
                for w in range(t.workers[tier]):
                    jobs.append((t, c, w))
        running, done = [], []
        failure = None
        ji = 0
        deadline = time.time() + (4 * 3600 if tier == "thorough" else 2700)
        while (ji < len(jobs) or running) and failure is None:
            while ji < len(jobs) and len(running) < NCPU:
                t, c, w = jobs[ji]
                ji += 1
                d = os.path.join(workdir, "%s-%s-%d" % (t.name, c, w))
                os.makedirs(os.path.join(d, "corpus"))
                os.makedirs(os.path.join(d, "art"))
                sd = core.derive_seed(seed, prop, t.name, c, w) % (2 ** 31 - 1) or 1
                cmd = [exes[(t.name, c)], "-seed=%d" % sd, "-runs=%d" % t.runs[tier], "-max_len=%d" % t.max_len,
                       "-timeout=%d" % t.timeout, "-rss_limit_mb=4096", "-artifact_prefix=" + os.path.join(d, "art") + "/",
                       "-print_final_stats=1", "-verbosity=0", "-entropic=0" if False else "-reload=0", os.path.join(d, "corpus")]
                # half of the workers start from the committed seeds, the other half from an empty corpus
                if t.corpus and (w % 2 == 0):
                    src = os.path.join(VERIF, "corpus", t.corpus)
                    if os.path.isdir(src) and os.listdir(src):
                        seeds = os.path.join(d, "seeds")
                        shutil.copytree(src, seeds)
                        cmd.append(seeds)
                lp = os.path.join(d, "log")
                p = subprocess.Popen(cmd, stdout=open(lp, "w"), stderr=subprocess.STDOUT,
                                     env=_env(os.path.join(d, "counters"), known_sigs), cwd=d)
                running.append((p, t, c, w, d))
            time.sleep(0.1)
            still = []
            for item in running:
                p, t, c, w, d = item
                if p.poll() is None:
                    still.append(item)
                    continue
                arts = [a for a in glob.glob(os.path.join(d, "art", "*")) if os.path.basename(a).startswith(("crash-", "leak-"))]
                if arts:
                    failure = (t, c, d, arts[0])
                elif p.returncode != 0:
                    # timeout-/oom-/slow-unit artifacts are load noise: the campaign is simply shorter
                    noise = glob.glob(os.path.join(d, "art", "*"))
                    done.append((t, c, w, d, "noise:" + ",".join(os.path.basename(x)[:12] for x in noise)))
                else:
                    done.append((t, c, w, d, "ok"))
            running = still
            if time.time() > deadline:
                break
        for item in running:
            item[0].kill()
        for item in running:
            item[0].wait()
            done.append((item[1], item[2], item[3], item[4], "stopped"))

        # ---- evidence numbers
        execs, nt_execs, classes, samples, distinct = 0, 0, {}, [], 0
        known_excluded = 0
        per_target = {}
        for t in targets:
            bitmaps = []
            for (tt, c, w, d, st) in done:
                if tt is not t:
                    continue
                cp = os.path.join(d, "counters")
                if os.path.exists(cp):
                    for line in open(cp):
                        f = line.split()
                        if f[0] == "execs":
                            execs += int(f[1])
                            per_target.setdefault(t.name, {"execs": 0, "nontrivial_execs": 0})["execs"] += int(f[1])
                        elif f[0] == "nontrivial_execs":
                            nt_execs += int(f[1])
                            per_target.setdefault(t.name, {"execs": 0, "nontrivial_execs": 0})["nontrivial_execs"] += int(f[1])
                        elif f[0] == "known_excluded":
                            known_excluded += int(f[1])
                        elif f[0] == "class":
                            k = t.name + ":" + f[1]
                            classes[k] = classes.get(k, 0) + int(f[2])
                bitmaps.append(cp + ".bitmap")
                sp = cp + ".samples"
                if os.path.exists(sp) and len([s for s in samples if s["target"] == t.name]) < 3:
                    for line in open(sp):
                        if len([s for s in samples if s["target"] == t.name]) < 3:
                            samples.append({"target": t.name, "cfg": c, "input_hex": line.strip()[:800]})
            dn = popcount_or(bitmaps)
            per_target.setdefault(t.name, {})["distinct_nontrivial_lower_bound"] = dn
            distinct += dn
        extra = {"evaluations": execs, "distinct_nontrivial": distinct, "samples": samples or [{"note": "no sample written"}],
                 "classes": dict(sorted(classes.items())), "per_target": per_target, "nontrivial_execs": nt_execs,
                 "builds": {k[0] + "/" + k[1]: os.path.basename(os.path.dirname(v)) for k, v in exes.items()},
                 "campaign_states": sorted({st for (_, _, _, _, st) in done}),
                 "excluded_known": ({k["signature"]: known_excluded for k in known_open} if known_excluded else {}),
                 "distinct_counting": "popcount of the OR of per-worker 2^26-bit linear-counting bitmaps of FNV hashes of non-trivial inputs: a lower bound"}

        if failure is not None:
            t, c, d, art = failure
            exe = exes[(t.name, c)]
            ocs = [run_once(exe, art) for _ in range(3)]
            log("crash artifact %s: replays %s" % (os.path.basename(art), [o[0] for o in ocs]))
            log(ocs[0][1][-3500:])
            nfail = sum(1 for o in ocs if o[0] == "fail")
            data = open(art, "rb").read()
            if nfail:
                # bounded minimisation
                try:
                    md = os.path.join(d, "min")
                    os.makedirs(md, exist_ok=True)
                    subprocess.run([exe, "-minimize_crash=1", "-runs=20000", "-exact_artifact_path=" + os.path.join(md, "min.bin"), art],
                                   capture_output=True, timeout=240, env=_env("", known_sigs), cwd=md)
                    mp = os.path.join(md, "min.bin")
                    if os.path.exists(mp) and run_once(exe, mp)[0] == "fail":
                        data = open(mp, "rb").read()
                except Exception:
                    pass
            rp = os.path.join(VERIF, "evidence", "replay")
            os.makedirs(rp, exist_ok=True)
            path = os.path.join(rp, "%s-%s-%s.json" % (prop, t.name, hashlib.sha256(data).hexdigest()[:16]))
            with open(path, "w") as f:
                f.write(jdump({"engine": "fuzz", "property": prop, "target": t.name, "cfg": c, "input_hex": data.hex(),
                               "report": ocs[0][1][-3000:], "replays": [o[0] for o in ocs]}, indent=1))
            write_evidence(prop, tier, seed, mod, e1_results, t0, violations=1 if nfail else 0, known_open=known_open, regress_n=regress_n, extra=extra,
                           note="failure in target %s cfg %s" % (t.name, c))
            if nfail:
                log("VIOLATION property=%s replay=%s" % (prop, path))
                return 1
            log("INCONCLUSIVE flaky: crash artifact did not reproduce; kept at " + path)
            return 2
        write_evidence(prop, tier, seed, mod, e1_results, t0, violations=0, known_open=known_open, regress_n=regress_n, extra=extra)
        for k in known_open:
            log("KNOWN-FINDING: property=%s %s" % (prop, k["what"]))
        if execs == 0:
            log("INCONCLUSIVE: no executions recorded")
            return 2
        missing = [c for c in getattr(mod, "FUZZ_MUST_COVER", []) if classes.get(c, 0) == 0]
        if missing:
            log("INCONCLUSIVE generator: fuzz classes never produced: " + ", ".join(missing))
            return 2
        log("%s %s (fuzz): held on %d executions (>= %d distinct non-trivial) in %.1fs" % (prop, tier, execs, distinct, time.time() - t0))
        return 0
    finally:
        shutil.rmtree(workdir, ignore_errors=True)
        B.gc_builds()


def replay_fuzz(prop, body, path, targets):
    t = [x for x in targets if x.name == body["target"]][0]
    cfg = body.get("cfg") or t.cfgs["quick"][0]
    exe = build_target(t, cfg)
    d = tempfile.mkdtemp(prefix="vf-replay-", dir="/var/tmp")
    try:
        ip = os.path.join(d, "input")
        with open(ip, "wb") as f:
            f.write(bytes.fromhex(body["input_hex"]))
        oc, err = run_once(exe, ip)
        log("replay target=%s cfg=%s outcome=%s\n%s" % (t.name, cfg, oc, err[-3000:]))
        if oc == "fail":
            log("VIOLATION property=%s replay=%s" % (prop, path))
            return 1
        return 0
    finally:
        shutil.rmtree(d, ignore_errors=True)
