"""Content-addressed builds of the harness translation units from the repo's current tree."""
import hashlib
import os
import subprocess
import sys
import fcntl

VERIF = os.path.dirname(os.path.dirname(os.path.abspath(__file__)))
REPO = os.environ.get("VERIF_REPO", "/repo")
BUILD = os.path.join(VERIF, "build")

MODULES = ["ECDH", "RECOVERY", "EXTRAKEYS", "SCHNORRSIG", "MUSIG", "ELLSWIFT", "GENERATOR", "RANGEPROOF",
           "SURJECTIONPROOF", "WHITELIST", "ECDSA_ADAPTOR", "ECDSA_S2C", "BPPP", "SCHNORRSIG_HALFAGG"]
MODDEFS = ["-DENABLE_MODULE_%s=1" % m for m in MODULES]

COMB = {2: (2, 5), 22: (11, 6), 86: (43, 6)}

# hook guard: the repo carries no hooks at present, the define is reserved (MANIFEST.hooks)
GUARD = "-DSECP256K1_ZKP_VERIF=1"


class Cfg:
    """A build configuration of the library TU."""

    def __init__(self, name, cc="gcc", opt="-O2", widemul="int128", asm=True, window=15, comb=86,
                 verify=False, san=None, small=None, extra=()):
        self.name = name
        self.cc = cc
        self.opt = opt
        self.widemul = widemul
        self.asm = asm
        self.window = window
        self.comb = comb
        self.verify = verify
        self.san = san
        self.small = small
        self.extra = tuple(extra)

    def flags(self):
        f = [self.opt, "-g", "-fPIC", "-std=gnu99", "-w", GUARD] + MODDEFS
        f += ["-DECMULT_WINDOW_SIZE=%d" % self.window,
              "-DCOMB_BLOCKS=%d" % COMB[self.comb][0], "-DCOMB_TEETH=%d" % COMB[self.comb][1]]
        if self.widemul == "int128":
            f.append("-DUSE_FORCE_WIDEMUL_INT128=1")
            if self.asm:
                f.append("-DUSE_ASM_X86_64=1")
        elif self.widemul == "int128_struct":
            f.append("-DUSE_FORCE_WIDEMUL_INT128_STRUCT=1")
        elif self.widemul == "int64":
            f.append("-DUSE_FORCE_WIDEMUL_INT64=1")
        if self.verify:
            f.append("-DVERIFY=1")
        if self.san == "asan":
            f += ["-fsanitize=address,undefined", "-fno-sanitize-recover=undefined", "-fno-omit-frame-pointer"]
        elif self.san == "fuzz":
            f += ["-fsanitize=fuzzer,address,undefined", "-fno-sanitize-recover=undefined", "-fno-omit-frame-pointer"]
        elif self.san == "tsan":
            f += ["-fsanitize=thread"]
        if self.small:
            f.append("-DVF_SMALL_ORDER=%d" % self.small)
        f += list(self.extra)
        return f


PROD = Cfg("prod")
VSAN = Cfg("vsan", cc="gcc", opt="-O1", verify=True, san="asan")
VERIFY_ONLY = Cfg("verify", opt="-O2", verify=True)
INT64 = Cfg("int64", widemul="int64", asm=False, window=2, comb=2)
STRUCT = Cfg("struct", widemul="int128_struct", asm=False, window=5, comb=22)
NOASM = Cfg("noasm", widemul="int128", asm=False, window=15, comb=22)
# what an autotools build defines in addition (the pinned CMake build does not): alternative code paths in util.h / surjection
BUILTINS = Cfg("builtins", extra=("-DHAVE_BUILTIN_POPCOUNT=1", "-DHAVE_BUILTIN_CLZLL=1"))
SMALL13 = Cfg("small13", small=13, asm=False, window=2, comb=2)
SMALL199 = Cfg("small199", small=199, asm=False, window=2, comb=2)
CONFIGS = {c.name: c for c in (PROD, VSAN, VERIFY_ONLY, INT64, STRUCT, NOASM, BUILTINS, SMALL13, SMALL199)}


def _tree_digest():
    h = hashlib.sha256()
    for sub in ("src", "include", "contrib"):
        root = os.path.join(REPO, sub)
        for d, dirs, files in sorted(os.walk(root)):
            dirs.sort()
            for fn in sorted(files):
                if not fn.endswith((".c", ".h", ".inc", ".s", ".S")):
                    continue
                p = os.path.join(d, fn)
                h.update(os.path.relpath(p, REPO).encode())
                with open(p, "rb") as f:
                    h.update(hashlib.sha256(f.read()).digest())
    return h.hexdigest()


_TD = None


def tree_digest():
    global _TD
    if _TD is None:
        _TD = _tree_digest()
    return _TD


def _prop_num():
    p = os.environ.get("VERIF_PROP", "")
    return int(p[1:]) if len(p) >= 2 and p[0] == "C" and p[1:].isdigit() else None


def _csrc_digest(sources, kind="shim"):
    """digest of the harness sources that can influence this build: for the shim, shim.c, the dispatcher and the
    wrappers of the property being checked; for executables, the listed sources plus every header / .inc they can include"""
    h = hashlib.sha256()
    d = os.path.join(VERIF, "csrc")
    pn = _prop_num()
    text = ""
    if kind != "shim":
        for s_ in sources:
            try:
                text += open(os.path.join(d, s_), errors="replace").read()
            except OSError:
                pass
    for fn in sorted(os.listdir(d)):
        is_shim = fn.startswith("shim")
        if kind == "shim":
            take = fn in ("shim.c", "shim_internal.inc") or (is_shim and (pn is None or fn == "shim_C%02d.inc" % pn))
        else:
            take = (fn in sources) or (not is_shim and fn.endswith((".h", ".inc"))) or (is_shim and ('"%s"' % fn) in text)
        if take:
            with open(os.path.join(d, fn), "rb") as f:
                h.update(fn.encode() + hashlib.sha256(f.read()).digest())
    return h.hexdigest()


class BuildError(Exception):
    pass


def fuzz_cfg(cfg):
    """the same library configuration, built as a libFuzzer binary with clang + ASan + UBSan"""
    c = Cfg(cfg.name + "-fuzz", cc="clang", opt="-O1", widemul=cfg.widemul, asm=cfg.asm, window=cfg.window, comb=cfg.comb,
            verify=cfg.verify, san="fuzz", small=cfg.small, extra=cfg.extra)
    return c


def build(cfg, kind="shim", sources=None, out=None, link=(), cflags=(), tables=True):
    """Build csrc/<sources> for configuration cfg.  kind: 'shim' (shared object), 'exe'.
    Returns the path of the output.  Rebuilds iff the repo tree, csrc or the flags changed."""
    if sources is None:
        sources = ["shim.c"]
    flags = cfg.flags() + list(cflags)
    if kind == "shim" and _prop_num() is not None:
        flags.append("-DVF_PROP=%d" % _prop_num())
    key = hashlib.sha256(("|".join([tree_digest(), _csrc_digest(sources, kind), cfg.cc, " ".join(flags), kind,
                                    " ".join(sources), " ".join(link), REPO])).encode()).hexdigest()[:20]
    d = os.path.join(BUILD, "%s-%s" % (cfg.name, key))
    outname = out or ("libshim.so" if kind == "shim" else "harness")
    target = os.path.join(d, outname)
    if os.path.exists(target):
        return target
    os.makedirs(d, exist_ok=True)
    lock = open(os.path.join(d, ".lock"), "w")
    fcntl.flock(lock, fcntl.LOCK_EX)
    try:
        if os.path.exists(target):
            return target
        srcs = [os.path.join(VERIF, "csrc", s) for s in sources]
        if tables:
            srcs += [os.path.join(REPO, "src", "precomputed_ecmult.c"), os.path.join(REPO, "src", "precomputed_ecmult_gen.c")]
        cmd = [cfg.cc] + flags + ["-I" + REPO, "-I" + os.path.join(REPO, "src"), "-I" + os.path.join(REPO, "include"),
                                  "-I" + os.path.join(VERIF, "csrc")]
        if kind == "shim":
            cmd += ["-shared", "-fvisibility=hidden"]
        tmp = target + ".tmp%d" % os.getpid()
        cmd += srcs + ["-o", tmp] + list(link)
        cenv = dict(os.environ)
        cenv.pop("LD_PRELOAD", None)      # never run the compiler under a preloaded sanitizer runtime
        r = subprocess.run(cmd, capture_output=True, text=True, env=cenv)
        if r.returncode != 0:
            raise BuildError("build failed (%s):\n%s\n%s" % (cfg.name, " ".join(cmd), r.stderr[-6000:]))
        os.rename(tmp, target)
        return target
    finally:
        fcntl.flock(lock, fcntl.LOCK_UN)
        lock.close()


def gc_builds(keep=160):
    """Drop the oldest build directories so the cache stays bounded."""
    if not os.path.isdir(BUILD):
        return
    ds = [os.path.join(BUILD, x) for x in os.listdir(BUILD)]
    ds = [x for x in ds if os.path.isdir(x)]
    ds.sort(key=lambda p: os.path.getmtime(p))
    import shutil
    for p in ds[:-keep]:
        shutil.rmtree(p, ignore_errors=True)


def asan_preload():
    r = subprocess.run(["gcc", "-print-file-name=libasan.so"], capture_output=True, text=True)
    return r.stdout.strip()


if __name__ == "__main__":
    for n in sys.argv[1:]:
        print(build(CONFIGS[n]))
