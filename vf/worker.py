"""One worker process: runs the selected tests of one property on one build configuration."""
import importlib
import json
import os
import sys
import time
import traceback

from . import core
from .core import Violation, Stats, jdump


def load_prop(prop):
    return importlib.import_module("vf.props." + prop)


def make_env(mod, prop, cfg, libpath=None):
    from .lib import Lib
    lib = Lib(cfg, path=libpath if libpath and os.path.exists(libpath) else None) if getattr(mod, "NEEDS_LIB", True) else None
    env = core.Env(lib, cfg, prop, core.known_open_for(prop))
    return env


def main():
    spec = json.load(open(sys.argv[1]))
    prop = spec["prop"]
    mod = load_prop(prop)
    tests = {t.name: t for t in getattr(mod, "TESTS", [])}
    out = spec["out"]
    journal = open(spec["journal"], "w") if spec.get("journal") else None
    stats = Stats()
    result = {"ok": True, "failure": None, "error": None}
    t0 = time.time()
    try:
        env = make_env(mod, prop, spec["cfg"], spec.get("libpath"))
        env.tier = spec.get("tier", "quick")
        env.worker = spec.get("worker", 0)
        env.nworkers = spec.get("nworkers", 1)
        if spec.get("replay") is not None:
            t = tests[spec["replay"]["test"]]
            if t.setup:
                t.setup(env)
            try:
                t.run(env, spec["replay"]["case"])
                result["replay"] = "pass"
            except Violation as v:
                result["replay"] = "fail"
                result["failure"] = {"test": t.name, "case": spec["replay"]["case"], "message": v.msg,
                                     "signature": v.signature, "details": v.details}
        else:
            for tn, n in spec["tests"]:
                t = tests[tn]
                if t.setup:
                    t.setup(env)
                fail = run_test(env, t, n, spec, stats, journal)
                if fail is not None:
                    result["failure"] = fail
                    break
        stats.excluded = env.excluded
    except Exception as e:  # harness problem, never a violation
        result["ok"] = False
        result["error"] = "%s: %s\n%s" % (type(e).__name__, e, traceback.format_exc()[-3000:])
    result["stats"] = stats.to_json()
    result["wall_s"] = time.time() - t0
    result["config"] = getattr(getattr(locals().get("env"), "lib", None), "config", None)
    with open(out + ".tmp", "w") as f:
        f.write(jdump(result))
    os.rename(out + ".tmp", out)


def run_test(env, t, n, spec, stats, journal):
    """Returns a failure dict or None."""
    last_fail = [None]
    count = [0]
    sample_every = max(1, n // 3)

    def execute(case):
        if journal is not None:
            journal.seek(0)
            journal.truncate()
            journal.write(jdump({"test": t.name, "case": case}))
            journal.flush()
        try:
            r = t.run(env, case)
        except Violation as v:
            last_fail[0] = {"test": t.name, "case": case, "message": v.msg, "signature": v.signature, "details": v.details}
            raise
        nontrivial, classes = r if r is not None else (True, [])
        keep = (count[0] % sample_every == 0) and len([s for s in stats.samples if s["test"] == t.name]) < 3
        stats.record(t.name, core.shorten(case) if keep else case, nontrivial, classes, keep)
        count[0] += 1

    if t.kind == "enum":
        for case in t.strategy(env.tier, spec["worker"], spec["nworkers"]):
            try:
                execute(case)
            except Violation:
                return last_fail[0]
        return None

    from hypothesis import given, settings, seed, HealthCheck, Phase
    import hypothesis.internal.conjecture.engine as _eng
    # bound the time spent shrinking (a shrink budget, not an oracle): the unshrunk case is already a valid replay
    _eng.MAX_SHRINKING_SECONDS = 25 if env.tier == "quick" else 120
    sd = core.derive_seed(spec["seed"], spec["prop"], t.name, spec["worker"], spec["cfg"])

    @seed(sd)
    @settings(max_examples=n, database=None, deadline=None, derandomize=False, report_multiple_bugs=False,
              suppress_health_check=list(HealthCheck), phases=[Phase.generate, Phase.shrink],
              print_blob=False)
    @given(t.strategy())
    def prop_fn(case):
        execute(case)

    try:
        prop_fn()
    except Violation:
        return last_fail[0]
    except BaseException as e:
        # hypothesis wraps some failures (e.g. Flaky); a recorded Violation wins
        if last_fail[0] is not None and type(e).__name__ in ("Flaky", "FlakyFailure", "ExceptionGroup", "BaseExceptionGroup"):
            f = dict(last_fail[0])
            f["flaky_note"] = type(e).__name__
            return f
        raise
    return None


if __name__ == "__main__":
    main()
