"""Driver core: test descriptors, worker protocol, evidence, known findings, replay."""
import hashlib
import json
import os
import sys
import time

VERIF = os.path.dirname(os.path.dirname(os.path.abspath(__file__)))


class Violation(Exception):
    """The property does not hold for this case (the oracle and the library disagree)."""

    def __init__(self, msg, signature=None, **details):
        Exception.__init__(self, msg)
        self.msg = msg
        self.signature = signature
        self.details = details


class Inconclusive(Exception):
    """Infrastructure problem: never a violation."""


def jdefault(o):
    if isinstance(o, (bytes, bytearray)):
        return bytes(o).hex()
    if isinstance(o, (set, frozenset)):
        return sorted(o)
    if isinstance(o, tuple):
        return list(o)
    return repr(o)


def jdump(o, **kw):
    return json.dumps(o, default=jdefault, sort_keys=True, **kw)


def digest64(case):
    return hashlib.sha256(jdump(case).encode()).hexdigest()[:16]


class Test:
    """One generated check.

    name      unique within the property
    strategy  zero-argument callable returning a Hypothesis strategy of JSON-able cases (kind 'pbt'),
              or callable(tier, shard, nshards) yielding cases (kind 'enum')
    run       callable(env, case) -> (nontrivial: bool, classes: list[str]); raises Violation
    quick / thorough   number of cases over all workers (ignored for enum)
    cfgs      build configurations (names in vf.build.CONFIGS) per tier: dict tier -> list
    """

    def __init__(self, name, strategy, run, quick=1000, thorough=20000, cfgs=None, kind="pbt", must_cover=(),
                 max_workers=16, setup=None):
        self.name = name
        self.strategy = strategy
        self.run = run
        self.n = {"quick": quick, "thorough": thorough}
        self.cfgs = cfgs or {"quick": ["prod", "vsan"], "thorough": ["prod", "vsan"]}
        self.kind = kind
        self.must_cover = tuple(must_cover)
        self.max_workers = max_workers
        self.setup = setup


class Env:
    """What a running case can use: the loaded library, the known-findings filter, counters."""

    def __init__(self, lib, cfgname, prop, known_open=()):
        self.lib = lib
        self.cfg = cfgname
        self.prop = prop
        self.known_open = {k["signature"]: k for k in known_open}
        self.excluded = {}
        self.cache = {}

    def known(self, signature):
        """True if this failing input class is an OPEN known finding: count it and let the caller skip."""
        if signature in self.known_open:
            self.excluded[signature] = self.excluded.get(signature, 0) + 1
            return True
        return False

    def fail(self, msg, signature=None, **details):
        if signature is not None and self.known(signature):
            return
        raise Violation(msg, signature, **details)

    def require(self, cond, msg, signature=None, **details):
        if not cond:
            self.fail(msg, signature, **details)


def load_known():
    p = os.path.join(VERIF, "known_findings.json")
    if not os.path.exists(p):
        return []
    with open(p) as f:
        return json.load(f).get("findings", [])


def known_open_for(prop):
    return [k for k in load_known() if k.get("property") == prop and k.get("status") == "open"]


class Stats:
    def __init__(self):
        self.evaluations = 0
        self.nontrivial = set()
        self.classes = {}
        self.samples = []
        self.per_test = {}
        self.excluded = {}

    def record(self, test, case, nontrivial, classes, keep_sample):
        self.evaluations += 1
        pt = self.per_test.setdefault(test, {"evaluations": 0, "nontrivial": 0})
        pt["evaluations"] += 1
        if nontrivial:
            self.nontrivial.add(digest64(case))
            pt["nontrivial"] += 1
        for c in classes:
            k = test + ":" + c
            self.classes[k] = self.classes.get(k, 0) + 1
        if keep_sample:
            self.samples.append({"test": test, "case": case, "nontrivial": bool(nontrivial), "classes": list(classes)})

    def to_json(self):
        return {"evaluations": self.evaluations, "nontrivial": sorted(self.nontrivial), "classes": self.classes,
                "samples": self.samples, "per_test": self.per_test, "excluded": self.excluded}


def derive_seed(*parts):
    h = hashlib.sha256("|".join(str(p) for p in parts).encode()).digest()
    return int.from_bytes(h[:8], "big") or 1


def shorten(o, limit=400):
    """Shorten long hex strings / lists in a case for the evidence samples."""
    if isinstance(o, str):
        return o if len(o) <= limit else o[:limit // 2] + "...(%d chars)..." % len(o) + o[-40:]
    if isinstance(o, (bytes, bytearray)):
        return shorten(bytes(o).hex(), limit)
    if isinstance(o, dict):
        return {k: shorten(v, limit) for k, v in o.items()}
    if isinstance(o, (list, tuple)):
        if len(o) > 24:
            return [shorten(x, limit) for x in o[:12]] + ["...(%d items)..." % len(o)] + [shorten(x, limit) for x in o[-4:]]
        return [shorten(x, limit) for x in o]
    return o
