"""C18 — ECDH and ElligatorSwift exchanges agree with the group law and with each other."""
import ctypes
from ctypes import c_void_p, c_int

from hypothesis import strategies as st

from pyref import ec, ecdh as RH, ellswift as E
from vf import gens, kgens
from vf.core import Test
from vf.lib import buf, ECDH_HASHFN, ELLSWIFT_HASHFN

RULE = ("cases: (a) secp256k1_ecdh with secrets from the 256-bit edge set (0, 1, n-1, n, >= n, limb patterns, GLV bounds), peers k*G / points chosen by x "
        "(tiny x, x near p) / lambda*P / -P, hash = NULL | exported default | exported sha256 | ctypes callback | failing callback, both party roles when the "
        "peer's secret is known; (b) ellswift_decode of 64-byte strings: u, t from the edge set incl. 0, p, p+1, >= p, 2^256-1, the u^3+t^2+7=0 family (t "
        "solved from u, both roots, +p aliases), doubly exceptional inputs, and encodings made by the reference inverse map for a chosen x and branch; "
        "(c) ellswift_encode / ellswift_create round trips for points of both parities and edge randomness; (d) ellswift_xdh for both parties with "
        "encodings made by create, by the reference encoder or arbitrary strings, hashers bip324 | prefix | callback | failing callback; (e) batches of 8..32 "
        "secrets (uniform, edge, and scalars built so that the two 129-bit halves of the constant-time multiplier's recoded scalar carry all-ones / all-zeros / "
        "single-bit 5-bit groups) against one peer: secret*Peer via ecdh / xdh must equal ec_pubkey_tweak_mul, one product per batch anchored to the model. Oracle: "
        "pyref.ecdh / pyref.ellswift (validated against the BIP-324 vectors). non-trivial = edge or invalid secret, special-case or >= p (u,t), "
        "non-default hasher, peer not a plain multiple of G")
ASSUMPTIONS = ["pyref.ellswift implements f(u,t) of include/secp256k1_ellswift.h and BIP-324 (validated against BIP-324 decode / inverse / ECDH vectors)",
               "pyref.ecdh: default hash = SHA256((2 | y parity) || x) as documented ('SHA256 applied to the compressed public key')",
               "hash callbacks return only 0 or 1 (other values are documented as undefined behaviour)"]

N, P = ec.N, ec.P
M256 = gens.M256

EDGE_SECRETS = set(gens.NAMED) | set(gens.LIMB)


def b32(v):
    return int(v).to_bytes(32, "big")


def is_edge_secret(sk):
    return sk in EDGE_SECRETS or sk >= N - (1 << 32) or sk < (1 << 32) or (sk & (sk - 1)) == 0 or ((sk + 1) & sk) == 0


def fnptr(env, name):
    key = "fnptr:" + name
    if key not in env.cache:
        env.cache[key] = c_void_p(c_void_p.in_dll(env.lib.dll, name).value)
    return env.cache[key]


def quiet(env, what):
    lib = env.lib
    env.require(lib.illegal() == 0 and lib.errors() == 0, "callback fired during %s: %s" % (what, lib.cbmsg()))


secret_st = st.one_of(gens.seckey_any, gens.u256_edge, gens.seckey_valid, st.sampled_from([0, 1, 2, N - 1, N, N + 1, M256]))


# ------------------------------------------------------------------ (a) ECDH
@st.composite
def ecdh_case(draw):
    return {"sk": draw(secret_st), "peer": draw(kgens.point_spec), "hash": draw(st.sampled_from(["null", "null", "default", "sha256", "py", "py", "py_fail"]))}


def py_ecdh_model(x32, y32):
    return y32 + x32


def call_ecdh(env, pk, skb, hname):
    """-> (ret, output bytes, callback record)"""
    d, ctx = env.lib.dll, env.lib.ctx
    rec = []
    out = buf(64, b"\xAA" * 64)
    if hname in ("py", "py_fail"):
        databuf = buf(8, b"passthru")

        def cb(o, x32, y32, data):
            x = ctypes.string_at(x32, 32)
            y = ctypes.string_at(y32, 32)
            rec.append((x, y, data))
            if hname == "py_fail":
                return 0
            ctypes.memmove(o, y + x, 64)
            return 1
        fp = ECDH_HASHFN(cb)
        r = d.secp256k1_ecdh(ctx, out, pk, skb, fp, databuf)
        return r, out.raw[:64], rec, ctypes.addressof(databuf)
    fp = None if hname == "null" else fnptr(env, "secp256k1_ecdh_hash_function_" + hname)
    r = d.secp256k1_ecdh(ctx, out, pk, skb, fp, None)
    return r, out.raw[:32], rec, None


def run_ecdh(env, case):
    lib = env.lib
    lib.reset()
    sk, hname = case["sk"], case["hash"]
    peer = kgens.point_of(case["peer"])
    pk = lib.pubkey_from_point(peer)
    valid = 1 <= sk < N
    classes = ["hash:" + hname, "secret:" + ("valid" if valid else "zero" if sk == 0 else "n" if sk == N else "overflow")] + kgens.classes_of_spec(case["peer"])
    r, out, rec, daddr = call_ecdh(env, pk, b32(sk), hname)
    quiet(env, "ecdh")
    want = 1 if (valid and hname != "py_fail") else 0
    env.require(r == want, "secp256k1_ecdh returned %d, documented result %d (secret %s, hash %s)" % (r, want, "valid" if valid else "invalid", hname),
                sk=hex(sk))
    if valid:
        hf = py_ecdh_model if hname in ("py", "py_fail") else None
        model = RH.ecdh(sk, peer, hf)
        if hname in ("py", "py_fail"):
            env.require(len(rec) == 1, "hash callback invoked %d times for a valid secret" % len(rec))
            spt = RH.shared_point(sk, peer)
            env.require(rec[0][0] == ec.i2b(spt[0]) and rec[0][1] == ec.i2b(spt[1]), "hash callback received coordinates that are not secret*Peer",
                        x=rec[0][0].hex(), y=rec[0][1].hex())
            env.require(rec[0][2] == daddr, "data pointer not passed through to the hash callback")
        if want:
            env.require(out == model, "ECDH output differs from hash(secret*Peer)", lib=out.hex(), model=model.hex(), sk=hex(sk))
            # the other party: (peer secret) * (sk*G)
            k = kgens.scalar_of(case["peer"])
            if k is not None:
                r2, mine = lib.pubkey_create(b32(sk))
                env.require(r2 == 1, "pubkey_create refused a valid key")
                r3, out2, _, _ = call_ecdh(env, mine, b32(k), hname)
                env.require(r3 == 1 and out2 == out, "the two parties of the ECDH exchange derive different secrets", a=out.hex(), b=out2.hex())
                classes.append("both_parties")
            classes.append("ok")
    quiet(env, "ecdh")
    nt = (not valid) or is_edge_secret(sk) or hname != "null" or case["peer"][0] != "k"
    if valid and is_edge_secret(sk):
        classes.append("secret:edge")
    return nt, classes


# ------------------------------------------------------------------ (b) ElligatorSwift strings
FE_NAMED = [0, 1, 2, 3, P - 3, P - 2, P - 1, P, P + 1, P + 2, M256, M256 - 1, M256 - P, M256 - P + 1, (1 << 32) + 976, (1 << 32) + 977, (1 << 32) + 978,
            ec.BETA, P - ec.BETA, 2 * ec.BETA % P, (P - 2 * ec.BETA) % P, (P - 2 * ec.BETA * ec.BETA) % P, (P - 1) // 2, (P + 1) // 2, 1 << 255]
fe_edge = st.one_of(st.sampled_from(FE_NAMED), gens.u256_edge, st.integers(0, M256), st.integers(P, M256), st.integers(0, 1 << 16),
                    st.integers(0, 1 << 16).map(lambda d: P - 1 - d), st.integers(0, (1 << 32) + 976).map(lambda d: P + d))


def _alias(v, want):
    """v or v + p when that still fits in 32 bytes"""
    return v + P if (want and v + P <= M256) else v


def exceptional_pair(u0, root, alias_u, alias_t):
    """smallest u >= u0 (mod p, u != 0) with -(u^3+7) square, t = one of its roots: u^3 + t^2 + 7 = 0"""
    u = u0 % P
    while True:
        if u != 0:
            t = ec.fsqrt(-E.g(u) % P)
            if t is not None:
                break
        u = (u + 1) % P
    if root:
        t = P - t
    return _alias(u, alias_u), _alias(t, alias_t)


def inverse_pair(spec, u0, c0):
    """an encoding (u, t) of the point's x through the reference inverse map, starting the search at (u0, c0)"""
    pt = kgens.point_of(spec)
    u = u0 % P or 1
    while True:
        for dc in range(8):
            e = E.encode_with(pt, u, (c0 + dc) & 7)
            if e is not None:
                return ec.b2i(e[:32]), ec.b2i(e[32:]), (c0 + dc) & 7
        u = (u + 1) % P or 1


def _double_exceptional():
    out = [(P - 2, 0), ((P - 2 * ec.BETA) % P, 0), ((P - 2 * ec.BETA * ec.BETA) % P, 0), (P - 2, P), (P - 2, 1), (P - 2, P - 1), (P - 2, 2)]
    r = ec.fsqrt(P - 8)              # u = 0 -> 1, g = 8: t^2 = -8
    if r is not None:
        out += [(0, r), (0, P - r), (P, r), (P, _alias(P - r, True)), (1, r)]
    return out


DOUBLE_EXC = _double_exceptional()


@st.composite
def ut_pair(draw):
    """-> {"u": int, "t": int, "how": label}, all 32-byte values"""
    how = draw(st.sampled_from(["edge", "edge", "exceptional", "exceptional", "inverse", "inverse", "double_exc", "zero_u", "zero_t"]))
    if how == "edge":
        return {"u": draw(fe_edge), "t": draw(fe_edge), "how": how}
    if how == "zero_u":
        return {"u": draw(st.sampled_from([0, P])), "t": draw(fe_edge), "how": how}
    if how == "zero_t":
        return {"u": draw(fe_edge), "t": draw(st.sampled_from([0, P])), "how": how}
    if how == "exceptional":
        u, t = exceptional_pair(draw(fe_edge), draw(st.booleans()), draw(st.booleans()), draw(st.booleans()))
        return {"u": u, "t": t, "how": how}
    if how == "double_exc":
        u, t = draw(st.sampled_from(DOUBLE_EXC))
        return {"u": u, "t": t, "how": how}
    u, t, c = inverse_pair(draw(kgens.point_spec), draw(fe_edge), draw(st.integers(0, 7)))
    return {"u": _alias(u, draw(st.booleans())), "t": _alias(t, draw(st.booleans())), "how": how}


def ell_bytes(p):
    return b32(p["u"]) + b32(p["t"])


def ut_classes(ell):
    pt, br, remaps = E.decode_ex(ell)
    cl = ["branch:x%d" % br, "yodd:%d" % (pt[1] & 1)]
    cl += ["remap:" + r for r in remaps] or ["remap:none"]
    if len(remaps) > 1:
        cl.append("remap:multiple")
    if ec.b2i(ell[:32]) >= P:
        cl.append("u>=p")
    if ec.b2i(ell[32:]) >= P:
        cl.append("t>=p")
    return pt, cl, bool(remaps) or ec.b2i(ell[:32]) >= P or ec.b2i(ell[32:]) >= P


def lib_decode(env, ell):
    pk = buf(64, b"\xAA" * 64)
    inp = buf(64, ell)
    r = env.lib.dll.secp256k1_ellswift_decode(env.lib.ctx, pk, inp)
    env.require(r == 1, "ellswift_decode returned %d" % r, ell=ell.hex())
    s = env.lib.pubkey_serialize(pk, compressed=False)
    env.require(s is not None, "ellswift_decode produced an invalid public key object", ell=ell.hex())
    return (ec.b2i(s[1:33]), ec.b2i(s[33:65]))


def run_decode(env, case):
    env.lib.reset()
    ell = ell_bytes(case)
    pt, classes, special = ut_classes(ell)
    got = lib_decode(env, ell)
    quiet(env, "ellswift_decode")
    env.require(ec.on_curve(got), "ellswift_decode returned a point that is not on the curve", ell=ell.hex())
    env.require(got[0] == pt[0], "ellswift_decode: x differs from the ElligatorSwift map f(u,t)", ell=ell.hex(), lib=hex(got[0]), model=hex(pt[0]))
    env.require(got == pt, "ellswift_decode: y parity differs from the parity of t", ell=ell.hex())
    return special or case["how"] == "inverse", classes + ["how:" + case["how"]]


# ------------------------------------------------------------------ (c) encode / create round trips
rnd_st = st.one_of(gens.bytes32_edge, gens.hexbytes(32), st.sampled_from(["00" * 32, "ff" * 32, "00" * 31 + "01"]))


@st.composite
def roundtrip_case(draw):
    return {"pt": draw(kgens.point_spec), "rnds": [draw(rnd_st) for _ in range(draw(st.integers(1, 4)))],
            "sk": draw(secret_st), "aux": draw(st.one_of(st.none(), rnd_st))}


def run_roundtrip(env, case):
    lib = env.lib
    d, ctx = lib.dll, lib.ctx
    lib.reset()
    pt = kgens.point_of(case["pt"])
    pk = lib.pubkey_from_point(pt)
    classes = ["pt_yodd:%d" % (pt[1] & 1)] + kgens.classes_of_spec(case["pt"])
    for rnd in case["rnds"]:
        ell = buf(64)
        r = d.secp256k1_ellswift_encode(ctx, ell, pk, bytes.fromhex(rnd))
        env.require(r == 1, "ellswift_encode returned %d" % r)
        e = ell.raw[:64]
        got = lib_decode(env, e)
        env.require(got == pt, "decode(encode(P, rnd)) != P", ell=e.hex(), rnd=rnd, P=ec.ser33(pt).hex(), got=ec.ser33(got).hex())
        mpt, br, remaps = E.decode_ex(e)
        env.require(mpt == pt, "the ElligatorSwift map of the produced encoding is not P", ell=e.hex(), rnd=rnd)
        classes.append("enc_branch:x%d" % br)
    sk = case["sk"]
    valid = 1 <= sk < N
    aux = None if case["aux"] is None else bytes.fromhex(case["aux"])
    ell = buf(64, b"\xAA" * 64)
    r = d.secp256k1_ellswift_create(ctx, ell, b32(sk), aux)
    env.require(r == (1 if valid else 0), "ellswift_create returned %d for a%s secret key" % (r, " valid" if valid else "n invalid"), sk=hex(sk))
    classes.append("create:" + ("ok" if valid else "refused") + (":aux" if aux is not None else ":noaux"))
    if valid:
        e = ell.raw[:64]
        want = ec.mulg(sk)
        got = lib_decode(env, e)
        env.require(got == want, "decode(create(sk, aux)) != sk*G", ell=e.hex(), sk=hex(sk))
        env.require(E.decode(e) == want, "the ElligatorSwift map of the created encoding is not sk*G", ell=e.hex(), sk=hex(sk))
        classes.append("create_yodd:%d" % (want[1] & 1))
    quiet(env, "ellswift encode/create")
    return True, classes


# ------------------------------------------------------------------ (d) x-only ECDH on encodings
@st.composite
def side(draw):
    how = draw(st.sampled_from(["create", "create", "ref", "raw"]))
    s = {"sk": draw(secret_st), "how": how}
    if how == "create":
        s["aux"] = draw(st.one_of(st.none(), rnd_st))
    elif how == "ref":
        s["u0"] = draw(fe_edge)
        s["c0"] = draw(st.integers(0, 7))
        s["alias"] = draw(st.integers(0, 3))
    else:
        s["ut"] = draw(ut_pair())
    return s


@st.composite
def xdh_case(draw):
    return {"a": draw(side()), "b": draw(side()), "hash": draw(st.sampled_from(["bip324", "bip324", "prefix", "prefix", "py", "py_fail"])),
            "prefix": draw(st.one_of(gens.hexbytes(64), st.sampled_from(["00" * 64, "ff" * 64]))),
            "party_b": draw(st.sampled_from([1, 1, 1, 2, -1, 256, 0x7FFFFFFF, -(1 << 31)]))}


def make_ell(env, s):
    """-> (64 bytes, tied: the encoding belongs to s['sk'])"""
    sk = s["sk"]
    valid = 1 <= sk < N
    if s["how"] == "create" and valid:
        ell = buf(64)
        aux = None if s.get("aux") is None else bytes.fromhex(s["aux"])
        r = env.lib.dll.secp256k1_ellswift_create(env.lib.ctx, ell, b32(sk), aux)
        env.require(r == 1, "ellswift_create refused a valid key")
        return ell.raw[:64], True
    if s["how"] == "ref" and valid:
        u, t, _ = inverse_pair(["k", sk], s["u0"], s["c0"])
        return b32(_alias(u, s["alias"] & 1)) + b32(_alias(t, s["alias"] & 2)), True
    if "ut" in s:
        return ell_bytes(s["ut"]), False
    # invalid secret with a constructor recipe: some fixed string derived from the recipe
    return ec.sha256(b"a" + b32(sk)) + ec.sha256(b"b" + b32(sk)), False


def py_xdh_model(x32, a, b):
    return x32 + a[:16] + b[48:]


def call_xdh(env, ell_a, ell_b, skb, party, hname, prefix):
    d, ctx = env.lib.dll, env.lib.ctx
    out = buf(64, b"\xAA" * 64)
    a, b = buf(64, ell_a), buf(64, ell_b)
    rec = []
    if hname in ("py", "py_fail"):
        databuf = buf(8, b"passthru")

        def cb(o, x32, pa, pb, data):
            x = ctypes.string_at(x32, 32)
            ra = ctypes.string_at(pa, 64)
            rb = ctypes.string_at(pb, 64)
            rec.append((x, ra, rb, data))
            if hname == "py_fail":
                return 0
            ctypes.memmove(o, x + ra[:16] + rb[48:], 64)
            return 1
        fp = ELLSWIFT_HASHFN(cb)
        r = d.secp256k1_ellswift_xdh(ctx, out, a, b, skb, c_int(party), fp, databuf)
        return r, out.raw[:64], rec, ctypes.addressof(databuf)
    fp = fnptr(env, "secp256k1_ellswift_xdh_hash_function_" + hname)
    data = buf(64, prefix) if hname == "prefix" else None
    r = d.secp256k1_ellswift_xdh(ctx, out, a, b, skb, c_int(party), fp, data)
    return r, out.raw[:32], rec, None


def run_xdh(env, case):
    lib = env.lib
    lib.reset()
    hname = case["hash"]
    prefix = bytes.fromhex(case["prefix"])
    ell_a, tied_a = make_ell(env, case["a"])
    ell_b, tied_b = make_ell(env, case["b"])
    classes = ["hash:" + hname, "a:" + case["a"]["how"], "b:" + case["b"]["how"]]
    hf = {"bip324": E.hash_bip324, "prefix": E.hash_prefix(prefix), "py": py_xdh_model, "py_fail": py_xdh_model}[hname]
    outs = []
    nt = hname != "bip324"
    for party, s in ((0, case["a"]), (1, case["b"])):
        sk = s["sk"]
        valid = 1 <= sk < N
        theirs = ell_a if party else ell_b
        _, tcl, special = ut_classes(theirs)
        classes += ["theirs:" + c for c in tcl]
        r, out, rec, daddr = call_xdh(env, ell_a, ell_b, b32(sk), party if party == 0 else case.get("party_b", 1), hname, prefix)
        quiet(env, "ellswift_xdh")
        want = 1 if (valid and hname != "py_fail") else 0
        env.require(r == want, "ellswift_xdh (party %s) returned %d, documented result %d (secret %s, hash %s)" % ("AB"[party], r, want, "valid" if valid else "invalid", hname),
                    sk=hex(sk))
        classes.append("secret:" + ("valid" if valid else "invalid"))
        nt = nt or special or not valid or is_edge_secret(sk)
        if valid and is_edge_secret(sk):
            classes.append("secret:edge")
        if not valid:
            outs.append(None)
            continue
        x32 = E.shared_x(sk, theirs)
        if rec:
            env.require(len(rec) == 1, "hash callback invoked %d times" % len(rec))
            env.require(rec[0][0] == x32, "hash callback received an x that is not the x coordinate of secret*decode(theirs)", lib=rec[0][0].hex(), model=x32.hex(),
                        theirs=theirs.hex(), sk=hex(sk))
            env.require(rec[0][1] == ell_a and rec[0][2] == ell_b, "hash callback received different encodings than the caller passed")
            env.require(rec[0][3] == daddr, "data pointer not passed through to the hash callback")
        if want:
            model = hf(x32, ell_a, ell_b)
            env.require(out == model, "ellswift_xdh (party %s) output differs from hasher(x(secret*XSwiftEC(theirs)))" % "AB"[party], lib=out.hex(), model=model.hex(),
                        theirs=theirs.hex(), sk=hex(sk))
            outs.append(out)
        else:
            outs.append(None)
    if tied_a and tied_b and outs[0] is not None and outs[1] is not None:
        env.require(outs[0] == outs[1], "the two parties of the ElligatorSwift exchange derive different secrets", a=outs[0].hex(), b=outs[1].hex())
        classes.append("both_parties_agree")
    return nt, classes


# ------------------------------------------------------------------ (e) many multiplications per case: the constant-time multiplier
# secret*Peer through secp256k1_ecdh / secp256k1_ellswift_xdh (constant-time, signed-digit + endomorphism) must equal secret*Peer through
# ec_pubkey_tweak_mul (variable-time, different algorithm); one product per batch is also anchored to the reference model.  Secrets: edge set, uniform,
# and scalars whose two 129-bit halves after the multiplier's documented preprocessing q -> (q+K)/2 -> split -> +2^128 carry chosen 5-bit group patterns.
LADDER_K = (2 ** 130 - 2 ** 129 - 1) * (1 + ec.LAMBDA) % N      # K of the comment in ecmult_const_impl.h for 130 processed bits


def ladder_scalar(v1, v2):
    s = ((v1 - (1 << 128)) + ec.LAMBDA * (v2 - (1 << 128))) % N
    return (2 * s - LADDER_K) % N


@st.composite
def _patterned_half(draw):
    """a 129-bit value whose 5-bit groups are mostly all-ones / all-zeros / single-bit, rest random"""
    v = draw(st.integers(0, (1 << 128) - 1)) | (draw(st.integers(0, 1)) << 128)
    for _ in range(draw(st.integers(1, 8))):
        g = draw(st.integers(0, 25))
        pat = draw(st.sampled_from([0, 31, 1, 16, 15, 30]))
        v = (v & ~(31 << (5 * g))) | (pat << (5 * g))
    return v & ((1 << 129) - 1)


ladder_secret = st.one_of(st.builds(ladder_scalar, _patterned_half(), _patterned_half()).map(lambda q: q or 1), st.integers(1, N - 1), st.integers(1, N - 1),
                          gens.seckey_valid)


@st.composite
def ladder_case(draw):
    return {"peer": draw(kgens.point_spec), "via": draw(st.sampled_from(["ecdh", "xdh"])), "u0": draw(fe_edge), "c0": draw(st.integers(0, 7)),
            "secrets": [draw(ladder_secret) for _ in range(draw(st.integers(8, 32)))], "anchor": draw(st.integers(0, 31))}


def run_ladder(env, case):
    lib = env.lib
    d, ctx = lib.dll, lib.ctx
    lib.reset()
    peer = kgens.point_of(case["peer"])
    via = case["via"]
    classes = ["via:" + via] + kgens.classes_of_spec(case["peer"])
    if via == "xdh":
        u, t, _ = inverse_pair(case["peer"], case["u0"], case["c0"])
        theirs = b32(u) + b32(t)
        env.require(E.decode(theirs)[0] == peer[0], "reference inconsistency: inverse map does not round-trip")
        ours = ec.sha256(b"ours") + ec.sha256(b"ours2")
    pk = lib.pubkey_from_point(peer)
    anchor = case["anchor"] % len(case["secrets"])
    for i, sk in enumerate(case["secrets"]):
        skb = b32(sk)
        if via == "ecdh":
            r, out, rec, _ = call_ecdh(env, pk, skb, "py")
            env.require(r == 1 and len(rec) == 1, "secp256k1_ecdh failed for a valid secret", sk=hex(sk))
            gx, gy = rec[0][0], rec[0][1]
        else:
            r, out, rec, _ = call_xdh(env, ours, theirs, skb, 0, "py", b"")
            env.require(r == 1 and len(rec) == 1, "ellswift_xdh failed for a valid secret", sk=hex(sk))
            gx, gy = rec[0][0], None
        pk2 = buf(64, pk.raw)
        env.require(d.secp256k1_ec_pubkey_tweak_mul(ctx, pk2, skb) == 1, "ec_pubkey_tweak_mul failed for a valid tweak")
        s65 = lib.pubkey_serialize(pk2, compressed=False)
        env.require(gx == s65[1:33] and (gy is None or gy == s65[33:65]),
                    "constant-time multiplication (%s) disagrees with ec_pubkey_tweak_mul for the same secret and point" % via,
                    sk=hex(sk), peer=ec.ser33(peer).hex(), ct_x=gx.hex(), var_x=s65[1:33].hex())
        if i == anchor:
            m = ec.mul(sk, peer)
            env.require(s65 == ec.ser65(m), "secret*Peer differs from the group law (both library multipliers agree with each other)", sk=hex(sk))
    quiet(env, "ladder")
    classes.append("batch:%s" % ("8-15" if len(case["secrets"]) < 16 else "16-32"))
    return True, classes


TESTS = [
    Test("ecdh", ecdh_case, run_ecdh, quick=3000, thorough=120000, max_workers=6,
         must_cover=["hash:null", "hash:default", "hash:sha256", "hash:py", "hash:py_fail", "secret:zero", "secret:n", "secret:overflow", "secret:edge",
                     "both_parties", "pt:tiny_x", "pt:lam", "pt:neg"]),
    Test("decode", ut_pair, run_decode, quick=6000, thorough=300000, max_workers=8,
         must_cover=["branch:x1", "branch:x2", "branch:x3", "remap:u0", "remap:t0", "remap:dbl", "remap:multiple", "u>=p", "t>=p", "yodd:0", "yodd:1",
                     "how:exceptional", "how:inverse", "how:double_exc"]),
    Test("roundtrip", roundtrip_case, run_roundtrip, quick=2000, thorough=80000, max_workers=4,
         must_cover=["pt_yodd:0", "pt_yodd:1", "enc_branch:x1", "enc_branch:x2", "enc_branch:x3", "create:ok:aux", "create:ok:noaux", "create:refused:aux",
                     "create_yodd:0", "create_yodd:1"]),
    Test("xdh", xdh_case, run_xdh, quick=2400, thorough=100000, max_workers=8,
         must_cover=["hash:bip324", "hash:prefix", "hash:py", "hash:py_fail", "both_parties_agree", "secret:invalid", "secret:edge", "theirs:remap:dbl",
                     "theirs:remap:u0", "theirs:remap:t0", "theirs:branch:x1", "theirs:branch:x2", "theirs:branch:x3", "theirs:u>=p", "theirs:t>=p"]),
    Test("ladder", ladder_case, run_ladder, quick=1500, thorough=60000, max_workers=8, must_cover=["via:ecdh", "via:xdh", "batch:16-32", "pt:tiny_x"]),
]
