"""C20 — results depend only on arguments, not on context history or threads; static context; allocations; no mutable globals.

Four tests (DESIGN.md §4 C20):
  history        E1 context-history machine: pure-data histories over a pool of contexts, probe battery after every step
  static_real /  every API function of the battery called with secp256k1_context_static itself (build variant with
  static_copy    USE_EXTERNAL_DEFAULT_CALLBACKS, harness-provided counting default callbacks) / with a byte-copy of it
  threads        E4: Hypothesis-generated case files (2..16 thread programs over one shared context) run by the plain
                 ThreadSanitizer binary csrc/tsan_harness.c
  symbols        deterministic scan of the symbol / section tables of a gcc -O2 -fPIC object of the CURRENT tree
"""
import ctypes
import hashlib
import os
import re
import shutil
import struct
import subprocess
import tempfile
from ctypes import c_void_p, c_size_t, c_uint, c_uint64, c_long

from hypothesis import strategies as st

from vf import build as B
from vf.core import Test
from vf.lib import buf

RULE = ("history: list of ops {create(flags), preallocated_create in caller memory, clone, preallocated_clone, randomize(seed32 incl. edge seeds), "
        "randomize(NULL), set own SHA-256 compression / reset, destroy} over a pool of <= 4 contexts; after EVERY op every live context runs the probe "
        "battery (194 calls of 113 API functions, inputs derived from the case's 64-bit seed) and must reproduce the record stream of a fresh context; "
        "non-trivial = at least one randomize and one clone happened before a probe. static_*: the battery with the static context (real one with "
        "external counting default callbacks / byte-copy with counting callbacks) against a full context, per call: same result, or illegal callback; "
        "same result REQUIRED for the frozen table of keyless functions not documented '(not secp256k1_context_static)'; non-trivial = always. "
        "threads: 2..16 thread programs (lists of (API family, seed index)) on one shared, history-prepared context under ThreadSanitizer, outputs "
        "compared with single-thread golden outputs; non-trivial = some family is executed by >= 2 threads. symbols: 3 objects x section/symbol rule.")
ASSUMPTIONS = [
    "csrc/shim_C20.inc calls every API function as documented (its expectations are re-checked on a fresh context in every case)",
    "ThreadSanitizer (clang) decides the accesses that the generated workloads execute in C code (the TSan build uses the portable C field/scalar code, no inline asm); it does not enumerate interleavings",
    "gcc -O2 -fPIC object of src/secp256k1.c + precomputed tables with all modules enabled is representative for the symbol scan; readelf is correct",
    "the harness-side SHA-256 compression function (csrc/shim.c, FIPS 180-4) is correct (the library self-tests it on installation)",
]

# --------------------------------------------------------------------------------------------------------------
# build variants registered at import time (worker processes import this module before they build / load the shim)
EXTCB = B.Cfg("extcb", extra=("-DUSE_EXTERNAL_DEFAULT_CALLBACKS", "-DVF_EXTERNAL_CALLBACKS"))
B.CONFIGS.setdefault("extcb", EXTCB)
TSAN = B.Cfg("tsan", cc="clang", opt="-O1", san="tsan", asm=False)

OUTCAP = 1 << 18
U64 = (1 << 64) - 1
N_ORDER = 0xFFFFFFFFFFFFFFFFFFFFFFFFFFFFFFFEBAAEDCE6AF48A03BBFD25E8CD0364141
P_FIELD = (1 << 256) - (1 << 32) - 977
FLAGS = [1, 257, 513, 769]          # CONTEXT_NONE, VERIFY, SIGN, VERIFY|SIGN (deprecated flags are documented to be equivalent to NONE)
NFAM = 10
FAMILIES = ["keys", "ecdsa", "schnorr", "ecdh", "s2c_adaptor", "musig", "pedersen_rangeproof", "surjection", "whitelist", "bppp"]


def _prep(lib):
    d = lib.dll
    if getattr(lib, "_c20", False):
        return d
    for fn in ("vf_probe", "vf_probe2", "vf_c20_total_illegal", "vf_c20_total_error", "vf_c20_static_mgmt"):
        getattr(d, fn).restype = c_long
    d.vf_c20_static_copy.restype = c_void_p
    d.vf_c20_context_size.restype = c_size_t
    lib._c20 = True
    lib._c20_out = buf(OUTCAP)
    return d


def parse_records(b):
    recs = []
    i = 0
    while i < len(b):
        nl = b[i]
        name = b[i + 1:i + 1 + nl].decode()
        i += 1 + nl
        exp = b[i]
        ret, ill, err, ol = struct.unpack_from("<iHHI", b, i + 1)
        i += 13
        recs.append((name, exp, ret, ill, err, b[i:i + ol]))
        i += ol
    return recs


def probe(env, ctx, seed):
    """-> (bytes of the record stream, number of calls of the harness compression function)"""
    lib = env.lib
    d = _prep(lib)
    c0 = d.vf_get_compress_calls()
    n = d.vf_probe(ctx, c_uint64(seed), lib._c20_out, c_size_t(OUTCAP))
    if n < 0:
        raise RuntimeError("probe buffer overflow / helper failure (%d)" % n)
    return lib._c20_out.raw[:n], d.vf_get_compress_calls() - c0


def check_documented(env, recs, what):
    """the battery on a full context must behave as the headers document (valid artifacts verify, controls fail, no callback)"""
    for k, (name, exp, ret, ill, err, out) in enumerate(recs):
        ok = ill == 0 and err == 0 and ((exp == 1 and ret != 0) or (exp == 0 and ret == 0) or exp == 2)
        env.require(ok, "%s: step %d %s returned %d (documented: %s), illegal=%d error=%d" % (
            what, k, name, ret, {1: "non-zero", 0: "0", 2: "any"}[exp], ill, err), step=k, function=name)


def first_diff(a, b):
    ra, rb = parse_records(a), parse_records(b)
    for k, (x, y) in enumerate(zip(ra, rb)):
        if x != y:
            return {"step": k, "function": x[0], "golden_ret": x[2], "ret": y[2], "illegal": y[3], "error": y[4],
                    "golden_out": x[5][:96].hex(), "out": y[5][:96].hex()}
    return {"step": min(len(ra), len(rb)), "function": "(length)", "golden_records": len(ra), "records": len(rb)}


# --------------------------------------------------------------------------------------------------------------
# (a) history machine
EDGE_SEEDS = [0, 1, 2, N_ORDER - 1, N_ORDER, N_ORDER + 1, P_FIELD, (1 << 256) - 1, 1 << 255, (N_ORDER - 1) // 2, (1 << 128) - 1]
seed32 = st.one_of(st.sampled_from(EDGE_SEEDS).map(lambda v: v.to_bytes(32, "big").hex()),
                   st.binary(min_size=32, max_size=32).map(bytes.hex),
                   st.sampled_from(["00", "ff", "80", "01", "a5"]).map(lambda c: c * 32))
_idx = st.integers(0, 3)
hist_op = st.one_of(
    st.tuples(st.just("create"), st.integers(0, 3)),
    st.tuples(st.just("pcreate"), st.integers(0, 3)),
    st.tuples(st.just("clone"), _idx),
    st.tuples(st.just("pclone"), _idx),
    st.tuples(st.just("clone"), _idx),
    st.tuples(st.just("rand"), _idx, seed32),
    st.tuples(st.just("rand"), _idx, seed32),
    st.tuples(st.just("rand"), _idx, seed32),
    st.tuples(st.just("randnull"), _idx),
    st.tuples(st.just("sha"), _idx, st.integers(0, 1)),
    st.tuples(st.just("sha"), _idx, st.just(1)),
    st.tuples(st.just("destroy"), _idx),
).map(list)
probe_seed = st.one_of(st.integers(0, 15), st.integers(0, U64))


@st.composite
def history_case(draw):
    first = draw(st.sampled_from([["create", 0], ["pcreate", 0], ["create", 1], ["pcreate", 2]]))
    ops = [first] + draw(st.lists(hist_op, min_size=1, max_size=12))
    if draw(st.integers(0, 5)):
        # make the class the property is about frequent: a context that was randomized AND went through a clone
        i = draw(st.integers(1, len(ops)))
        ops.insert(i, ["rand", draw(_idx), draw(seed32)])
        j = draw(st.integers(1, len(ops)))
        ops.insert(j, [draw(st.sampled_from(["clone", "pclone"])), draw(_idx)])
    return {"seed": draw(probe_seed), "ops": ops}


class _Ctx:
    __slots__ = ("ptr", "kind", "mem", "sha", "nrand", "cloned", "flags")

    def __init__(self, ptr, kind, mem, sha=False, nrand=0, cloned=False, flags=1):
        self.ptr, self.kind, self.mem, self.sha, self.nrand, self.cloned, self.flags = ptr, kind, mem, sha, nrand, cloned, flags


def run_history(env, case):
    lib = env.lib
    d = _prep(lib)
    seed = case["seed"]
    classes = set()
    lib.reset()
    # golden: a fresh context, never randomized, default compression function
    g = d.secp256k1_context_create(c_uint(1))
    d.vf_install_callbacks(c_void_p(g))
    try:
        golden, cc = probe(env, c_void_p(g), seed)
    finally:
        d.secp256k1_context_destroy(c_void_p(g))
    grecs = parse_records(golden)
    check_documented(env, grecs, "probe on a fresh context")
    env.require(cc == 0, "a fresh context called the harness compression function", calls=cc)
    ghash = hashlib.sha256(golden).digest()

    pool = []
    nontrivial = False
    nprobes = 0

    def alloc_delta(fn):
        a0 = d.vf_get_alloc_count()
        r = fn()
        return r, d.vf_get_alloc_count() - a0

    try:
        for k, op in enumerate(case["ops"]):
            name = op[0]
            if name in ("create", "pcreate"):
                if len(pool) >= 4:
                    classes.add("skipped:pool_full")
                    continue
                flags = FLAGS[op[1] % len(FLAGS)]
                if name == "create":
                    p, da = alloc_delta(lambda: d.secp256k1_context_create(c_uint(flags)))
                    env.require(p, "secp256k1_context_create returned NULL", step=k)
                    env.require(0 <= da <= 1, "secp256k1_context_create performed %d allocations (documented: at most one)" % da, step=k, allocations=da)
                    classes.add("create:allocs=%d" % da)
                    c = _Ctx(p, "malloc", None, flags=flags)
                else:
                    sz = d.secp256k1_context_preallocated_size(c_uint(flags))
                    env.require(sz > 0, "secp256k1_context_preallocated_size returned 0", step=k)
                    mem = buf(sz + 16, b"\xEE" * (sz + 16))
                    p, da = alloc_delta(lambda: d.secp256k1_context_preallocated_create(mem, c_uint(flags)))
                    env.require(p == ctypes.addressof(mem), "preallocated_create did not return the caller's memory", step=k)
                    env.require(da == 0, "secp256k1_context_preallocated_create allocated memory (%d mallocs)" % da, step=k, allocations=da)
                    env.require(mem.raw[sz:] == b"\xEE" * 16, "preallocated_create wrote past preallocated_size bytes", step=k)
                    c = _Ctx(p, "prealloc", mem, flags=flags)
                d.vf_install_callbacks(c_void_p(c.ptr))
                pool.append(c)
                classes.add("flags=%d" % flags)
            elif not pool:
                classes.add("skipped:no_context")
                continue
            else:
                c = pool[op[1] % len(pool)]
                if name in ("clone", "pclone"):
                    if len(pool) >= 4:
                        classes.add("skipped:pool_full")
                        continue
                    if name == "clone":
                        p, da = alloc_delta(lambda: d.secp256k1_context_clone(c_void_p(c.ptr)))
                        env.require(p, "secp256k1_context_clone returned NULL", step=k)
                        env.require(0 <= da <= 1, "secp256k1_context_clone performed %d allocations (documented: at most one)" % da, step=k, allocations=da)
                        classes.add("clone:allocs=%d" % da)
                        n = _Ctx(p, "malloc", None, c.sha, c.nrand, True, c.flags)
                    else:
                        sz, da0 = alloc_delta(lambda: d.secp256k1_context_preallocated_clone_size(c_void_p(c.ptr)))
                        env.require(sz > 0, "preallocated_clone_size returned 0 for a proper context", step=k)
                        mem = buf(sz + 16, b"\xEE" * (sz + 16))
                        p, da = alloc_delta(lambda: d.secp256k1_context_preallocated_clone(c_void_p(c.ptr), mem))
                        env.require(p == ctypes.addressof(mem), "preallocated_clone did not return the caller's memory", step=k)
                        env.require(da == 0 and da0 == 0, "secp256k1_context_preallocated_clone allocated memory", step=k, allocations=da + da0)
                        env.require(mem.raw[sz:] == b"\xEE" * 16, "preallocated_clone wrote past preallocated_clone_size bytes", step=k)
                        n = _Ctx(p, "prealloc", mem, c.sha, c.nrand, True, c.flags)
                    pool.append(n)
                    if c.nrand:
                        classes.add("clone_of_randomized")
                    if c.sha:
                        classes.add("clone_with_own_sha256")
                elif name == "rand":
                    r = d.secp256k1_context_randomize(c_void_p(c.ptr), bytes.fromhex(op[2]))
                    env.require(r == 1, "secp256k1_context_randomize returned %d" % r, step=k)
                    c.nrand += 1
                    if c.nrand >= 2:
                        classes.add("randomized>=2x")
                elif name == "randnull":
                    r = d.secp256k1_context_randomize(c_void_p(c.ptr), None)
                    env.require(r == 1, "secp256k1_context_randomize(NULL) returned %d" % r, step=k)
                    c.nrand += 1
                    classes.add("randomize_null")
                elif name == "sha":
                    d.vf_ctx_set_own_sha256(c_void_p(c.ptr), 1 if op[2] else 0)
                    c.sha = bool(op[2])
                elif name == "destroy":
                    pool.remove(c)
                    if c.kind == "malloc":
                        d.secp256k1_context_destroy(c_void_p(c.ptr))
                    else:
                        _, da = alloc_delta(lambda: d.secp256k1_context_preallocated_destroy(c_void_p(c.ptr)))
                        env.require(da == 0, "preallocated_destroy allocated memory", step=k)
                    c.ptr = None
                else:
                    raise RuntimeError("unknown op " + name)
            classes.add("op:" + name)
            env.require(lib.illegal() == 0 and lib.errors() == 0, "context management call fired a callback: " + lib.cbmsg(), step=k, op=op)
            # ---- probe every live context after every step
            for j, x in enumerate(pool):
                out, cc = probe(env, c_void_p(x.ptr), seed)
                nprobes += 1
                if hashlib.sha256(out).digest() != ghash:
                    diff = first_diff(golden, out)
                    env.fail("probe differs from the fresh-context result after step %d (%s): context #%d (%s, randomized %dx, cloned=%s, own_sha256=%s) function %s" % (
                        k, name, j, x.kind, x.nrand, x.cloned, x.sha, diff.get("function")), step=k, context=j, diff=diff)
                if x.sha:
                    env.require(cc > 0, "context #%d carries the harness compression function (set, then copied by clone) but the probe never called it" % j, step=k, context=j)
                    classes.add("probe:own_sha256")
                else:
                    env.require(cc == 0, "context #%d has the default compression function but the probe called the harness one %d times" % (j, cc), step=k, context=j)
                if x.nrand and x.cloned:
                    nontrivial = True
                    classes.add("probe:randomized+cloned")
                if x.nrand and x.cloned and x.sha:
                    classes.add("probe:randomized+cloned+own_sha256")
                if x.kind == "prealloc":
                    classes.add("probe:prealloc")
    finally:
        for x in pool:
            if x.ptr:
                if x.kind == "malloc":
                    d.secp256k1_context_destroy(c_void_p(x.ptr))
                else:
                    d.secp256k1_context_preallocated_destroy(c_void_p(x.ptr))
    classes.add("probes=%s" % ("0" if nprobes == 0 else "1-9" if nprobes < 10 else "10-29" if nprobes < 30 else "30+"))
    return nontrivial, sorted(classes)


# --------------------------------------------------------------------------------------------------------------
# static context
# Frozen table, built by reading the headers of the pinned tree (include/*.h): every battery function that takes a context.
# NOT_STATIC = documented "(not secp256k1_context_static)".  SECRET = takes a secret key / blinding factor / secret nonce.
# Everything else must give the same result with the static context (STRONG), except schnorrsig_aggverify (DESIGN §5: needs a
# full context although its header does not say so -> weak disjunction).
NOT_STATIC = {
    "secp256k1_ecdsa_sign", "secp256k1_ec_pubkey_create", "secp256k1_ecdsa_adaptor_encrypt", "secp256k1_ecdsa_adaptor_recover",
    "secp256k1_ecdsa_s2c_sign", "secp256k1_ecdsa_anti_exfil_signer_commit", "secp256k1_anti_exfil_sign", "secp256k1_ellswift_create",
    "secp256k1_keypair_create", "secp256k1_generator_generate_blinded", "secp256k1_pedersen_commit", "secp256k1_musig_nonce_gen",
    "secp256k1_musig_nonce_gen_counter", "secp256k1_rangeproof_verify", "secp256k1_rangeproof_rewind", "secp256k1_rangeproof_sign",
    "secp256k1_ecdsa_sign_recoverable", "secp256k1_schnorrsig_sign32", "secp256k1_schnorrsig_sign_custom", "secp256k1_surjectionproof_generate",
    "secp256k1_surjectionproof_verify", "secp256k1_whitelist_sign", "secp256k1_whitelist_verify",
}
SECRET = {
    "secp256k1_ec_seckey_verify", "secp256k1_ec_seckey_negate", "secp256k1_ec_seckey_tweak_add", "secp256k1_ec_seckey_tweak_mul",
    "secp256k1_ecdh", "secp256k1_ecdsa_adaptor_decrypt", "secp256k1_ellswift_xdh", "secp256k1_keypair_sec", "secp256k1_keypair_pub",
    "secp256k1_keypair_xonly_pub", "secp256k1_keypair_xonly_tweak_add", "secp256k1_pedersen_blind_sum",
    "secp256k1_pedersen_blind_generator_blind_sum", "secp256k1_musig_partial_sign", "secp256k1_musig_adapt",
    "secp256k1_schnorrsig_sign",   # deprecated alias of sign32; its own header block carries no context remark
}
WEAK_UNDOCUMENTED = {"secp256k1_schnorrsig_aggverify"}
STRONG = {
    "secp256k1_ec_pubkey_parse", "secp256k1_ec_pubkey_serialize", "secp256k1_ec_pubkey_cmp", "secp256k1_ec_pubkey_sort",
    "secp256k1_ecdsa_signature_parse_compact", "secp256k1_ecdsa_signature_parse_der", "secp256k1_ecdsa_signature_serialize_der",
    "secp256k1_ecdsa_signature_serialize_compact", "secp256k1_ecdsa_verify", "secp256k1_ecdsa_signature_normalize",
    "secp256k1_ec_pubkey_negate", "secp256k1_ec_pubkey_tweak_add", "secp256k1_ec_pubkey_tweak_mul", "secp256k1_ec_pubkey_combine",
    "secp256k1_tagged_sha256",
    "secp256k1_bppp_generators_create", "secp256k1_bppp_generators_parse", "secp256k1_bppp_generators_serialize", "secp256k1_bppp_generators_destroy",
    "secp256k1_ecdsa_adaptor_verify",
    "secp256k1_ecdsa_s2c_opening_parse", "secp256k1_ecdsa_s2c_opening_serialize", "secp256k1_ecdsa_s2c_verify_commit",
    "secp256k1_ecdsa_anti_exfil_host_commit", "secp256k1_anti_exfil_host_verify",
    "secp256k1_ellswift_encode", "secp256k1_ellswift_decode",
    "secp256k1_xonly_pubkey_parse", "secp256k1_xonly_pubkey_serialize", "secp256k1_xonly_pubkey_cmp", "secp256k1_xonly_pubkey_from_pubkey",
    "secp256k1_xonly_pubkey_tweak_add", "secp256k1_xonly_pubkey_tweak_add_check",
    "secp256k1_generator_parse", "secp256k1_generator_serialize", "secp256k1_generator_generate",
    "secp256k1_pedersen_commitment_parse", "secp256k1_pedersen_commitment_serialize", "secp256k1_pedersen_verify_tally",
    "secp256k1_musig_pubnonce_parse", "secp256k1_musig_pubnonce_serialize", "secp256k1_musig_aggnonce_parse", "secp256k1_musig_aggnonce_serialize",
    "secp256k1_musig_partial_sig_parse", "secp256k1_musig_partial_sig_serialize", "secp256k1_musig_pubkey_agg", "secp256k1_musig_pubkey_get",
    "secp256k1_musig_pubkey_ec_tweak_add", "secp256k1_musig_pubkey_xonly_tweak_add", "secp256k1_musig_nonce_agg", "secp256k1_musig_nonce_process",
    "secp256k1_musig_partial_sig_verify", "secp256k1_musig_partial_sig_agg", "secp256k1_musig_nonce_parity", "secp256k1_musig_extract_adaptor",
    "secp256k1_rangeproof_info", "secp256k1_rangeproof_max_size",
    "secp256k1_ecdsa_recoverable_signature_parse_compact", "secp256k1_ecdsa_recoverable_signature_convert",
    "secp256k1_ecdsa_recoverable_signature_serialize_compact", "secp256k1_ecdsa_recover",
    "secp256k1_schnorrsig_verify", "secp256k1_schnorrsig_inc_aggregate", "secp256k1_schnorrsig_aggregate",
    "secp256k1_surjectionproof_parse", "secp256k1_surjectionproof_serialize", "secp256k1_surjectionproof_n_total_inputs",
    "secp256k1_surjectionproof_n_used_inputs", "secp256k1_surjectionproof_serialized_size", "secp256k1_surjectionproof_initialize",
    "secp256k1_surjectionproof_allocate_initialized",
    "secp256k1_whitelist_signature_parse", "secp256k1_whitelist_signature_serialize",
}
MGMT = ["secp256k1_context_clone", "secp256k1_context_preallocated_clone", "secp256k1_context_preallocated_clone_size",
        "secp256k1_context_randomize", "secp256k1_context_randomize(NULL)"]

static_case = st.fixed_dictionaries({
    "seed": probe_seed,
    "fam_mask": st.one_of(st.just((1 << NFAM) - 1), st.integers(1, (1 << NFAM) - 1)),
    "mgmt": st.integers(0, len(MGMT) - 1),
})


def _run_static(env, case, real):
    lib = env.lib
    d = _prep(lib)
    seed, mask = case["seed"], case["fam_mask"] & ((1 << NFAM) - 1)
    if mask == 0:
        mask = 1
    if real:
        if not d.vf_c20_has_extcb():
            raise RuntimeError("static_real needs the extcb build")
        sctx = lib.static_ctx
        label = "secp256k1_context_static"
    else:
        sctx = c_void_p(d.vf_c20_static_copy())
        label = "byte-copy of secp256k1_context_static"
    lib.reset()
    out = lib._c20_out
    n = d.vf_probe2(lib.ctx, lib.ctx, c_uint64(seed), c_uint(mask), out, c_size_t(OUTCAP))
    if n < 0:
        raise RuntimeError("probe2 failed (%d)" % n)
    full = parse_records(out.raw[:n])
    check_documented(env, full, "battery on the full context")
    n = d.vf_probe2(sctx, lib.ctx, c_uint64(seed), c_uint(mask), out, c_size_t(OUTCAP))
    env.require(n != -2, "the full helper context misbehaved while the static context was under test (state leaked between contexts)")
    if n < 0:
        raise RuntimeError("probe2 failed (%d)" % n)
    stat = parse_records(out.raw[:n])
    if len(full) != len(stat):
        raise RuntimeError("record streams differ in length")
    classes = set()
    for k, (a, s) in enumerate(zip(full, stat)):
        name = a[0]
        if name != s[0]:
            raise RuntimeError("record streams out of step")
        env.require(s[4] == 0, "%s with %s fired the ERROR callback" % (name, label), step=k, function=name)
        same = (a[2], a[5]) == (s[2], s[5]) and s[3] == 0
        if name in STRONG:
            env.require(same, "%s with %s: result differs from the full-context result (ret %d vs %d, illegal callbacks %d) although the function "
                        "takes no secret key and is not documented '(not secp256k1_context_static)'" % (name, label, s[2], a[2], s[3]),
                        step=k, function=name, ret=s[2], full_ret=a[2], illegal=s[3], out=s[5][:64].hex(), full_out=a[5][:64].hex())
            classes.add("strong:same")
        elif name in NOT_STATIC or name in SECRET or name in WEAK_UNDOCUMENTED:
            env.require(same or s[3] > 0, "%s with %s: result differs from the full-context result (ret %d vs %d) and the illegal callback did not fire" % (
                name, label, s[2], a[2]), step=k, function=name, ret=s[2], full_ret=a[2], out=s[5][:64].hex(), full_out=a[5][:64].hex())
            kind = "not_static" if name in NOT_STATIC else "secret" if name in SECRET else "undocumented"
            classes.add("%s:%s" % (kind, "same" if same else "illegal+ret0" if s[2] == 0 else "illegal+ret!=0"))
            if not same and name in WEAK_UNDOCUMENTED:
                classes.add("observed:%s refuses the static context (not asserted)" % name)
        else:
            raise RuntimeError("function %s is in neither table" % name)
    # context-management functions documented "(not secp256k1_context_static)": illegal use must be reported, nothing else may happen
    which = case["mgmt"] % len(MGMT)
    scratch = buf(d.vf_c20_context_size() + 64)
    r = d.vf_c20_static_mgmt(sctx, which, scratch)
    ill = r & 0xFFFF
    env.require(ill > 0, "%s with %s did not report illegal use" % (MGMT[which], label), function=MGMT[which], ret=r >> 16)
    classes.add("mgmt:%s:ret=%d" % (MGMT[which], r >> 16))
    env.require(d.vf_c20_total_error() == 0, "error callback fired", function=MGMT[which])
    lib.reset()
    return True, sorted(classes)


def run_static_real(env, case):
    return _run_static(env, case, True)


def run_static_copy(env, case):
    return _run_static(env, case, False)


# --------------------------------------------------------------------------------------------------------------
# (b) threads under ThreadSanitizer
def _tsan_setup(env):
    env.cache["tsan_exe"] = B.build(TSAN, kind="exe", sources=["tsan_harness.c"], out="tsan_harness", link=("-lpthread",))


@st.composite
def thread_case(draw):
    nseeds = draw(st.integers(1, 3))
    seeds = [draw(probe_seed) for _ in range(nseeds)]
    prep = draw(st.lists(st.one_of(st.tuples(st.just(0), st.one_of(st.integers(0, 3), st.integers(4, U64))),
                                   st.tuples(st.just(1), st.just(0)), st.tuples(st.just(2), st.just(0)), st.tuples(st.just(3), st.just(0)),
                                   st.tuples(st.just(4), st.just(0)), st.tuples(st.just(5), st.just(0))).map(list), max_size=5))
    nthreads = draw(st.one_of(st.integers(2, 4), st.integers(2, 8), st.integers(2, 16)))
    hot = draw(st.lists(st.integers(0, NFAM - 1), min_size=1, max_size=3, unique=True))
    budget = draw(st.integers(nthreads, max(nthreads, 20)))
    threads = [[] for _ in range(nthreads)]
    for i in range(budget):
        t = i if i < nthreads else draw(st.integers(0, nthreads - 1))
        fam = draw(st.sampled_from(hot)) if draw(st.integers(0, 3)) else draw(st.integers(0, NFAM - 1))
        threads[t].append([fam, draw(st.integers(0, nseeds - 1))])
    return {"seeds": seeds, "ctxkind": draw(st.integers(0, 1)), "prep": prep, "threads": threads}


def case_file_text(case):
    w = [len(case["seeds"])] + list(case["seeds"]) + [case["ctxkind"], len(case["prep"])]
    for op, arg in case["prep"]:
        w += [op, arg]
    w.append(len(case["threads"]))
    for prog in case["threads"]:
        w.append(len(prog))
        for fam, sidx in prog:
            w += [fam, sidx]
    return " ".join(str(int(x)) for x in w) + "\n"


def run_threads(env, case):
    if "tsan_exe" not in env.cache:
        _tsan_setup(env)
    exe = env.cache["tsan_exe"]
    fd, path = tempfile.mkstemp(prefix="vf-c20-case-", suffix=".txt", dir="/var/tmp")
    try:
        with os.fdopen(fd, "w") as f:
            f.write(case_file_text(case))
        e = {k: v for k, v in os.environ.items() if k not in ("LD_PRELOAD", "ASAN_OPTIONS", "UBSAN_OPTIONS")}
        e["TSAN_OPTIONS"] = "halt_on_error=1 exitcode=66 report_signal_unsafe=0 second_deadlock_stack=1"
        try:
            r = subprocess.run([exe, path], capture_output=True, text=True, env=e, timeout=1800, errors="replace")
        except subprocess.TimeoutExpired:
            raise RuntimeError("tsan_harness did not finish in 1800 s (load?)")
    finally:
        try:
            os.unlink(path)
        except OSError:
            pass
    fams = [set(f for f, _ in prog) for prog in case["threads"]]
    shared = set()
    for i in range(len(fams)):
        for j in range(i + 1, len(fams)):
            shared |= fams[i] & fams[j]
    classes = ["threads=%s" % (len(fams) if len(fams) <= 4 else "5-8" if len(fams) <= 8 else "9-16"), "ctx=%s" % ("malloc", "prealloc")[case["ctxkind"]]]
    classes += ["shared:" + FAMILIES[f] for f in sorted(shared)]
    classes += ["prep:%d" % op for op in sorted({op for op, _ in case["prep"]})]
    if r.returncode == 0:
        return bool(shared), classes
    if r.returncode == 2 or "unexpected memory mapping" in r.stderr or "FATAL: ThreadSanitizer" in r.stderr:
        raise RuntimeError("tsan_harness infrastructure problem: rc=%d %s" % (r.returncode, r.stderr[-1500:]))
    if r.returncode == 66:
        m = re.search(r"WARNING: ThreadSanitizer: ([^\n]*)", r.stderr)
        loc = re.search(r"Location is ([^\n]*)", r.stderr)
        env.fail("ThreadSanitizer: %s%s" % (m.group(1) if m else "report", (" — " + loc.group(1)) if loc else ""), report=r.stderr[:6000])
    elif r.returncode == 3:
        env.fail("concurrent use of one context changed a result: " + r.stderr.strip()[:600], report=r.stderr[:3000])
    else:
        env.fail("tsan_harness died (exit status %d) while threads shared one context" % r.returncode, report=r.stderr[-3000:])
    return bool(shared), classes


# --------------------------------------------------------------------------------------------------------------
# (c) symbol-table scan
# Allow-list of symbols that may live in a writable, non-RELRO section of the library objects, with the reason:
#   secp256k1_generator_h   `const secp256k1_generator *secp256k1_generator_h = &...` (include/secp256k1_generator.h, src/modules/generator/main_impl.h):
#                           an exported NON-const pointer to a const object; the library never writes it (DESIGN §5), 8 bytes in .data.rel.local
ALLOW_WRITABLE = {"secp256k1_generator_h"}
SCAN_OBJECTS = {
    "secp256k1": ("src/secp256k1.c", True),
    "precomputed_ecmult": ("src/precomputed_ecmult.c", False),
    "precomputed_ecmult_gen": ("src/precomputed_ecmult_gen.c", False),
}
SCAN_CFGS = {"prod": B.PROD, "int64": B.INT64}


def scan_cases(tier, shard, nshards):
    if shard != 0:
        return
    for cfg in (["prod"] if tier == "quick" else ["prod", "int64"]):
        for obj in SCAN_OBJECTS:
            yield {"object": obj, "flags": cfg}


def _scan_flags(cfg):
    return [f for f in cfg.flags() if f not in ("-g",)]


def run_scan(env, case):
    src, _ = SCAN_OBJECTS[case["object"]]
    cfg = SCAN_CFGS[case["flags"]]
    tmp = tempfile.mkdtemp(prefix="vf-c20-scan-", dir="/var/tmp")
    try:
        obj = os.path.join(tmp, case["object"] + ".o")
        cmd = ["gcc"] + _scan_flags(cfg) + ["-I" + B.REPO, "-I" + os.path.join(B.REPO, "src"), "-I" + os.path.join(B.REPO, "include"),
                                            "-c", os.path.join(B.REPO, src), "-o", obj]
        r = subprocess.run(cmd, capture_output=True, text=True)
        if r.returncode != 0:
            raise RuntimeError("scan: compilation failed: " + r.stderr[-2000:])
        r = subprocess.run(["readelf", "-S", "-s", "-W", obj], capture_output=True, text=True)
        if r.returncode != 0:
            raise RuntimeError("readelf failed: " + r.stderr[-500:])
    finally:
        shutil.rmtree(tmp, ignore_errors=True)
    sections = {}
    for m in re.finditer(r"^\s*\[\s*(\d+)\]\s+(\S+)\s+(\S+)\s+([0-9a-f]+)\s+([0-9a-f]+)\s+([0-9a-f]+)\s+([0-9a-f]+)\s+([A-Za-z]*)\s+\d+\s+\d+\s+\d+\s*$", r.stdout, re.M):
        sections[int(m.group(1))] = {"name": m.group(2), "type": m.group(3), "size": int(m.group(6), 16), "flags": m.group(8)}
    if not any(s["name"] == ".text" for s in sections.values()):
        raise RuntimeError("scan: could not parse the section table")
    writable = {i: s for i, s in sections.items() if "W" in s["flags"] and "A" in s["flags"] and not s["name"].startswith(".data.rel.ro")}
    explained = {i: 0 for i in writable}
    nsym = 0
    classes = set()
    for m in re.finditer(r"^\s*\d+:\s+([0-9a-f]+)\s+(\d+|0x[0-9a-f]+)\s+(\S+)\s+(\S+)\s+(\S+)\s+(\S+)\s*(\S*)\s*$", r.stdout, re.M):
        size = int(m.group(2), 0)
        typ, ndx, name = m.group(3), m.group(6), m.group(7)
        nsym += 1
        if typ in ("SECTION", "FILE"):
            continue
        if ndx == "COM":
            env.fail("writable COMMON symbol %s (%d bytes) in %s" % (name, size, src), symbol=name, section="COMMON", size=size, object=src)
        if not ndx.isdigit() or int(ndx) not in writable:
            continue
        sec = writable[int(ndx)]
        if name in ALLOW_WRITABLE:
            explained[int(ndx)] += size
            classes.add("allowed:" + name)
            continue
        env.fail("mutable global state: symbol %s (%s, %d bytes) lives in writable section %s of %s" % (name, typ, size, sec["name"], src),
                 symbol=name, section=sec["name"], size=size, object=src)
    if nsym < 3:
        raise RuntimeError("scan: could not parse the symbol table")
    for i, sec in writable.items():
        # every byte of a writable section must belong to an allow-listed symbol (alignment padding < 32 bytes tolerated)
        env.require(sec["size"] <= explained[i] + (31 if explained[i] else 0),
                    "writable section %s of %s holds %d bytes that no allow-listed symbol explains" % (sec["name"], src, sec["size"] - explained[i]),
                    symbol="(anonymous)", section=sec["name"], size=sec["size"], object=src)
        classes.add("section:%s=%d" % (sec["name"], sec["size"]))
    classes.add("scanned:" + case["object"])
    return True, sorted(classes)


# --------------------------------------------------------------------------------------------------------------
TESTS = [
    Test("history", history_case, run_history, quick=300, thorough=4000,
         cfgs={"quick": ["prod", "vsan"], "thorough": ["prod", "vsan"]},
         must_cover=["op:create", "op:pcreate", "op:clone", "op:pclone", "op:rand", "op:randnull", "op:sha", "op:destroy",
                     "probe:randomized+cloned", "probe:own_sha256", "randomized>=2x", "clone_of_randomized", "clone_with_own_sha256", "probe:prealloc"]),
    # the same machine on the other limb / table configurations (comb 11x6 and 2x5, window 5 and 2, int128-struct and int64 arithmetic)
    Test("history_cfg", history_case, run_history, quick=24, thorough=600,
         cfgs={"quick": ["struct", "int64"], "thorough": ["struct", "int64", "noasm"]}, max_workers=2,
         must_cover=["probe:randomized+cloned", "randomized>=2x"]),
    Test("static_real", lambda: static_case, run_static_real, quick=100, thorough=1000, cfgs={"quick": ["extcb"], "thorough": ["extcb"]},
         must_cover=["strong:same", "not_static:illegal+ret0"], max_workers=4),
    Test("static_copy", lambda: static_case, run_static_copy, quick=100, thorough=1000, cfgs={"quick": ["prod", "vsan"], "thorough": ["prod", "vsan", "int64"]},
         must_cover=["strong:same", "not_static:illegal+ret0"], max_workers=4),
    Test("threads", thread_case, run_threads, quick=250, thorough=3000, cfgs={"quick": ["prod"], "thorough": ["prod"]}, setup=_tsan_setup,
         must_cover=["threads=2", "threads=9-16", "ctx=prealloc", "prep:0", "prep:2", "prep:4"] + ["shared:" + f for f in FAMILIES]),
    Test("symbols", scan_cases, run_scan, kind="enum", cfgs={"quick": ["prod"], "thorough": ["prod"]}, max_workers=1,
         must_cover=["scanned:secp256k1", "scanned:precomputed_ecmult", "scanned:precomputed_ecmult_gen", "allowed:secp256k1_generator_h"]),
]
