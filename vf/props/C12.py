"""C12 — MuSig2 computes BIP-327; honest sessions yield valid signatures; adaptor extension.

One generated case = one complete signing session given as pure data (secret keys, key-list shape, tweak sequence, message, per-signer
nonce inputs, optional cancelling pubnonce, optional adaptor).  Every API output on the way is compared with pyref.musig (BIP-327 written
from the BIP and validated against the BIP's own vectors), and the protocol invariants of the property are asserted at the end.
"""
import ctypes
from ctypes import c_size_t, c_uint64, c_int, byref

from hypothesis import strategies as st

from pyref import ec, musig as M, bip340
from vf import gens
from vf.core import Test
from vf.lib import buf, ptr_array

N = ec.N

RULE = ("one case = one MuSig2 session: 1..16 signers; key-list shapes distinct / random duplicates / first key repeated (second key appears late) / all equal / "
        "P and -P / optionally sorted with ec_pubkey_sort; 0..6 tweaks mixing plain and x-only with the tweak value searched so that the tweaked key has a requested "
        "parity (x-only tweak on an odd key flips the parity accumulator), plus refused tweaks (>= n, the one that makes the key infinity) on cache copies; edge-biased "
        "message; per signer either nonce_gen or nonce_gen_counter (counters from u64 edges incl. 2^32-1, 2^32, 2^32+c, 2^64-1) with seckey / msg / keyagg_cache (at any "
        "tweak stage) / extra_input independently present or absent, nonces generated before or after key aggregation; optionally the last signer's pubnonce is crafted to "
        "cancel the first / second / both aggregate components (infinity encoding, G substitution), its partial signature then comes from the reference signer; adaptor absent / "
        "random / cancelling the first aggregate component.  Oracle: every output (aggregate key, key after each tweak, pubnonce, aggnonce, nonce parity, every partial "
        "signature, aggregate signature, adapted signature, extracted adaptor) equals pyref.musig; partial_sig_verify verdicts for own and foreign (key, nonce, session, "
        "mutated signature) combinations equal the reference verdict; honest aggregate verifies under BIP-340, pre-signatures do not, adapt/extract are inverse.  "
        "non-trivial = >= 2 signers and (duplicate keys or >= 1 tweak or infinity nonce or adaptor or an optional nonce argument absent)")
ASSUMPTIONS = ["pyref.musig is a correct reading of BIP-327 (selftest: the BIP's key_agg, nonce_gen, nonce_agg, sign_verify, tweak and sig_agg vectors) and of the adaptor / counter "
               "extensions as documented in the header and DESIGN.md Appendix A",
               "pyref.bip340 decides validity of the final signature (validated against BIP-340 vectors)",
               "opaque objects are only compared through their serialisation functions; session values are observed through nonce_parity, partial signatures and the aggregate",
               "a zero tweak is accepted by BIP-327 but called invalid by the header: either result is accepted (the case then ends)"]

U64 = (1 << 64) - 1


# ------------------------------------------------------------------ generator
counter_st = st.one_of(st.sampled_from([0, 1, (1 << 32) - 1, 1 << 32, (1 << 32) + 1, U64, U64 - 1, 1 << 63, (1 << 63) - 1]),
                       st.integers(0, 1 << 16).map(lambda c: (1 << 32) + c), st.integers(1, (1 << 32) - 1).map(lambda c: c << 32),
                       st.tuples(st.integers(1, (1 << 32) - 1), st.integers(0, 5)).map(lambda t: (t[0] << 32) | t[1]),
                       gens.u64_edge, st.integers(0, 8))


@st.composite
def nonce_spec(draw):
    return {"entry": draw(st.sampled_from(["rand", "rand", "counter"])),
            "rand": draw(st.one_of(gens.hexbytes(32), st.sampled_from(["00" * 31 + "01", "ff" * 32, "80" + "00" * 31]))),
            "counter": draw(counter_st),
            "sk": draw(st.booleans()), "msg": draw(st.booleans()),
            "cache": draw(st.one_of(st.none(), st.none(), st.integers(0, 6))),
            "extra": draw(st.one_of(st.none(), gens.hexbytes(32))),
            "early": draw(st.booleans())}


@st.composite
def tweak_spec(draw):
    return {"v": draw(st.one_of(gens.seckey_valid, gens.seckey_valid, st.integers(1, 1 << 16), st.sampled_from([0, 1, N - 1]))),
            "xonly": draw(st.sampled_from([True, True, False])),
            "want_odd": draw(st.sampled_from([None, True, True, True, False])),
            "out": draw(st.booleans())}


@st.composite
def session_case(draw):
    n = draw(st.one_of(st.integers(2, 3), st.integers(2, 4), st.integers(2, 6), st.sampled_from([1, 2, 3, 8, 15, 16]), st.integers(1, 16)))
    keys = [draw(gens.seckey_valid) for _ in range(n)]
    shape = draw(st.sampled_from(["distinct", "distinct", "dups", "dups", "first_rep", "first_rep", "all_equal", "neg_pair"]))
    if shape == "distinct" or n == 1:
        idx = list(range(n))
    elif shape == "dups":
        idx = [draw(st.integers(0, max(1, n // 2))) % n for _ in range(n)]
    elif shape == "first_rep":
        k = draw(st.integers(2, n)) if n >= 2 else 1
        idx = [0] * k + list(range(1, n - k + 1))
    elif shape == "all_equal":
        idx = [0] * n
    else:
        idx = list(range(n))
        keys[1] = N - keys[0]
    case = {"keys": keys, "idx": idx, "shape": shape, "sort": draw(st.sampled_from([False, False, False, True])),
            "agg_args": draw(st.sampled_from(["both", "cache_only", "pk_then_cache"])),
            "tweaks": draw(st.one_of(st.just([]), st.lists(tweak_spec(), min_size=1, max_size=3), st.lists(tweak_spec(), min_size=1, max_size=6))),
            "msg": ec.i2b(draw(gens.msg32)).hex(), "msg2": draw(gens.hexbytes(32)),
            "nonces": [draw(nonce_spec()) for _ in range(n)],
            "inf": draw(st.sampled_from([None, None, None, None, "first", "second", "both", "both"])) if n >= 2 else None,
            "adaptor": draw(st.one_of(st.none(), st.none(), gens.seckey_valid, st.just("neg_r1"))),
            "via_parse": draw(st.booleans()), "alias_adapt": draw(st.booleans()), "off": draw(off_st), "off2": draw(off_st),
            "bad_tweak": draw(st.one_of(st.none(), st.fixed_dictionaries({"stage": st.integers(0, 6), "kind": st.sampled_from(["n", "n+1", "max", "neg_cur", "neg_cur"]),
                                                                          "xonly": st.booleans()}))),
            "cross": draw(st.lists(st.fixed_dictionaries({"i": st.integers(0, 15), "j": st.integers(0, 15),
                                                          "what": st.sampled_from(["key", "nonce", "both", "msg", "neg", "plus1", "noadaptor"])}), max_size=3))}
    return case


# ------------------------------------------------------------------ helpers
# byte offset of an object from a 16-byte boundary: all musig / extrakeys opaque types are unsigned char arrays (alignment requirement 1)
off_st = st.sampled_from([0, 0, 8, 1, 1, 3, 5, 7, 7, 9, 9, 11, 13, 15, 15, 2, 4, 6, 10, 12, 14])


def obuf(n, off, init=None):
    """n-byte object whose address is congruent to `off` modulo 16 (view into a larger vf.lib.buf; the view keeps the base alive)"""
    base = buf(n + 32)
    shift = (off - ctypes.addressof(base)) % 16
    v = (ctypes.c_char * n).from_buffer(base, shift)
    if init is not None:
        ctypes.memmove(v, bytes(init), len(init))
    return v


def ser_pubnonce(lib, pn):
    o = buf(66)
    assert lib.dll.secp256k1_musig_pubnonce_serialize(lib.ctx, o, pn) == 1
    return o.raw


def ser_aggnonce(lib, an):
    o = buf(66)
    assert lib.dll.secp256k1_musig_aggnonce_serialize(lib.ctx, o, an) == 1
    return o.raw


def ser_psig(lib, ps):
    o = buf(32)
    assert lib.dll.secp256k1_musig_partial_sig_serialize(lib.ctx, o, ps) == 1
    return o.raw


def deref_pubkeys(lib, arr, n):
    out = []
    for i in range(n):
        pk = buf(64)
        ctypes.memmove(pk, arr[i], 64)
        out.append(lib.pubkey_serialize(pk))
    return out


def run_session(env, case):
    lib = env.lib
    d = lib.dll
    ctx = lib.ctx
    classes = []
    off, off2 = case.get("off", 0), case.get("off2", 0)

    def ob(n, init=None):
        # secret nonce, public nonce and randomness objects at offset `off`, every other object at `off2` (mod 16)
        return obuf(n, off if n in (132, 32) else off2, init)
    classes.append("offset:" + ("odd" if off & 1 else "even"))
    idx = case["idx"]
    n = len(idx)
    sks = [case["keys"][i] for i in idx]
    msg = bytes.fromhex(case["msg"])
    lib.reset()

    # ---- signers: public keys and keypairs through the library's constructors
    pkobjs, kps, pk33 = [], [], []
    for sk in sks:
        kp = ob(96)
        env.require(d.secp256k1_keypair_create(ctx, kp, ec.i2b(sk)) == 1, "keypair_create failed for a valid key")
        pk = ob(64)
        env.require(d.secp256k1_keypair_pub(ctx, pk, kp) == 1, "keypair_pub failed")
        ref = ec.ser33(ec.mulg(sk))
        env.require(lib.pubkey_serialize(pk) == ref, "public key differs from the reference")
        pkobjs.append(pk)
        kps.append(kp)
        pk33.append(ref)

    # ---- nonces that are generated BEFORE key aggregation (no cache available then)
    specs = case["nonces"]
    nonce_state = [None] * n        # (secnonce buf, pubnonce buf, ref secnonce97, ref pubnonce66)

    def gen_nonce(i, caches, kctxs):
        sp = specs[i]
        stage = sp["cache"]
        use_cache = stage is not None and caches is not None
        if use_cache:
            stage = min(stage, len(caches) - 1)
        sec, pub = ob(132), ob(132)
        m = msg if sp["msg"] else None
        extra = bytes.fromhex(sp["extra"]) if sp["extra"] else None
        cache = caches[stage] if use_cache else None
        aggpk = kctxs[stage].xonly() if use_cache else None
        ill0 = lib.illegal()
        if sp["entry"] == "counter":
            r = d.secp256k1_musig_nonce_gen_counter(ctx, sec, pub, c_uint64(sp["counter"]), kps[i], m, cache, extra)
            ref = M.nonce_gen_counter(sp["counter"], ec.i2b(sks[i]), pk33[i], aggpk, m, extra)
            classes.append("entry:counter")
            if sp["counter"] >> 32:
                classes.append("counter_hi")
        else:
            rb = bytes.fromhex(sp["rand"])
            if not any(rb):
                rb = bytes(31) + b"\x01"
            rbuf = ob(32, rb)
            skarg = ec.i2b(sks[i]) if sp["sk"] else None
            r = d.secp256k1_musig_nonce_gen(ctx, sec, pub, rbuf, skarg, pkobjs[i], m, cache, extra)
            ref = M.nonce_gen_internal(rb, pk33[i], skarg, aggpk, m, extra)
            env.require(r != 1 or not any(rbuf.raw), "nonce_gen succeeded but did not wipe session_secrand32", signer=i)
            classes.append("entry:rand")
            if not sp["sk"]:
                classes.append("opt_absent:seckey")
        env.require(r == 1 and ref is not None, "nonce generation failed for valid arguments (signer %d, %s)" % (i, sp["entry"]), signer=i)
        env.require(lib.illegal() == ill0, "illegal callback during valid nonce generation: " + lib.cbmsg())
        got = ser_pubnonce(lib, pub)
        env.require(got == ref[1], "pubnonce differs from BIP-327 NonceGen (signer %d, entry %s, counter %s, sk %s msg %s cache %s extra %s)" % (
            i, sp["entry"], sp["counter"] if sp["entry"] == "counter" else "-", sp["sk"], sp["msg"], stage if use_cache else None, bool(extra)),
            lib=got.hex(), ref=ref[1].hex(), signer=i)
        if not sp["msg"]:
            classes.append("opt_absent:msg")
        if not use_cache:
            classes.append("opt_absent:cache")
        elif stage > 0:
            classes.append("nonce_cache_after_tweak")
        if extra is None:
            classes.append("opt_absent:extra")
        nonce_state[i] = [sec, pub, ref[0], ref[1]]

    for i in range(n):
        if specs[i]["early"] and specs[i]["cache"] is None:
            gen_nonce(i, None, None)
            classes.append("nonce_before_keyagg")

    # ---- key aggregation
    ptrs = ptr_array(pkobjs)
    klist = list(pk33)
    if case["sort"]:
        r = d.secp256k1_ec_pubkey_sort(ctx, ptrs, c_size_t(n))
        env.require(r == 1, "ec_pubkey_sort failed")
        klist = sorted(pk33)
        env.require(deref_pubkeys(lib, ptrs, n) == klist, "ec_pubkey_sort order differs from lexicographic order of the compressed encodings")
        classes.append("sorted")
    kctx = M.key_agg(klist)
    env.require(kctx is not None, "reference key aggregation failed (infinity): negligible")
    cache = ob(197)
    xo = ob(64)
    mode = case["agg_args"]
    if mode == "both":
        r = d.secp256k1_musig_pubkey_agg(ctx, xo, cache, ptrs, c_size_t(n))
    elif mode == "cache_only":
        r = d.secp256k1_musig_pubkey_agg(ctx, None, cache, ptrs, c_size_t(n))
        xo = None
    else:
        r = d.secp256k1_musig_pubkey_agg(ctx, xo, None, ptrs, c_size_t(n))
        env.require(r == 1, "pubkey_agg (agg_pk only) failed")
        r = d.secp256k1_musig_pubkey_agg(ctx, None, cache, ptrs, c_size_t(n))
    env.require(r == 1, "pubkey_agg failed for valid keys")
    keydesc = "n=%d idx=%s sort=%s" % (n, idx, case["sort"])
    if xo is not None:
        env.require(lib.xonly_serialize(xo) == kctx.xonly(), "aggregate x-only key differs from BIP-327 KeyAgg (%s)" % keydesc, ref=kctx.xonly().hex())

    def check_cache_key(kc, what):
        full = ob(64)
        env.require(d.secp256k1_musig_pubkey_get(ctx, full, cache) == 1, "pubkey_get failed " + what)
        got = lib.pubkey_serialize(full)
        env.require(got == ec.ser33(kc.Q), "aggregate key in the cache differs from BIP-327 %s (%s)" % (what, keydesc), lib=got.hex(), ref=ec.ser33(kc.Q).hex())

    check_cache_key(kctx, "after KeyAgg")
    second = M.get_second_key(klist)
    if n >= 2 and klist[1] == klist[0] and second != bytes(33):
        classes.append("second_key_late")
    if len(set(klist)) < n:
        classes.append("dup_keys")

    # dlog of Q (known because all secret keys are): needed for the tweak that must be refused
    def coeff_sum():
        a = {pk: M.key_agg_coeff(klist, pk) for pk in set(klist)}
        return sum(a[pk33[i]] * sks[i] for i in range(n)) % N
    q = coeff_sum()

    # ---- tweaks (with snapshots of the cache after every stage)
    caches = [ob(197, cache.raw)]
    kctxs = [kctx]
    qs = [q]
    flips = 0
    for ti, tw in enumerate(case["tweaks"]):
        xonly = tw["xonly"]
        v = tw["v"] % N
        g = N - 1 if (xonly and not ec.has_even_y(kctx.Q)) else 1
        if tw["want_odd"] is not None and v != 0:
            base = ec.mul(g, kctx.Q) if g != 1 else kctx.Q
            cand = ec.add(base, ec.mulg(v))
            for _ in range(64):
                if cand is not None and (cand[1] & 1) == (1 if tw["want_odd"] else 0):
                    break
                v = (v + 1) % N or 1
                cand = ec.add(base, ec.mulg(v))
        t32 = ec.i2b(v)
        k2 = M.apply_tweak(kctx, t32, xonly)
        out = ob(64) if tw["out"] else None
        fn = d.secp256k1_musig_pubkey_xonly_tweak_add if xonly else d.secp256k1_musig_pubkey_ec_tweak_add
        r = fn(ctx, out, cache, t32)
        if v == 0:
            classes.append("tweak0")
            if r != 1:
                # the header calls a zero tweak invalid, BIP-327 accepts it: either; cache content after a refusal is unspecified
                return True, classes + ["tweak0_refused"]
        if k2 is None:
            env.require(r == 0, "tweak that makes the aggregate key infinity was accepted")
            return True, classes + ["tweak_inf_natural"]
        env.require(r == 1, "valid tweak refused (stage %d, xonly=%s)" % (ti, xonly), tweak=t32.hex())
        if xonly and g != 1:
            flips += 1
        kctx = k2
        q = (g * q + v) % N
        if out is not None:
            env.require(lib.pubkey_serialize(out) == ec.ser33(kctx.Q), "tweak output key differs from BIP-327 ApplyTweak (stage %d, xonly=%s, key was %s)" % (
                ti, xonly, "odd" if g != 1 else "even/plain"), ref=ec.ser33(kctx.Q).hex())
        check_cache_key(kctx, "after tweak %d (%s)" % (ti, "x-only" if xonly else "plain"))
        caches.append(ob(197, cache.raw))
        kctxs.append(kctx)
        qs.append(q)
    assert ec.mulg(q) == kctx.Q, "harness: dlog tracking"
    nt_tweak = len(case["tweaks"]) > 0
    classes.append("tweaks=%d" % len(case["tweaks"]))
    if flips:
        classes.append("xonly_on_odd")
    if flips >= 2:
        classes.append("xonly_on_odd>=2")
    if kctx.gacc != 1:
        classes.append("gacc_neg_final")
    if kctx.tacc != 0 and not ec.has_even_y(kctx.Q):
        classes.append("tweaked_final_odd")

    # ---- tweaks that must be refused, on a COPY of the cache of some stage
    bt = case["bad_tweak"]
    if bt is not None:
        stg = min(bt["stage"], len(caches) - 1)
        cc = ob(197, caches[stg].raw)
        kc = kctxs[stg]
        if bt["kind"] == "neg_cur":
            g = N - 1 if (bt["xonly"] and not ec.has_even_y(kc.Q)) else 1
            tv = (-g * qs[stg]) % N
        else:
            tv = {"n": N, "n+1": N + 1, "max": gens.M256}[bt["kind"]]
        env.require(M.apply_tweak(kc, ec.i2b(tv), bt["xonly"]) is None, "harness: refused-tweak construction")
        fn = d.secp256k1_musig_pubkey_xonly_tweak_add if bt["xonly"] else d.secp256k1_musig_pubkey_ec_tweak_add
        r = fn(ctx, ob(64), cc, ec.i2b(tv))
        env.require(r == 0, "invalid tweak accepted (%s, xonly=%s)" % (bt["kind"], bt["xonly"]))
        classes.append("bad_tweak:" + bt["kind"])

    # ---- remaining nonces
    for i in range(n):
        if nonce_state[i] is None:
            gen_nonce(i, caches, kctxs)

    # ---- optional cancelling pubnonce for the last signer
    inf = case["inf"]
    crafted = None
    ks = [[ec.b2i(ns[2][:32]), ec.b2i(ns[2][32:64])] for ns in nonce_state]
    if inf is not None and n >= 2:
        c = n - 1
        newk = list(ks[c])
        if inf in ("first", "both"):
            newk[0] = (-sum(k[0] for k in ks[:c])) % N
        if inf in ("second", "both"):
            newk[1] = (-sum(k[1] for k in ks[:c])) % N
        if newk[0] and newk[1]:
            crafted = c
            ks[c] = newk
            pnb = M.cbytes(ec.mulg(newk[0])) + M.cbytes(ec.mulg(newk[1]))
            pn = ob(132)
            env.require(d.secp256k1_musig_pubnonce_parse(ctx, pn, ob(66, pnb)) == 1, "pubnonce_parse rejected a valid pubnonce")
            env.require(ser_pubnonce(lib, pn) == pnb, "pubnonce parse/serialize round trip")
            nonce_state[c] = [None, pn, ec.i2b(newk[0]) + ec.i2b(newk[1]) + pk33[c], pnb]
            classes.append("inf:" + inf)
        else:
            classes.append("inf_fallback")

    # ---- nonce aggregation
    pubnonces = [ns[3] for ns in nonce_state]
    aggref = M.nonce_agg(pubnonces)
    agg = ob(132)
    env.require(d.secp256k1_musig_nonce_agg(ctx, agg, ptr_array([ns[1] for ns in nonce_state]), c_size_t(n)) == 1, "nonce_agg failed")
    aggb = ser_aggnonce(lib, agg)
    env.require(aggb == aggref, "aggregate nonce differs from BIP-327 NonceAgg", lib=aggb.hex(), ref=aggref.hex())
    if aggref[:33] == bytes(33):
        classes.append("aggnonce_R1_inf")
    if aggref[33:] == bytes(33):
        classes.append("aggnonce_R2_inf")
    agg2 = ob(132)
    env.require(d.secp256k1_musig_aggnonce_parse(ctx, agg2, ob(66, aggb)) == 1, "aggnonce_parse rejected the serialised aggregate nonce", aggnonce=aggb.hex())
    env.require(ser_aggnonce(lib, agg2) == aggb, "aggnonce parse/serialize round trip")
    if case["via_parse"]:
        agg = agg2

    # ---- adaptor
    ad = case["adaptor"]
    t_ad = None
    if ad is not None:
        if ad == "neg_r1":
            s0 = sum(k[0] for k in ks) % N
            if s0:
                t_ad = N - s0        # T = -R1agg: the first component becomes infinity only AFTER the adaptor is added
                classes.append("adaptor:cancels_R1")
            else:
                t_ad = 1
        else:
            t_ad = ad
        classes.append("adaptor")
    T = ec.mulg(t_ad) if t_ad is not None else None
    Tpk = lib.pubkey_from_point(T) if T is not None else None

    # ---- session
    session = ob(133)
    env.require(d.secp256k1_musig_nonce_process(ctx, session, agg, msg, cache, Tpk) == 1, "nonce_process failed")
    rs = M.Session(aggref, kctx, msg, adaptor=T)
    par = c_int(7)
    env.require(d.secp256k1_musig_nonce_parity(ctx, byref(par), session) == 1, "nonce_parity failed")
    env.require(par.value == rs.nonce_parity(), "nonce parity %d, reference %d (final nonce %s)" % (par.value, rs.nonce_parity(), "infinity->G" if rs.R_was_inf else "regular"))
    classes.append("parity%d" % par.value)
    if rs.R_was_inf:
        classes.append("R_inf_G")

    # ---- partial signatures
    psigs, psb = [], []
    for i in range(n):
        sref = M.sign(nonce_state[i][2], sks[i], rs)
        env.require(sref is not None, "harness: reference signer failed")
        if i == crafted:
            ps = ob(36)
            env.require(d.secp256k1_musig_partial_sig_parse(ctx, ps, ec.i2b(sref)) == 1, "partial_sig_parse rejected a scalar < n")
        else:
            ps = ob(36)
            ill0 = lib.illegal()
            r = d.secp256k1_musig_partial_sign(ctx, ps, nonce_state[i][0], kps[i], cache, session)
            env.require(r == 1 and lib.illegal() == ill0, "partial_sign failed for an honest signer (%d): %s" % (i, lib.cbmsg()), signer=i)
            env.require(not any(nonce_state[i][0].raw), "secnonce not zeroed after signing")
        got = ser_psig(lib, ps)
        env.require(got == ec.i2b(sref), "partial signature of signer %d differs from BIP-327 Sign (gacc=%s, Q %s, R %s, tweaks=%d)" % (
            i, "1" if kctx.gacc == 1 else "-1", "even" if ec.has_even_y(kctx.Q) else "odd", "even" if ec.has_even_y(rs.R) else "odd", len(case["tweaks"])),
            lib=got.hex(), ref=ec.i2b(sref).hex(), signer=i)
        psigs.append(ps)
        psb.append(got)

    # ---- partial signature verification: own
    for i in range(n):
        v = d.secp256k1_musig_partial_sig_verify(ctx, psigs[i], nonce_state[i][1], pkobjs[i], cache, session)
        if n <= 6 or i in (0, n - 1) or i == crafted:
            env.require(M.partial_sig_verify(psb[i], pubnonces[i], pk33[i], rs), "harness/reference: own partial signature fails the reference equation", signer=i)
        env.require(v == 1, "partial_sig_verify rejects signer %d's own partial signature" % i, signer=i)

    # ---- cross checks: the verdict is whatever the specification computes
    session2 = None
    for cr in case["cross"]:
        i, j, what = cr["i"] % n, cr["j"] % n, cr["what"]
        sig_o, sig_b = psigs[i], psb[i]
        pn_o, pn_b = nonce_state[i][1], pubnonces[i]
        pk_o, pk_b = pkobjs[i], pk33[i]
        ses_o, ses_r = session, rs
        if what in ("key", "both"):
            pk_o, pk_b = pkobjs[j], pk33[j]
        if what in ("nonce", "both"):
            pn_o, pn_b = nonce_state[j][1], pubnonces[j]
        if what == "msg":
            if session2 is None:
                m2 = bytes.fromhex(case["msg2"])
                session2 = ob(133)
                env.require(d.secp256k1_musig_nonce_process(ctx, session2, agg, m2, cache, Tpk) == 1, "nonce_process (second message) failed")
                rs2 = M.Session(aggref, kctx, m2, adaptor=T)
            ses_o, ses_r = session2, rs2
        if what == "noadaptor":
            if T is None:
                continue
            ses_o = ob(133)
            env.require(d.secp256k1_musig_nonce_process(ctx, ses_o, agg, msg, cache, None) == 1, "nonce_process (no adaptor) failed")
            ses_r = M.Session(aggref, kctx, msg)
        if what in ("neg", "plus1"):
            sv = ec.b2i(sig_b)
            sv = (N - sv) % N if what == "neg" else (sv + 1) % N
            sig_b = ec.i2b(sv)
            sig_o = ob(36)
            env.require(d.secp256k1_musig_partial_sig_parse(ctx, sig_o, sig_b) == 1, "partial_sig_parse rejected a scalar < n")
        exp = M.partial_sig_verify(sig_b, pn_b, pk_b, ses_r)
        v = d.secp256k1_musig_partial_sig_verify(ctx, sig_o, pn_o, pk_o, cache, ses_o)
        env.require(v == (1 if exp else 0), "partial_sig_verify verdict %d, BIP-327 says %d (signature of signer %d checked with %s of signer %d)" % (v, exp, i, what, j),
                    what=what, i=i, j=j)
        classes.append("cross:%s:%s" % (what, "accept" if exp else "reject"))
    env.require(d.secp256k1_musig_partial_sig_parse(ctx, ob(36), ec.i2b(N)) == 0, "partial_sig_parse accepted n")

    # ---- aggregation and the final signature
    sig = ob(64)
    env.require(d.secp256k1_musig_partial_sig_agg(ctx, sig, session, ptr_array(psigs), c_size_t(n)) == 1, "partial_sig_agg failed")
    sigref = M.partial_sig_agg(psb, rs)
    env.require(sig.raw == sigref, "aggregate signature differs from BIP-327 PartialSigAgg (final nonce %s, tacc %s, Q %s)" % (
        "infinity->G" if rs.R_was_inf else "regular", "0" if kctx.tacc == 0 else "!=0", "even" if ec.has_even_y(kctx.Q) else "odd"), lib=sig.raw.hex(), ref=sigref.hex())
    r, xq = lib.xonly_parse(kctx.xonly())
    env.require(r == 1, "xonly_parse of the aggregate key failed")
    valid_ref = bip340.verify(kctx.xonly(), msg, sigref)
    v = lib.schnorr_verify(sig.raw, msg, xq)
    env.require(v == (1 if valid_ref else 0), "schnorrsig_verify verdict %d differs from BIP-340 reference %d" % (v, valid_ref))
    if not rs.R_was_inf:
        if T is None:
            env.require(v == 1, "honest MuSig2 session produced an INVALID signature")
            classes.append("final_valid")
        else:
            env.require(v == 0, "a pre-signature (adaptor session) verifies as a plain signature")
    else:
        classes.append("final_valid_G" if v else "final_invalid_G")

    # ---- adaptor: adapt / extract
    if T is not None:
        t32 = ec.i2b(t_ad)
        if case["alias_adapt"]:
            final = ob(64, sig.raw)
            r = d.secp256k1_musig_adapt(ctx, final, final, t32, c_int(par.value))     # documented: sig64 may alias pre_sig64
            classes.append("adapt_in_place")
        else:
            final = ob(64)
            r = d.secp256k1_musig_adapt(ctx, final, sig, t32, c_int(par.value))
        env.require(r == 1, "musig_adapt failed")
        fref = M.adapt(sigref, t32, rs.nonce_parity())
        env.require(final.raw == fref, "adapted signature differs from the reference (parity %d)" % par.value, lib=final.raw.hex(), ref=fref.hex())
        if not rs.R_was_inf:
            env.require(lib.schnorr_verify(final.raw, msg, xq) == 1 and bip340.verify(kctx.xonly(), msg, fref), "adapted signature of an honest session is invalid (parity %d)" % par.value)
            classes.append("adapted_valid_parity%d" % par.value)
        tout = ob(32)
        env.require(d.secp256k1_musig_extract_adaptor(ctx, tout, final, sig, c_int(par.value)) == 1, "extract_adaptor failed")
        env.require(tout.raw == t32, "extract_adaptor(adapt(pre, t)) != t (parity %d)" % par.value, lib=tout.raw.hex())
        again = ob(64)
        env.require(d.secp256k1_musig_adapt(ctx, again, sig, tout, c_int(par.value)) == 1 and again.raw == final.raw, "adapt(pre, extract(sig, pre)) != sig")
        # the wrong parity must give a different (invalid) signature unless t = -t
        wrong = ob(64)
        d.secp256k1_musig_adapt(ctx, wrong, sig, t32, c_int(1 - par.value))
        env.require(wrong.raw == M.adapt(sigref, t32, 1 - rs.nonce_parity()), "adapt with the other parity differs from the reference")
    env.require(lib.illegal() == 0 and lib.errors() == 0, "a callback fired during a session that uses only valid arguments: " + lib.cbmsg())

    classes.append("n=%s" % (n if n <= 4 else ("5-8" if n <= 8 else "9-16")))
    classes.append("shape:" + case["shape"])
    opt_absent = any(c.startswith("opt_absent") for c in classes)
    nontrivial = n >= 2 and (("dup_keys" in classes) or nt_tweak or crafted is not None or T is not None or opt_absent)
    return nontrivial, sorted(set(classes))


TESTS = [
    Test("session", session_case, run_session, quick=4000, thorough=40000, max_workers=12,
         must_cover=["offset:odd", "offset:even", "R_inf_G", "xonly_on_odd", "gacc_neg_final", "counter_hi", "second_key_late", "dup_keys", "adaptor", "parity0", "parity1",
                     "inf:first", "inf:second", "inf:both", "aggnonce_R1_inf", "aggnonce_R2_inf", "opt_absent:seckey", "opt_absent:msg", "opt_absent:cache",
                     "opt_absent:extra", "nonce_cache_after_tweak", "nonce_before_keyagg", "sorted", "adapted_valid_parity0", "adapted_valid_parity1",
                     "bad_tweak:neg_cur", "final_valid", "cross:key:reject", "cross:msg:reject", "n=9-16", "tweaked_final_odd"]),
]
