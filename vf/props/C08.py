"""C08 — Pedersen commitments are the stated group elements and tally exactly; generator derivation; commitment / generator encodings."""
import ctypes
from ctypes import c_size_t, c_uint64, c_void_p

from hypothesis import strategies as st

from pyref import ec, pedersen as PD, surjection as SJ
from vf import gens
from vf.core import Test
from vf.lib import buf, ptr_array

RULE = ("cases: (a) commit(b, v, H) with b from the 256-bit edge set (0, n-1, >= n, -v*k for a generator k*G so that the point is infinity), v from the 64-bit edge set, "
        "H from {generator_h, generate(seed), generate_blinded(seed, r incl. r >= n), parse(bytes) of k*G / small-x points}; every generator is compared with the "
        "reference derivation (SvdW two-hash sum, + r*G; also against generate -> pubkey -> ec_pubkey_tweak_add as the header states) and every commitment with enc(b*G + v*H); "
        "(b) blind_sum / blind_generator_blind_sum on edge scalar lists (some >= n) against the reference scalar, also with ALIASED buffers (blind_out is blinds[i] -- the in-place "
        "running total --, two entries share one buffer, the in/out last blinding factor is also another blinding factor / a generator blind): same result as with separate buffers; "
        "(c) tallies of 0..32 positive and 0..32 negative commitments over 1..4 generators (incl. H and -H, duplicates, known-dlog generators), value-balanced per generator "
        "by construction, last blinding factor from the library's own helper, then optionally perturbed (one unit of one value, entry dropped / duplicated / moved, blinding "
        "factor changed), plus parsed raw commitments (P, -P); one-sided lists that sum to infinity on their own (b / n-b with value 0, H / -H with equal values, three-term "
        "combinations) with the empty side given as a pointer to nothing and as NULL; asset-blinded variant through blind_generator_blind_sum; oracle = the reference sum of the points is infinity; "
        "(d) parser grids: every prefix byte 0..255 x {boundary, small, x+p, on-curve (x of k*G), hash-derived} x for both 33-byte parsers (one case = one x = 512 strings), accepted "
        "objects are used (commit / tally) so that the sign convention is observed and not only re-serialised. "
        "non-trivial = edge b or v, generator other than h, >= 2 generators, an empty side, a perturbed list, or a grid x")
ASSUMPTIONS = ["pyref.ec / pyref.pedersen (SvdW map per Fouque-Tibouchi, two-hash derivation, QR-y encodings per DESIGN Appendix A) are correct; validated by selftests and by agreement on every generated case",
               "the y coordinate of secp256k1_generator_h is read from the library through generator_serialize (its x is checked to be SHA256(uncompressed G))",
               "objects given to commit / tally come from successful constructors or parsers; counts are passed as documented (blind_generator_blind_sum with n_total > n_inputs)"]

N, P = ec.N, ec.P
U64 = (1 << 64) - 1


# ------------------------------------------------------------------ library access
def setup(env):
    c = env.cache
    if "h_ptr" not in c:
        d = env.lib.dll
        c["h_ptr"] = c_void_p(c_void_p.in_dll(d, "secp256k1_generator_h").value)
        out = buf(33)
        d.secp256k1_generator_serialize(env.lib.ctx, out, c["h_ptr"])
        c["h_ser"] = out.raw
        c["h_pt"] = PD.dec_qr(out.raw, 10)
    return c


def gen_serialize(env, g):
    out = buf(33)
    r = env.lib.dll.secp256k1_generator_serialize(env.lib.ctx, out, g)
    return out.raw if r == 1 else None


def gen_parse(env, b33):
    g = buf(64)
    r = env.lib.dll.secp256k1_generator_parse(env.lib.ctx, g, buf(33, b33))
    return r, g


def commitment_parse(env, b33):
    c = buf(64)
    r = env.lib.dll.secp256k1_pedersen_commitment_parse(env.lib.ctx, c, buf(33, b33))
    return r, c


def commitment_serialize(env, c):
    out = buf(33)
    r = env.lib.dll.secp256k1_pedersen_commitment_serialize(env.lib.ctx, out, c)
    return out.raw if r == 1 else None


def lib_commit(env, b, v, g):
    c = buf(64)
    r = env.lib.dll.secp256k1_pedersen_commit(env.lib.ctx, c, ec.i2b(b), c_uint64(v), g)
    return r, c


# verify_tally with an EMPTY side given as NULL: the header prose allows it ("cannot be NULL if pcnt is non-zero"), the implementation checks exactly that
# (ARG_CHECK(!pcnt || commits != NULL)) and the repository's own API test calls it this way (generator/tests_impl.h: verify_tally(CTX, NULL, 0, &p, 1), (NULL, 0, NULL, 0));
# only the SECP256K1_ARG_NONNULL(2)/(4) attributes of the prototype disagree (they are caller-side compiler hints, empty while the library itself is built).
# Set to False to never pass NULL (then the class null_empty_side is not required either).
NULL_EMPTY_SIDE = True


def lib_tally(env, pos, neg, null_empty=False):
    pa = None if (null_empty and NULL_EMPTY_SIDE and not pos) else ptr_array(pos)
    na = None if (null_empty and NULL_EMPTY_SIDE and not neg) else ptr_array(neg)
    return env.lib.dll.secp256k1_pedersen_verify_tally(env.lib.ctx, pa, c_size_t(len(pos)), na, c_size_t(len(neg)))


def _alias_bufs(values, same):
    """one 32-byte buffer per entry, except that the entries listed in `same` (pairs (j, i)) share entry i's buffer"""
    bufs = [buf(32, ec.i2b(b)) for b in values]
    for j, i in same:
        bufs[j] = bufs[i]
    return bufs


def lib_blind_sum(env, blinds, npos, out_alias=None, same=()):
    """out_alias = i: blind_out IS the buffer of blinds[i] (in-place running total); same: pairs of entries sharing one buffer"""
    bufs = _alias_bufs(blinds, same)
    out = bufs[out_alias] if out_alias is not None else buf(32, b"\xaa" * 32)
    r = env.lib.dll.secp256k1_pedersen_blind_sum(env.lib.ctx, out, ptr_array(bufs), c_size_t(len(bufs)), c_size_t(npos))
    return r, out.raw


def lib_bgbs(env, vals, rs, rps, n_inputs, last_is_rp=None, last_is_r=None, same_r=()):
    """last_is_rp = j: blinding_factor[j] is the same buffer as the in/out last blinding factor; last_is_r = j: generator_blind[j] is that buffer"""
    n = len(vals)
    varr = (c_uint64 * n)(*vals)
    rb = _alias_bufs(rs, same_r)
    pb = [buf(32, ec.i2b(x)) for x in rps]
    if last_is_rp is not None:
        pb[last_is_rp] = pb[-1]
    if last_is_r is not None:
        rb[last_is_r] = pb[-1]
    r = env.lib.dll.secp256k1_pedersen_blind_generator_blind_sum(env.lib.ctx, varr, ptr_array(rb), ptr_array(pb), c_size_t(n), c_size_t(n_inputs))
    return r, [x.raw for x in pb], [x.raw for x in rb]


def small_curve_x(x):
    """the first x' >= x such that x'^3 + 7 is a square"""
    while PD.qr_root((x * x * x + 7) % P) is None:
        x += 1
    return x


def make_generator(env, spec, check=True):
    """-> (object or None, reference point or None, label).  Every successful construction is compared with the reference."""
    lib, d = env.lib, env.lib.dll
    c = setup(env)
    k = spec["k"]
    if k == "h":
        env.require(c["h_pt"] is not None and c["h_pt"][0] == ec.b2i(ec.sha256(ec.ser65(ec.G))) and c["h_ser"][0] in (10, 11),
                    "secp256k1_generator_h is not the documented point (x = SHA256 of uncompressed G)")
        return c["h_ptr"], c["h_pt"], "h"
    if k in ("seed", "blinded"):
        seed = bytes.fromhex(spec["seed"])
        g = buf(64)
        if k == "seed":
            r = d.secp256k1_generator_generate(lib.ctx, g, seed)
            ref = PD.generate(seed)
        else:
            r = d.secp256k1_generator_generate_blinded(lib.ctx, g, seed, ec.i2b(spec["r"]))
            ref = PD.generate(seed, spec["r"])
        env.require((r == 1) == (ref is not None), "generator_generate%s returned %d, documented: fails only for an unacceptable seed%s"
                    % ("_blinded" if k == "blinded" else "", r, " or blind >= n" if k == "blinded" else ""), spec=spec)
        if r != 1:
            return None, None, k + "_refused"
        if check:
            ser = gen_serialize(env, g)
            env.require(ser == PD.enc_qr(ref, 10), "generator derivation differs from the specified map (SvdW two-hash sum%s)" % (" + r*G" if k == "blinded" else ""),
                        spec=spec, lib=ser, ref=PD.enc_qr(ref, 10))
            g2 = buf(64, b"\x55" * 64)
            if k == "seed":
                d.secp256k1_generator_generate(lib.ctx, g2, seed)
            else:
                d.secp256k1_generator_generate_blinded(lib.ctx, g2, seed, ec.i2b(spec["r"]))
            env.require(gen_serialize(env, g2) == ser, "generator derivation is not deterministic", spec=spec)
        return g, ref, k
    if k == "parsed_mul":
        pt = ec.mulg(spec["m"])
        if spec.get("neg"):
            pt = ec.neg(pt)
    elif k == "parsed_x":
        x = small_curve_x(spec["x"])
        pt = PD.dec_qr(bytes([10 + spec.get("flag", 0)]) + ec.i2b(x), 10)
    elif k == "neg_of":          # resolved by the caller (tally): the negation of another generator
        pt = spec["pt"]
    else:
        raise ValueError(k)
    enc = PD.enc_qr(pt, 10)
    r, g = gen_parse(env, enc)
    env.require(r == 1, "generator_parse rejected a canonical encoding of a curve point", enc=enc)
    if check:
        env.require(gen_serialize(env, g) == enc, "generator_serialize(generator_parse(s)) != s", enc=enc)
    return g, pt, k


# ------------------------------------------------------------------ strategies
seed32 = st.one_of(gens.hexbytes(32), st.sampled_from([bytes(32).hex(), (b"\xff" * 32).hex(), (b"\x01" * 32).hex()]))
blind_valid = st.one_of(st.sampled_from([0, 1, 2, N - 1, N - 2, (N - 1) // 2]), gens.u256_edge.map(lambda v: v % N), st.integers(0, N - 1))
blind_big = st.one_of(st.sampled_from([N, N + 1, N + 2, P - 1, P, gens.M256, gens.M256 - 1, 1 << 255]), st.integers(N, gens.M256),
                      gens.u256_edge.filter(lambda x: x >= N))
value_st = st.one_of(gens.u64_edge, st.sampled_from([0, 1, 2, (1 << 63) - 1, 1 << 63, (1 << 63) + 1, U64 - 1, U64, 1 << 32, 10 ** 18]), st.integers(1, 20),
                     st.integers(1, U64), st.integers(1 << 62, U64), st.sampled_from([0, 1 << 63, U64]))


@st.composite
def gen_spec(draw, allow_refused=True, kinds=("h", "seed", "blinded", "parsed_mul", "parsed_x")):
    k = draw(st.sampled_from(kinds))
    if k == "h":
        return {"k": "h"}
    if k == "seed":
        return {"k": "seed", "seed": draw(seed32)}
    if k == "blinded":
        return {"k": "blinded", "seed": draw(seed32), "r": draw(st.one_of(blind_valid, blind_valid, blind_valid, blind_big) if allow_refused else blind_valid)}
    if k == "parsed_mul":
        return {"k": "parsed_mul", "m": draw(st.one_of(st.integers(1, 50), gens.seckey_valid)), "neg": draw(st.booleans())}
    return {"k": "parsed_x", "x": draw(st.integers(0, 1 << 16)), "flag": draw(st.integers(0, 1))}


@st.composite
def commit_case(draw):
    mode = draw(st.sampled_from(["ok", "ok", "ok", "ok", "b_big", "cancel", "zero"]))
    v = draw(value_st)
    if mode == "cancel":
        g = draw(gen_spec(kinds=("parsed_mul",)))
        b = "cancel"            # b = -v*k for the generator k*G: the commitment point is infinity
    else:
        g = draw(gen_spec())
        b = draw(blind_big if mode == "b_big" else blind_valid)
        if mode == "zero":
            b, v = 0, 0
    return {"gen": g, "b": b, "v": v}


def vclass(v):
    return {0: "v=0", 1: "v=1", 1 << 63: "v=2^63", U64: "v=2^64-1"}.get(v, "v=hi" if v >> 63 else "v=mid")


def bclass(b):
    if b >= N:
        return "b>=n"
    return {0: "b=0", 1: "b=1", N - 1: "b=n-1"}.get(b, "b=mid")


def run_commit(env, case):
    lib, d = env.lib, env.lib.dll
    lib.reset()
    spec = case["gen"]
    g, H, label = make_generator(env, spec)
    classes = ["gen:" + label]
    if g is None:
        return True, classes
    if spec["k"] == "blinded":
        # header: "equivalent to generate, convert to a public key, ec_pubkey_tweak_add, convert back"
        base = PD.generate(bytes.fromhex(spec["seed"]))
        pk = lib.pubkey_from_point(base)
        rt = d.secp256k1_ec_pubkey_tweak_add(lib.ctx, pk, ec.i2b(spec["r"]))
        if rt == 1:
            env.require(lib.point_of_pubkey(pk) == H, "generate_blinded differs from generate + ec_pubkey_tweak_add", spec=spec)
            classes.append("tweak_add_equiv")
    v = case["v"]
    b = case["b"]
    if b == "cancel":
        m = spec["m"] if not spec.get("neg") else N - spec["m"]
        b = (-v * m) % N
        classes.append("cancel")
    r, c = lib_commit(env, b, v, g)
    exp = PD.commit(b, v, H)
    classes += [bclass(b), vclass(v)]
    env.require((r == 1) == (exp is not None),
                "pedersen_commit returned %d; specified: fails exactly when b >= n or b*G + v*H is infinity (%s)" % (r, "must fail" if exp is None else "must succeed"),
                b=hex(b), v=v, gen=spec)
    if r == 1:
        ser = commitment_serialize(env, c)
        env.require(ser == exp, "commitment is not the encoding of b*G + v*H", b=hex(b), v=v, gen=spec, lib=ser, ref=exp)
        rp, c2 = commitment_parse(env, ser)
        env.require(rp == 1 and commitment_serialize(env, c2) == ser, "commitment does not round-trip through parse / serialize", ser=ser)
        classes.append("ok")
    else:
        classes.append("refused_inf" if b < N else "refused_b")
    env.require(lib.illegal() == 0 and lib.errors() == 0, "callback fired: " + lib.cbmsg())
    nt = label != "h" or bclass(b) != "b=mid" or vclass(v) != "v=mid"
    return nt, classes


# ---- blind sums
@st.composite
def blindsum_case(draw):
    """mostly valid lists; in about 40 % of the cases ONE position carries a scalar >= n (so that a dropped range check is visible at every position);
    in about 40 % of the cases buffers ALIAS: the output is one of the inputs (in-place running total), or two inputs are one buffer"""
    kind = draw(st.sampled_from(["sum", "bgbs"]))
    bad = draw(st.sampled_from([False, False, False, True, True]))
    al = draw(st.sampled_from([None, None, None, "out_in", "out_in", "in_in"]))
    if kind == "sum":
        n = draw(st.one_of(st.integers(0, 6), st.integers(0, 33)))
        bl = [draw(blind_valid) for _ in range(n)]
        if bad and n:
            bl[draw(st.integers(0, n - 1))] = draw(blind_big)
        case = {"kind": "sum", "blinds": bl, "npos": draw(st.integers(0, n))}
        if al == "out_in" and n:
            case["alias"] = {"kind": "out_in", "i": draw(st.sampled_from([0, n - 1, max(0, case["npos"] - 1), min(n - 1, case["npos"]), draw(st.integers(0, n - 1))]))}
        elif al == "in_in" and n >= 2:
            case["alias"] = {"kind": "in_in", "i": draw(st.integers(0, n - 1)), "j": draw(st.integers(0, n - 1))}
        return case
    n = draw(st.one_of(st.integers(1, 5), st.integers(1, 33)))
    case = {"kind": "bgbs", "vals": [draw(value_st) for _ in range(n)], "rs": [draw(blind_valid) for _ in range(n)], "rps": [draw(blind_valid) for _ in range(n)],
            "nin": draw(st.integers(0, n - 1))}
    if bad:
        case[draw(st.sampled_from(["rs", "rps"]))][draw(st.sampled_from([0, n - 1, draw(st.integers(0, n - 1))]))] = draw(blind_big)
    if al == "out_in":
        # the in/out last blinding factor shares its buffer with another blinding factor or with a generator blind
        if n >= 2 and draw(st.booleans()):
            case["alias"] = {"kind": "last_rp", "j": draw(st.integers(0, n - 2))}
        else:
            case["alias"] = {"kind": "last_r", "j": draw(st.sampled_from([0, n - 1, draw(st.integers(0, n - 1))]))}
    elif al == "in_in" and n >= 2:
        case["alias"] = {"kind": "in_in", "i": draw(st.integers(0, n - 1)), "j": draw(st.integers(0, n - 1))}
    return case


def run_blindsum(env, case):
    lib = env.lib
    lib.reset()
    al = case.get("alias")
    classes = []
    if case["kind"] == "sum":
        bl = list(case["blinds"])
        kw = {}
        if al and al["kind"] == "out_in":
            kw["out_alias"] = al["i"]
            classes.append("alias:out_in")
            classes.append("alias_out_pos" if al["i"] < case["npos"] else "alias_out_neg")
        elif al and al["kind"] == "in_in" and al["i"] != al["j"]:
            bl[al["j"]] = bl[al["i"]]          # one buffer, hence one value
            kw["same"] = [(al["j"], al["i"])]
            classes.append("alias:in_in")
        r, out = lib_blind_sum(env, bl, case["npos"], **kw)
        ref = PD.blind_sum(bl, case["npos"])
        env.require((r == 1) == (ref is not None), "pedersen_blind_sum returned %d; specified: fails exactly when a blinding factor is >= n" % r, blinds=[hex(x) for x in bl], alias=al)
        if r == 1:
            env.require(out == ec.i2b(ref), "pedersen_blind_sum result differs from sum(+)-sum(-) mod n%s" % (" when buffers alias (in-place use gives another result than separate buffers)" if kw else ""),
                        blinds=[hex(x) for x in bl], npos=case["npos"], alias=al, lib=out, ref=hex(ref))
        classes += ["sum", "sum_ok" if r else "sum_overflow", "n=0" if not bl else "n>0"]
        if case["npos"] in (0, len(bl)):
            classes.append("one_sided")
    else:
        vals, rs, rps, nin = case["vals"], list(case["rs"]), list(case["rps"]), case["nin"]
        kw = {}
        if al and al["kind"] == "last_rp":
            rps[al["j"]] = rps[-1]
            kw["last_is_rp"] = al["j"]
            classes += ["alias:out_in", "alias:bgbs_last_rp"]
        elif al and al["kind"] == "last_r":
            rs[al["j"]] = rps[-1]
            kw["last_is_r"] = al["j"]
            classes += ["alias:out_in", "alias:bgbs_last_r"]
        elif al and al["kind"] == "in_in" and al["i"] != al["j"]:
            rs[al["j"]] = rs[al["i"]]
            kw["same_r"] = [(al["j"], al["i"])]
            classes.append("alias:in_in")
        r, outs, routs = lib_bgbs(env, vals, rs, rps, nin, **kw)
        ref = SJ.blind_generator_blind_sum(vals, rs, rps, nin)
        env.require((r == 1) == (ref is not None), "blind_generator_blind_sum returned %d; specified: fails exactly when a scalar is >= n" % r, case=case)
        if r == 1:
            env.require(outs[-1] == ec.i2b(ref), "blind_generator_blind_sum: last blinding factor is not r'_last - signed sum(v*r + r')%s" % (" when buffers alias" if kw else ""),
                        case=case, lib=outs[-1], ref=hex(ref))
            # every buffer that is not the in/out one keeps its content
            keep_p = [i for i in range(len(vals) - 1) if i != kw.get("last_is_rp")]
            keep_r = [i for i in range(len(vals)) if i != kw.get("last_is_r")]
            env.require(all(outs[i] == ec.i2b(rps[i]) for i in keep_p) and all(routs[i] == ec.i2b(rs[i]) for i in keep_r),
                        "blind_generator_blind_sum modified an input other than the last blinding factor")
        classes += ["bgbs", "bgbs_ok" if r else "bgbs_overflow"]
    env.require(lib.illegal() == 0 and lib.errors() == 0, "callback fired: " + lib.cbmsg())
    return True, classes


# ---- tallies
def derive(seedhex, tag, i, mod=N):
    return ec.b2i(ec.sha256(bytes.fromhex(seedhex) + tag + i.to_bytes(4, "big"))) % mod


@st.composite
def tally_case(draw):
    mode = draw(st.sampled_from(["plain", "plain", "plain", "asset", "asset", "one_sided"]))
    if mode == "one_sided":
        # ONE non-empty side that sums to infinity on its own; the other side is empty (a pointer to nothing, or NULL)
        v63 = st.one_of(st.integers(0, 5), st.integers(0, (1 << 63) - 1), st.sampled_from([0, 1, (1 << 63) - 1]))
        return {"mode": "one_sided", "salt": draw(gens.hexbytes(4)), "gen": draw(gen_spec(allow_refused=False)), "side": draw(st.sampled_from(["pos", "neg"])),
                "shape": draw(st.sampled_from(["pair0", "pair_negH", "triple0", "triple_negH"])), "b1": draw(gens.seckey_valid), "b2": draw(gens.seckey_valid),
                "v1": draw(v63), "v2": draw(v63), "null_empty": draw(st.booleans()), "brk": draw(st.sampled_from([None, None, None, "b+1", "drop", "v+1"])),
                "shuffle": draw(st.integers(0, 5))}
    small = st.integers(0, 12)
    cnt = st.one_of(st.integers(0, 3), st.integers(0, 10), st.sampled_from([0, 1, 16]))
    val = st.one_of(st.integers(0, 5), value_st)
    case = {"mode": mode, "salt": draw(gens.hexbytes(4))}
    if mode == "plain":
        ng = draw(st.integers(1, 4))
        gl = [draw(gen_spec(allow_refused=False, kinds=("h", "seed", "seed", "blinded", "parsed_mul", "parsed_x"))) for _ in range(ng)]
        if ng >= 2 and draw(st.integers(0, 3)) == 0:
            gl[-1] = {"k": "neg_of", "i": 0}                 # H and -H in one tally
        if ng >= 2 and draw(st.integers(0, 5)) == 0:
            gl[1] = dict(gl[0])                              # the same generator twice
        case["gens"] = gl
        for side in ("pos", "neg"):
            case[side] = [{"g": draw(st.integers(0, ng - 1)), "v": draw(val), "b": draw(blind_valid)} for _ in range(draw(cnt))]
        case["raw"] = [{"m": draw(st.integers(1, 20)), "neg": draw(st.booleans()), "side": draw(st.sampled_from(["pos", "neg"]))}
                       for _ in range(draw(st.sampled_from([0, 0, 0, 1, 2, 3])))]
        case["balance"] = draw(st.sampled_from([True, True, True, False]))
        case["complete"] = draw(st.sampled_from(["pos", "neg", "neg", "none"]))
    else:
        na = draw(st.integers(1, 3))
        case["assets"] = [draw(seed32) for _ in range(na)]
        for side in ("pos", "neg"):
            lo = 1 if side == "pos" else 0
            case[side] = [{"g": draw(st.integers(0, na - 1)), "v": draw(val), "b": draw(blind_valid), "r": draw(blind_valid)}
                          for _ in range(max(lo, draw(cnt)))]
        case["balance"] = draw(st.sampled_from([True, True, True, False]))
        case["complete"] = "bgbs"
    case["null_empty"] = draw(st.booleans())
    case["perturb"] = draw(st.one_of(st.none(), st.none(), st.fixed_dictionaries({
        "kind": st.sampled_from(["v+1", "v-1", "drop", "dup", "move", "b+1", "g_next"]), "side": st.sampled_from(["pos", "neg"]), "i": small})))
    return case


def expand_one_sided(case):
    """-> a plain-mode case whose single non-empty side cancels by itself (unless 'brk' spoils it)"""
    b1, b2, v1, v2 = case["b1"], case["b2"], case["v1"], case["v2"]
    while b2 % N == 0 or (b1 + b2) % N == 0:
        b2 = (b2 + 1) % N
    sh = case["shape"]
    if sh == "pair0":                   # b*G and (n-b)*G
        ents = [{"g": 0, "v": 0, "b": b1}, {"g": 0, "v": 0, "b": N - b1}]
    elif sh == "pair_negH":             # b*G + v*H and (n-b)*G + v*(-H)
        ents = [{"g": 0, "v": v1, "b": b1}, {"g": 1, "v": v1, "b": N - b1}]
    elif sh == "triple0":
        ents = [{"g": 0, "v": 0, "b": b1}, {"g": 0, "v": 0, "b": b2}, {"g": 0, "v": 0, "b": (-b1 - b2) % N}]
    else:                               # (v1+v2)*H against v1*(-H) and v2*(-H), blinding factors summing to zero
        ents = [{"g": 0, "v": v1 + v2, "b": b1}, {"g": 1, "v": v1, "b": b2}, {"g": 1, "v": v2, "b": (-b1 - b2) % N}]
    k = case["shuffle"] % len(ents)
    ents = ents[k:] + ents[:k]
    brk = case.get("brk")
    if brk == "b+1":
        ents[0] = dict(ents[0], b=(ents[0]["b"] + 1) % N)
    elif brk == "drop":
        ents.pop()
    elif brk == "v+1":
        ents[0] = dict(ents[0], v=ents[0]["v"] + 1)
    side, other = case["side"], ("neg" if case["side"] == "pos" else "pos")
    return {"mode": "plain", "salt": case["salt"], "gens": [case["gen"], {"k": "neg_of", "i": 0}], side: ents, other: [], "raw": [], "balance": False, "complete": "none",
            "perturb": None, "null_empty": case["null_empty"]}, brk


def balance_entries(case, keyf):
    """append entries so that for every group key the positive and the negative values have the same sum (deterministic)"""
    tot = {}
    for side, sg in (("pos", 1), ("neg", -1)):
        for e in case[side]:
            k = keyf(e)
            tot[k] = tot.get(k, [0, e["g"]])
            tot[k][0] += sg * e["v"]
    j = 0
    pos, neg = list(case["pos"]), list(case["neg"])
    for k in sorted(tot, key=repr):
        diff, g = tot[k]
        while diff != 0:
            v = min(abs(diff), U64)
            e = {"g": g, "v": v, "b": derive(case["salt"], b"bal", j), "r": derive(case["salt"], b"balr", j)}
            j += 1
            (neg if diff > 0 else pos).append(e)
            diff -= v if diff > 0 else -v
    return pos, neg


def apply_perturb(pos, neg, pt, ngroups):
    """-> label or None if not applicable"""
    lst = pos if pt["side"] == "pos" else neg
    other = neg if pt["side"] == "pos" else pos
    if not lst:
        return None
    i = pt["i"] % len(lst)
    e = dict(lst[i])
    k = pt["kind"]
    if k == "v+1" and e["v"] < U64:
        e["v"] += 1
        lst[i] = e
    elif k == "v-1" and e["v"] > 0:
        e["v"] -= 1
        lst[i] = e
    elif k == "drop":
        del lst[i]
    elif k == "dup" and len(lst) < 32:
        lst.append(e)
    elif k == "move" and len(other) < 32:
        del lst[i]
        other.append(e)
    elif k == "b+1":
        e["b"] = (e["b"] + 1) % N
        lst[i] = e
    elif k == "g_next" and ngroups > 1:
        e["g"] = (e["g"] + 1) % ngroups
        lst[i] = e
    else:
        return None
    return k


def run_tally(env, case):
    lib = env.lib
    lib.reset()
    classes = ["mode:" + case["mode"]]
    one_sided = broken = None
    if case["mode"] == "one_sided":
        one_sided = case["shape"]
        case, broken = expand_one_sided(case)
        classes.append("shape:" + one_sided)
    asset = case["mode"] == "asset"
    # ---- generators
    if not asset:
        gobjs, gpts = [], []
        for sp in case["gens"]:
            if sp["k"] == "neg_of":
                sp = {"k": "neg_of", "pt": ec.neg(gpts[sp["i"]])}
                classes.append("H_and_minus_H")
            g, pt, _ = make_generator(env, sp)
            gobjs.append(g)
            gpts.append(pt)
        ngroups = len(gobjs)
        keyf = lambda e: gpts[e["g"]]
    else:
        ngroups = len(case["assets"])
        keyf = lambda e: case["assets"][e["g"]]
    pos, neg = (balance_entries(case, keyf) if case["balance"] else (list(case["pos"]), list(case["neg"])))
    pos, neg = pos[:32], neg[:32]
    # re-check the balance after truncation (ground truth for the construction-based expectation)
    tot = {}
    for lst, sg in ((pos, 1), (neg, -1)):
        for e in lst:
            tot[repr(keyf(e))] = tot.get(repr(keyf(e)), 0) + sg * e["v"]
    balanced = all(v == 0 for v in tot.values())
    completed = False
    # ---- last blinding factor from the library's helper
    if case["complete"] in ("pos", "neg"):
        lst, oth = (pos, neg) if case["complete"] == "pos" else (neg, pos)
        if lst:
            blinds = [e["b"] for e in oth] + [e["b"] for e in lst[:-1]]
            r, out = lib_blind_sum(env, blinds, len(oth))
            ref = PD.blind_sum(blinds, len(oth))
            env.require(r == 1 and out == ec.i2b(ref), "pedersen_blind_sum wrong on valid blinding factors", blinds=[hex(x) for x in blinds], lib=out, ref=hex(ref))
            lst[-1] = dict(lst[-1], b=ref)
            completed = True
            classes.append("completed_blind_sum")
    elif case["complete"] == "bgbs":
        ents = neg + pos          # inputs (negated in the sum) first
        r, outs, _ = lib_bgbs(env, [e["v"] for e in ents], [e["r"] for e in ents], [e["b"] for e in ents], len(neg))
        ref = SJ.blind_generator_blind_sum([e["v"] for e in ents], [e["r"] for e in ents], [e["b"] for e in ents], len(neg))
        env.require(r == 1 and outs[-1] == ec.i2b(ref), "blind_generator_blind_sum wrong on valid scalars", lib=outs[-1], ref=hex(ref))
        pos[-1] = dict(pos[-1], b=ref)
        completed = True
        classes.append("completed_bgbs")
    # ---- perturbation
    pert = None
    if case["perturb"] is not None:
        pert = apply_perturb(pos, neg, case["perturb"], ngroups)
        if pert:
            classes.append("perturb:" + pert)
    # ---- commitments (library) and points (reference)
    objs = {"pos": [], "neg": []}
    pts = {"pos": [], "neg": []}
    gcache = {}
    for side, lst in (("pos", pos), ("neg", neg)):
        for e in lst:
            if asset:
                key = (e["g"], e["r"])
                if key not in gcache:
                    g, pt, _ = make_generator(env, {"k": "blinded", "seed": case["assets"][e["g"]], "r": e["r"]}, check=len(gcache) < 3)
                    gcache[key] = (g, pt)
                g, H = gcache[key]
            else:
                g, H = gobjs[e["g"]], gpts[e["g"]]
            r, c = lib_commit(env, e["b"], e["v"], g)
            cpt = PD.commit_point(e["b"], e["v"], H)
            env.require((r == 1) == (cpt is not None), "pedersen_commit verdict wrong (b < n): returned %d" % r, b=hex(e["b"]), v=e["v"])
            if r != 1:
                classes.append("inf_commit_skipped")
                continue
            env.require(commitment_serialize(env, c) == PD.enc_qr(cpt, 8), "commitment is not the encoding of b*G + v*H", b=hex(e["b"]), v=e["v"])
            objs[side].append(c)
            pts[side].append(cpt)
    nraw = 0
    for rw in case.get("raw", []):
        pt = ec.mulg(rw["m"])
        if rw["neg"]:
            pt = ec.neg(pt)
        r, c = commitment_parse(env, PD.enc_qr(pt, 8))
        env.require(r == 1, "commitment_parse rejected a canonical encoding")
        if len(objs[rw["side"]]) < 32:
            objs[rw["side"]].append(c)
            pts[rw["side"]].append(pt)
            nraw += 1
    if nraw:
        classes.append("raw_parsed")
    null_empty = bool(case.get("null_empty")) and NULL_EMPTY_SIDE
    got = lib_tally(env, objs["pos"], objs["neg"], null_empty=null_empty)
    want = PD.tally(pts["pos"], pts["neg"])
    env.require(got == (1 if want else 0), "verify_tally returned %d but the positive minus the negative commitments %s the point at infinity"
                % (got, "sum to" if want else "do not sum to"), npos=len(pts["pos"]), nneg=len(pts["neg"]), empty_side_as_null=null_empty)
    if null_empty and (not objs["pos"] or not objs["neg"]):
        classes.append("null_empty_side")
        # the empty side as a pointer to nothing must give the same verdict
        env.require(lib_tally(env, objs["pos"], objs["neg"]) == got, "verify_tally gives different verdicts for an empty side passed as NULL and as a pointer to an empty list")
    if completed and balanced and pert is None and nraw == 0 and "inf_commit_skipped" not in classes:
        env.require(got == 1, "value-balanced commitments with the helper-computed last blinding factor do not tally")
        classes.append("balanced_by_helper")
    env.require(lib.illegal() == 0 and lib.errors() == 0, "callback fired: " + lib.cbmsg())
    classes.append("tally=%d" % got)
    if one_sided:
        if broken is None and "inf_commit_skipped" not in classes:
            env.require(got == 1, "a one-sided list that sums to the point at infinity on its own does not tally (other side empty)", shape=one_sided)
            classes.append("one_sided_cancelling")
            if null_empty:
                classes.append("one_sided_cancelling_null")
        elif broken:
            classes.append("one_sided_spoiled")
    if not objs["pos"] or not objs["neg"]:
        classes.append("empty_side")
    if not objs["pos"] and not objs["neg"]:
        classes.append("both_empty")
    if ngroups >= 2:
        classes.append("multi_generator")
    if completed and pert in ("v+1", "v-1") and got == 0:
        classes.append("unbalanced_one_unit_rejected")
    if max(len(objs["pos"]), len(objs["neg"])) >= 16:
        classes.append("long_list")
    nt = ngroups >= 2 or not objs["pos"] or not objs["neg"] or pert is not None or nraw > 0
    return nt, classes


# ---- parser grids
BOUNDARY_X = sorted(set(
    list(range(0, 8)) + [P - i for i in range(1, 9)] + [P + i for i in range(0, 6)] + [gens.M256, gens.M256 - 1, N, N - 1, N + 1, 1 << 255, (1 << 255) - 1,
                                                                                         1 << 128, (P - 1) // 2, (P + 1) // 2, (1 << 32) + 976, (1 << 32) + 977, P - N, ec.BETA, ec.GX]))


def grid_xs(tier):
    small, nk, nh = (1500, 800, 2500) if tier == "quick" else (20000, 8000, 40000)
    out = [("boundary", x, None) for x in BOUNDARY_X]
    out += [("small", x, None) for x in range(8, small)]
    # tiny on-curve x re-encoded as x + p (fits in 32 bytes only for x < 2^32 + 977): must be rejected
    cnt, x = 0, 0
    while cnt < (150 if tier == "quick" else 1500):
        x = small_curve_x(x)
        out.append(("x_plus_p", x + P, None))
        x += 1
        cnt += 1
    out += [("kG", None, k) for k in range(1, nk + 1)]
    out += [("kG", None, N - k) for k in (1, 2, 3)] + [("kG", None, ec.LAMBDA)]
    out += [("hash", ec.b2i(ec.sha256(b"C08 grid x" + i.to_bytes(4, "big"))), None) for i in range(nh)]
    return out


def parse_grid(tier, shard, nshards):
    for i, (kind, x, k) in enumerate(grid_xs(tier)):
        if i % nshards != shard:
            continue
        yield {"kind": kind, "x": ("%064x" % x) if x is not None else None, "k": k}


def run_grid(env, case):
    lib, d = env.lib, env.lib.dll
    c = setup(env)
    lib.reset()
    k = case.get("k")
    if case["x"] is None:
        kpt = ec.mulg(k)
        x = kpt[0]
    else:
        kpt = None
        x = int(case["x"], 16)
    xb = ec.i2b(x)
    on_curve = x < P and PD.qr_root((x * x * x + 7) % P) is not None
    classes = [case["kind"], "on_curve" if on_curve else ("x>=p" if x >= P else "off_curve")]
    cobj = {}
    g = buf(64)
    cm = buf(64)
    inp = buf(33)
    out = buf(33)
    for prefix in range(256):
        s = bytes([prefix]) + xb
        ctypes.memmove(inp, s, 33)
        rg = d.secp256k1_generator_parse(lib.ctx, g, inp)
        rc = d.secp256k1_pedersen_commitment_parse(lib.ctx, cm, inp)
        eg = 1 if (on_curve and prefix in (10, 11)) else 0
        ecm = 1 if (on_curve and prefix in (8, 9)) else 0
        if rg != eg:
            env.fail("generator_parse returned %d for prefix %d, x %s (%s); canonical = prefix 10/11, x < p, on curve" % (rg, prefix, classes[1], "must accept" if eg else "must reject"), s=s)
        if rc != ecm:
            env.fail("pedersen_commitment_parse returned %d for prefix %d, x %s (%s); canonical = prefix 8/9, x < p, on curve" % (rc, prefix, classes[1], "must accept" if ecm else "must reject"), s=s)
        if rg == 1:
            d.secp256k1_generator_serialize(lib.ctx, out, g)
            env.require(out.raw == s, "generator_serialize(generator_parse(s)) != s", s=s, got=out.raw)
            # observe the sign convention through use: 1*G + 1*H
            H = PD.dec_qr(s, 10)
            r, c1 = lib_commit(env, 1, 1, g)
            exp = PD.commit(1, 1, H)
            env.require((r == 1) == (exp is not None) and (r != 1 or commitment_serialize(env, c1) == exp),
                        "parsed generator does not denote the point its encoding specifies (commit(1,1,H) differs)", s=s)
        if rc == 1:
            d.secp256k1_pedersen_commitment_serialize(lib.ctx, out, cm)
            env.require(out.raw == s, "commitment_serialize(commitment_parse(s)) != s", s=s, got=out.raw)
            cobj[prefix] = buf(64, cm.raw)
    if on_curve:
        env.require(lib_tally(env, [cobj[8], cobj[9]], []) == 1, "commitments (8,x) and (9,x) are not negatives of each other", x=xb)
        env.require(lib_tally(env, [cobj[8]], [cobj[8]]) == 1 and lib_tally(env, [cobj[9]], [cobj[8]]) == 0, "tally of a parsed commitment against itself / its negative wrong", x=xb)
        if kpt is not None:
            # which of +-k*G does prefix 8 denote?  pin the sign against a commitment made from the discrete logarithm
            sq = PD.dec_qr(bytes([8]) + xb, 8)
            kk = k if sq == kpt else N - k
            r, ck = lib_commit(env, kk, 0, c["h_ptr"])
            env.require(r == 1 and lib_tally(env, [cobj[8]], [ck]) == 1 and lib_tally(env, [cobj[9]], [ck]) == 0 and lib_tally(env, [cobj[9], ck], []) == 1,
                        "sign convention of parsed commitments: prefix 8 must denote the point whose y is a square", x=xb, k=k)
            classes.append("sign_pinned")
    env.require(lib.illegal() == 0 and lib.errors() == 0, "callback fired in a parser: " + lib.cbmsg())
    return True, classes


_CFG = {"quick": ["prod", "vsan"], "thorough": ["prod", "vsan"]}
TESTS = [
    Test("commit", commit_case, run_commit, quick=3000, thorough=60000, cfgs=_CFG, max_workers=6,
         must_cover=["gen:h", "gen:seed", "gen:blinded", "gen:blinded_refused", "gen:parsed_mul", "gen:parsed_x", "b>=n", "b=0", "b=n-1", "v=0", "v=2^63", "v=2^64-1",
                     "cancel", "refused_inf", "refused_b", "ok", "tweak_add_equiv"]),
    Test("blind_sums", blindsum_case, run_blindsum, quick=2400, thorough=40000, cfgs=_CFG, max_workers=6,
         must_cover=["sum_ok", "sum_overflow", "bgbs_ok", "bgbs_overflow", "n=0", "one_sided", "alias:out_in", "alias:in_in", "alias_out_pos", "alias_out_neg",
                     "alias:bgbs_last_rp", "alias:bgbs_last_r"]),
    Test("commit_cfg", commit_case, run_commit, quick=500, thorough=4000, max_workers=3,
         cfgs={"quick": ["int64", "struct"], "thorough": ["int64", "struct", "noasm"]}, must_cover=["ok", "refused_b"]),
    Test("blind_sums_cfg", blindsum_case, run_blindsum, quick=600, thorough=4000, max_workers=3,
         cfgs={"quick": ["int64", "struct"], "thorough": ["int64", "struct", "noasm"]}, must_cover=["sum_ok", "sum_overflow", "bgbs_ok"]),
    Test("tally", tally_case, run_tally, quick=1500, thorough=30000, cfgs=_CFG, max_workers=8,
         must_cover=["tally=1", "tally=0", "balanced_by_helper", "completed_blind_sum", "completed_bgbs", "empty_side", "both_empty", "multi_generator",
                     "unbalanced_one_unit_rejected", "raw_parsed", "H_and_minus_H", "long_list", "perturb:drop", "perturb:b+1",
                     "one_sided_cancelling", "one_sided_spoiled", "shape:pair0", "shape:pair_negH", "shape:triple0", "shape:triple_negH"]
         + (["null_empty_side", "one_sided_cancelling_null"] if NULL_EMPTY_SIDE else [])),
    Test("parse_grid", parse_grid, run_grid, kind="enum", cfgs=_CFG, max_workers=4,
         must_cover=["on_curve", "off_curve", "x>=p", "x_plus_p", "sign_pinned", "boundary"]),
]
