"""C14 — ECDSA adaptor signatures are consistent end-to-end and verified exactly."""
import ctypes
from ctypes import c_void_p, c_int, c_size_t, cast

from hypothesis import strategies as st

from pyref import ec, ecdsa, adaptor as A
from vf import gens
from vf.core import Test
from vf.lib import buf, NONCEFN_ADAPTOR

RULE = ("cases: (a) pipelines encrypt -> verify -> decrypt -> ecdsa_verify -> recover (from the signature and its n-s twin) over edge-biased signing / decryption keys "
        "(1, n-1, ...), messages incl. 0 and >= n, nonce source in {NULL, exported default, +-aux, Python callback +-aux, callback with chosen (edge) nonces, callback failing "
        "on the first / on the DLEQ call}, plus recovery from unrelated / other-r / other-s / s=0 / r=0 signatures, the endomorphism twists (r, +-s*lambda^j) and lambda^j*(+-Y), and wrong or negated encryption keys, decryption with "
        "zero / out-of-range / foreign keys; (b) 162-byte candidates: library-made, reference-made with chosen nonces, with chosen small s' (message solved for; gives the "
        "s'+n twin), with R chosen by x-coordinate (x = n, x in [n,p), tiny x; encryption key solved for), then mutated: bit flips, every scalar field -> 0/n/n+1/2^256-1/"
        "v+n/n-v/v+-1, points -> negation / endomorphism images (beta^j x, +-y) / off-curve / other on-curve x / x >= p / prefix byte, scalars * +-lambda^j, R<->R' swap, other / negated / lambda-multiplied key, message bit flip / +-n alias; verdict of "
        "adaptor_verify == pyref.adaptor.verify for every candidate; (c) ALL 1296 single-bit flips of sampled signatures, each decided by the reference; (d) builds with a group "
        "of order 13 / 199: honest signature verifies, decrypts and recovers, re-encodings s'+k*order and s_dleq+k*order are rejected (the challenge e is reduced by design and "
        "not asserted).  non-trivial = boundary key / message, non-default nonce source, or a candidate that is not an unmodified library signature")
ASSUMPTIONS = ["pyref.adaptor is a correct reading of the DLC specification and the module header (it reproduces the DLC specification's test vectors 0-5, 9, 10 and "
               "agreed byte-for-byte with the library's encryption for caller-supplied nonces when it was frozen)",
               "public keys handed to the API are valid objects made by the library's own parser",
               "the DLEQ challenge e is compared modulo n (documented non-assertion, DESIGN section 5)"]

N, P = ec.N, ec.P
M256 = gens.M256
ZERO162 = bytes(162)
LAM, BETA = ec.LAMBDA, ec.BETA        # lambda*(x, y) = (beta*x, y); lambda^3 = 1 mod n, beta^3 = 1 mod p


def lam_scalar(v, j, negate=False):
    """v * lambda^j mod n (j = 1, 2; lambda^-1 = lambda^2), optionally negated: the 'algebraically related wrong values' of a scalar."""
    w = v * pow(LAM, j, N) % N
    return (N - w) % N if negate else w


def beta_point(pt, j, negate=False):
    """lambda^j * pt = (beta^j * x, y), optionally negated: same y^2, different x."""
    q = (pt[0] * pow(BETA, j, P) % P, pt[1])
    return ec.neg(q) if negate else q


# ------------------------------------------------------------------ ctypes helpers
def default_noncefp(lib):
    return cast(c_void_p.in_dll(lib.dll, "secp256k1_nonce_function_ecdsa_adaptor"), c_void_p)


class NonceSource:
    """A Python nonce callback.  mode: 'hash' (hash of all inputs), 'fixed' (caller-chosen 32-byte strings), 'fail' (first call), 'fail_dleq'."""

    def __init__(self, mode, k32=None, k2_32=None):
        self.mode = mode
        self.k32, self.k2_32 = k32, k2_32
        self.calls = []
        self.error = None
        self.fn = NONCEFN_ADAPTOR(self._cb)

    def _cb(self, nonce32, msg32, key32, pk33, algo, algolen, data):
        try:
            a = ctypes.string_at(algo, algolen) if algo else b""
            self.calls.append(a)
            if self.mode == "fail" or (self.mode == "fail_dleq" and a == b"DLEQ"):
                return 0
            if self.mode == "fixed":
                out = self.k2_32 if a == b"DLEQ" else self.k32
            else:
                aux = ctypes.string_at(data, 32) if data else b""
                out = ec.sha256(b"vf-C14" + ctypes.string_at(key32, 32) + ctypes.string_at(pk33, 33) + ctypes.string_at(msg32, 32) + a + aux)
            ctypes.memmove(nonce32, out, 32)
            return 1
        except Exception as e:      # must not propagate through C
            self.error = repr(e)
            return 0


def lib_encrypt(env, x32, Ypk, msg32, noncefp, ndata):
    out = buf(162, b"\xAA" * 162)
    sk = buf(32, x32)
    r = env.lib.dll.secp256k1_ecdsa_adaptor_encrypt(env.lib.ctx, out, sk, Ypk, bytes(msg32), noncefp, ndata)
    if sk.raw != bytes(x32):
        raise RuntimeError("harness: seckey buffer unexpectedly modified")  # the parameter is not const; it is not documented as an output
    return r, out.raw


def lib_verify(env, b162, Xpk, msg32, Ypk):
    return env.lib.dll.secp256k1_ecdsa_adaptor_verify(env.lib.ctx, buf(162, b162), Xpk, bytes(msg32), Ypk)


def lib_decrypt(env, y32, b162):
    sig = buf(64, b"\xAA" * 64)
    r = env.lib.dll.secp256k1_ecdsa_adaptor_decrypt(env.lib.ctx, sig, bytes(y32), buf(162, b162))
    return r, sig


def lib_recover(env, sig, b162, Ypk):
    out = buf(32, b"\xAA" * 32)
    r = env.lib.dll.secp256k1_ecdsa_adaptor_recover(env.lib.ctx, out, sig, buf(162, b162), Ypk)
    return r, ec.b2i(out.raw)


def compact(env, sig):
    c = env.lib.sig_serialize_compact(sig)
    return ec.b2i(c[:32]), ec.b2i(c[32:])


def sig_obj(env, r, s):
    rr, sig = env.lib.sig_parse_compact(ec.i2b(r) + ec.i2b(s))
    return sig if rr == 1 else None


def no_callbacks(env, where):
    env.require(env.lib.illegal() == 0 and env.lib.errors() == 0, "callback fired in %s: %s" % (where, env.lib.cbmsg()))


def edge_key(v):
    return v in (1, 2, 3, N - 1, N - 2, (N - 1) // 2, (N + 1) // 2) or v < (1 << 32) or N - v < (1 << 32)


# ------------------------------------------------------------------ decrypt / recover oracle for a VALID adaptor signature
def check_decrypt_recover(env, b, X, msg32, Y, y, classes, extra=None, lam=0):
    """b passes the reference verification for (X, msg32, Y) and y*G == Y."""
    lib = env.lib
    Xpk, Ypk = lib.pubkey_from_point(X), lib.pubkey_from_point(Y)
    rd, sig = lib_decrypt(env, ec.i2b(y), b)
    env.require(rd == 1, "decrypt failed on a valid adaptor signature with the right decryption key")
    r, s = compact(env, sig)
    env.require((r, s) == A.decrypt(b, y), "decrypted signature differs from s = s'/y (low-S) of the specification", got="%064x%064x" % (r, s))
    env.require(s <= ec.HALF_N, "decrypted signature is not low-S")
    env.require(ecdsa.verify(r, s, msg32, X), "reference ECDSA rejects the decrypted signature (oracle inconsistency)")
    env.require(lib.ecdsa_verify(sig, msg32, Xpk) == 1, "ecdsa_verify rejects the decrypted signature")
    rr, got = lib_recover(env, sig, b, Ypk)
    env.require(rr == 1 and got == y, "recover from the decrypted signature does not return the decryption key", ret=rr, got="%064x" % got)
    twin = sig_obj(env, r, N - s)
    rr, got = lib_recover(env, twin, b, Ypk)
    env.require(rr == 1 and got == y, "recover from the negated-s twin does not return the decryption key", ret=rr, got="%064x" % got)
    classes.append("recover_twin")
    # algebraically related wrong values (endomorphism images): signatures (r, +-s*lambda^j) make s^-1 s' = +-lambda^-j y, whose point has the same y^2 as Y but
    # another x; encryption keys lambda^j (+-Y) likewise.  The specification compares the points: refuse.
    j, ng = 1 + (lam & 1), bool(lam & 2)
    extra = list(extra or []) + [("lambda_s", (j, ng)), ("enckey_lambda", (j, ng)), ("lambda_s", (3 - j, not ng))]
    for kind, a in extra:
        # signature variants
        rv, sv, Yv = r, s, Y
        if kind == "unrelated":
            r2, s2 = lib.ecdsa_sign(ec.i2b(a | 1), ec.i2b((y % (N - 1)) + 1))
            rv, sv = compact(env, s2)
        elif kind == "other_r":
            rv = (r + 1 + a) % N
        elif kind == "other_s":
            sv = (s + 1 + a) % N
        elif kind == "s_zero":
            sv = 0
        elif kind == "r_zero":
            rv = 0
        elif kind == "swap_rs":
            rv, sv = s, r
        elif kind == "other_adaptor":
            # the completed signature of ANOTHER adaptor signature (same keys, other message)
            m2 = ec.i2b(a)
            e2, b2 = lib_encrypt(env, ec.i2b(2), Ypk, m2, None, None)
            if e2 == 1:
                rv, sv = A.decrypt(b2, y)
        elif kind == "enckey_neg":
            Yv = ec.neg(Y)
        elif kind == "enckey_other":
            Yv = ec.mulg((y + 1 + a) % N or 1)
        elif kind == "enckey_neg_twin":
            Yv, sv = ec.neg(Y), N - s
        elif kind == "lambda_s":
            sv = lam_scalar(s, a[0], a[1])
        elif kind == "enckey_lambda":
            Yv = beta_point(Y, a[0], a[1])
        so = sig_obj(env, rv, sv)
        if so is None:
            continue
        exp = A.recover(b, rv, sv, Yv)
        rr, got = lib_recover(env, so, b, lib.pubkey_from_point(Yv))
        classes.append("rec:" + kind)
        if kind in ("lambda_s", "enckey_lambda"):
            classes.append("recover:lambda_twist" if kind == "lambda_s" else "recover:lambda_enckey")
            if exp is not None:
                raise RuntimeError("oracle inconsistency: reference recover accepts an endomorphism twist")
        env.require((rr == 1) == (exp is not None), "recover verdict %d for a %s signature / key, specification says %s" % (rr, kind, "accept" if exp is not None else "refuse"),
                    r="%064x" % rv, s="%064x" % sv)
        if rr == 1:
            env.require(got == exp, "recover returned a wrong key for variant " + kind, got="%064x" % got, want="%064x" % exp)
            env.require(ec.mulg(got) == Yv, "recovered key is not the discrete logarithm of the encryption key")
    no_callbacks(env, "decrypt/recover")


# ------------------------------------------------------------------ (a) pipelines
NONCE_KINDS = ["null", "null_aux", "default", "default_aux", "py", "py_aux", "fixed", "fixed", "fail", "fail_dleq"]
REC_KINDS = ["unrelated", "other_r", "other_s", "s_zero", "r_zero", "swap_rs", "other_adaptor", "enckey_neg", "enckey_other", "enckey_neg_twin"]
nonce32_st = st.one_of(gens.seckey_valid, gens.seckey_valid, gens.u256_edge, st.sampled_from([0, N, N + 1, M256, 1, N - 1]))


@st.composite
def pipeline_case(draw):
    case = {"x": draw(gens.seckey_valid), "y": draw(gens.seckey_valid), "msg": draw(gens.msg32),
            "nonce": draw(st.sampled_from(NONCE_KINDS)), "aux": draw(gens.bytes32_edge),
            "k": draw(nonce32_st), "k2": draw(nonce32_st),
            "rec": draw(st.lists(st.tuples(st.sampled_from(REC_KINDS), st.integers(0, 1 << 64)), min_size=2, max_size=4)),
            "bad_x": draw(st.sampled_from([None] * 36 + [0, N, N + 1, M256])),
            "deckey2": draw(st.one_of(gens.seckey_valid, gens.seckey_valid, st.sampled_from([0, 0, N, N + 1, M256]))),
            "x2": draw(gens.seckey_valid), "mbit": draw(st.integers(0, 255))}
    if draw(st.integers(0, 7)) == 0:
        case["solve"] = draw(st.sampled_from(["sp_zero"]))
    return case


def run_pipeline(env, case):
    lib = env.lib
    x, y = case["x"], case["y"]
    msg32 = ec.i2b(case["msg"])
    X, Y = ec.mulg(x), ec.mulg(y)
    Xpk, Ypk = lib.pubkey_from_point(X), lib.pubkey_from_point(Y)
    kind = case["nonce"]
    classes = ["nonce:" + kind]
    lib.reset()
    aux = bytes.fromhex(case["aux"])
    src = None
    k32, k2_32 = ec.i2b(case["k"]), ec.i2b(case["k2"])
    if kind == "fixed" and case.get("solve") == "sp_zero" and 1 <= case["k"] < N:
        # choose the message so that s' = k^-1 (m + r x) = 0: no adaptor signature exists for this nonce
        R = ec.mul(case["k"], Y)
        msg32 = ec.i2b((-(R[0] % N) * x) % N)
        classes.append("solved_sp_zero")
    msg_int = ec.b2i(msg32)
    if msg_int >= N:
        classes.append("msg_ge_n")
    if msg_int % N == 0:
        classes.append("msg_zero")
    if kind in ("null", "null_aux"):
        fp, nd = None, (buf(32, aux) if kind == "null_aux" else None)
    elif kind in ("default", "default_aux"):
        fp, nd = default_noncefp(lib), (buf(32, aux) if kind == "default_aux" else None)
    else:
        src = NonceSource({"py": "hash", "py_aux": "hash"}.get(kind, kind), k32, k2_32)
        fp, nd = src.fn, (buf(32, aux) if kind == "py_aux" else None)

    if case["bad_x"] is not None:
        r, out = lib_encrypt(env, ec.i2b(case["bad_x"]), Ypk, msg32, fp, nd)
        env.require(r == 0, "encrypt succeeded with an invalid signing key", key="%064x" % case["bad_x"])
        env.require(lib_verify(env, out, Xpk, msg32, Ypk) == 0, "output of a failed encryption verifies")
        no_callbacks(env, "encrypt(bad key)")
        return True, classes + ["bad_seckey"]

    r, b = lib_encrypt(env, ec.i2b(x), Ypk, msg32, fp, nd)
    if src is not None and src.error:
        raise RuntimeError("python nonce callback raised: " + src.error)
    no_callbacks(env, "encrypt")
    if kind in ("fail", "fail_dleq"):
        env.require(r == 0, "encrypt returned 1 although the nonce function failed")
        env.require(b == ZERO162, "encrypt with a failing nonce function did not zero the output", out=b.hex())
        return True, classes
    if kind == "fixed":
        kr, k2r = case["k"] % N, case["k2"] % N
        ref = A.encrypt(x, Y, msg32, kr, k2r) if kr and k2r else None
        in_range = 1 <= case["k"] < N and 1 <= case["k2"] < N
        if ref is None:
            env.require(r == 0, "encrypt returned 1 for nonces that admit no adaptor signature (zero nonce, r = 0 or s' = 0)")
            env.require(lib_verify(env, b, Xpk, msg32, Ypk) == 0, "output of a failed encryption verifies")
            return True, classes + ["fixed_no_sig"]
        if in_range:
            env.require(r == 1, "encrypt failed although the nonce source supplied valid nonces")
        elif r == 0:
            return True, classes + ["fixed_out_of_range_refused"]
        else:
            classes.append("fixed_out_of_range_reduced")
        # informational only (encryption bytes are not part of the property): does the output equal the specification's for these nonces?
        classes.append("ref_encrypt_match" if b == ref else "ref_encrypt_differs")
        if edge_key(kr) or edge_key(k2r):
            classes.append("edge_nonce")
    else:
        env.require(r == 1, "encrypt failed with valid inputs and nonce source " + kind)
        if kind in ("null", "null_aux", "default", "default_aux"):
            # NULL means the exported default (header); and the function is deterministic
            ofp = default_noncefp(lib) if kind.startswith("null") else None
            r2, b2 = lib_encrypt(env, ec.i2b(x), Ypk, msg32, ofp, nd)
            env.require(r2 == 1 and b2 == b, "noncefp = NULL and the exported default nonce function give different adaptor signatures")
    env.require(b != ZERO162, "successful encryption returned zero bytes")

    # ---- verification of the honest signature, and of the same signature in other contexts
    env.require(A.verify(b, X, msg32, Y), "reference rejects the library's adaptor signature (specified DLEQ / adaptor equation do not hold)", sig=b.hex())
    env.require(lib_verify(env, b, Xpk, msg32, Ypk) == 1, "adaptor_verify rejects the signature encrypt just produced", sig=b.hex())
    X2 = ec.mulg(case["x2"])
    m_flip = ec.i2b(msg_int ^ (1 << case["mbit"]))
    variants = [("other_pubkey", X2, msg32, Y), ("swap_keys", Y, msg32, X), ("msg_flip", X, m_flip, Y), ("enckey_neg", X, msg32, ec.neg(Y)),
                ("pubkey_neg", ec.neg(X), msg32, Y), ("pubkey_lambda", beta_point(X, 1 + case["mbit"] % 2, bool(case["mbit"] & 2)), msg32, Y),
                ("enckey_lambda", X, msg32, beta_point(Y, 1 + case["mbit"] % 2, bool(case["mbit"] & 4)))]
    mi = ec.b2i(msg32)
    if mi + N <= M256:
        variants.append(("msg_plus_n", X, ec.i2b(mi + N), Y))
    if mi >= N:
        variants.append(("msg_minus_n", X, ec.i2b(mi - N), Y))
    for name, Xv, mv, Yv in variants:
        exp = A.verify(b, Xv, mv, Yv)
        got = lib_verify(env, b, lib.pubkey_from_point(Xv), mv, lib.pubkey_from_point(Yv))
        env.require(got == (1 if exp else 0), "adaptor_verify verdict %d in context %s, specification says %d" % (got, name, exp), sig=b.hex())
        classes.append("ctx:%s:%d" % (name, got))

    # ---- decryption, ECDSA verification, recovery
    check_decrypt_recover(env, b, X, msg32, Y, y, classes, case["rec"], lam=case["mbit"])
    d2 = case["deckey2"]
    rd, sig2 = lib_decrypt(env, ec.i2b(d2), b)
    if d2 == 0:
        env.require(rd == 0, "decrypt succeeded with a zero decryption key")
        classes.append("deckey_zero")
    elif d2 >= N:
        classes.append("deckey_ge_n:%d" % rd)        # not specified (either result); must not verify unless it aliases the real key
        if rd == 1 and d2 % N not in (y, N - y):
            env.require(lib.ecdsa_verify(sig2, msg32, Xpk) == 0, "signature decrypted with a foreign out-of-range key verifies")
    else:
        env.require(rd == 1, "decrypt failed with a valid (foreign) decryption key")
        r2, s2 = compact(env, sig2)
        exp = ecdsa.verify(r2, s2, msg32, X)
        env.require(exp == (d2 in (y, N - y)), "oracle inconsistency: foreign decryption key yields a valid signature")
        env.require(lib.ecdsa_verify(sig2, msg32, Xpk) == (1 if exp else 0), "ecdsa_verify verdict on a signature decrypted with key %s" % ("+-y" if exp else "!= +-y"))
        classes.append("deckey_foreign" if not exp else "deckey_pm_y")
    no_callbacks(env, "pipeline")
    nt = (edge_key(x) or edge_key(y) or msg_int >= N or msg_int % N == 0 or kind not in ("null",))
    return nt, classes


# ------------------------------------------------------------------ (b) candidate strings
def point_by_x(start, step, odd):
    """first curve point with x = start, start+step, ... (x < p)"""
    x = start % P
    for _ in range(4000):
        pt = ec.lift_x(x, odd)
        if pt is not None:
            return pt
        x = (x + step) % P
    raise RuntimeError("no curve point found")


def build_base(env, case):
    """-> (bytes162, X, msg32, Y, y or None, classes)"""
    x, y, k, k2 = case["x"], case["y"], case["k"], case["k2"]
    X, Y = ec.mulg(x), ec.mulg(y)
    msg32 = ec.i2b(case["msg"])
    base = case["base"]
    cl = ["base:" + base]
    if base == "lib":
        r, b = lib_encrypt(env, ec.i2b(x), env.lib.pubkey_from_point(Y), msg32, None, None)
        if r != 1:
            env.fail("encrypt failed with valid inputs")
        return b, X, msg32, Y, y, cl
    if base == "ref":
        b = A.encrypt(x, Y, msg32, k, k2)
        if b is not None:
            return b, X, msg32, Y, y, cl
        base = "ref_sp"
    if base == "ref_sp":
        # chosen s': solve the message.  m = s' k - r x
        sp = case["sp"]
        R = ec.mul(k, Y)
        r = R[0] % N
        m = (sp * k - r * x) % N
        if case.get("msg_hi") and m + N <= M256:
            m += N
            cl.append("msg_ge_n")
        msg32 = ec.i2b(m)
        b = A.encrypt(x, Y, msg32, k, k2)
        assert b is not None and ec.b2i(b[66:98]) == sp
        return b, X, msg32, Y, y, cl
    # R chosen by x coordinate; the encryption key is solved for: Y = k^-1 R (its discrete logarithm is unknown)
    spec = case["rx"]
    if spec["kind"] == "n":
        R = point_by_x(N, 1, spec["odd"])
    elif spec["kind"] == "ge_n":
        R = point_by_x(N + spec["delta"] % (P - N), 1, spec["odd"])
    elif spec["kind"] == "lt_p":
        R = point_by_x(P - 1 - spec["delta"] % (1 << 64), P - 1, spec["odd"])
    else:
        R = point_by_x(spec["delta"] % (1 << 32), 1, spec["odd"])
    Y = ec.mul(pow(k, -1, N), R)
    assert ec.mul(k, Y) == R
    r = R[0] % N
    cl.append("rx:" + ("r_zero" if r == 0 else "x_ge_n" if R[0] >= N else "x_lt_n"))
    sp = pow(k, -1, N) * (case["msg"] + r * x) % N
    if sp == 0:
        # msg + r*x = 0 (mod n) — e.g. r = 0 with message 0, or x = n-1, r = 1, msg = 1: no valid s' exists for this (R, x, msg);
        # any value gives an INVALID candidate (decided by the reference like every other string), so it is not "honest"
        sp = 1
        cl.append("rx:no_valid_sp")
    e, sd = A.dleq_prove(k, Y, k2)
    return A.serialize(R, ec.mulg(k), sp, e, sd), X, msg32, Y, None, cl


SCALAR_OFF = {"sp": 66, "e": 98, "sd": 130}
SCALAR_SUBS = ["zero", "n", "n_plus_1", "max", "plus_n", "negate", "inc", "dec", "one", "n_minus_1", "lambda", "neg_lambda"]
POINT_SUBS = ["neg", "offcurve", "other_oncurve", "x_ge_p", "prefix", "beta", "neg_beta"]
FLAT_MUTS = (["bitflip"] * 12 + ["scalar:%s:%s" % (f, sub) for f in ("sp", "e", "sd") for sub in SCALAR_SUBS]
             + ["scalar:sp:zero", "scalar:sp:n", "scalar:sp:plus_n", "scalar:sp:plus_n", "scalar:sd:n", "scalar:sd:plus_n", "scalar:sd:zero", "scalar:e:zero"] * 2
             + ["point:%s:%s" % (f, sub) for f in ("R", "Rp") for sub in POINT_SUBS] * 2 + ["swap_points"] * 2
             + ["ctx_X:" + x for x in ("other", "neg", "swap", "lambda", "neg_lambda")] + ["ctx_Y:" + x for x in ("other", "neg", "swap", "lambda", "neg_lambda")]
             + ["ctx_msg:" + x for x in ("flip", "plus_n", "minus_n", "other")] * 2)


@st.composite
def string_case(draw):
    case = {"x": draw(gens.seckey_valid), "y": draw(gens.seckey_valid), "msg": draw(gens.msg32),
            "base": draw(st.sampled_from(["lib", "ref", "ref", "ref_sp", "ref_sp", "ref_rx"])),
            "k": draw(gens.seckey_valid), "k2": draw(gens.seckey_valid),
            "sp": draw(st.one_of(st.sampled_from([1, 2, N - 1, (N - 1) // 2, (N + 1) // 2, M256 - N, M256 - N + 1]), st.integers(1, M256 - N), st.integers(1, M256 - N),
                                 st.integers(1, 1 << 64), gens.seckey_valid)),
            "msg_hi": draw(st.booleans()),
            "rx": {"kind": draw(st.sampled_from(["n", "ge_n", "ge_n", "lt_p", "small"])), "delta": draw(st.one_of(st.integers(0, 64), st.integers(0, 1 << 128))),
                   "odd": draw(st.integers(0, 1))}}
    muts = []
    for _ in range(draw(st.sampled_from([0, 1, 1, 1, 1, 2]))):
        parts = draw(st.sampled_from(FLAT_MUTS)).split(":")
        mu = {"kind": parts[0], "a": draw(st.integers(0, 1 << 20)), "b": draw(st.integers(0, 1 << 20))}
        if parts[0] in ("scalar", "point"):
            mu["field"], mu["sub"] = parts[1], parts[2]
        elif len(parts) > 1:
            mu["sub"] = parts[1]
        muts.append(mu)
    if case["base"] == "ref_sp" and draw(st.integers(0, 3)) == 0:
        # the non-canonical twin of a VALID signature: s' small enough that s' + n still fits in 32 bytes
        case["sp"] = draw(st.one_of(st.integers(1, M256 - N), st.sampled_from([1, M256 - N]), st.integers(1, 1 << 32)))
        muts = [{"kind": "scalar", "field": "sp", "sub": "plus_n", "a": 0, "b": 0}]
    case["muts"] = muts
    return case


def mutate_point33(f, sub, a):
    f = bytearray(f)
    x = ec.b2i(f[1:])
    if sub == "neg":
        f[0] ^= 1
    elif sub == "offcurve":
        x2 = (x + 1 + a % 5) % P
        while ec.lift_x(x2) is not None:
            x2 = (x2 + 1) % P
        f[1:] = ec.i2b(x2)
    elif sub == "other_oncurve":
        x2 = (x + 1) % P
        while ec.lift_x(x2) is None:
            x2 = (x2 + 1) % P
        f[1:] = ec.i2b(x2)
    elif sub == "x_ge_p":
        f[1:] = ec.i2b(x + P if x + P <= M256 else [P, P + 1, M256, P + 7][a % 4])
    elif sub == "prefix":
        f[0] = [0, 1, 4, 5, 6, 7, 0x82, 0xFF][a % 8]
    elif sub in ("beta", "neg_beta"):
        # endomorphism image (beta^j x, +-y): a valid point with the same y^2 (only meaningful while x < p; otherwise the string stays unparseable)
        f[1:] = ec.i2b(x * pow(BETA, 1 + a % 2, P) % P if x < P else x)
        if sub == "neg_beta":
            f[0] ^= 1
    return bytes(f)


def run_string(env, case):
    lib = env.lib
    lib.reset()
    b, X, msg32, Y, y, classes = build_base(env, case)
    x = case["x"]
    b = bytearray(b)
    sig_mut = ctx_mut = False
    Xv, Yv, mv = X, Y, msg32
    for mu in case["muts"]:
        k, a, bb = mu["kind"], mu["a"], mu["b"]
        tag = k
        if k == "bitflip":
            pos = a % 1296
            b[pos // 8] ^= 1 << (pos % 8)
            sig_mut = True
            tag = "bitflip:" + ("R" if pos < 264 else "Rp" if pos < 528 else "sp" if pos < 784 else "e" if pos < 1040 else "sd")
        elif k == "scalar":
            off = SCALAR_OFF[mu["field"]]
            v = ec.b2i(bytes(b[off:off + 32]))
            sub = mu["sub"]
            new = {"zero": 0, "n": N, "n_plus_1": N + 1, "max": M256, "negate": (N - v) % N, "inc": (v + 1) & M256, "dec": (v - 1) & M256, "one": 1,
                   "n_minus_1": N - 1}.get(sub)
            if sub in ("lambda", "neg_lambda"):
                new = lam_scalar(v, 1 + a % 2, sub == "neg_lambda")
                classes.append("verify:lambda_scalar")
            if sub == "plus_n":
                if v + N <= M256:
                    new = v + N
                    classes.append("%s_plus_n_twin" % mu["field"])
                else:
                    new = N + (v >> 130)
            b[off:off + 32] = ec.i2b(new)
            sig_mut = True
            tag = "scalar:%s:%s" % (mu["field"], sub)
        elif k == "point":
            off = 0 if mu["field"] == "R" else 33
            b[off:off + 33] = mutate_point33(bytes(b[off:off + 33]), mu["sub"], a)
            if mu["sub"] in ("beta", "neg_beta"):
                classes.append("verify:beta_point")
            sig_mut = True
            tag = "point:%s:%s" % (mu["field"], mu["sub"])
        elif k == "swap_points":
            b[0:33], b[33:66] = b[33:66], b[0:33]
            sig_mut = True
        elif k == "ctx_X":
            Xv = {"other": ec.mulg(a + 2), "neg": ec.neg(Xv), "swap": Yv, "lambda": beta_point(Xv, 1 + a % 2), "neg_lambda": beta_point(Xv, 1 + a % 2, True)}[mu["sub"]]
            if "lambda" in mu["sub"]:
                classes.append("verify:lambda_key")
            ctx_mut = True
            tag += ":" + mu["sub"]
        elif k == "ctx_Y":
            Yv = {"other": ec.mulg(a + 2), "neg": ec.neg(Yv), "swap": Xv, "lambda": beta_point(Yv, 1 + a % 2), "neg_lambda": beta_point(Yv, 1 + a % 2, True)}[mu["sub"]]
            if "lambda" in mu["sub"]:
                classes.append("verify:lambda_key")
            ctx_mut = True
            tag += ":" + mu["sub"]
        elif k == "ctx_msg":
            m = ec.b2i(mv)
            sub = mu["sub"]
            if sub == "plus_n" and m + N <= M256:
                m += N
                classes.append("msg_alias")
            elif sub == "minus_n" and m >= N:
                m -= N
                classes.append("msg_alias")
            elif sub == "other":
                m = ec.b2i(ec.sha256(ec.i2b(a) + ec.i2b(bb)))
            else:
                m ^= 1 << (a % 256)
            mv = ec.i2b(m)
            ctx_mut = True
            tag += ":" + sub
        classes.append("mut:" + tag)
    b = bytes(b)
    exp = A.verify(b, Xv, mv, Yv)
    got = lib_verify(env, b, lib.pubkey_from_point(Xv), mv, lib.pubkey_from_point(Yv))
    env.require(got == (1 if exp else 0), "adaptor_verify verdict %d, specification says %d" % (got, exp), sig=b.hex(), X=ec.ser33(Xv).hex(), Y=ec.ser33(Yv).hex(), m=mv.hex())
    no_callbacks(env, "adaptor_verify")
    classes.append("accept" if got else "reject")
    if not (sig_mut or ctx_mut) and "rx:r_zero" not in classes and "rx:no_valid_sp" not in classes:
        env.require(got == 1, "unmodified honest adaptor signature rejected")
    if got and (sig_mut or ctx_mut):
        classes.append("accept_after_mutation")
    if got and y is not None and Yv == Y:
        check_decrypt_recover(env, b, Xv, mv, Y, y, classes, [("s_zero", 0), ("other_r", case["k"] & 0xFFFF)], lam=case["k2"] & 3)
    elif not got:
        # robustness of decrypt / recover on strings that were NOT verified: no crash, no callback; only the soundness direction is asserted
        rd, sig = lib_decrypt(env, ec.i2b(case["y"]), b)
        sp_raw, r_raw = ec.b2i(b[66:98]), ec.b2i(b[1:33]) % N
        if not 1 <= sp_raw < N or r_raw == 0:
            # the string does not deserialise (DLC specification: s' must be in [1, n), r must be non-zero): nothing to decrypt or recover from
            env.require(rd == 0, "decrypt returned 1 for an adaptor signature whose s' is zero / out of range (or r = 0)", sig=b.hex())
            zs = sig_obj(env, r_raw, 1)
            rr, key = lib_recover(env, zs, b, lib.pubkey_from_point(Yv))
            env.require(rr == 0, "recover returned 1 for an adaptor signature whose s' is zero / out of range (or r = 0)", sig=b.hex())
            classes.append("undeserialisable_refused")
        if rd == 1:
            rr, key = lib_recover(env, sig, b, lib.pubkey_from_point(Yv))
            if rr == 1:
                env.require(ec.mulg(key) == Yv, "recover returned 1 with a key that is not the discrete logarithm of the encryption key")
                classes.append("unverified_recover_ok")
        else:
            classes.append("unverified_decrypt_refused")
        zs = sig_obj(env, ec.b2i(b[1:33]) % N, 0)
        if zs is not None:
            rr, key = lib_recover(env, zs, b, lib.pubkey_from_point(Yv))
            env.require(rr == 0, "recover accepted a signature with s = 0")
            classes.append("rec:s_zero")
        no_callbacks(env, "decrypt/recover on an unverified string")
    nt = sig_mut or ctx_mut or case["base"] != "lib"
    return nt, classes


# ------------------------------------------------------------------ (c) all single-bit flips
@st.composite
def sweep_case(draw):
    return {"x": draw(gens.seckey_valid), "y": draw(gens.seckey_valid), "msg": draw(gens.msg32), "base": draw(st.sampled_from(["lib", "lib", "ref"])),
            "k": draw(gens.seckey_valid), "k2": draw(gens.seckey_valid), "sp": 1, "rx": None}


def hyp_examples(strategy, n, *seedparts):
    """n cases drawn by Hypothesis with a seed derived from VERIF_SEED (used by the sharded full-sweep tests, which are too heavy per case for the
    driver's cases-per-shard rule but must still take every random choice from the shared strategies)."""
    import os
    from hypothesis import given, settings, seed, HealthCheck, Phase
    from vf.core import derive_seed
    out = []

    @seed(derive_seed(int(os.environ.get("VERIF_SEED", "1") or "1") or 1, *seedparts))
    @settings(max_examples=n, database=None, deadline=None, suppress_health_check=list(HealthCheck), phases=[Phase.generate], derandomize=False)
    @given(strategy)
    def collect(c):
        out.append(c)

    collect()
    return out[:n]


def sweep_enum(tier, shard, nshards):
    per = 2 if tier == "quick" else 94
    for c in hyp_examples(sweep_case(), per, "C14", "bitflips", shard, nshards):
        yield c


def run_sweep(env, case):
    lib = env.lib
    lib.reset()
    b, X, msg32, Y, y, classes = build_base(env, case)
    Xpk, Ypk = lib.pubkey_from_point(X), lib.pubkey_from_point(Y)
    env.require(A.verify(b, X, msg32, Y) and lib_verify(env, b, Xpk, msg32, Ypk) == 1, "honest adaptor signature rejected")
    acc = 0
    for pos in range(1296):
        c = bytearray(b)
        c[pos // 8] ^= 1 << (pos % 8)
        c = bytes(c)
        got = lib_verify(env, c, Xpk, msg32, Ypk)
        # the reference is consulted for every flip (a flip is not assumed to be rejected)
        exp = A.verify(c, X, msg32, Y)
        env.require(got == (1 if exp else 0), "adaptor_verify verdict %d after flipping bit %d of byte %d, specification says %d" % (got, pos % 8, pos // 8, exp),
                    sig=c.hex())
        acc += got
    no_callbacks(env, "adaptor_verify")
    classes.append("flips_accepted:%d" % acc)
    classes.append("swept")
    return True, classes


# ------------------------------------------------------------------ (d) small groups
@st.composite
def small_case(draw):
    return {"x": draw(st.integers(0, 1 << 16)), "y": draw(st.integers(0, 1 << 16)), "msg": draw(st.one_of(st.integers(0, 600), gens.msg32)),
            "aux": draw(st.one_of(st.none(), gens.hexbytes(32))),
            "mults": draw(st.lists(st.one_of(st.integers(1, 40), st.integers(0, 255).map(lambda k: 1 << k), st.just(-1), st.integers(1, 1 << 240)), min_size=2, max_size=5))}


def run_small(env, case):
    lib = env.lib
    order = {"small13": 13, "small199": 199}[env.cfg]
    x = case["x"] % (order - 1) + 1
    y = case["y"] % (order - 1) + 1
    msg32 = ec.i2b(case["msg"])
    lib.reset()
    r1, Xpk = lib.pubkey_create(ec.i2b(x))
    r2, Ypk = lib.pubkey_create(ec.i2b(y))
    if not (r1 == 1 and r2 == 1):
        raise RuntimeError("small-group key creation failed")
    nd = buf(32, bytes.fromhex(case["aux"])) if case["aux"] else None
    r, b = lib_encrypt(env, ec.i2b(x), Ypk, msg32, None, nd)
    classes = ["order=%d" % order]
    if r != 1:
        # legitimate in a tiny group: nonce = 0, r = 0 or s' = 0 (mod order) happen with probability ~ 3/order
        return False, classes + ["encrypt_refused"]
    env.require(lib_verify(env, b, Xpk, msg32, Ypk) == 1, "honest adaptor signature does not verify (small group)", sig=b.hex())
    sp, e, sd = ec.b2i(b[66:98]), ec.b2i(b[98:130]), ec.b2i(b[130:162])
    env.require(1 <= sp < order and sd < order, "library produced out-of-range scalars in the small group")
    rd, sig = lib_decrypt(env, ec.i2b(y), b)
    env.require(rd == 1, "decrypt failed (small group)")
    rr, key = lib_recover(env, sig, b, Ypk)
    env.require(rr == 1 and key == y, "recover does not return the decryption key (small group)", got=key, y=y)
    rs, ss = compact(env, sig)
    if ss:
        tw = sig_obj(env, rs, order - ss)
        if tw is not None:
            rr, key = lib_recover(env, tw, b, Ypk)
            env.require(rr == 1 and key == y, "recover from the negated-s twin does not return the decryption key (small group)", got=key, y=y)
    for off, v, name in ((66, sp, "sp"), (130, sd, "sd")):
        kmax = (M256 - v) // order
        for mult in case["mults"]:
            k = kmax if mult == -1 else 1 + (mult - 1) % kmax
            c = b[:off] + ec.i2b(v + k * order) + b[off + 32:]
            env.require(lib_verify(env, c, Xpk, msg32, Ypk) == 0, "adaptor_verify accepted the re-encoding %s + %d*order" % (name, k), sig=c.hex())
            classes.append("%s_reenc%s" % (name, ":max" if k == kmax else ""))
    c = b[:66] + bytes(32) + b[98:]
    env.require(lib_verify(env, c, Xpk, msg32, Ypk) == 0, "adaptor_verify accepted s' = 0 (small group)")
    no_callbacks(env, "small group")
    return True, classes + ["honest_verified"]


# max_workers is kept small for tests that also run on the sanitizer build: each such worker process costs 10-20 CPU-seconds before its first case
SMALL = {"quick": ["small13", "small199"], "thorough": ["small13", "small199"]}
TESTS = [
    Test("pipeline", pipeline_case, run_pipeline, quick=700, thorough=12000, max_workers=4,
         must_cover=["nonce:" + k for k in sorted(set(NONCE_KINDS))] + ["msg_ge_n", "recover_twin", "rec:s_zero", "rec:unrelated", "rec:other_r", "rec:enckey_neg", "recover:lambda_twist", "recover:lambda_enckey", "ctx:pubkey_lambda:0", "ctx:enckey_lambda:0",
                                                                          "bad_seckey", "fixed_no_sig", "ref_encrypt_match", "ctx:msg_plus_n:1", "deckey_zero", "deckey_foreign"]),
    Test("verify_strings", string_case, run_string, quick=3000, thorough=120000, max_workers=5,
         must_cover=["base:lib", "base:ref", "base:ref_sp", "base:ref_rx", "rx:r_zero", "rx:x_ge_n", "sp_plus_n_twin", "accept", "reject", "msg_alias",
                     "mut:scalar:sp:zero", "mut:scalar:sd:n", "mut:point:R:neg", "mut:point:Rp:neg", "mut:point:R:x_ge_p", "mut:point:Rp:prefix", "rec:s_zero", "verify:beta_point", "verify:lambda_scalar", "verify:lambda_key",
                     "recover:lambda_twist", "recover:lambda_enckey", "mut:point:R:beta", "mut:point:Rp:neg_beta", "mut:scalar:sp:lambda", "mut:scalar:sd:neg_lambda"]),
    Test("bitflips", sweep_enum, run_sweep, kind="enum", cfgs={"quick": ["prod"], "thorough": ["prod", "vsan"]}, must_cover=["swept"]),
    Test("small_group", small_case, run_small, quick=1200, thorough=40000, cfgs=SMALL, max_workers=2, must_cover=["honest_verified", "sp_reenc", "sd_reenc", "sp_reenc:max"]),
]
