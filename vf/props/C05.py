"""C05 — the arithmetic and hashing kernel is mathematically exact on every build configuration.

Engine E2: csrc/fuzz_arith.c (+ fuzz_arith_*.inc), one libFuzzer binary per build configuration, GMP / textbook-SHA-256 oracle
inside the target (csrc/ref_gmp.h, csrc/ref_sha256.h).  Engine E1: public-API spot checks against pyref, and a validation of
the C hashing oracle against hashlib.
"""
import ctypes
import hashlib
import hmac
from ctypes import c_size_t

from hypothesis import strategies as st

from pyref import ec, ecdh as ref_ecdh, rfc6979
from vf import build as B
from vf import gens
from vf.core import Test
from vf.fuzz import FuzzTarget
from vf.lib import buf

RULE = ("fuzz_arith: the first input byte selects one of ten sub-targets, the rest is decoded structurally: field programs (<= 32 instructions over 8 registers, "
        "operands from set_b32_mod/limit, get_bounds(m), raw limbs bounded by a chosen magnitude 1..32, edge constants; every field routine, emitted only when "
        "its documented magnitude / normalisation precondition holds), scalar programs (both with CHOSEN-RESULT multiplications / squarings / additions: the result is drawn from an edge set around the reduction fold windows and the second operand is solved for with GMP; and CHOSEN-LIMB-PRODUCT operands: a limb pair (i,j) whose partial product has a chosen high word, for 64/32/52/26-bit limbs), modinv/jacobi with p, n and arbitrary odd moduli, int128 helpers vs native "
        "__int128, hashing (write-chunk lists, HMAC, RFC 6979 generate lengths, tagged init, the 18 module midstates recomputed from their tags, lengths to 2^20), "
        "group programs (all add/double variants with rzr, special pairs P+P, P+(-P), P+inf, equal y / cube-root-of-unity x, z != 1, coordinate magnitudes up to the "
        "documented maxima), ecmult, ecmult_gen after 0..3 re-blindings, ecmult_const(+xonly), ecmult_multi_var with n in 0..320 and scratch in {NULL, tiny, exact "
        "Strauss, exact Pippenger, fraction, large}. Oracle: GMP integers mod p / mod n, affine chord-and-tangent group law incl. infinity, double-and-add, textbook "
        "SHA-256/HMAC/HMAC_DRBG; library results are compared in canonical byte form after every instruction, so all configurations agree bit for bit. "
        "non-trivial = a program with an operand of magnitude > 1 or an edge constant, a special-case group operation, an edge scalar / infinity in a multiplication, "
        "n >= 2 points, or a hash with > 1 write or length > 64. E1: pubkey_create, pubkey_tweak_mul, ecdh, tagged_sha256 (messages to 10^5 bytes) vs pyref on "
        "prod / int64 / struct / vsan; non-trivial = edge scalar or message longer than 64 bytes")
ASSUMPTIONS = ["GMP (mpz) arithmetic and the 60-line affine group law in csrc/ref_gmp.h are correct (self-tested at start-up: n*G = inf, lambda*(x,y) = (beta*x,y), SEC 2 value of 2G, ...)",
               "csrc/ref_sha256.h is a correct reading of FIPS 180-4 / RFC 2104 / RFC 6979 s3.2 (self-tested with FIPS, RFC 4231 and RFC 6979 A.2.5 vectors at start-up and against hashlib in the E1 test ref_hash)",
               "internal functions are called only within their documented preconditions (field.h magnitudes, group.h coordinate magnitudes, non-overflow of cadd_bit / i128_accum_mul, mul_shift_var shift in [256,512])",
               "pyref.ec is correct (E1 part)",
               "the fuzz binaries are built with clang -O1 + ASan + UBSan; gcc -O2 code generation is covered by the E1 spot checks only"]

# ---------------------------------------------------------------- build configurations (registered here: vf/build.py is shared)
def _reg(name, **kw):
    if name not in B.CONFIGS:
        B.CONFIGS[name] = B.Cfg(name, **kw)
    return name


LIMBS = {"asm": dict(widemul="int128", asm=True), "c128": dict(widemul="int128", asm=False),
         "struct": dict(widemul="int128_struct", asm=False), "i64": dict(widemul="int64", asm=False)}
WINDOWS = [2, 5, 15]
COMBS = [2, 22, 86]


def cfg_name(limb, window, comb, verify):
    return _reg("c05_%s_w%d_c%d%s" % (limb, window, comb, "_v" if verify else ""), window=window, comb=comb, verify=verify, **LIMBS[limb])


# quick: a covering subset of five builds: every limb layout, asm and C, VERIFY on and off, every window and two comb sizes
QUICK_CFGS = [cfg_name("asm", 15, 86, False),      # what ships
              cfg_name("c128", 5, 22, True),
              cfg_name("struct", 2, 86, True),
              cfg_name("i64", 2, 2, True),
              cfg_name("i64", 15, 22, False)]
# thorough: limb x (window, comb) arranged so that every (limb, window), (limb, comb) and (window, comb) pair occurs; VERIFY alternates, and
# each limb layout additionally runs with the opposite VERIFY setting once
THOROUGH_CFGS = []
for li, limb in enumerate(["asm", "c128", "struct", "i64"]):
    for j, w in enumerate(WINDOWS):
        THOROUGH_CFGS.append(cfg_name(limb, w, COMBS[(j + li) % 3], (j + li) % 2 == 0))
    THOROUGH_CFGS.append(cfg_name(limb, 15, 86, li % 2 == 0))
THOROUGH_CFGS = sorted(set(THOROUGH_CFGS + QUICK_CFGS))

FUZZ_TARGETS = [
    FuzzTarget("fuzz_arith", "fuzz_arith.c", cfgs={"quick": QUICK_CFGS, "thorough": THOROUGH_CFGS},
               runs={"quick": 120000, "thorough": 2000000}, workers={"quick": 2, "thorough": 2},
               max_len=1536, corpus="fuzz_arith", link=("-lgmp",), timeout=120),
]

# classes that every run must produce (a starved generator ends INCONCLUSIVE, exit 2, instead of passing vacuously)
FUZZ_MUST_COVER = ["fuzz_arith:" + c for c in (
    "fe_operand_mag_ge16", "fe_raw_limbs", "fe_mul_mag8", "fe_mul_chosen_result", "fe_mul_chosen_quotient", "fe_sqr_chosen_result", "fe_result_in_fold_window",
    "sc_add_overflow", "sc_mul_chosen_result", "sc_mul_chosen_quotient", "sc_sqr_chosen_result", "sc_add_chosen_result", "sc_mul_shift_chosen", "sc_result_in_fold_window",
    "sc_limbprod_mul", "sc_limbprod_sqr", "fe_limbprod", "limbprod_doubled_high_all_ones",
    "sc_split_lambda", "modinv_custom_modulus", "int128_nontrivial", "h_multi_write", "h_len_gt1000", "h_module_midstate", "h_rfc6979",
    "ge_add_doubling", "ge_add_cancel", "ge_add_degenerate_y", "ge_z_ne_1", "em_ecmult", "em_gen_blinded", "em_const", "em_const_xonly",
    "mm_n_ge88", "mm_ge88_with_scratch", "mm_scratch_null", "mm_scratch_tiny")]

# ---------------------------------------------------------------- E1 spot checks
E1_CFGS = {"quick": ["prod", "int64", "struct", "vsan"], "thorough": ["prod", "int64", "struct", "noasm", "vsan"]}
EDGE_SK = set(gens.NAMED) | {1, 2, 3}


def _is_edge(v):
    return v in EDGE_SK or v >= ec.N or v < (1 << 32) or bin(v).count("1") < 8 or bin(v).count("0") < 8 + 2


def point_case():
    """a curve point given either as k*G or by lifting an x coordinate"""
    return st.one_of(st.builds(lambda k: {"k": k}, gens.seckey_valid),
                     st.builds(lambda x, odd: {"x": x, "odd": odd}, st.one_of(st.integers(0, 200), gens.u256_edge.map(lambda v: v % ec.P)), st.booleans()))


def materialize_point(pc):
    if "k" in pc:
        return ec.mulg(pc["k"])
    x = pc["x"]
    while True:
        pt = ec.lift_x(x)
        if pt is not None:
            break
        x = (x + 1) % ec.P
    if (pt[1] & 1) != int(pc["odd"]):
        pt = ec.neg(pt)
    return pt


def create_case():
    return st.builds(lambda sk: {"sk": sk}, gens.seckey_any)


def run_create(env, case):
    lib = env.lib
    sk = case["sk"]
    lib.reset()
    r, pk = lib.pubkey_create(ec.i2b(sk))
    valid = 1 <= sk < ec.N
    env.require(r == (1 if valid else 0), "ec_pubkey_create returned %d for sk=%x" % (r, sk))
    if valid:
        env.require(lib.point_of_pubkey(pk) == ec.mulg(sk), "ec_pubkey_create: public key is not sk*G", sk=hex(sk))
    env.require(lib.errors() == 0 and lib.illegal() == 0, "callback fired in ec_pubkey_create: " + lib.cbmsg())
    return _is_edge(sk), ["valid" if valid else "invalid"]


def tweak_case():
    return st.builds(lambda p, t: {"p": p, "t": t}, point_case(), gens.seckey_any)


def run_tweak_mul(env, case):
    lib = env.lib
    pt = materialize_point(case["p"])
    t = case["t"]
    pk = lib.pubkey_from_point(pt)
    lib.reset()
    r = lib.dll.secp256k1_ec_pubkey_tweak_mul(lib.ctx, pk, ec.i2b(t))
    valid = 1 <= t < ec.N
    env.require(r == (1 if valid else 0), "ec_pubkey_tweak_mul returned %d for tweak=%x" % (r, t))
    if valid:
        env.require(lib.point_of_pubkey(pk) == ec.mul(t, pt), "ec_pubkey_tweak_mul: result is not tweak*P", t=hex(t))
    env.require(lib.errors() == 0 and lib.illegal() == 0, "callback fired in ec_pubkey_tweak_mul: " + lib.cbmsg())
    return _is_edge(t) or "x" in case["p"], ["valid" if valid else "invalid", "lifted" if "x" in case["p"] else "kG"]


def run_ecdh(env, case):
    lib = env.lib
    pt = materialize_point(case["p"])
    sk = case["t"]
    pk = lib.pubkey_from_point(pt)
    out = buf(32, b"\xAA" * 32)
    lib.reset()
    r = lib.dll.secp256k1_ecdh(lib.ctx, out, pk, ec.i2b(sk), None, None)
    want = ref_ecdh.ecdh(sk, pt)
    env.require(r == (1 if want is not None else 0), "ecdh returned %d for sk=%x" % (r, sk))
    if want is not None:
        env.require(out.raw == want, "ecdh: output is not SHA256(compressed(sk*P))", sk=hex(sk))
    env.require(lib.errors() == 0 and lib.illegal() == 0, "callback fired in ecdh: " + lib.cbmsg())
    return _is_edge(sk) or "x" in case["p"], ["valid" if want is not None else "invalid"]


def tagged_case():
    return st.builds(lambda tag, msg: {"tag": tag, "msg": msg}, gens.message(100), gens.message(100000))


def run_tagged(env, case):
    lib = env.lib
    tag, msg = bytes.fromhex(case["tag"]), bytes.fromhex(case["msg"])
    out = buf(32)
    lib.reset()
    r = lib.dll.secp256k1_tagged_sha256(lib.ctx, out, buf(max(1, len(tag)), tag), c_size_t(len(tag)), buf(max(1, len(msg)), msg), c_size_t(len(msg)))
    env.require(r == 1, "tagged_sha256 returned %d" % r)
    env.require(out.raw == ec.tagged_hash(tag, msg), "tagged_sha256 differs from SHA256(SHA256(tag)||SHA256(tag)||msg)", taglen=len(tag), msglen=len(msg))
    env.require(lib.errors() == 0 and lib.illegal() == 0, "callback fired in tagged_sha256: " + lib.cbmsg())
    cl = ["len<=64" if len(msg) <= 64 else ("len<=1000" if len(msg) <= 1000 else "len>1000")]
    return len(msg) > 64, cl


def refhash_case():
    return st.builds(lambda key, msg, l1, l2: {"key": key, "msg": msg, "l1": l1, "l2": l2}, gens.message(300), gens.message(20000),
                     st.integers(0, 100), st.integers(0, 100))


def run_refhash(env, case):
    """the C-side hashing ORACLE of the fuzz target (csrc/ref_sha256.h) against hashlib / hmac / pyref.rfc6979"""
    d = env.lib.dll
    key, msg = bytes.fromhex(case["key"]), bytes.fromhex(case["msg"])
    out = buf(32)
    env.require(d.vf_c05_ref_selftest() == 0, "ref_sha256.h self test failed")
    d.vf_c05_ref_sha256(out, msg, c_size_t(len(msg)))
    env.require(out.raw == hashlib.sha256(msg).digest(), "ref_sha256.h: SHA-256 differs from hashlib", n=len(msg))
    d.vf_c05_ref_hmac(out, key, c_size_t(len(key)), msg, c_size_t(len(msg)))
    env.require(out.raw == hmac.new(key, msg, hashlib.sha256).digest(), "ref_sha256.h: HMAC differs from hmac module", klen=len(key))
    d.vf_c05_ref_tagged(out, key, c_size_t(len(key)), msg, c_size_t(len(msg)))
    env.require(out.raw == ec.tagged_hash(key, msg), "ref_sha256.h: tagged hash differs")
    l1, l2 = case["l1"], case["l2"]
    o2 = buf(max(1, l1 + l2))
    d.vf_c05_ref_drbg(o2, msg, c_size_t(len(msg)), c_size_t(l1), c_size_t(l2))
    g = rfc6979.HmacDrbg(msg)
    env.require(o2.raw[:l1 + l2] == g.generate(l1) + g.generate(l2), "ref_sha256.h: HMAC_DRBG differs from pyref.rfc6979")
    return len(msg) > 64, ["keylen>64" if len(key) > 64 else "keylen<=64"]


TESTS = [
    Test("ref_hash", refhash_case, run_refhash, quick=200, thorough=3000, cfgs={"quick": ["prod"], "thorough": ["prod"]}, must_cover=["keylen>64", "keylen<=64"]),
    Test("pubkey_create", create_case, run_create, quick=400, thorough=20000, cfgs=E1_CFGS, must_cover=["valid", "invalid"]),
    Test("pubkey_tweak_mul", tweak_case, run_tweak_mul, quick=300, thorough=16000, cfgs=E1_CFGS, must_cover=["valid", "invalid", "lifted"]),
    Test("ecdh", tweak_case, run_ecdh, quick=300, thorough=16000, cfgs=E1_CFGS, must_cover=["valid", "invalid"]),
    Test("tagged_sha256", tagged_case, run_tagged, quick=400, thorough=8000, cfgs=E1_CFGS, must_cover=["len<=64", "len<=1000", "len>1000"]),
]
