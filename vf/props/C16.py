"""C16 — whitelist proofs verify only for a real member of a non-empty key list."""
import ctypes
from ctypes import c_size_t, byref

from hypothesis import strategies as st

from pyref import ec, whitelist as W, borromean
from vf import gens
from vf.core import Test
from vf.lib import buf

RULE = ("cases: (a) sign/verify pipelines over key lists with n_keys in 0..255 (every n<=8, boundary counts, sampled), every signer index for small n, "
        "edge secret keys, refused secrets; (b) candidate signature strings: library-made, reference-prover-made with chosen small forged scalars and their s+n twins, "
        "forgeries from public data (incl. the n_keys=0 forgery), bit flips, scalar substitutions, count/length edits, permuted / replaced keys, count mismatch (incl. n_keys + 256m for honest signatures); "
        "(c) parser strings over every count byte and lengths +-. Oracle: pyref.whitelist (ring equation over online_i + H(offline_i+W)(offline_i+W)), never accept n_keys=0. "
        "non-trivial = n_keys != 1 or the string is not an unmodified honest signature")
ASSUMPTIONS = ["pyref.whitelist / pyref.borromean / pyref.ec are correct readings of whitelist.md and the header (validated by agreement on honest signatures and by selftests)",
               "public keys handed to the API are valid objects made by the library's own constructors"]

SIGSZ = 8 + 32 * 256
N = ec.N


def derive_sk(seed, tag, i):
    return ec.b2i(ec.sha256(bytes.fromhex(seed) + tag + i.to_bytes(2, "big"))) % (N - 1) + 1


def materialize(case):
    """-> online_sk, offline_sk, w_sk lists of ints"""
    n = case["n"]
    on = [derive_sk(case["seed"], b"on", i) for i in range(n)]
    off = [derive_sk(case["seed"], b"off", i) for i in range(n)]
    for k, v in case.get("on_over", {}).items():
        if int(k) < n:
            on[int(k)] = v
    for k, v in case.get("off_over", {}).items():
        if int(k) < n:
            off[int(k)] = v
    for i, j, kind in case.get("related", []):
        if i < n and j < n and i != j:
            if kind in ("off_neg", "both_neg"):
                off[j] = N - off[i]
            if kind == "off_same":
                off[j] = off[i]
            if kind in ("on_neg", "both_neg"):
                on[j] = N - on[i]
            if kind == "on_same":
                on[j] = on[i]
            if kind == "swap_roles":
                on[j], off[j] = off[i], on[i]
    return on, off, case["w_sk"]


def pk_array(env, sks):
    """contiguous array of secp256k1_pubkey objects + the reference points"""
    lib = env.lib
    arr = buf(64 * max(1, len(sks)))
    pts = []
    for i, sk in enumerate(sks):
        pt = ec.mulg(sk)
        pts.append(pt)
        pk = lib.pubkey_from_point(pt)
        ctypes.memmove(ctypes.addressof(arr) + 64 * i, pk, 64)
    return arr, pts


def lib_sign(env, on_arr, off_arr, n, w_pk, online_sk, summed_sk, idx):
    sig = buf(SIGSZ)
    r = env.lib.dll.secp256k1_whitelist_sign(env.lib.ctx, sig, on_arr, off_arr, c_size_t(n), w_pk,
                                             ec.i2b(online_sk), ec.i2b(summed_sk), c_size_t(idx))
    return r, sig


def lib_serialize(env, sig, size=None):
    n = env.lib.dll.secp256k1_whitelist_signature_n_keys(sig)
    need = 33 + 32 * n
    size = need if size is None else size
    out = buf(max(1, size))
    ol = c_size_t(size)
    r = env.lib.dll.secp256k1_whitelist_signature_serialize(env.lib.ctx, out, byref(ol), sig)
    return r, out.raw[:ol.value] if r == 1 else None


def lib_parse(env, b):
    sig = buf(SIGSZ)
    inp = buf(max(1, len(b)), b)
    r = env.lib.dll.secp256k1_whitelist_signature_parse(env.lib.ctx, sig, inp, c_size_t(len(b)))
    return r, sig


def lib_verify(env, sig, on_arr, off_arr, n, w_pk):
    return env.lib.dll.secp256k1_whitelist_verify(env.lib.ctx, sig, on_arr, off_arr, c_size_t(n), w_pk)


# ------------------------------------------------------------------ generators
n_keys_st = st.one_of(st.integers(0, 8), st.integers(1, 8), st.sampled_from([16, 64, 127, 128, 254, 255]), st.integers(9, 255),
                      st.integers(1, 4))
n_keys_small = st.one_of(st.integers(0, 8), st.integers(1, 5), st.sampled_from([16, 33]))


@st.composite
def keylist_case(draw, nst=n_keys_st, min_n=0):
    n = max(min_n, draw(nst))
    case = {"n": n, "seed": draw(gens.hexbytes(8)), "w_sk": draw(gens.seckey_valid)}
    case["idx"] = draw(st.integers(0, n - 1)) if n else 0
    if n and draw(st.integers(0, 3)) == 0:
        case["on_over"] = {str(draw(st.integers(0, n - 1))): draw(gens.seckey_valid)}
    if n and draw(st.integers(0, 3)) == 0:
        # includes offline_i == -W (the sum offline_i + W is infinity) and duplicates of W
        case["off_over"] = {str(draw(st.integers(0, n - 1))): draw(st.one_of(gens.seckey_valid, st.just(N - case["w_sk"]), st.just(case["w_sk"])))}
    if n >= 2 and draw(st.integers(0, 2)) == 0:
        # RELATED entries: entry j gets the same / the negated offline or online key of entry i (consecutive or not), so list
        # entries share an x coordinate or are equal: ring keys must still be derived per entry
        rel = []
        for _ in range(draw(st.integers(1, 3))):
            i = draw(st.integers(0, n - 1))
            j = draw(st.one_of(st.just(min(n - 1, i + 1)), st.just(max(0, i - 1)), st.integers(0, n - 1)))
            rel.append([i, j, draw(st.sampled_from(["off_neg", "off_same", "on_neg", "on_same", "both_neg", "swap_roles"]))])
        case["related"] = rel
    return case


@st.composite
def sign_case(draw):
    case = draw(keylist_case())
    case["bad"] = draw(st.sampled_from([None] * 6 + ["online0", "onlineN", "online_big", "summed0", "summedN", "summed_big", "index_oob"]))
    return case


def run_sign(env, case):
    lib = env.lib
    n, idx = case["n"], case["idx"]
    on_sk, off_sk, w_sk = materialize(case)
    classes = ["n=%s" % (n if n <= 8 else ("big" if n < 254 else n))]
    for i, j, kind in case.get("related", []):
        if i < n and j < n and i != j:
            classes.append("related:" + kind)
            if abs(i - j) == 1:
                classes.append("related_consecutive")
    lib.reset()
    on_arr, on_pts = pk_array(env, on_sk)
    off_arr, off_pts = pk_array(env, off_sk)
    w_pt = ec.mulg(w_sk)
    w_pk = lib.pubkey_from_point(w_pt)
    if n == 0:
        # signing for an empty list must be refused (index < n_keys is a documented illegal-argument condition)
        r, sig = lib_sign(env, on_arr, off_arr, 0, w_pk, 1, 1, 0)
        env.require(r == 0, "whitelist_sign succeeded for an empty key list")
        return True, classes + ["sign_empty"]
    online_sk = on_sk[idx]
    summed_sk = (off_sk[idx] + w_sk) % N
    bad = case.get("bad")
    if summed_sk == 0:
        bad = bad or "summed0_natural"
    if bad:
        classes.append("bad:" + bad)
        o, s = online_sk, summed_sk
        if bad == "online0":
            o = 0
        elif bad == "onlineN":
            o = N
        elif bad == "online_big":
            o = gens.M256
        elif bad in ("summed0", "summed0_natural"):
            s = 0
        elif bad == "summedN":
            s = N
        elif bad == "summed_big":
            s = N + 5
        if bad == "index_oob":
            r, sig = lib_sign(env, on_arr, off_arr, n, w_pk, o, s, n)
        else:
            r, sig = lib_sign(env, on_arr, off_arr, n, w_pk, o, s, idx)
        env.require(r == 0, "whitelist_sign accepted refused input (%s)" % bad, bad=bad)
        return True, classes
    r, sig = lib_sign(env, on_arr, off_arr, n, w_pk, online_sk, summed_sk, idx)
    keys, m = W.ring_keys(on_pts, off_pts, w_pt)
    if keys[idx] is None:
        # the signer's ring key is the point at infinity: no valid signature exists; either result, but it must not verify
        classes.append("ringkey_inf")
        if r == 1:
            env.require(lib_verify(env, sig, on_arr, off_arr, n, w_pk) == 0, "verify accepted a ring containing infinity")
        return True, classes
    env.require(r == 1, "whitelist_sign failed with correct secrets", n=n, idx=idx)
    env.require(lib.illegal() == 0 and lib.errors() == 0, "callback fired during honest signing: " + lib.cbmsg())
    v = lib_verify(env, sig, on_arr, off_arr, n, w_pk)
    env.require(v == 1, "honest whitelist signature does not verify", n=n, idx=idx)
    rs, ser = lib_serialize(env, sig)
    env.require(rs == 1 and len(ser) == 33 + 32 * n and ser[0] == n, "serialize of honest signature wrong")
    if n <= 33 or case["seed"][0] in "01":
        env.require(W.verify(ser, on_pts, off_pts, w_pt), "reference rejects the library's honest signature (reference/library disagree on the specified ring equation)")
        classes.append("ref_checked")
    rp, sig2 = lib_parse(env, ser)
    env.require(rp == 1, "parse(serialize(sig)) failed")
    env.require(lib_verify(env, sig2, on_arr, off_arr, n, w_pk) == 1, "re-parsed honest signature does not verify")
    # too-small output buffer
    rs2, _ = lib_serialize(env, sig, size=33 + 32 * n - 1)
    env.require(rs2 == 0, "serialize succeeded into a buffer one byte too small")
    # against another whitelisted key it must fail
    other = lib.pubkey_from_point(ec.mulg((w_sk % (N - 1)) + 1))
    env.require(lib_verify(env, sig, on_arr, off_arr, n, other) == 0, "signature verifies for a different whitelisted key")
    return (n != 1), classes


@st.composite
def string_case(draw):
    case = draw(keylist_case(nst=n_keys_small))
    n = case["n"]
    kinds = ["lib", "ref_small", "forge_rand", "forge_hash"] if n else ["forge_hash", "forge_rand"]
    case["base"] = draw(st.sampled_from(kinds))
    case["nonce"] = draw(gens.seckey_valid)
    case["forged"] = [draw(st.one_of(st.integers(1, 1 << 20), st.integers(1, (1 << 128)), gens.seckey_valid)) for _ in range(n)]
    case["e0"] = draw(gens.hexbytes(32))
    muts = []
    for _ in range(draw(st.sampled_from([0, 1, 1, 1, 2]))):
        kind = draw(st.sampled_from(["bitflip", "s_zero", "s_n", "s_plus_n", "s_big", "trunc", "extend", "count", "swap_keys", "replace_on", "replace_off",
                                     "replace_w", "n_minus", "n_plus", "e0_rand"]))
        muts.append({"kind": kind, "a": draw(st.integers(0, 1 << 16)), "b": draw(st.integers(0, 1 << 16))})
    case["muts"] = muts
    return case


def run_string(env, case):
    lib = env.lib
    n, idx = case["n"], case["idx"]
    on_sk, off_sk, w_sk = materialize(case)
    on_pts = [ec.mulg(x) for x in on_sk]
    off_pts = [ec.mulg(x) for x in off_sk]
    w_pt = ec.mulg(w_sk)
    classes = ["base:" + case["base"], "n=%s" % (n if n <= 8 else "big")]
    honest = False
    base = case["base"]
    keys, m = W.ring_keys(on_pts, off_pts, w_pt)
    sigb = None
    if base == "lib" and n and keys[idx] is not None and (off_sk[idx] + w_sk) % N:
        on_arr, _ = pk_array(env, on_sk)
        off_arr, _ = pk_array(env, off_sk)
        r, sig = lib_sign(env, on_arr, off_arr, n, lib.pubkey_from_point(w_pt), on_sk[idx], (off_sk[idx] + w_sk) % N, idx)
        if r == 1:
            sigb = lib_serialize(env, sig)[1]
            honest = True
    elif base == "ref_small" and n and keys[idx] is not None and (off_sk[idx] + w_sk) % N:
        sigb = W.sign(on_pts, off_pts, w_pt, on_sk[idx], (off_sk[idx] + w_sk) % N, idx, case["nonce"], case["forged"])
        if sigb is not None:
            honest = True
            classes.append("ref_prover_ok")
    elif base == "forge_hash":
        # what an attacker can compute from public data: e0 = H(m) (exactly the n_keys = 0 acceptance condition), random scalars
        sigb = W.serialize(ec.sha256(m), case["forged"])
    if sigb is None:
        sigb = W.serialize(bytes.fromhex(case["e0"]), case["forged"])
        classes.append("forge_rand")
    mutated = False
    sigb = bytearray(sigb)
    nn = n
    for mu in case["muts"]:
        k, a, b = mu["kind"], mu["a"], mu["b"]
        mutated = True
        cur_n = (len(sigb) - 33) // 32 if len(sigb) >= 33 else 0
        if k == "bitflip" and len(sigb):
            pos = a % (len(sigb) * 8)
            sigb[pos // 8] ^= 1 << (pos % 8)
        elif k in ("s_zero", "s_n", "s_plus_n", "s_big") and cur_n:
            j = a % cur_n
            old = ec.b2i(bytes(sigb[33 + 32 * j:65 + 32 * j]))
            new = {"s_zero": 0, "s_n": N, "s_big": gens.M256, "s_plus_n": old + N if old + N <= gens.M256 else N + (b % 1000)}[k]
            sigb[33 + 32 * j:65 + 32 * j] = ec.i2b(new)
            if k == "s_plus_n" and old + N <= gens.M256:
                classes.append("s_plus_n_twin")
        elif k == "trunc" and len(sigb) > 1:
            del sigb[len(sigb) - 1 - (a % min(33, len(sigb) - 1)):]
        elif k == "extend":
            sigb += bytes([b & 255]) * (1 + a % 33)
        elif k == "count" and len(sigb):
            sigb[0] = a & 255
        elif k == "e0_rand" and len(sigb) >= 33:
            sigb[1:33] = ec.sha256(bytes([a & 255, b & 255]))
        elif k == "swap_keys" and nn >= 2:
            i, j = a % nn, b % nn
            on_pts[i], on_pts[j] = on_pts[j], on_pts[i]
            off_pts[i], off_pts[j] = off_pts[j], off_pts[i]
            if i == j or (on_pts[i] == on_pts[j] and off_pts[i] == off_pts[j]):
                pass
        elif k == "replace_on" and nn:
            on_pts[a % nn] = ec.mulg(b + 2)
        elif k == "replace_off" and nn:
            off_pts[a % nn] = ec.mulg(b + 2)
        elif k == "replace_w":
            w_pt = ec.mulg(b + 2)
        elif k == "n_minus" and nn:
            nn -= 1
            on_pts.pop()
            off_pts.pop()
        elif k == "n_plus" and nn < 255:
            nn += 1
            on_pts.append(ec.mulg(a + 2))
            off_pts.append(ec.mulg(b + 2))
        classes.append("mut:" + k)
    sigb = bytes(sigb)
    expect = W.verify(sigb, on_pts, off_pts, w_pt)
    lib.reset()
    rp, sig = lib_parse(env, sigb)
    pref = W.parse(sigb)
    env.require((rp == 1) == (pref is not None), "parser verdict differs from the format (len=%d count=%s)" % (len(sigb), sigb[0] if sigb else None), lib=rp)
    if rp == 1:
        env.require(lib.dll.secp256k1_whitelist_signature_n_keys(sig) == pref[0], "n_keys accessor wrong")
        rs, ser = lib_serialize(env, sig)
        env.require(rs == 1 and ser == sigb, "serialize(parse(b)) != b")
        # build the (possibly edited) key arrays through the strict key parser
        on_arr = buf(64 * max(1, nn))
        off_arr = buf(64 * max(1, nn))
        for i in range(nn):
            ctypes.memmove(ctypes.addressof(on_arr) + 64 * i, lib.pubkey_from_point(on_pts[i]), 64)
            ctypes.memmove(ctypes.addressof(off_arr) + 64 * i, lib.pubkey_from_point(off_pts[i]), 64)
        got = lib_verify(env, sig, on_arr, off_arr, nn, lib.pubkey_from_point(w_pt))
        if got == 1 and nn == 0:
            env.fail("whitelist_verify accepted a signature for an EMPTY key list (forgeable from public data)", signature="whitelist_verify: n_keys == 0")
            return True, classes + ["empty_accept_known"]
        env.require(got == (1 if expect else 0), "whitelist_verify verdict %d, specification says %d" % (got, expect),
                    sig=sigb.hex()[:200], n=nn)
        env.require(lib.illegal() == 0 and lib.errors() == 0, "callback fired while verifying untrusted signature: " + lib.cbmsg())
        classes.append("accept" if got else "reject")
        if honest and not mutated:
            env.require(got == 1, "honest signature rejected")
            # every non-canonical re-encoding s_j + n (fits in 32 bytes for the prover-chosen small scalars) of this VALID
            # signature must be rejected: the same ring equation holds mod n, only the range check tells them apart
            twins = 0
            for j in range(pref[0]):
                if pref[2][j] + N <= gens.M256 and twins < 4:
                    tw = bytearray(sigb)
                    tw[33 + 32 * j:65 + 32 * j] = ec.i2b(pref[2][j] + N)
                    rp2, sig2 = lib_parse(env, bytes(tw))
                    env.require(rp2 == 1, "parser rejected a well-formed signature string with a large scalar")
                    g2 = lib_verify(env, sig2, on_arr, off_arr, nn, lib.pubkey_from_point(w_pt))
                    env.require(g2 == 0, "whitelist_verify accepted the non-canonical re-encoding s+n of a valid signature (scalar index %d)" % j,
                                sig=bytes(tw).hex()[:200])
                    twins += 1
            if twins:
                classes.append("twin_of_valid_rejected")
            # key-count mismatch beyond one byte: the same signature against a list of nn + 256*m entries whose first nn entries are the
            # signed ring (the count is a size_t argument, the signature carries it in one byte) must be rejected
            if nn >= 1:
                m = 1 + (sigb[1] & 1)
                big = nn + 256 * m
                on_big = buf(64 * big)
                off_big = buf(64 * big)
                for i in range(big):
                    ctypes.memmove(ctypes.addressof(on_big) + 64 * i, ctypes.addressof(on_arr) + 64 * (i % nn), 64)
                    ctypes.memmove(ctypes.addressof(off_big) + 64 * i, ctypes.addressof(off_arr) + 64 * (i % nn), 64)
                g3 = lib_verify(env, sig, on_big, off_big, big, lib.pubkey_from_point(w_pt))
                env.require(g3 == 0, "whitelist_verify accepted a %d-key signature against a list of %d keys (count mismatch, equal mod 256)" % (nn, big),
                            sig=sigb.hex()[:200], n=nn, n_keys_arg=big)
                env.require(lib.illegal() == 0 and lib.errors() == 0, "callback fired while verifying against an over-long key list: " + lib.cbmsg())
                classes.append("count_wrap_rejected")
    else:
        classes.append("parse_reject")
    if nn == 0:
        classes.append("empty_list")
    return (n != 1 or mutated or not honest), classes


@st.composite
def parse_case(draw):
    cnt = draw(st.integers(0, 255))
    delta = draw(st.one_of(st.just(0), st.just(0), st.integers(-33, 33), st.sampled_from([-32, 32, -1, 1])))
    ln = max(0, 33 + 32 * cnt + delta)
    if draw(st.integers(0, 9)) == 0:
        ln = draw(st.integers(0, 70))
    return {"count": cnt, "len": ln, "fill": draw(st.sampled_from(["zero", "ff", "hash"])), "seed": draw(st.integers(0, 1 << 30))}


def run_parse(env, case):
    lib = env.lib
    ln = case["len"]
    if case["fill"] == "zero":
        body = bytes(ln)
    elif case["fill"] == "ff":
        body = b"\xff" * ln
    else:
        body = b""
        i = 0
        while len(body) < ln:
            body += ec.sha256(case["seed"].to_bytes(8, "big") + i.to_bytes(4, "big"))
            i += 1
        body = body[:ln]
    b = (bytes([case["count"]]) + body[1:]) if ln else b""
    lib.reset()
    rp, sig = lib_parse(env, b)
    pref = W.parse(b)
    env.require((rp == 1) == (pref is not None), "whitelist parser: verdict %d for count=%d len=%d" % (rp, case["count"], ln))
    if rp == 1:
        rs, ser = lib_serialize(env, sig)
        env.require(rs == 1 and ser == b, "serialize(parse(b)) != b")
        for small in (0, 1, len(b) - 1):
            r2, _ = lib_serialize(env, sig, size=small)
            env.require(r2 == 0, "serialize succeeded with %d-byte buffer for %d-byte signature" % (small, len(b)))
        r3, ser3 = lib_serialize(env, sig, size=len(b) + 7)
        env.require(r3 == 1 and ser3 == b, "serialize with a larger buffer wrong")
    env.require(lib.illegal() == 0 and lib.errors() == 0, "callback fired in parser: " + lib.cbmsg())
    return True, ["accept" if rp else "reject"]


TESTS = [
    Test("sign_verify", sign_case, run_sign, quick=320, thorough=12000, must_cover=["n=0", "n=1", "n=255", "ref_checked", "related:off_neg", "related:off_same", "related_consecutive"]),
    Test("verify_strings", string_case, run_string, quick=900, thorough=40000,
         must_cover=["base:forge_hash", "empty_list", "accept", "reject", "s_plus_n_twin", "ref_prover_ok", "twin_of_valid_rejected", "count_wrap_rejected"]),
    Test("parse", parse_case, run_parse, quick=3000, thorough=60000, must_cover=["accept", "reject"]),
]
