"""C15 — sign-to-contract commitments and the ECDSA anti-exfil protocol are sound and complete."""
import ctypes
from ctypes import c_void_p

from hypothesis import strategies as st

from pyref import ec, ecdsa, s2c as S
from vf import gens
from vf.core import Test
from vf.lib import buf

RULE = ("cases: (a) protocol histories host_commit -> signer_commit -> s2c_sign / anti_exfil_sign -> verify_commit / host_verify, each step on an independently chosen context "
        "variant (fresh, randomised, cloned from a randomised parent that is destroyed, SHA-256 compression replaced by the harness's own implementation, all combined), "
        "keys from the edge-biased key strategy, messages incl. 0 and >= n (and the msg-n alias), data / host randomness from edge patterns; re-run with the same rho "
        "(same opening) and with another rho (different opening, different r); invalid keys; (b) ALL single-bit flips of datum (256), serialized opening (264, re-parsed), "
        "r (256) and s (256) of sampled honest triples: verify_commit / host_verify verdicts decided by pyref.s2c (flips in s: verify_commit must stay 1 by documented design "
        "and anti_exfil_host_verify decides); (c) sampled substitutions: other datum, other parseable opening (negated, endomorphism images (beta^j x, +-y), shifted, from another run, G), r / s multiplied by lambda^j, public key lambda^j Q, signature of another run, "
        "malformed opening encodings, wrong key / message for host_verify.  non-trivial = message >= n, a non-default context, or a mutated input")
ASSUMPTIONS = ["pyref.s2c (tagged hashes s2c/ecdsa/data and s2c/ecdsa/point over ser33(opening) || data, RFC 6979 derivation with the hashed datum as extra entropy) is a "
               "correct reading of the header and DESIGN Appendix A; frozen after agreeing with the library on honest runs",
               "sign-to-contract tweak overflow / zero tweaked nonce (probability ~2^-128) does not occur",
               "openings handed to verify functions come from the library's signer or from a successful secp256k1_ecdsa_s2c_opening_parse"]

N, P = ec.N, ec.P
M256 = gens.M256
CTX_KINDS = ["main", "fresh", "randomized", "cloned", "own_sha", "combo"]


# ------------------------------------------------------------------ contexts
class Ctxs:
    """Context variants for one case; everything created here is destroyed at the end of the case."""

    def __init__(self, env):
        self.env = env
        self.d = env.lib.dll
        self.owned = []
        self.sha_ctx = []

    def make(self, kind, seed32):
        d = self.d
        if kind == "main":
            return self.env.lib.ctx
        ctx = c_void_p(d.vf_ctx_new())
        if kind in ("randomized", "combo", "cloned"):
            if d.secp256k1_context_randomize(ctx, seed32) != 1:
                raise RuntimeError("context_randomize failed")
        if kind in ("own_sha", "combo"):
            d.vf_ctx_set_own_sha256(ctx, 1)
        if kind in ("cloned", "combo"):
            c2 = c_void_p(d.secp256k1_context_clone(ctx))
            d.secp256k1_context_destroy(ctx)       # the clone must be self-contained
            ctx = c2
        self.owned.append(ctx)
        if kind in ("own_sha", "combo"):
            self.sha_ctx.append(ctx)
        return ctx

    def close(self):
        for c in self.owned:
            self.d.secp256k1_context_destroy(c)
        self.owned = []


ctx_spec = st.tuples(st.sampled_from(CTX_KINDS), gens.hexbytes(32))


# ------------------------------------------------------------------ API wrappers
def op_serialize(env, ctx, op):
    out = buf(33)
    r = env.lib.dll.secp256k1_ecdsa_s2c_opening_serialize(ctx, out, op)
    return out.raw if r == 1 else None


def op_parse(env, ctx, b33):
    op = buf(64)
    r = env.lib.dll.secp256k1_ecdsa_s2c_opening_parse(ctx, op, buf(33, b33))
    return r, op


def s2c_sign(env, ctx, msg32, sk32, data32, want_opening=True):
    sig = buf(64, b"\xAA" * 64)
    op = buf(64) if want_opening else None
    r = env.lib.dll.secp256k1_ecdsa_s2c_sign(ctx, sig, op, bytes(msg32), bytes(sk32), bytes(data32))
    return r, sig, op


def ae_sign(env, ctx, msg32, sk32, rho32):
    sig = buf(64, b"\xAA" * 64)
    r = env.lib.dll.secp256k1_anti_exfil_sign(ctx, sig, bytes(msg32), bytes(sk32), bytes(rho32))
    return r, sig


def host_commit(env, ctx, rho32):
    out = buf(32)
    r = env.lib.dll.secp256k1_ecdsa_anti_exfil_host_commit(ctx, out, bytes(rho32))
    return r, out.raw


def signer_commit(env, ctx, msg32, sk32, commitment32):
    op = buf(64)
    r = env.lib.dll.secp256k1_ecdsa_anti_exfil_signer_commit(ctx, op, bytes(msg32), bytes(sk32), bytes(commitment32))
    return r, op


def verify_commit(env, ctx, sig, data32, op):
    return env.lib.dll.secp256k1_ecdsa_s2c_verify_commit(ctx, sig, bytes(data32), op)


def host_verify(env, ctx, sig, msg32, pk, rho32, op):
    return env.lib.dll.secp256k1_anti_exfil_host_verify(ctx, sig, bytes(msg32), pk, bytes(rho32), op)


def compact(env, sig):
    c = env.lib.sig_serialize_compact(sig)
    return ec.b2i(c[:32]), ec.b2i(c[32:])


def sig_obj(env, r, s):
    """(parse verdict, object) through the library's compact parser."""
    return env.lib.sig_parse_compact(ec.i2b(r) + ec.i2b(s))


def no_callbacks(env, where):
    env.require(env.lib.illegal() == 0 and env.lib.errors() == 0, "callback fired in %s: %s" % (where, env.lib.cbmsg()))


# ------------------------------------------------------------------ (a) protocol histories
@st.composite
def protocol_case(draw):
    return {"sk": draw(gens.seckey_valid), "msg": draw(gens.msg32), "rho": draw(gens.bytes32_edge), "rho2": draw(gens.bytes32_edge),
            "ctx_host": draw(ctx_spec), "ctx_commit": draw(ctx_spec), "ctx_sign": draw(ctx_spec), "ctx_again": draw(ctx_spec),
            "bad_sk": draw(st.sampled_from([None] * 40 + [0, N, N + 1, M256])), "sk2": draw(gens.seckey_valid)}


def run_protocol(env, case):
    cx = Ctxs(env)
    try:
        return _run_protocol(env, case, cx)
    finally:
        cx.close()


def _run_protocol(env, case, cx):
    lib = env.lib
    lib.reset()
    sk32, msg32 = ec.i2b(case["sk"]), ec.i2b(case["msg"])
    rho, rho2 = bytes.fromhex(case["rho"]), bytes.fromhex(case["rho2"])
    classes = []
    kinds = set()
    ctxs = {}
    for role in ("ctx_host", "ctx_commit", "ctx_sign", "ctx_again"):
        kind, seed = case[role]
        ctxs[role] = cx.make(kind, bytes.fromhex(seed))
        kinds.add(kind)
        classes.append("%s=%s" % (role, kind))
    for k in kinds:
        classes.append("ctx:" + k)
    if len(kinds) > 1:
        classes.append("mixed_contexts")
    if case["msg"] >= N:
        classes.append("msg_ge_n")
    H, Cc, Sg, Ag = ctxs["ctx_host"], ctxs["ctx_commit"], ctxs["ctx_sign"], ctxs["ctx_again"]
    Q = ec.mulg(case["sk"])
    pk = lib.pubkey_from_point(Q)

    if case["bad_sk"] is not None:
        bad = ec.i2b(case["bad_sk"])
        r, sig, op = s2c_sign(env, Sg, msg32, bad, rho)
        env.require(r == 0, "s2c_sign succeeded with an invalid secret key")
        r, sig = ae_sign(env, Sg, msg32, bad, rho)
        env.require(r == 0, "anti_exfil_sign succeeded with an invalid secret key")
        rr, ops = signer_commit(env, Cc, msg32, bad, rho)      # behaviour for invalid keys not specified: robustness only
        no_callbacks(env, "signing with an invalid key")
        return True, classes + ["bad_seckey"]

    calls0 = lib.dll.vf_get_compress_calls()
    # 1. host commits to rho
    r, c = host_commit(env, H, rho)
    env.require(r == 1 and c == S.host_commit(rho), "host_commit is not the tagged hash of the randomness", got=c.hex())
    # 2. signer commits (public nonce from the host's commitment only)
    r, op1 = signer_commit(env, Cc, msg32, sk32, c)
    env.require(r == 1, "signer_commit failed")
    o1 = op_serialize(env, Cc, op1)
    env.require(o1 is not None, "opening from signer_commit does not serialize")
    # 3./4. host reveals rho, signer signs
    r, sig, op2 = s2c_sign(env, Sg, msg32, sk32, rho)
    env.require(r == 1, "s2c_sign failed with valid inputs")
    o2 = op_serialize(env, Sg, op2)
    env.require(o2 is not None, "opening from s2c_sign does not serialize")
    env.require(o1 == o2, "opening committed by signer_commit differs from the opening of the signature made with the revealed randomness",
                signer_commit=o1.hex(), s2c_sign=o2.hex())
    rs = compact(env, sig)
    ref = S.sign(sk32, msg32, rho)
    env.require(ec.ser33(ref[2]) == o2, "opening differs from pyref.s2c (RFC 6979 nonce with the hashed datum as extra entropy)", got=o2.hex(), want=ec.ser33(ref[2]).hex())
    env.require(rs == (ref[0], ref[1]), "signature differs from pyref.s2c", got="%064x%064x" % rs)
    env.require(rs[1] <= ec.HALF_N, "s2c signature is not low-S")
    env.require(ecdsa.verify(rs[0], rs[1], msg32, Q) and lib.ecdsa_verify(sig, msg32, pk) == 1, "s2c signature does not verify under the signer's key")
    r, sig_b = ae_sign(env, Ag, msg32, sk32, rho)
    env.require(r == 1 and compact(env, sig_b) == rs, "anti_exfil_sign and s2c_sign give different signatures for the same inputs")
    r, sig_c, _ = s2c_sign(env, Ag, msg32, sk32, rho, want_opening=False)
    env.require(r == 1 and compact(env, sig_c) == rs, "s2c_sign without an opening output gives a different signature")
    # 5. host verifies
    env.require(verify_commit(env, H, sig, rho, op2) == 1, "verify_commit rejects the honest commitment")
    env.require(verify_commit(env, H, sig, rho, op1) == 1, "verify_commit rejects the opening from signer_commit")
    env.require(host_verify(env, H, sig, msg32, pk, rho, op1) == 1, "anti_exfil_host_verify rejects an honest protocol run")
    # opening round trip
    rp, opp = op_parse(env, H, o2)
    env.require(rp == 1 and op_serialize(env, H, opp) == o2, "opening parse/serialize round trip failed")
    env.require(verify_commit(env, H, sig, rho, opp) == 1, "verify_commit rejects the re-parsed opening")
    # restart with exactly the same rho: same R
    r, op3 = signer_commit(env, Ag, msg32, sk32, c)
    env.require(r == 1 and op_serialize(env, Ag, op3) == o1, "restarting the protocol with the same rho gave a different opening")
    # another rho: different opening, different signature nonce
    if rho2 != rho:
        r, c2 = host_commit(env, H, rho2)
        r, op4 = signer_commit(env, Cc, msg32, sk32, c2)
        o4 = op_serialize(env, Cc, op4)
        env.require(r == 1 and o4 != o1, "different host randomness gave the same opening")
        r, sig4, op5 = s2c_sign(env, Sg, msg32, sk32, rho2)
        env.require(r == 1 and op_serialize(env, Sg, op5) == o4, "second run: signer_commit and s2c_sign openings differ")
        rs4 = compact(env, sig4)
        env.require(rs4[0] != rs[0], "different host randomness gave the same signature nonce r")
        # cross checks, decided by the reference
        O1, O4 = S.parse_opening(o1), S.parse_opening(o4)
        for name, sg, rr_, dat, opx, Ox in (("data2", sig, rs, rho2, op2, O1), ("opening2", sig, rs, rho, op4, O4), ("sig2", sig4, rs4, rho, op2, O1)):
            exp = S.verify_commit(rr_[0], dat, Ox)
            got = verify_commit(env, H, sg, dat, opx)
            env.require(got == (1 if exp else 0), "verify_commit verdict %d for %s, reference says %d" % (got, name, exp))
            exph = exp and ecdsa.verify(rr_[0], rr_[1], msg32, Q)
            goth = host_verify(env, H, sg, msg32, pk, dat, opx)
            env.require(goth == (1 if exph else 0), "host_verify verdict %d for %s, reference says %d" % (goth, name, exph))
        classes.append("second_rho")
    # message alias msg - n: both derivations reduce the message
    if case["msg"] >= N:
        m2 = ec.i2b(case["msg"] - N)
        r, opa = signer_commit(env, Cc, m2, sk32, c)
        env.require(r == 1 and op_serialize(env, Cc, opa) == ec.ser33(S.signer_commit(m2, sk32, c)), "signer_commit(msg - n) differs from the reference")
        r, siga, opb = s2c_sign(env, Sg, m2, sk32, rho)
        refa = S.sign(sk32, m2, rho)
        env.require(r == 1 and compact(env, siga) == (refa[0], refa[1]) and op_serialize(env, Sg, opb) == ec.ser33(refa[2]), "s2c_sign(msg - n) differs from the reference")
    # host_verify with a wrong key / message
    Q2 = ec.mulg(case["sk2"])
    exp = ecdsa.verify(rs[0], rs[1], msg32, Q2)
    env.require(host_verify(env, H, sig, msg32, lib.pubkey_from_point(Q2), rho, op1) == (1 if exp else 0), "host_verify verdict wrong for another public key")
    m3 = ec.i2b(case["msg"] ^ 1)
    exp = ecdsa.verify(rs[0], rs[1], m3, Q)
    env.require(host_verify(env, H, sig, m3, pk, rho, op1) == (1 if exp else 0), "host_verify verdict wrong for another message")
    if cx.sha_ctx and lib.dll.vf_get_compress_calls() > calls0:
        classes.append("own_sha_used")
    no_callbacks(env, "protocol run")
    nt = case["msg"] >= N or kinds != {"main"}
    return nt, classes


# ------------------------------------------------------------------ (b) every single-bit flip of datum / opening / r / s
@st.composite
def sweep_case(draw):
    return {"sk": draw(gens.seckey_valid), "msg": draw(gens.msg32), "data": draw(gens.bytes32_edge), "ctx": draw(ctx_spec), "ctx_sign": draw(ctx_spec)}


def hyp_examples(strategy, n, *seedparts):
    """n cases drawn by Hypothesis with a seed derived from VERIF_SEED (used by the sharded full-sweep tests, which are too heavy per case for the
    driver's cases-per-shard rule but must still take every random choice from the shared strategies)."""
    import os
    from hypothesis import given, settings, seed, HealthCheck, Phase
    from vf.core import derive_seed
    out = []

    @seed(derive_seed(int(os.environ.get("VERIF_SEED", "1") or "1") or 1, *seedparts))
    @settings(max_examples=n, database=None, deadline=None, suppress_health_check=list(HealthCheck), phases=[Phase.generate], derandomize=False)
    @given(strategy)
    def collect(c):
        out.append(c)

    collect()
    return out[:n]


def sweep_enum(tier, shard, nshards):
    per = 4 if tier == "quick" else 190
    for c in hyp_examples(sweep_case(), per, "C15", "bit_sweep", shard, nshards):
        yield c


def sweep_enum_vsan(tier, shard, nshards):
    # few, longer shards: a sanitizer-instrumented worker costs ~10-20 CPU-s to start
    per = 8 if tier == "quick" else 250
    for c in hyp_examples(sweep_case(), per, "C15", "bit_sweep_vsan", shard, nshards):
        yield c


def run_sweep(env, case):
    cx = Ctxs(env)
    try:
        return _run_sweep(env, case, cx)
    finally:
        cx.close()


def _run_sweep(env, case, cx):
    lib = env.lib
    lib.reset()
    sk32, msg32, data = ec.i2b(case["sk"]), ec.i2b(case["msg"]), bytes.fromhex(case["data"])
    V = cx.make(case["ctx"][0], bytes.fromhex(case["ctx"][1]))
    Sg = cx.make(case["ctx_sign"][0], bytes.fromhex(case["ctx_sign"][1]))
    classes = ["ctx:" + case["ctx"][0]]
    if case["msg"] >= N:
        classes.append("msg_ge_n")
    Q = ec.mulg(case["sk"])
    pk = lib.pubkey_from_point(Q)
    r, sig, op = s2c_sign(env, Sg, msg32, sk32, data)
    env.require(r == 1, "s2c_sign failed with valid inputs")
    rr, ss = compact(env, sig)
    o33 = op_serialize(env, V, op)
    O = S.parse_opening(o33)
    env.require(O is not None and S.verify_commit(rr, data, O) and ecdsa.verify(rr, ss, msg32, Q), "reference rejects the library's honest s2c signature / opening")
    env.require(verify_commit(env, V, sig, data, op) == 1 and host_verify(env, V, sig, msg32, pk, data, op) == 1, "honest triple rejected")
    sig_ok = True
    # datum
    for bit in range(256):
        d2 = bytearray(data)
        d2[bit // 8] ^= 1 << (bit % 8)
        d2 = bytes(d2)
        exp = S.verify_commit(rr, d2, O)
        got = verify_commit(env, V, sig, d2, op)
        env.require(got == (1 if exp else 0), "verify_commit verdict %d with bit %d of the datum flipped, reference says %d" % (got, bit, exp))
        goth = host_verify(env, V, sig, msg32, pk, d2, op)
        env.require(goth == (1 if exp and sig_ok else 0), "host_verify verdict %d with bit %d of the datum flipped" % (goth, bit))
    # opening (serialized form, re-parsed)
    parsed = 0
    for bit in range(264):
        o2 = bytearray(o33)
        o2[bit // 8] ^= 1 << (bit % 8)
        o2 = bytes(o2)
        O2 = S.parse_opening(o2)
        rp, opx = op_parse(env, V, o2)
        env.require((rp == 1) == (O2 is not None), "opening parser verdict %d for a 33-byte string, format says %s" % (rp, O2 is not None), opening=o2.hex())
        if rp != 1:
            continue
        parsed += 1
        exp = S.verify_commit(rr, data, O2)
        got = verify_commit(env, V, sig, data, opx)
        env.require(got == (1 if exp else 0), "verify_commit verdict %d with bit %d of the opening flipped (parseable), reference says %d" % (got, bit, exp), opening=o2.hex())
        goth = host_verify(env, V, sig, msg32, pk, data, opx)
        env.require(goth == (1 if exp else 0), "host_verify verdict %d with bit %d of the opening flipped" % (goth, bit))
    classes.append("opening_flips_parsed:%s" % ("some" if parsed else "none"))
    # r: the commitment check compares r with the commitment's x coordinate
    Cx = S.commitment_point(O, data)[0] % N
    for bit in range(256):
        r2 = rr ^ (1 << bit)
        rp, sg = sig_obj(env, r2, ss)
        env.require((rp == 1) == (r2 < N), "compact signature parser verdict wrong for r %s n" % ("<" if r2 < N else ">="))
        if rp != 1:
            classes.append("r_flip_unparseable")
            continue
        exp = (r2 == Cx)
        got = verify_commit(env, V, sg, data, op)
        env.require(got == (1 if exp else 0), "verify_commit verdict %d with bit %d of r flipped" % (got, bit))
        goth = host_verify(env, V, sg, msg32, pk, data, op)
        env.require(goth == (1 if exp and ecdsa.verify(r2, ss, msg32, Q) else 0), "host_verify verdict %d with bit %d of r flipped" % (goth, bit))
    # s: the commitment check ignores s by documented design; host_verify decides
    for bit in range(256):
        s2 = ss ^ (1 << bit)
        rp, sg = sig_obj(env, rr, s2)
        env.require((rp == 1) == (s2 < N), "compact signature parser verdict wrong for s %s n" % ("<" if s2 < N else ">="))
        if rp != 1:
            classes.append("s_flip_unparseable")
            continue
        got = verify_commit(env, V, sg, data, op)
        env.require(got == 1, "verify_commit verdict %d with bit %d of s flipped: the commitment is in r only (header: 'does not necessarily need to be a valid signature')" % (got, bit))
        exp = ecdsa.verify(rr, s2, msg32, Q)
        goth = host_verify(env, V, sg, msg32, pk, data, op)
        env.require(goth == (1 if exp else 0), "host_verify verdict %d with bit %d of s flipped, reference says %d" % (goth, bit, exp))
    no_callbacks(env, "bit sweep")
    return True, classes + ["swept"]


# ------------------------------------------------------------------ (c) sampled substitutions
OPENING_SUBS = ["neg", "plus_g", "other_run", "G", "data_swapped_run", "lambda", "neg_lambda"] + ["same"] * 8
DATA_SUBS = ["other", "zero", "ones", "hash_of_data"] + ["same"] * 8
SIG_SUBS = ["other_run", "high_s", "r_plus_1", "s_plus_1", "r_is_opening_x", "zero_s", "s_lambda", "r_lambda"] + ["same"] * 7
ENC_SUBS = ["x_ge_p", "offcurve", "prefix", "x_plus_p"]


@st.composite
def subst_case(draw):
    return {"sk": draw(gens.seckey_valid), "msg": draw(gens.msg32), "data": draw(gens.bytes32_edge), "data2": draw(gens.bytes32_edge),
            "ctx": draw(ctx_spec), "ctx_sign": draw(ctx_spec), "sk2": draw(gens.seckey_valid),
            "opening": draw(st.sampled_from(OPENING_SUBS)), "datum": draw(st.sampled_from(DATA_SUBS)), "sig": draw(st.sampled_from(SIG_SUBS)),
            "enc": draw(st.sampled_from(ENC_SUBS)), "a": draw(st.integers(0, 1 << 16))}


def run_subst(env, case):
    cx = Ctxs(env)
    try:
        return _run_subst(env, case, cx)
    finally:
        cx.close()


def _run_subst(env, case, cx):
    lib = env.lib
    lib.reset()
    sk32, msg32, data, data2 = ec.i2b(case["sk"]), ec.i2b(case["msg"]), bytes.fromhex(case["data"]), bytes.fromhex(case["data2"])
    V = cx.make(case["ctx"][0], bytes.fromhex(case["ctx"][1]))
    Sg = cx.make(case["ctx_sign"][0], bytes.fromhex(case["ctx_sign"][1]))
    classes = ["ctx:" + case["ctx"][0], "opening:" + case["opening"], "datum:" + case["datum"], "sig:" + case["sig"]]
    Q = ec.mulg(case["sk"])
    pk = lib.pubkey_from_point(Q)
    r, sig, op = s2c_sign(env, Sg, msg32, sk32, data)
    env.require(r == 1, "s2c_sign failed with valid inputs")
    rr, ss = compact(env, sig)
    O = S.parse_opening(op_serialize(env, V, op))
    # a second, unrelated run (other key, other datum)
    sk2_32 = ec.i2b(case["sk2"])
    r, sig_o, op_o = s2c_sign(env, Sg, msg32, sk2_32, data2)
    env.require(r == 1, "s2c_sign failed with valid inputs")
    rr_o, ss_o = compact(env, sig_o)
    O_o = S.parse_opening(op_serialize(env, V, op_o))
    # substitutions
    # endomorphism images: lambda^j * (x, y) = (beta^j x, y) -- "algebraically related wrong values" (same y^2, other x); scalars times lambda^j
    jj = 1 + case["a"] % 2
    Olam = (O[0] * pow(ec.BETA, jj, P) % P, O[1])
    Ov = {"neg": ec.neg(O), "plus_g": ec.add(O, ec.G), "other_run": O_o, "G": ec.G, "data_swapped_run": O_o, "same": O,
          "lambda": Olam, "neg_lambda": ec.neg(Olam)}[case["opening"]]
    dv = {"other": data2, "zero": bytes(32), "ones": b"\xff" * 32, "hash_of_data": S.data_hash(data), "same": data}[case["datum"]]
    if case["opening"] == "data_swapped_run":
        dv = data2
    rv, sv = {"other_run": (rr_o, ss_o), "high_s": (rr, N - ss), "r_plus_1": ((rr + 1) % N, ss), "s_plus_1": (rr, (ss + 1) % N),
              "r_is_opening_x": (O[0] % N, ss), "zero_s": (rr, 0), "same": (rr, ss),
              "s_lambda": (rr, ss * pow(ec.LAMBDA, jj, N) % N), "r_lambda": (rr * pow(ec.LAMBDA, jj, N) % N, ss)}[case["sig"]]
    mutated = not (Ov == O and dv == data and (rv, sv) == (rr, ss))
    if Ov is None:
        return False, classes
    rp, opx = op_parse(env, V, ec.ser33(Ov))
    env.require(rp == 1, "opening parser rejects a valid compressed point")
    rp, sg = sig_obj(env, rv, sv)
    env.require(rp == 1, "compact parser rejects r, s < n")
    exp = S.verify_commit(rv, dv, Ov)
    got = verify_commit(env, V, sg, dv, opx)
    env.require(got == (1 if exp else 0), "verify_commit verdict %d, reference says %d" % (got, exp), opening=ec.ser33(Ov).hex(), data=dv.hex(), r="%064x" % rv)
    exph = exp and ecdsa.verify(rv, sv, msg32, Q)
    goth = host_verify(env, V, sg, msg32, pk, dv, opx)
    env.require(goth == (1 if exph else 0), "host_verify verdict %d, reference says %d (verify_commit %d)" % (goth, exph, exp))
    classes.append("commit:%d" % got)
    classes.append("host:%d" % goth)
    if not mutated:
        env.require(got == 1 and goth == 1, "honest triple rejected")
        # the signer's key replaced by its endomorphism image
        Ql = (Q[0] * pow(ec.BETA, jj, P) % P, Q[1])
        expl = ecdsa.verify(rr, ss, msg32, Ql)
        env.require(host_verify(env, V, sig, msg32, lib.pubkey_from_point(Ql), data, op) == (1 if expl else 0), "host_verify verdict wrong for the public key lambda^j * Q")
        classes.append("pubkey:lambda")
    # malformed opening encodings never parse
    o33 = bytearray(ec.ser33(O))
    x = O[0]
    enc = case["enc"]
    if enc == "x_ge_p":
        o33[1:] = ec.i2b([P, P + 1, M256, P + 6][case["a"] % 4])
    elif enc == "offcurve":
        x2 = (x + 1) % P
        while ec.lift_x(x2) is not None:
            x2 = (x2 + 1) % P
        o33[1:] = ec.i2b(x2)
    elif enc == "prefix":
        o33[0] = [0, 1, 4, 5, 6, 7, 0x82, 0xFF][case["a"] % 8]
    elif enc == "x_plus_p":
        # tiny x so that x + p fits in 32 bytes: a parser that reduces instead of range-checking would accept it
        xs = case["a"] % 2000
        while ec.lift_x(xs) is None:
            xs += 1
        o33 = bytearray(b"\x02" + ec.i2b(xs + P))
        classes.append("enc:x_plus_p_fits")
    o33 = bytes(o33)
    rp, _ = op_parse(env, V, o33)
    env.require((rp == 1) == (S.parse_opening(o33) is not None), "opening parser verdict %d for a malformed encoding (%s)" % (rp, enc), opening=o33.hex())
    no_callbacks(env, "substitution case")
    nt = mutated or case["msg"] >= N or case["ctx"][0] != "main"
    return nt, classes


# max_workers is kept small for everything that runs on the sanitizer build: each such worker process costs 10-20 CPU-seconds before its first case
PROD = {"quick": ["prod"], "thorough": ["prod"]}
VSAN = {"quick": ["vsan"], "thorough": ["vsan"]}
TESTS = [
    Test("protocol", protocol_case, run_protocol, quick=1500, thorough=50000, max_workers=4,
         must_cover=["msg_ge_n", "mixed_contexts", "second_rho", "own_sha_used", "bad_seckey"] + ["ctx:" + k for k in CTX_KINDS]),
    Test("bit_sweep", sweep_enum, run_sweep, kind="enum", cfgs=PROD, must_cover=["swept", "msg_ge_n", "opening_flips_parsed:some", "ctx:own_sha"]),
    Test("bit_sweep_vsan", sweep_enum_vsan, run_sweep, kind="enum", cfgs=VSAN, max_workers=2, must_cover=["swept"]),
    Test("substitutions", subst_case, run_subst, quick=2500, thorough=80000, max_workers=3,
         must_cover=["commit:0", "commit:1", "host:0", "host:1", "opening:neg", "sig:high_s", "sig:zero_s", "datum:other", "enc:x_plus_p_fits", "opening:lambda", "opening:neg_lambda", "sig:s_lambda", "sig:r_lambda",
                     "pubkey:lambda"]),
]
