"""C10 — range-proof verification accepts exactly the specified proofs (reference verifier + adversarial reference prover)."""
import ctypes
import os
import signal
from ctypes import c_size_t, c_int, c_uint64, byref

from hypothesis import strategies as st

from pyref import ec, pedersen, borromean, rangeproof as R
from vf import gens
from vf.core import Test, Inconclusive
from vf.lib import buf
from vf.props import rp_common as RC

RULE = ("cases: (i) library proofs (documented-valid parameters, mantissa skewed small, 64 always present) with EVERY single-bit flip when the proof is <= 200 bytes and 256 sampled "
        "flips otherwise, every truncation / extension by 1..33 bytes, bit flips in extra_commit, another commitment / generator; (ii) proofs made by the reference PROVER with every "
        "free value chosen by the case (header exp 0..31 / mantissa byte 0..255 / reserved bit / min so that min+max is just below, at, above 2^64, spare sign bits, trailing bytes, "
        "small forged scalars and their s+n twins, scalar 0, digit commitment x >= p / off curve / x+p twin of a tiny-x digit commitment, last digit commitment = infinity, "
        "wrong witness, sender-side rewind data incl. a value digit outside the last ring); (iii) structured random strings; (iv) header strings for rangeproof_info. "
        "Oracle: pyref.rangeproof.verify decides every verdict and the reported [min,max]; pyref.rangeproof.info decides rangeproof_info; rewind (stack pre-filled, see csrc/shim_C10.inc) "
        "returns 1 only if verify does and then blind*G + value*H equals the commitment and min <= value <= max; no callback, sanitizer report or VERIFY abort. "
        "One case = one base proof with its whole batch of mutations (counted in the class histogram as verdict:*). non-trivial = at least one compared string is not an unmodified library proof")
ASSUMPTIONS = ["pyref.rangeproof / pyref.borromean / pyref.pedersen are a correct reading of DESIGN.md Appendix A and the header (validated: byte-identical with 280 library proofs incl. embedded "
               "messages, 1680 mutated verdicts equal; then frozen)",
               "commitment / generator objects handed to the verifier come from the library's own strict parsers",
               "SHA-256 outputs used as challenges are < n and non-zero (failure probability 2^-128, handled as 'prover gave up')"]

N, P = ec.N, ec.P
U64 = (1 << 64) - 1
F3_SIG = "rangeproof_rewind: value digit outside last ring"


# ------------------------------------------------------------------------------------------------ memoised double multiplication for the reference
class _EcMemo:
    """pyref.borromean sees this instead of pyref.ec: identical functions, ec.lincomb memoised (a flipped bit in one scalar leaves every other
    ring member's e*P + s*G unchanged, so a batch of mutations of one proof re-uses almost all points).  Pure memoisation, no change of meaning."""

    def __init__(self):
        self.cache = {}

    def __getattr__(self, name):
        return getattr(ec, name)

    def lincomb(self, *terms):
        key = terms
        try:
            hit = self.cache.get(key)
        except TypeError:
            return ec.lincomb(*terms)
        if hit is None:
            if len(self.cache) > 60000:
                self.cache.clear()
            hit = (ec.lincomb(*terms),)
            self.cache[key] = hit
        return hit[0]


_MEMO = _EcMemo()
borromean.ec = _MEMO


def derive(seed, tag, i=0, mod=N):
    """deterministic scalar in [1, mod)"""
    return ec.b2i(ec.sha256(b"C10" + seed.to_bytes(8, "big") + tag + i.to_bytes(4, "big"))) % (mod - 1) + 1


def stream_bytes(seed, tag, n):
    out = b""
    i = 0
    while len(out) < n:
        out += ec.sha256(b"C10s" + seed.to_bytes(8, "big") + tag + i.to_bytes(4, "big"))
        i += 1
    return out[:n]


# ------------------------------------------------------------------------------------------------ library calls specific to C10
def rewind_painted(env, c, proof, nonce32, g, extra, paint):
    """rangeproof_rewind through the stack-painting wrapper (falls back to the plain call if the wrapper is not in the shim)"""
    lib = env.lib
    if not hasattr(lib.dll, "vf_c10_rewind_painted"):
        return RC.rp_rewind(env, c, proof, nonce32, g, extra)
    mn, mx, val = c_uint64(0), c_uint64(0), c_uint64(0x3333333333333333)
    blind = buf(32)
    msg = buf(4096, b"\x5a" * 4096)
    ol = c_size_t(4096)
    pb = buf(max(1, len(proof)), proof)
    r = lib.dll.vf_c10_rewind_painted(c_int(paint), lib.ctx, blind, byref(val), msg, byref(ol), bytes(nonce32), byref(mn), byref(mx), c, pb,
                                      c_size_t(len(proof)), RC._xbuf(extra), c_size_t(len(extra)), g)
    return r, blind.raw, val.value, msg.raw[:min(ol.value, 4096)], mn.value, mx.value, ol.value


def rewind_forked(env, c, proof, nonce32, g, extra, paint):
    """the painted rewind in a forked child, so that an abort (VERIFY_CHECK / sanitizer) is observed instead of killing the worker.
    -> ('ret', r) | ('signal', signo)"""
    pid = os.fork()
    if pid == 0:
        try:
            signal.signal(signal.SIGABRT, signal.SIG_DFL)      # die at once on abort(): no sanitizer stack symbolisation in the throw-away child
            r = rewind_painted(env, c, proof, nonce32, g, extra, paint)[0]
            os._exit(40 + (r & 1) if r in (0, 1) else 50)
        except BaseException:
            os._exit(51)
    _, status = os.waitpid(pid, 0)
    if os.WIFSIGNALED(status):
        return ("signal", os.WTERMSIG(status))
    code = os.WEXITSTATUS(status)
    if code in (40, 41):
        return ("ret", code - 40)
    return ("odd", code)


class Verdicts:
    """compares library and reference on one string; keeps counts"""

    def __init__(self, env, classes, paint, nonce):
        self.env, self.classes, self.paint, self.nonce = env, classes, paint, nonce
        self.n = 0
        self.acc = 0
        self.rej = 0

    def check(self, proof, c, C, g, H, extra, tag, expect=None, rewind=None, **kw):
        """-> reference verdict.  expect: what the prover knows about the string (harness self-check, not part of the oracle)"""
        env = self.env
        lib = env.lib
        proof = bytes(proof)
        lib.reset()
        lv = RC.rp_verify(env, c, proof, g, extra)
        ok, mn, mx = R.verify(proof, C, H, extra)
        if expect is not None and ok != expect:
            raise AssertionError("reference verdict %s differs from what the reference prover constructed (%s, expect %s)" % (ok, tag, expect))
        env.require((lv[0] == 1) == ok, "rangeproof_verify returned %d, the specification says %d  [%s]" % (lv[0], 1 if ok else 0, tag),
                    proof=proof.hex() if len(proof) <= 400 else proof.hex()[:400] + "...", plen=len(proof), commit=pedersen.enc_qr(C, 8).hex(),
                    gen=pedersen.enc_qr(H, 10).hex(), extra=extra.hex(), **kw)
        if ok:
            env.require((lv[1], lv[2]) == (mn, mx), "rangeproof_verify reports range [%d,%d], the specification says [%d,%d]  [%s]" % (lv[1], lv[2], mn, mx, tag), **kw)
            self.acc += 1
        else:
            self.rej += 1
        li = RC.rp_info(env, proof)
        ri = R.info(proof)
        env.require((li[0] == 1) == (ri is not None) and (ri is None or tuple(li[1:]) == ri), "rangeproof_info disagrees with the header format  [%s]" % tag,
                    lib=li, ref=ri, head=proof[:10].hex(), plen=len(proof))
        self.n += 1
        do_rw = rewind if rewind is not None else (ok or self.n % 16 == 0)
        if do_rw:
            self.check_rewind(proof, c, C, g, H, extra, self.nonce, lv, tag)
        env.require(lib.illegal() == 0 and lib.errors() == 0, "callback fired while verifying an untrusted proof: " + lib.cbmsg() + "  [%s]" % tag)
        return ok

    def check_rewind(self, proof, c, C, g, H, extra, nonce, lv, tag, paint=None):
        env = self.env
        rr = rewind_painted(env, c, proof, nonce, g, extra, self.paint if paint is None else paint)
        env.require(rr[0] in (0, 1), "rangeproof_rewind returned %d" % rr[0])
        env.require(not (rr[0] == 1 and lv[0] != 1), "rangeproof_rewind accepts a proof that rangeproof_verify rejects  [%s]" % tag)
        if rr[0] == 1:
            env.require((rr[4], rr[5]) == (lv[1], lv[2]), "rangeproof_rewind reports another range than rangeproof_verify  [%s]" % tag)
            b = ec.b2i(rr[1])
            env.require(b < N and pedersen.commit_point(b, rr[2], H) == C, "rewind returned 1 but blind*G + value*H is not the commitment  [%s]" % tag,
                        blind=rr[1].hex(), value=rr[2])
            env.require(rr[4] <= rr[2] <= rr[5], "rewind returned a value outside the proven range  [%s]" % tag, value=rr[2], min=rr[4], max=rr[5])
        return rr

    def flush(self):
        if self.acc:
            self.classes.append("verdict:accept")
        if self.rej:
            self.classes.append("verdict:reject")


# ================================================================================================ (i) library proofs and their mutations
@st.composite
def lib_case(draw):
    exp = draw(st.sampled_from([-1, 0, 0, 0, 0, 1, 2, 5]))
    mb = draw(st.sampled_from([0, 0, 0, 1, 1, 2, 2, 3, 3, 4, 4, 5, 6, 7, 8, 9, 10, 12, 16, 24, 33, 64, 64, 0, 1, 2, 3]))
    value = RC.weighted(draw, [(3, st.integers(0, 3)), (3, st.integers(0, 255)), (3, st.integers(0, 1 << 16)), (2, st.integers(0, 1 << 24)),
                               (1, st.sampled_from([(1 << 63) - 2, 1 << 62, 10 ** 18, 1 << 32, 1 << 40])), (1, gens.u64_edge.map(lambda x: x >> 1))])
    mink = draw(st.sampled_from(["zero", "zero", "zero", "eq", "below", "one"]))
    value = min(value, (1 << 63) - 2)
    mn = {"zero": 0, "eq": value, "one": min(1, value)}.get(mink)
    if mn is None:
        mn = draw(st.integers(0, value))
    seed = draw(st.integers(0, 1 << 40))
    blind = draw(gens.seckey_valid)
    nonce = draw(gens.hexbytes(32))
    extra = draw(st.sampled_from([0, 0, 1, 7, 32, 33]).flatmap(lambda n: gens.hexbytes(n)))
    # the proof shapes the test must cover are forced by a hash selector over ALL drawn fields (rp_common.hsel): 1/8 each
    sel = RC.hsel("C10lib", seed, blind, nonce, extra, value, mn, exp, mb) % 8
    if sel == 0:
        exp, mb, mn = 0, 64, 0                          # 64-bit mantissa (5126-byte proof)
    elif sel == 1:
        exp = -1                                        # exact-value proof (73 bytes: every bit is flipped)
    elif sel == 2:
        exp, mb, value, mn = 0, 0, value & 1, 0         # mantissa 1 (98 bytes: every bit is flipped)
    elif sel == 3:
        exp, mb, value, mn = 0, 3 + (seed % 6), value & 0xFF, 0      # 259..643 bytes: 256 sampled flips
    return {"value": value, "min_value": mn, "exp": exp, "min_bits": mb, "blind": blind, "nonce": nonce,
            "msg_len": draw(st.sampled_from([0, 0, 1, 32, 100])), "extra": extra,
            "gen": draw(RC.gen_spec), "seed": seed, "paint": draw(st.sampled_from([0xFF, 0xFF, 0x00, 0xA5]))}


def flip_positions(nbytes, seed, tier):
    """every bit for proofs <= 200 bytes; otherwise 256 sampled positions (quick tier: 64 for proofs > 1200 bytes, where one changed digit commitment
    costs the reference a full chain of up to 128 double multiplications)"""
    if nbytes <= 200:
        return list(range(nbytes * 8)), "every_bit"
    k = 64 if (tier == "quick" and nbytes > 1200) else 256
    raw = stream_bytes(seed, b"flips", 4 * k)
    return [int.from_bytes(raw[4 * i:4 * i + 4], "big") % (nbytes * 8) for i in range(k)], "sampled%d" % k


def run_lib(env, case):
    _MEMO.cache.clear()
    lib = env.lib
    classes = []
    mg = RC.make_gen(env, case["gen"])
    if mg is None:
        return False, ["gen_refused"]
    g, H = mg
    v, mn = case["value"], case["min_value"]
    rc, c = RC.commit(env, case["blind"], v, g)
    if rc != 1:
        return False, ["commit_refused"]
    C = RC.commit_point(env, c)
    nonce = bytes.fromhex(case["nonce"])
    extra = bytes.fromhex(case["extra"])
    msg = stream_bytes(case["seed"], b"msg", case["msg_len"])
    r, proof, _ = RC.rp_sign(env, c, ec.i2b(case["blind"]), nonce, case["exp"], case["min_bits"], v, mn, g, msg, extra)
    if r != 1:
        r, proof, _ = RC.rp_sign(env, c, ec.i2b(case["blind"]), nonce, case["exp"], case["min_bits"], v, mn, g, b"", extra)
        msg = b""
        if r != 1:
            return False, ["sign_failed"]         # C09 decides whether that is legitimate
    V = Verdicts(env, classes, case["paint"], nonce)
    h = R.parse_header(proof)
    mant = h["mantissa"] if h else -1
    classes.append("mant=%s" % ("exact" if mant == 0 else mant if mant in (1, 2, 64) else "3-8" if mant <= 8 else "9-32" if mant <= 32 else "33-63"))
    env.require(V.check(proof, c, C, g, H, extra, "unmodified library proof"), "the reference verifier rejects an honest library proof (reference and library disagree)",
                proof=proof.hex()[:200])
    # --- bit flips
    pos, how = flip_positions(len(proof), case["seed"], getattr(env, "tier", "quick"))
    classes.append("flips:" + how)
    if env.cfg == "vsan":
        # the sanitizer build is ~10x slower in the group arithmetic: it takes one of eight interleaved slices of the flip list (all slices occur over a run)
        pos = pos[case["seed"] % 8::8]
    for p in pos:
        m2 = bytearray(proof)
        m2[p >> 3] ^= 1 << (p & 7)
        ok = V.check(m2, c, C, g, H, extra, "bit %d flipped" % p, bit=p)
        env.require(not ok, "a single flipped bit leaves the proof valid (per the reference too): malleable encoding", bit=p)
    # --- truncations / extensions
    for k in range(1, 34):
        ok = V.check(proof[:len(proof) - k], c, C, g, H, extra, "truncated by %d" % k, expect=False)
        fill = stream_bytes(case["seed"], b"ext%d" % k, k) if k & 1 else bytes(k)
        ok = V.check(proof + fill, c, C, g, H, extra, "extended by %d" % k, expect=False)
    classes.append("trunc_ext")
    # --- extra commit: flips, append, drop
    limit = 2 if mant > 16 else 16
    exs = []
    if extra:
        bits = list(range(len(extra) * 8))
        if len(bits) > limit:
            raw = stream_bytes(case["seed"], b"exflip", 2 * limit)
            bits = sorted({int.from_bytes(raw[2 * i:2 * i + 2], "big") % len(bits) for i in range(limit)})
        for bpos in bits:
            e2 = bytearray(extra)
            e2[bpos >> 3] ^= 1 << (bpos & 7)
            exs.append(bytes(e2))
        exs.append(extra[:-1])
    exs.append(extra + b"\x00")
    for e2 in exs:
        V.check(proof, c, C, g, H, e2, "other extra commit", expect=False)
    classes.append("extra_mut")
    # --- other commitment (value+-1, other blind) and other generator
    rc2, c2 = RC.commit(env, case["blind"], v ^ 1, g)
    if rc2 == 1:
        V.check(proof, c2, RC.commit_point(env, c2), g, H, extra, "commitment to another value", expect=False)
    rc3, c3 = RC.commit(env, case["blind"] % (N - 1) + 1, v, g)
    if rc3 == 1:
        V.check(proof, c3, RC.commit_point(env, c3), g, H, extra, "commitment with another blind", expect=False)
    og = RC.make_gen(env, {"kind": "seed", "seed": ec.sha256(b"C10 other gen" + nonce).hex()})
    if og is not None:
        V.check(proof, c, C, og[0], og[1], extra, "another generator", expect=False)
    classes.append("other_commit_gen")
    V.flush()
    return True, classes


# ================================================================================================ (ii) reference prover
ADV = ["honest", "honest", "exact", "exact", "exp_hi", "reserved", "mant_hi", "overflow", "overflow", "overflow", "exp_overflow", "spare_bits", "trailing", "digit_bad_x", "digit_bad_x",
       "digit_x_plus_p", "scalar_zero", "last_inf", "wrong_witness", "f3", "ref_sender", "cancelling_digits", "cancelling_digits"]
MANT_SMALL = [1, 1, 2, 2, 3, 3, 4, 5, 5, 6, 7, 8, 9, 11, 16, 17, 19, 33]


def _tiny_points():
    out = []
    x = 1
    while len(out) < 6:
        y = pedersen.qr_root((x * x * x + 7) % P)
        if y is not None:
            out.append((x, y))
            out.append((x, P - y))
        x += 1
    return out


TINY = _tiny_points()


F3_MANT = [1, 1, 1, 3, 3, 3, 5, 5, 7, 9, 11, 17, 63]


@st.composite
def ref_case(draw, adv=None):
    case = {"mant": RC.weighted(draw, [(10, st.sampled_from(MANT_SMALL)), (1, st.sampled_from([63, 64, 64])), (1, st.integers(1, 64))]),
            "exp": draw(st.sampled_from([0, 0, 0, 1, 2, 3, 9, 18])), "minsel": draw(st.sampled_from(["none", "none", "zero", "small", "max"])),
            "v": draw(st.one_of(st.integers(0, U64), gens.u64_edge)), "seed": draw(st.integers(0, 1 << 40)), "param": draw(st.integers(0, 1 << 16)),
            "forged": draw(st.sampled_from(["small", "small", "small", "mid", "rand"])), "gen_k": draw(st.one_of(st.just(0), gens.seckey_valid)),
            "extra": draw(st.sampled_from([0, 0, 1, 32]).flatmap(lambda n: gens.hexbytes(n))), "paint": draw(st.sampled_from([0xFF, 0xFF, 0x00, 0xA5]))}
    # the adversarial class is selected by a hash over ALL drawn fields (rp_common.hsel): uniform whatever Hypothesis' draws look like
    h = RC.hsel("C10adv", sorted((k, str(v)) for k, v in case.items()))
    a = adv or ADV[h % len(ADV)]
    if a == "f3":
        case["mant"] = F3_MANT[(h >> 8) % len(F3_MANT)]
    if a in ("honest", "overflow") and (h >> 16) % 8 == 0:
        case["mant"] = 64
    case["adv"] = a
    return case


def clamp_mant(mant, exp):
    while mant > 1 and ((1 << mant) - 1) * 10 ** exp > U64:
        mant -= 1
    return mant


def forged_list(case, npub):
    mode = case["forged"]
    mod = {"small": 1 << 20, "mid": 1 << 128, "rand": N}[mode]
    return [derive(case["seed"], b"s", i, mod) for i in range(npub)]


def build_ref(env, case):
    """-> dict(proof, C, H, g, extra, nonce, expect, twins=[(tag, bytes, expect)], classes) or None (prover gave up: degenerate hash / point)"""
    a = case["adv"]
    seed = case["seed"]
    param = RC.hsel("C10param", sorted((k, str(v)) for k, v in case.items())) & 0xFFFFFF      # sub-selectors (param % k) uniform whatever the drawn integers look like
    exp, mant = case["exp"], case["mant"]
    classes = ["adv:" + a]
    out = {"twins": [], "classes": classes, "nonce": ec.sha256(b"C10 nonce" + seed.to_bytes(8, "big")), "extra": bytes.fromhex(case["extra"]), "expect": None, "f3": False}
    # ---- generator
    if case["gen_k"] == 0:
        g = RC.gen_h(env)
        H = RC.gen_point(env, g)
        hk = None
    else:
        hk = case["gen_k"]
        H = ec.mulg(hk)
        g = None
    reserved = False
    lowbits = 0
    spare = 0
    trailing = b""
    allow_inf = False
    if a == "exact":
        mant, exp = 0, -1
        lowbits = param & 0x1F
    elif a == "exp_hi":
        exp = 19 + param % 13
        mant = 1 if (exp == 19 or param & 1) else min(mant, 8)
    elif a == "exp_overflow":
        exp = [18, 18, 17, 15, 12, 1][param % 6]            # large exponents overflow already for small (cheap) mantissas
        mant = 1
        while ((1 << mant) - 1) * 10 ** exp <= U64:
            mant += 1
        mant = min(64, mant + (param >> 3) % 2)
    else:
        mant = clamp_mant(mant, exp)
    if a in ("spare_bits", "digit_bad_x", "digit_x_plus_p") and mant < 3:
        mant = clamp_mant(3 + param % 5, exp)
        if mant < 3:
            exp, mant = 0, 3 + param % 5
    if a == "spare_bits":
        while ((mant + 1) // 2 - 1) & 7 == 0:
            mant += 2 if mant + 2 <= 64 and ((1 << (mant + 2)) - 1) * 10 ** exp <= U64 else -2
    if a == "f3":
        if not mant & 1:
            mant = mant - 1 if mant > 1 else 1
    if a == "cancelling_digits" and mant < 7:
        # needs at least three explicit digit commitments (four rings)
        mant = clamp_mant(7 + param % 6, exp)
        if mant < 7:
            exp, mant = 0, 7 + param % 6
    if a in ("last_inf",) and hk is None:
        hk = derive(seed, b"hk")
        H = ec.mulg(hk)
        g = None
    if a in ("scalar_zero", "f3", "ref_sender", "last_inf") and mant == 0:
        mant = 1
    rs = R.ring_sizes(mant)
    rings = len(rs)
    scale = 10 ** max(exp, 0)
    maxv = ((1 << mant) - 1) * scale if mant else 0
    # ---- minimum
    minsel = case["minsel"]
    if a == "cancelling_digits" and minsel in ("small", "max"):
        minsel = "zero" if minsel == "small" else "none"      # min = 0: the verifier's running sum starts empty
    if a == "exact":
        minsel = "small" if minsel == "none" and param & 1 else minsel
    if a == "overflow":
        which = param % 3
        room = U64 - min(maxv, U64)
        if which == 0:
            minv = room                                  # min + max == 2^64 - 1: still valid
            classes.append("overflow:just_below")
        elif which == 1:
            minv = room + 1                              # min + max == 2^64
            classes.append("overflow:at")
        else:
            minv = min(U64, room + 1 + derive(seed, b"ov", 0, 1 << (1 + param % 60)))
            classes.append("overflow:above")
        if minv > U64:
            return None
        hasmin = True
    elif minsel == "none":
        minv, hasmin = 0, False
    elif minsel == "zero":
        minv, hasmin = 0, True
    elif minsel == "small":
        minv, hasmin = min(derive(seed, b"min", 0, 1 << 20), max(0, U64 - min(maxv, U64))), True
    else:
        minv, hasmin = max(0, U64 - min(maxv, U64)), True
    # ---- witness
    v = (case["v"] % (1 << mant)) if mant else 0
    if a == "wrong_witness":
        v = (1 << mant) + case["v"] % 3 if mant else 1
    digits = [((v >> (2 * i)) & 3) % rs[i] for i in range(rings)] if mant else [0]
    secs = [derive(seed, b"sec", i) for i in range(rings)]
    nonces = [derive(seed, b"k", i) for i in range(rings)]
    xplus = ()
    if a == "digit_x_plus_p":
        # choose H so that digit commitment i IS a tiny-x point T:  sec_i*G + d_i*w_i*H = T
        i = param % (rings - 1)
        if digits[i] == 0:
            digits[i] = 1 + param % 3
            v |= digits[i] << (2 * i)
        T = TINY[(param >> 4) % len(TINY)]
        dw = digits[i] * scale * 4 ** i % N
        H = ec.mul(pow(dw, -1, N), ec.sub(T, ec.mulg(secs[i])))
        if H is None:
            return None
        g = None
        xplus = (i,)
    if a == "cancelling_digits":
        # related free values at several positions: blinding factors of explicit digit commitments chosen so that a partial sum of the digit
        # commitments is the point at infinity (digits 0, blinds summing to 0).  The specification only forbids the IMPLIED LAST commitment to be infinity.
        ne = rings - 1
        sub = (param >> 8) % 4
        if sub == 0:
            idx = [0, 1]                                   # C_1 = -C_0: the running sum after two terms is infinity
        elif sub == 1:
            idx = [0, 1, 2]                                # three-term prefix
        elif sub == 2:
            idx = list(range(2 + (param >> 12) % (ne - 1)))            # prefix of any length 2..ne
        else:
            a0 = (param >> 12) % ne                        # a cancelling pair anywhere (not necessarily a prefix)
            b0 = (a0 + 1 + (param >> 16) % (ne - 1)) % ne
            idx = sorted([a0, b0])
        for i in idx:
            digits[i] = 0
        secs[idx[-1]] = (-sum(secs[i] for i in idx[:-1])) % N
        if secs[idx[-1]] == 0:
            return None
        classes.append("cancel:" + ("prefix%d" % len(idx) if idx == list(range(len(idx))) else "pair_inner"))
    if a == "last_inf":
        if rings == 1 and minv == 0:
            minv, hasmin = 1 + param % 1000, True          # otherwise the commitment itself would be the point at infinity
        j = 1 + param % (rs[-1] - 1)
        digits[-1] = j
        secs[-1] = (-j * scale * 4 ** (rings - 1) * hk) % N
        allow_inf = True
    value = sum(d * scale * 4 ** i for i, d in enumerate(digits)) + minv if a != "wrong_witness" else v * scale + minv
    if a == "last_inf":
        blind = sum(secs[:-1]) % N
        value = sum(d * scale * 4 ** i for i, d in enumerate(digits[:-1])) + minv
    else:
        blind = sum(secs) % N
    C = pedersen.commit_point(blind, value, H)
    if C is None:
        return None
    if g is None:
        g = RC.gen_from_point(env, H)
    c = RC.commit_from_point(env, C)
    out.update({"C": C, "H": H, "g": g, "c": c})
    mbyte = (mant - 1) & 0xFF
    if a == "reserved":
        reserved = True
    header = R.header_bytes(exp, mbyte, minv if hasmin else None, reserved, lowbits)
    forged = forged_list(case, sum(rs))
    if a == "trailing":
        trailing = stream_bytes(seed, b"trail", 1 + param % 33) if param & 64 else bytes(1 + param % 33)
    if a == "spare_bits":
        nspare = 8 - ((rings - 1) & 7)
        spare = 1 + (param % ((1 << nspare) - 1))
    zero_idx = None
    if a == "scalar_zero":
        cand = []
        cpos = 0
        for i, r_ in enumerate(rs):
            cand += [cpos + j for j in range(r_) if j != digits[i]]
            cpos += r_
        if not cand:
            return None
        zero_idx = cand[param % len(cand)]
        forged[zero_idx] = 0
    # ---- sender-side derivation (rewind data) instead of free scalars
    if a in ("f3", "ref_sender"):
        side = v
        if a == "f3":
            side = (v & ~(3 << (2 * (rings - 1)))) | ((2 + (param & 1)) << (2 * (rings - 1)))
            out["f3"] = True
        msg = b""
        if a == "ref_sender":
            cap = 128 * (rings - 1)
            msg = stream_bytes(seed, b"msg", [0, min(cap, 1), cap, cap // 2, min(cap, 33)][param % 5])
        hm = None
        for t in range(8):
            nonce = ec.sha256(b"C10 sender nonce" + seed.to_bytes(8, "big") + bytes([t]))
            hm = R.honest_material(nonce, C, H, header, rs, digits, blind, side, msg)
            if hm is not None and hm[0][-1] != 0:
                break
            hm = None
        if hm is None:
            return None
        secs, nonces, forged = hm
        out["nonce"] = nonce
        out["sender"] = {"value": value, "blind": blind, "msg": msg}
    proof = R.prove(C, H, header, rs, scale, minv, digits, secs, nonces, forged, out["extra"], spare_bits=spare, trailing=trailing, allow_inf_last=allow_inf)
    if proof is None:
        return None
    # ---- what the prover knows about the result
    header_ok = (not reserved) and exp <= 18 and mant <= 64 and maxv <= U64 and maxv + minv <= U64
    tamper = a in ("trailing", "spare_bits", "scalar_zero", "last_inf", "wrong_witness")
    out["expect"] = bool(header_ok and not tamper)
    if a == "mant_hi":
        # a syntactically complete string for a mantissa byte > 63: header patched, body padded to the length such a mantissa would need
        mb2 = [64, 65, 100, 127, 128, 255][param % 6]
        rs2 = [4] * ((mb2 + 1) // 2) + ([2] if (mb2 + 1) & 1 else [])
        hdr2 = bytes([header[0], mb2]) + header[2:]
        need = R.body_len(rs2)
        body = proof[len(header):]
        proof = hdr2 + body + stream_bytes(seed, b"pad", max(0, need - len(body)))
        out["expect"] = False
    out["proof"] = proof
    # ---- twins
    if out["expect"] and a not in ("f3", "ref_sender"):
        cand = []
        cpos = 0
        for i, r_ in enumerate(rs):
            cand += [cpos + j for j in range(r_) if j != digits[i] and forged[cpos + j] + N < (1 << 256)]
            cpos += r_
        if cand:
            idx = cand[param % len(cand)]
            off = len(proof) - 32 * (sum(rs) - idx)
            assert ec.b2i(proof[off:off + 32]) == forged[idx]
            out["twins"].append(("s+n twin of small forged scalar %d" % idx, proof[:off] + ec.i2b(forged[idx] + N) + proof[off + 32:], False, "s_plus_n_twin"))
            classes.append("small_s")
    if a == "digit_bad_x":
        i = param % (rings - 1)
        off = len(header) + R.sign_bytes(rings) + 32 * i
        x = ec.b2i(proof[off:off + 32])
        sub = (param >> 3) % 6
        if sub < 3:
            nx = [P, P + 1 + param % 900, (1 << 256) - 1][sub]
            tag = "digit_x_ge_p"
        else:
            nx = (x + 1) % P
            while pedersen.qr_root((nx * nx * nx + 7) % P) is not None:
                nx = (nx + 1) % P
            tag = "digit_off_curve"
        out["twins"].append(("digit commitment %d x replaced (%s)" % (i, tag), proof[:off] + ec.i2b(nx) + proof[off + 32:], False, tag))
    if a == "digit_x_plus_p":
        i = xplus[0]
        off = len(header) + R.sign_bytes(rings) + 32 * i
        x = ec.b2i(proof[off:off + 32])
        assert x == TINY[(param >> 4) % len(TINY)][0], "tiny-x construction failed"
        tw = R.prove(C, H, header, rs, scale, minv, digits, secs, nonces, forged, out["extra"], xplus=xplus)
        if tw is not None:
            out["twins"].append(("x+p re-encoding of digit commitment %d, consistently hashed" % i, tw, False, "digit_x_plus_p_twin"))
        out["twins"].append(("x+p re-encoding of digit commitment %d, bytes only" % i, proof[:off] + ec.i2b(x + P) + proof[off + 32:], False, "digit_x_plus_p_twin"))
    return out


def run_ref(env, case):
    _MEMO.cache.clear()
    lib = env.lib
    b = build_ref(env, case)
    if b is None:
        return False, ["prover_gave_up"]
    classes = b["classes"]
    V = Verdicts(env, classes, case["paint"], b["nonce"])
    proof, c, C, g, H, extra = b["proof"], b["c"], b["C"], b["g"], b["H"], b["extra"]
    h = R.parse_header(proof)
    if h is not None:
        classes.append("mant=%s" % ("exact" if h["mantissa"] == 0 else "1-8" if h["mantissa"] <= 8 else "9-32" if h["mantissa"] <= 32 else "33-64"))
    a = case["adv"]
    ok = V.check(proof, c, C, g, H, extra, "reference prover: " + a, expect=b["expect"], rewind=not b["f3"])
    classes.append(a + (":accepted" if ok else ":rejected"))
    for tag, tw, exp_, cls in b["twins"]:
        V.check(tw, c, C, g, H, extra, tag, expect=exp_)
        classes.append(cls)
    if ok:
        # the binding checks also for prover-made proofs
        V.check(proof, c, C, g, H, extra + b"\x01", "reference proof, other extra commit", expect=False)
        if len(proof) <= 400 or case["param"] & 3 == 0:
            raw = stream_bytes(case["seed"], b"rflips", 32)
            for i in range(8):
                p = int.from_bytes(raw[4 * i:4 * i + 4], "big") % (len(proof) * 8)
                m2 = bytearray(proof)
                m2[p >> 3] ^= 1 << (p & 7)
                V.check(m2, c, C, g, H, extra, "reference proof, bit %d flipped" % p, expect=False)
    if "sender" in b and ok:
        # a sender following the documented derivation: the receiver must get value, blind and message back exactly
        s = b["sender"]
        if not b["f3"]:
            rr = rewind_painted(env, c, proof, b["nonce"], g, extra, case["paint"])
            env.require(rr[0] == 1, "rewind fails on a proof whose sender followed the documented derivation", mant=case["mant"])
            env.require(rr[2] == s["value"] and rr[1] == ec.i2b(s["blind"]), "rewind returns wrong value / blind for a reference-made proof", value=rr[2], want=s["value"])
            env.require(rr[3][:len(s["msg"])] == s["msg"] and not any(rr[3][len(s["msg"]):]) and rr[6] >= len(s["msg"]), "rewind returns a wrong message for a reference-made proof")
            classes.append("ref_sender_rewound")
        else:
            # F3 class: a VALID proof whose value side channel names a member outside the last ring (size 2)
            if env.known(F3_SIG):
                classes.append("f3_excluded_known")
            else:
                for paint in (0xFF, 0x00):
                    res = rewind_forked(env, c, proof, b["nonce"], g, extra, paint)
                    if res[0] == "signal":
                        env.fail("rangeproof_rewind aborted (signal %d) on a valid proof whose embedded value has a top digit outside the last ring: unwritten stack entries are used "
                                 "(stack pre-filled with 0x%02x)" % (res[1], paint), signature=F3_SIG, proof=proof.hex(), nonce=b["nonce"].hex(), commit=pedersen.enc_qr(C, 8).hex(),
                                 gen=pedersen.enc_qr(H, 10).hex(), extra=extra.hex())
                        return True, classes
                    env.require(res[0] == "ret", "forked rewind ended abnormally: %r" % (res,))
                classes.append("f3_value_digit_outside_last_ring")
    V.flush()
    return True, classes


# ================================================================================================ (iii) structured random strings
@st.composite
def rand_case(draw):
    return {"b0": draw(st.one_of(st.sampled_from([0x40, 0x60, 0x00, 0x20, 0x41, 0x52]), st.integers(0, 255))),
            "mb": draw(st.one_of(st.sampled_from([0, 0, 1, 1, 2, 3, 4, 5, 6, 7]), st.integers(0, 15), st.sampled_from([63, 64, 255]))),
            "min": draw(st.one_of(gens.u64_edge, st.just(0))), "delta": draw(st.sampled_from([0, 0, 0, 0, 0, 1, -1, 32, -32, 8, -8])),
            "oncurve": draw(st.integers(0, 7)), "sign_ok": draw(st.integers(0, 7)), "big_s": draw(st.integers(0, 15)), "seed": draw(st.integers(0, 1 << 40)),
            "paint": draw(st.sampled_from([0xFF, 0x00]))}


def run_rand(env, case):
    _MEMO.cache.clear()
    seed = case["seed"]
    b0 = case["b0"]
    hdr = bytes([b0])
    mant = 0
    if b0 & 0x40:
        hdr += bytes([case["mb"]])
        mant = case["mb"] + 1
    if b0 & 0x20:
        hdr += case["min"].to_bytes(8, "big")
    mant_s = mant if mant <= 64 else 5
    rs = R.ring_sizes(mant_s)
    rings = len(rs)
    nsb = R.sign_bytes(rings)
    sb = bytearray(stream_bytes(seed, b"sb", nsb))
    if nsb and case["sign_ok"] and (rings - 1) & 7:
        sb[-1] &= (1 << ((rings - 1) & 7)) - 1
    body = bytes(sb)
    for i in range(rings - 1):
        x = derive(seed, b"x", i, P)
        if case["oncurve"]:
            while pedersen.qr_root((x * x * x + 7) % P) is None:
                x = (x + 1) % P
        body += ec.i2b(x)
    body += stream_bytes(seed, b"e0", 32)
    for i in range(sum(rs)):
        s = derive(seed, b"s", i, N)
        if case["big_s"] == 0 and i == seed % sum(rs):
            s = N + derive(seed, b"sb", i, (1 << 256) - N)
        body += ec.i2b(s)
    d = case["delta"]
    proof = hdr + (body[:d] if d < 0 else body + stream_bytes(seed, b"dl", d))
    g = RC.gen_h(env)
    H = RC.gen_point(env, g)
    C = ec.mulg(derive(seed, b"C"))
    c = RC.commit_from_point(env, C)
    classes = []
    V = Verdicts(env, classes, case["paint"], ec.sha256(b"rand nonce"))
    ok = V.check(proof, c, C, g, H, b"", "structured random string")
    parsed = R.parse(proof, C, H) is not None
    classes.append("format_ok" if parsed else "format_reject")
    V.flush()
    return True, classes


# ================================================================================================ (iv) header strings for rangeproof_info
@st.composite
def info_case(draw):
    ln = draw(st.one_of(st.sampled_from([0, 1, 2, 9, 10, 63, 64, 65, 66, 72, 73, 74, 75, 106]), st.integers(0, 120)))
    return {"b0": draw(st.integers(0, 255)), "b1": draw(st.one_of(st.integers(0, 255), st.sampled_from([0, 62, 63, 64]))), "min": draw(gens.u64_edge), "len": ln,
            "fill": draw(st.sampled_from([0, 0xFF, 0x55]))}


def run_info(env, case):
    raw = bytes([case["b0"], case["b1"]])
    if case["b0"] & 0x40:
        raw += case["min"].to_bytes(8, "big")
    else:
        raw = raw[:1] + case["min"].to_bytes(8, "big")
    raw = (raw + bytes([case["fill"]]) * 200)[:case["len"]]
    env.lib.reset()
    li = RC.rp_info(env, raw)
    ri = R.info(raw)
    env.require((li[0] == 1) == (ri is not None) and (ri is None or tuple(li[1:]) == ri), "rangeproof_info disagrees with the header format", lib=li, ref=ri, raw=raw[:12].hex(),
                plen=len(raw))
    env.require(env.lib.illegal() == 0, "callback fired in rangeproof_info")
    cl = ["info_ok" if ri else "info_reject"]
    if ri is None and len(raw) >= 65:
        b0 = case["b0"]
        cl.append("reserved_bit" if b0 & 0x80 else "exp>18" if (b0 & 0x40 and (b0 & 31) > 18) else "mantissa>64" if (b0 & 0x40 and case["b1"] > 63) else "range_overflow")
    return True, cl



# ---------------------------------------------------------------- declared lengths beyond 2^32
# A length parameter narrowed to 32 bits somewhere inside the library turns "proof followed by exactly k*2^32 bytes" into the
# proof itself.  The backing store is an anonymous, lazily committed mapping: neither side ever touches the trailing bytes
# (the specified verifier rejects on the exact-length rule after parsing the proof), so this costs address space only.
@st.composite
def huge_case(draw):
    return {"value": draw(st.integers(0, 255)), "exp": draw(st.sampled_from([-1, 0, 0])), "min_bits": draw(st.sampled_from([0, 1, 3, 4])),
            "blind": draw(gens.seckey_valid), "nonce": draw(gens.hexbytes(32)), "k": draw(st.sampled_from([1, 1, 2, 3])),
            "delta": draw(st.sampled_from([0, 0, 0, 1, -1])), "api": draw(st.sampled_from(["verify", "verify", "rewind", "info"]))}


def run_huge(env, case):
    import mmap
    import ctypes
    lib = env.lib
    g = RC.gen_h(env)
    ok, c = RC.commit(env, case["blind"], case["value"], g)
    env.require(ok == 1, "commit failed")
    r, proof, _ = RC.rp_sign(env, c, ec.i2b(case["blind"]), bytes.fromhex(case["nonce"]), case["exp"], case["min_bits"], case["value"], 0, g)
    env.require(r == 1 and proof is not None, "rangeproof_sign failed for plain parameters")
    total = len(proof) + case["k"] * (1 << 32) + case["delta"]
    try:
        mm = mmap.mmap(-1, total + 4096, flags=mmap.MAP_PRIVATE | mmap.MAP_ANONYMOUS | getattr(mmap, "MAP_NORESERVE", 0))
    except (OSError, ValueError, OverflowError, MemoryError):
        # no address space for a lazily committed multi-GiB mapping in this environment (e.g. RLIMIT_AS): the supplement cannot run here;
        # that is not a violation and not a broken check — the case is counted as trivial
        return False, ["attempted", "skipped_no_address_space"]
    try:
        mm[:len(proof)] = proof
        base = ctypes.addressof(ctypes.c_char.from_buffer(mm))
        pb = ctypes.c_void_p(base)
        mn, mx = c_uint64(1), c_uint64(2)
        classes = ["attempted", "api:" + case["api"], "k=%d" % case["k"], "delta=%d" % case["delta"]]
        if case["api"] == "verify":
            got = lib.dll.secp256k1_rangeproof_verify(lib.ctx, byref(mn), byref(mx), c, pb, c_size_t(total), None, c_size_t(0), g)
            env.require(got == 0, "rangeproof_verify accepted a proof followed by %d*2^32%+d trailing bytes (declared length %d)" % (case["k"], case["delta"], total))
        elif case["api"] == "rewind":
            blind = buf(32); val = c_uint64(0); msg = buf(4096); ol = c_size_t(4096)
            got = lib.dll.secp256k1_rangeproof_rewind(lib.ctx, blind, byref(val), msg, byref(ol), bytes.fromhex(case["nonce"]), byref(mn), byref(mx), c, pb,
                                                      c_size_t(total), None, c_size_t(0), g)
            env.require(got == 0, "rangeproof_rewind accepted a proof followed by %d*2^32%+d trailing bytes" % (case["k"], case["delta"]))
        else:
            # info only parses the header: it must report the same header as for the exact-length proof
            e1, m1 = c_int(0), c_int(0)
            got = lib.dll.secp256k1_rangeproof_info(lib.ctx, byref(e1), byref(m1), byref(mn), byref(mx), pb, c_size_t(total))
            ref = RC.rp_info(env, proof)
            env.require((got, e1.value, m1.value, mn.value, mx.value) == ref if got == 1 else ref[0] == got,
                        "rangeproof_info differs between declared length %d and the exact length" % total)
        del pb
    finally:
        try:
            mm.close()
        except BufferError:
            pass
    return True, classes

def _only(adv):
    return lambda: ref_case(adv=adv)


TESTS = [
    Test("lib_mutations", lib_case, run_lib, quick=120, thorough=1200, max_workers=16,
         must_cover=["flips:every_bit", "flips:sampled256", "mant=64", "mant=exact", "mant=1", "trunc_ext", "extra_mut", "other_commit_gen", "verdict:accept", "verdict:reject"]),
    Test("ref_prover", ref_case, run_ref, quick=600, thorough=16000, max_workers=16,
         must_cover=["small_s", "s_plus_n_twin", "honest:accepted", "exact:accepted", "exp_hi:rejected", "reserved:rejected", "mant_hi:rejected", "overflow:just_below", "overflow:at",
                     "overflow:above", "overflow:accepted", "overflow:rejected", "exp_overflow:rejected", "spare_bits:rejected", "trailing:rejected", "digit_x_ge_p", "digit_off_curve",
                     "digit_x_plus_p:accepted", "digit_x_plus_p_twin", "scalar_zero:rejected", "last_inf:rejected", "wrong_witness:rejected", "ref_sender_rewound", "mant=33-64",
                     "cancelling_digits:accepted", "cancel:prefix2", "cancel:prefix3", "cancel:pair_inner"]),
    Test("rewind_digit_outside_ring", _only("f3"), run_ref, quick=60, thorough=2000, max_workers=8, must_cover=["f3:accepted"]),
    Test("random_strings", rand_case, run_rand, quick=400, thorough=20000, max_workers=4, must_cover=["format_ok", "format_reject"]),
    Test("huge_plen", huge_case, run_huge, quick=60, thorough=600, max_workers=2, cfgs={"quick": ["prod"], "thorough": ["prod"]},
         must_cover=["attempted"]),
    Test("info_strings", info_case, run_info, quick=3000, thorough=100000, max_workers=4, must_cover=["info_ok", "info_reject", "reserved_bit", "exp>18", "mantissa>64", "range_overflow"]),
]
