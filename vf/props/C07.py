"""C07 — untrusted bytes never cause undefined behaviour or callback aborts; parsed objects can be passed to every consumer;
rejection never leaks memory.  Engine E2 only: the libFuzzer target csrc/fuzz_untrusted.c carries every oracle."""
from vf.fuzz import FuzzTarget

RULE = ("libFuzzer input = selector | recipe | ctl | aux | declared length | mutation list | raw tail. 28 entry-point selectors (key / signature / "
        "nonce / range-proof / surjection / whitelist / adaptor / half-aggregate / ElligatorSwift / commitment / generator / generator-list / "
        "norm-argument / s2c / lax-DER parsers and verifiers). The target takes a VALID artifact from a memoised recipe table built with the library "
        "itself (fixed keys and nonces), applies decoded mutations (bit flips, truncation, extension, length-field edits, 32-byte field -> boundary "
        "value / +n / +p / +-small, field copies, byte insert/delete, tail splices) or uses the raw tail, and calls the entry point on an EXACT-SIZE "
        "heap copy with a declared length in 0..max+64; successfully parsed objects are pushed through the consumers of their type. Oracles inside "
        "the target: ASan/UBSan, VERIFY_CHECKs (vsan), illegal AND error callback counters == 0, int returns in {0,1}, exact-size output buffers, "
        "library malloc/free balance == 0 and scratch space released at the end of every iteration, unmodified artifacts accepted. "
        "non-trivial = the input got past the first length / prefix check of its entry point (structurally plausible header), counted per entry point "
        "(classes <entry>, <entry>:nt, <entry>:ok)")
ASSUMPTIONS = ["clang ASan/UBSan/libFuzzer and the library's own VERIFY_CHECKs are the memory-safety / invariant oracles",
               "arguments that are not attacker bytes are documented-valid (library-made keys, generators, sessions); objects handed to consumers "
               "come from successful parses (ECDSA signature objects also after failed parses, which the header documents as initialised)",
               "the credit that skips the few >100 ms verifications (255-key whitelist, 256-input surjection, 33..64-bit range proofs) never "
               "changes a verdict; a single replayed input always takes the expensive path"]

FUZZ_TARGETS = [
    # VERIFY + ASan + UBSan: ~3 ms CPU per execution (one scalar multiplication costs ~1 ms in this build)
    FuzzTarget("fuzz_untrusted", "fuzz_untrusted.c", cfgs={"quick": ["vsan"], "thorough": ["vsan"]},
               runs={"quick": 15000, "thorough": 300000}, workers={"quick": 12, "thorough": 12}, max_len=9000, corpus="fuzz_untrusted", timeout=60),
    # shipped flags + ASan + UBSan (no VERIFY: other code paths, e.g. no magnitude tracking), ~5x faster
    FuzzTarget("fuzz_untrusted_prod", "fuzz_untrusted.c", cfgs={"quick": ["prod"], "thorough": ["prod"]},
               runs={"quick": 40000, "thorough": 600000}, workers={"quick": 4, "thorough": 4}, max_len=9000, corpus="fuzz_untrusted", timeout=60),
]

# every entry point must have been exercised past its first length / prefix check, and the special paths the property is about
# must have been reached; otherwise the run is INCONCLUSIVE (exit 2), never silently green.
ENTRY_POINTS = ["pubkey_parse", "xonly_parse", "sig_parse_der", "sig_parse_compact", "recsig_parse_compact", "ecdsa_verify", "schnorrsig_verify",
                "musig_pubnonce_parse", "musig_aggnonce_parse", "musig_partial_sig_parse", "rangeproof_verify", "rangeproof_rewind", "rangeproof_info",
                "surjectionproof_parse", "whitelist_parse", "adaptor_verify", "adaptor_decrypt", "adaptor_recover", "halfagg_verify",
                "halfagg_inc_aggregate", "ellswift_decode", "ellswift_xdh", "commitment_parse", "generator_parse", "bppp_generators_parse",
                "bppp_norm_verify", "s2c_opening_parse", "lax_der"]
MUST_COVER = [e + s for e in ENTRY_POINTS for s in ("", ":nt", ":ok")] + [
    "f2:s0_reaches_recover", "halfagg:overflow_counts", "bppp:reject_mid_list", "rewind:ok", "rewind:small_msgbuf", "surj:verify_ok",
    "whitelist:verify_ok", "norm:verify_ok", "sig:failed_parse_consumed", "mut:count_reencoded_consistent_length", "mut:boundary", "mut:plus_n",
    "mut:plus_p", "mut:lenfield", "mut:truncate", "mut:extend", "len:declared", "mode:raw",
    # documented NULL-with-zero-length / optional-NULL arguments
    "null0:schnorrsig_verify_msg", "null0:rangeproof_extra_commit", "null0:halfagg_aggverify", "null0:halfagg_inc_aggregate", "null0:musig_optional",
    "null0:rewind_message_out", "null0:xonly_from_pubkey_parity"]


# vf/fuzz.py turns a zero count of any of these into exit 2 (generator starved); keys are "<target>:<class>", required per build
FUZZ_MUST_COVER = [t.name + ":" + c for t in FUZZ_TARGETS for c in MUST_COVER]
