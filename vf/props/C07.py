"""C07 — untrusted bytes never cause undefined behaviour or callback aborts; parsed objects can be passed to every consumer;
rejection never leaks memory.  Engine E2 only: the libFuzzer target csrc/fuzz_untrusted.c carries every oracle."""
from vf.fuzz import FuzzTarget

RULE = ("libFuzzer input = selector | recipe | ctl | aux | declared length | mutation list | raw tail. 28 entry-point selectors (key / signature / "
        "nonce / range-proof / surjection / whitelist / adaptor / half-aggregate / ElligatorSwift / commitment / generator / generator-list / "
        "norm-argument / s2c / lax-DER parsers and verifiers). The target takes a VALID artifact from a memoised recipe table built with the library "
        "itself (fixed keys and nonces), applies decoded mutations (bit flips, truncation, extension, length-field edits, 32-byte field -> boundary "
        "value / +n / +p / +-small, field copies, byte insert/delete, tail splices) or uses the raw tail, and calls the entry point on an EXACT-SIZE "
        "heap copy with a declared length in 0..max+64; successfully parsed objects are pushed through the consumers of their type. Oracles inside "
        "the target: ASan/UBSan, VERIFY_CHECKs (vsan), illegal AND error callback counters == 0, int returns in {0,1}, exact-size output buffers, "
        "library malloc/free balance == 0 and scratch space released at the end of every iteration, unmodified artifacts accepted. "
        "non-trivial = the input got past the first length / prefix check of its entry point (structurally plausible header), counted per entry point "
        "(classes <entry>, <entry>:nt, <entry>:ok)")
ASSUMPTIONS = ["clang ASan/UBSan/libFuzzer and the library's own VERIFY_CHECKs are the memory-safety / invariant oracles",
               "arguments that are not attacker bytes are documented-valid (library-made keys, generators, sessions); objects handed to consumers "
               "come from successful parses (ECDSA signature objects also after failed parses, which the header documents as initialised)",
               "the credit that skips the few >100 ms verifications (255-key whitelist, 256-input surjection, 33..64-bit range proofs) never "
               "changes a verdict; a single replayed input always takes the expensive path"]

FUZZ_TARGETS = [
    # VERIFY + ASan + UBSan: ~3 ms CPU per execution (one scalar multiplication costs ~1 ms in this build)
    FuzzTarget("fuzz_untrusted", "fuzz_untrusted.c", cfgs={"quick": ["vsan"], "thorough": ["vsan"]},
               runs={"quick": 15000, "thorough": 300000}, workers={"quick": 12, "thorough": 12}, max_len=9000, corpus="fuzz_untrusted", timeout=60),
    # shipped flags + ASan + UBSan (no VERIFY: other code paths, e.g. no magnitude tracking), ~5x faster
    FuzzTarget("fuzz_untrusted_prod", "fuzz_untrusted.c", cfgs={"quick": ["prod"], "thorough": ["prod"]},
               runs={"quick": 40000, "thorough": 600000}, workers={"quick": 4, "thorough": 4}, max_len=9000, corpus="fuzz_untrusted", timeout=60),
]

# every entry point must have been exercised past its first length / prefix check, and the special paths the property is about
# must have been reached; otherwise the run is INCONCLUSIVE (exit 2), never silently green.
ENTRY_POINTS = ["pubkey_parse", "xonly_parse", "sig_parse_der", "sig_parse_compact", "recsig_parse_compact", "ecdsa_verify", "schnorrsig_verify",
                "musig_pubnonce_parse", "musig_aggnonce_parse", "musig_partial_sig_parse", "rangeproof_verify", "rangeproof_rewind", "rangeproof_info",
                "surjectionproof_parse", "whitelist_parse", "adaptor_verify", "adaptor_decrypt", "adaptor_recover", "halfagg_verify",
                "halfagg_inc_aggregate", "ellswift_decode", "ellswift_xdh", "commitment_parse", "generator_parse", "bppp_generators_parse",
                "bppp_norm_verify", "s2c_opening_parse", "lax_der"]
MUST_COVER = [e + s for e in ENTRY_POINTS for s in ("", ":nt", ":ok")] + [
    "f2:s0_reaches_recover", "halfagg:overflow_counts", "bppp:reject_mid_list", "rewind:ok", "rewind:small_msgbuf", "surj:verify_ok",
    "whitelist:verify_ok", "norm:verify_ok", "sig:failed_parse_consumed", "mut:count_reencoded_consistent_length", "mut:boundary", "mut:plus_n",
    "mut:plus_p", "mut:lenfield", "mut:truncate", "mut:extend", "len:declared", "mode:raw",
    # documented NULL-with-zero-length / optional-NULL arguments
    "null0:schnorrsig_verify_msg", "null0:rangeproof_extra_commit", "null0:halfagg_aggverify", "null0:halfagg_inc_aggregate", "null0:musig_optional",
    "null0:rewind_message_out", "null0:xonly_from_pubkey_parity"]


# vf/fuzz.py turns a zero count of any of these into exit 2 (generator starved); keys are "<target>:<class>", required per build
FUZZ_MUST_COVER = [t.name + ":" + c for t in FUZZ_TARGETS for c in MUST_COVER]


# ------------------------------------------------------------------------------------------------------------------------------
# E1 supplement: declared lengths beyond 2^32.  libFuzzer inputs are at most 9000 bytes, so a length parameter that is narrowed
# to 32 bits somewhere inside the library (size_t -> unsigned int) is invisible to the target above: "valid artifact followed
# by exactly k * 2^32 bytes" would then be taken for the artifact itself.  The trailing bytes live in an anonymous, lazily
# committed mapping that neither side touches (every entry point below rejects on its exact-length rule without reading the tail),
# so the case costs address space only.  Oracle: the call returns 0 / the reject value and fires no callback.
def _huge_case_strategy():
    from hypothesis import strategies as st
    return st.fixed_dictionaries({
        "ep": st.sampled_from(["pubkey33", "pubkey65", "der", "whitelist", "surjection", "halfagg", "rangeproof_info_only_header"]),
        "k": st.sampled_from([1, 1, 2, 3]), "delta": st.sampled_from([0, 0, 0, 1, -1]), "seed": st.integers(1, 1 << 30)})


def _run_huge(env, case):
    import ctypes
    import mmap
    from ctypes import c_size_t, byref
    from pyref import ec
    from vf.core import Inconclusive
    from vf.lib import buf
    lib = env.lib
    d = lib.dll
    sk = ec.i2b(case["seed"])
    r, pk = lib.pubkey_create(sk)
    env.require(r == 1, "pubkey_create failed")
    ep = case["ep"]
    if ep == "pubkey33":
        art = lib.pubkey_serialize(pk, True)
    elif ep == "pubkey65":
        art = lib.pubkey_serialize(pk, False)
    elif ep == "der":
        r, sig = lib.ecdsa_sign(ec.sha256(sk), sk)
        art = lib.sig_serialize_der(sig)[1]
    elif ep == "whitelist":
        art = bytes([1]) + ec.sha256(sk) + ec.i2b(7)
    elif ep == "surjection":
        art = bytes([1, 0, 1]) + ec.sha256(sk) + ec.i2b(7)
    elif ep == "halfagg":
        art = bytes(32)                                   # the aggregate of zero signatures
    else:
        art = bytes([0x40, 0x00]) + bytes(80)             # a structurally plausible range-proof header
    total = len(art) + case["k"] * (1 << 32) + case["delta"]
    try:
        mm = mmap.mmap(-1, total + 4096, flags=mmap.MAP_PRIVATE | mmap.MAP_ANONYMOUS | getattr(mmap, "MAP_NORESERVE", 0))
    except (OSError, ValueError, OverflowError, MemoryError):
        # no address space for a lazily committed multi-GiB mapping in this environment (e.g. RLIMIT_AS): the supplement cannot run here;
        # that is not a violation and not a broken check — the case is counted as trivial
        return False, ["attempted", "skipped_no_address_space"]
    lib.reset()
    try:
        mm[:len(art)] = art
        pb = ctypes.c_void_p(ctypes.addressof(ctypes.c_char.from_buffer(mm)))
        what = "%s followed by %d*2^32%+d bytes (declared length %d)" % (ep, case["k"], case["delta"], total)
        if ep in ("pubkey33", "pubkey65"):
            env.require(d.secp256k1_ec_pubkey_parse(lib.ctx, buf(64), pb, c_size_t(total)) == 0, "ec_pubkey_parse accepted " + what)
        elif ep == "der":
            env.require(d.secp256k1_ecdsa_signature_parse_der(lib.ctx, buf(64), pb, c_size_t(total)) == 0, "signature_parse_der accepted " + what)
        elif ep == "whitelist":
            env.require(d.secp256k1_whitelist_signature_parse(lib.ctx, buf(8 + 32 * 256), pb, c_size_t(total)) == 0, "whitelist_signature_parse accepted " + what)
        elif ep == "surjection":
            env.require(d.secp256k1_surjectionproof_parse(lib.ctx, buf(8 + 8 + 32 + 32 * 257 + 64), pb, c_size_t(total)) == 0, "surjectionproof_parse accepted " + what)
        elif ep == "halfagg":
            env.require(d.secp256k1_schnorrsig_aggverify(lib.ctx, None, None, c_size_t(0), pb, c_size_t(total)) == 0, "schnorrsig_aggverify accepted " + what)
        else:
            from ctypes import c_int, c_uint64
            e1, m1, mn, mx = c_int(0), c_int(0), c_uint64(0), c_uint64(0)
            got = d.secp256k1_rangeproof_info(lib.ctx, byref(e1), byref(m1), byref(mn), byref(mx), pb, c_size_t(total))
            env.require(got in (0, 1), "rangeproof_info returned %d" % got)
        del pb
    finally:
        try:
            mm.close()
        except BufferError:
            pass
    env.require(lib.illegal() == 0 and lib.errors() == 0, "callback fired for a huge declared length: " + lib.cbmsg())
    return True, ["attempted", "ep:" + ep, "delta=%d" % case["delta"]]


from vf.core import Test  # noqa: E402

TESTS = [
    Test("huge_declared_length", _huge_case_strategy, _run_huge, quick=120, thorough=1200, max_workers=2,
         cfgs={"quick": ["prod"], "thorough": ["prod"]},
         must_cover=["attempted"]),
]
