"""C09 — every range proof the library creates verifies, bounds the value and rewinds; determinism; documented parameter regions."""
import ctypes
from ctypes import c_void_p

from hypothesis import strategies as st

from pyref import ec, rangeproof as R
from vf import gens
from vf.core import Test
from vf.lib import buf
from vf.props import rp_common as RC

RULE = ("cases: one rangeproof_sign parameter set each (value/min_value edge-biased u64 with min in {0, value, value-1, below, above}, exp in [-2,19], min_bits in [-1,65], "
        "blind from u256_edge incl. 0 and >= n, message none / random up to 4000 bytes / placed at capacity-1,capacity,capacity+1 of the proof, extra commit 0..100 bytes, "
        "output buffer in {0,64,65,max_size-1,max_size,5134,actual length,actual length-1,random}, generator from {generator_h, generate, generate_blinded, parse}). "
        "Oracle: documented must-fail / must-succeed regions (everything else: either result) and, whenever sign succeeds: size bound, verify==1 with min<=value<=max, "
        "min>=requested, info==verify, rewind(own nonce) returns value/blind/zero-padded message, rewind(3 other nonces)==0, byte-identical re-sign (other buffer fill, larger buffer, "
        "cloned+re-randomised context), verify==0 for another commitment / generator / extra commit, no write beyond the stated buffer size. "
        "non-trivial = NOT (exp=0 and min_value=0 and min_bits=0 and empty message and full buffer), i.e. at least one clamp is exercised")
ASSUMPTIONS = ["regions follow include/secp256k1_rangeproof.h as read in DESIGN.md section 4 C09 (validated at design time on 6000 parameter sets); undocumented combinations are 'either'",
               "message capacity of a proof is 128*(rings-1) bytes with rings = ceil(mantissa/2) read back through rangeproof_info (header: 3968 bytes for maximally-sized proofs)",
               "a rewind with a wrong nonce succeeds only with probability < 2^-120 (not observed)"]

N = ec.N
U64 = (1 << 64) - 1
I63 = 1 << 63


def msg_bytes(seed, n):
    out = b""
    i = 0
    while len(out) < n:
        out += ec.sha256(seed.to_bytes(8, "big") + i.to_bytes(4, "big"))
        i += 1
    return out[:n]


# ------------------------------------------------------------------------------------------------ generator
# a message one of whose 32-byte blocks is (key-stream block of that slot) XOR t: the slot's scalar becomes t -> 0 or >= n.  Resolved in run_sign with the
# reference's sender-side derivation (pyref.rangeproof.stream, byte-exact with the library).
collide_msg = st.builds(lambda s, full: {"kind": "collide", "seed": s, "full": full}, st.integers(0, 1 << 30), st.booleans())
COLLIDE_T = {"0": 0, "n": N, "n+1": N + 1, "max": (1 << 256) - 1}
COLLIDE_SLOT = ["first", "mid", "last", "any"]


@st.composite
def sign_case(draw):
    value = draw(gens.u64_edge)
    mk = draw(st.sampled_from(["zero", "zero", "zero", "zero", "eq", "eq", "minus1", "below", "below", "below", "above", "any"]))
    if mk == "zero":
        mn = 0
    elif mk == "eq":
        mn = value
    elif mk == "minus1":
        mn = max(0, value - 1)
    elif mk == "below":
        mn = draw(st.integers(0, value))
    elif mk == "above":
        mn = min(U64, value + draw(st.sampled_from([1, 1, 2, 1 << 32])))
    else:
        mn = draw(gens.u64_edge)
    W = RC.weighted
    exp = W(draw, [(3, st.sampled_from([-1, 0, 0, 0, 1, 2, 3, 18])), (2, st.integers(-2, 19))])
    min_bits = W(draw, [(3, st.sampled_from([0, 0, 0, 1, 2, 3, 4, 5, 61, 62, 63, 64, 64])), (2, st.integers(-1, 65)), (2, st.integers(0, 16))])
    blind = W(draw, [(8, gens.seckey_valid), (1, gens.u256_edge), (1, st.sampled_from([0, N, N + 1, gens.M256, N - 1, 1]))])
    msg = W(draw, [(4, st.just({"kind": "none"})),
                   (2, st.builds(lambda h: {"kind": "bytes", "hex": h}, gens.message(4000))),
                   (3, st.builds(lambda d, s: {"kind": "cap", "delta": d, "seed": s}, st.sampled_from([-1, 0, 0, 1, -32, -33, 32]), st.integers(0, 1 << 30))),
                   (1, collide_msg)])
    bufk = draw(st.sampled_from(["full"] * 8 + ["max"] * 4 + ["max-1", "zero", "64", "65", "exact", "exact", "exact-1", "exact-1", "rand", "rand"]))
    if bufk == "rand":
        bufk = "rand:%d" % draw(st.integers(0, RC.MAXPROOF))
    nonce = draw(gens.hexbytes(32))
    other = draw(st.integers(0, 1 << 30))
    # classes the property must cover are forced by a hash selector (see rp_common.hsel): 1/16 each
    sel = RC.hsel("C09", nonce, other, value, mn, exp, min_bits, blind, str(msg), bufk)
    if sel % 16 == 0:
        value, mn, exp = value | I63, 0, (0 if (sel >> 4) & 1 else -1)          # value >= 2^63 inside the documented-valid set
    elif sel % 16 == 1:
        mn, exp, min_bits = 0, 0, 64                                             # 64-bit mantissa
    elif sel % 16 == 2:
        mn = value                                                               # min_value == value
    elif sel % 16 == 3:
        # message block colliding with the key stream, on parameters that give at least two rings
        msg = draw(collide_msg)
        mn, exp, min_bits, bufk = 0, 0, min(64, max(3, min_bits)), "full"
        value &= U64 >> 1
        blind = blind % (N - 1) + 1
    return {"value": value, "min_value": mn, "exp": exp, "min_bits": min_bits, "blind": blind, "nonce": nonce, "msg": msg,
            "extra": draw(st.integers(0, 100).flatmap(lambda n: gens.hexbytes(n))), "buf": bufk, "gen": draw(RC.gen_spec), "other": other}


def region_of(case, bufsize, maxsz):
    """documented region of the parameter set, ignoring the message: 'fail' | 'succeed' | 'either'"""
    v, mn, exp, mb, b = case["value"], case["min_value"], case["exp"], case["min_bits"], case["blind"]
    if b >= N or mn > v or exp < -1 or exp > 18 or mb < 0 or mb > 64 or bufsize < 65:
        return "fail"
    if b == 0:
        return "either"
    if bufsize < maxsz:
        return "either"
    if exp == -1:
        return "succeed"
    if mn == v == I63 - 1:
        return "either"                      # doc/code off-by-one at the single point min_value = value = 2^63-1 (DESIGN section 5)
    if (mn != 0 or exp > 0) and v >= I63:
        return "either"                      # header: "must be on the range [0, 2^63)"; the library tolerates some of these
    return "succeed"


class Sign:
    """sign with canary / exact-size output buffer"""

    def __init__(self, env, c, g, case, nonce, extra):
        self.env, self.c, self.g, self.case, self.nonce, self.extra = env, c, g, case, nonce, extra

    def __call__(self, msg, bufsize, fill=0xA5, ctx=None):
        env, case = self.env, self.case
        lib = env.lib
        pad = 0 if env.cfg == "vsan" else 48            # vsan: exact-size heap buffer, ASan is the overflow oracle; otherwise a canary
        out = buf(max(1, bufsize + pad), bytes([fill]) * (bufsize + pad))
        plen = ctypes.c_size_t(bufsize)
        r = lib.dll.secp256k1_rangeproof_sign(ctx or lib.ctx, out, ctypes.byref(plen), ctypes.c_uint64(case["min_value"]), self.c, ec.i2b(case["blind"]), self.nonce,
                                              ctypes.c_int(case["exp"]), ctypes.c_int(case["min_bits"]), ctypes.c_uint64(case["value"]),
                                              RC._xbuf(msg), ctypes.c_size_t(len(msg)), RC._xbuf(self.extra), ctypes.c_size_t(len(self.extra)), self.g)
        raw = out.raw
        env.require(raw[bufsize:bufsize + pad] == bytes([fill]) * pad, "rangeproof_sign wrote beyond the stated buffer size", bufsize=bufsize, ret=r)
        if r == 1:
            env.require(plen.value <= bufsize, "rangeproof_sign reports a proof longer than the buffer", plen=plen.value, bufsize=bufsize)
            return 1, raw[:plen.value]
        return r, None


def run_sign(env, case):
    lib = env.lib
    v, mn, exp, mb, b = case["value"], case["min_value"], case["exp"], case["min_bits"], case["blind"]
    nonce = bytes.fromhex(case["nonce"])
    extra = bytes.fromhex(case["extra"])
    classes = []
    mg = RC.make_gen(env, case["gen"])
    if mg is None:
        return False, ["gen_refused"]
    g, _ = mg
    classes.append("gen:" + case["gen"]["kind"])
    lib.reset()
    # the commitment: with the blinding factor reduced when it is out of range (the library cannot commit with blind >= n)
    cb = b % N if b >= N else b
    rc, c = RC.commit(env, cb, v, g)
    if rc != 1:
        if b >= N:
            rc, c = RC.commit(env, 1, v, g)
        if rc != 1:
            return False, ["commit_refused"]
    maxsz = RC.rp_max_size(env, v, mb) if 0 <= mb <= 64 else RC.MAXPROOF
    env.require(maxsz <= RC.MAXPROOF, "rangeproof_max_size above the documented 5134 bytes", maxsz=maxsz)
    sign = Sign(env, c, g, case, nonce, extra)

    # ---- resolve the symbolic buffer size / message (both may need the actual proof of the message-less parameter set)
    bk = case["buf"]
    probe = None
    need_probe = bk in ("exact", "exact-1") or case["msg"]["kind"] in ("cap", "collide")
    if need_probe:
        rp, probe = sign(b"", RC.MAXPROOF)
        if rp != 1:
            probe = None
    if bk == "full":
        bufsize = RC.MAXPROOF
    elif bk == "max":
        bufsize = maxsz
    elif bk == "max-1":
        bufsize = maxsz - 1
    elif bk == "zero":
        bufsize = 0
    elif bk in ("64", "65"):
        bufsize = int(bk)
    elif bk in ("exact", "exact-1"):
        if probe is None:
            bufsize = RC.MAXPROOF
            bk = "full"
        else:
            bufsize = len(probe) - (1 if bk == "exact-1" else 0)
    else:
        bufsize = int(bk.split(":")[1])
    classes.append("buf:" + bk.split(":")[0])
    mk = case["msg"]
    collide = False
    if mk["kind"] == "none":
        msg = b""
    elif mk["kind"] == "bytes":
        msg = bytes.fromhex(mk["hex"])
    elif mk["kind"] == "collide":
        msg = b""
        hdr = R.parse_header(probe) if probe is not None else None
        if hdr is not None and hdr["mantissa"] >= 3:
            # the sender's key stream for exactly these parameters (nonce, commitment, generator, header): slot k of the message is XORed with raw[k]
            rsz = R.ring_sizes(hdr["mantissa"])
            nslots = 4 * (len(rsz) - 1)
            _, _, raw = R.stream(nonce, RC.commit_point(env, c), mg[1], probe[:hdr["offset"]], rsz)
            hs = RC.hsel("C09collide", sorted((kk, str(vv)) for kk, vv in case.items()))       # slot and t by hash selector (uniform), see rp_common.hsel
            slot, tname = COLLIDE_SLOT[hs % 4], sorted(COLLIDE_T)[(hs >> 4) % 4]
            k = {"first": 0, "mid": nslots // 2, "last": nslots - 1}.get(slot, (hs >> 8) % nslots)
            body = bytearray(msg_bytes(mk["seed"], 32 * nslots if mk["full"] else 32 * (k + 1)))
            body[32 * k:32 * k + 32] = bytes(x ^ y for x, y in zip(raw[k], ec.i2b(COLLIDE_T[tname])))
            msg = bytes(body)
            collide = True
            classes += ["msg_stream_collision", "collide:t=" + tname, "collide:slot=" + slot]
    else:
        if probe is None:
            msg = b""
        else:
            ri = RC.rp_info(env, probe)
            env.require(ri[0] == 1, "rangeproof_info rejects a library-made proof")
            cap = 128 * (max(1, (ri[2] + 1) // 2) - 1)
            msg = msg_bytes(mk["seed"], max(0, cap + mk["delta"]))
            classes.append("msg_cap%+d" % mk["delta"] if cap + mk["delta"] >= 0 else "msg_cap_small")
    region = region_of(case, bufsize, maxsz)
    classes.append("region:" + region)
    if b >= N:
        classes.append("blind>=n")
    if b == 0:
        classes.append("blind=0")
    nontrivial = not (exp == 0 and mn == 0 and mb == 0 and not msg and bufsize == RC.MAXPROOF)

    r, proof = sign(msg, bufsize)
    env.require(lib.illegal() == 0 and lib.errors() == 0, "callback fired in rangeproof_sign on documented argument types: " + lib.cbmsg())
    if region == "fail":
        env.require(r == 0, "rangeproof_sign succeeded on a documented-invalid parameter set",
                    why=("blind>=n" if b >= N else "min>value" if mn > v else "exp" if not -1 <= exp <= 18 else "min_bits" if not 0 <= mb <= 64 else "buffer<65"))
        return nontrivial, classes + ["fail_ok"]
    if bk == "exact-1" and probe is not None and not msg:
        env.require(r == 0, "rangeproof_sign succeeded into a buffer one byte shorter than the proof it makes", need=len(probe), bufsize=bufsize)
    if r != 1:
        if collide:
            # a slot scalar that is 0 or >= n: the documented "can randomly fail ... retry with a different nonce" exit, reached on purpose.  Refusing is the
            # correct outcome; if sign succeeds instead, every post-condition below (verify, rewind returns exactly the embedded message) must hold.
            return nontrivial, classes + ["sign_failed", "collision_refused"]
        if region == "succeed":
            if not msg:
                env.fail("rangeproof_sign failed on a documented-valid parameter set", value=v, min_value=mn, exp=exp, min_bits=mb, bufsize=bufsize, maxsz=maxsz)
            # with a message the failure is legitimate iff the message does not fit: 128 bytes per ring except the last
            r0, p0 = sign(b"", bufsize)
            env.require(r0 == 1, "rangeproof_sign failed on a documented-valid parameter set (message removed)", value=v, min_value=mn, exp=exp, min_bits=mb)
            ri = RC.rp_info(env, p0)
            env.require(ri[0] == 1, "rangeproof_info rejects a library-made proof")
            cap = 128 * (max(1, (ri[2] + 1) // 2) - 1)
            env.require(len(msg) > cap, "rangeproof_sign refused a message that fits the proof", msg_len=len(msg), capacity=cap, mantissa=ri[2])
            classes.append("msg_too_long")
        return nontrivial, classes + ["sign_failed"]

    # ------------------------------------------------------------------------------------------ post-conditions of a successful sign
    classes.append("sign_ok")
    env.require(len(proof) <= maxsz or not (0 <= mb <= 64), "proof longer than rangeproof_max_size(value, min_bits)", plen=len(proof), maxsz=maxsz)
    rv, vmin, vmax = RC.rp_verify(env, c, proof, g, extra)
    env.require(rv == 1, "library-made range proof does not verify", value=v, min_value=mn, exp=exp, min_bits=mb, proof=proof.hex()[:160])
    env.require(vmin <= v <= vmax, "proven range does not contain the value", min=vmin, max=vmax, value=v)
    env.require(vmin >= mn, "proven minimum below the requested min_value", min=vmin, requested=mn)
    ri = RC.rp_info(env, proof)
    env.require(ri[0] == 1 and (ri[3], ri[4]) == (vmin, vmax), "rangeproof_info disagrees with rangeproof_verify", info=ri, verify=(vmin, vmax))
    iexp, imant = ri[1], ri[2]
    env.require(-1 <= iexp <= max(exp, -1), "proof uses a larger exponent (reveals more digits) than requested", used=iexp, requested=exp)
    if exp == -1:
        env.require(iexp == -1 and vmin == vmax == v, "exp = -1 must make an exact-value proof", info=ri)
    if iexp == -1:
        env.require(imant == 0 and vmin == vmax, "exact-value header with a non-trivial range", info=ri)
        classes.append("exact_value")
    else:
        env.require(1 <= imant <= 64, "mantissa out of range", info=ri)
        classes.append("mantissa_odd" if imant & 1 else "mantissa_even")
        if imant == 64:
            classes.append("mantissa=64")
        if imant == 1:
            classes.append("mantissa=1")
        if mn == 0:
            env.require(imant >= mb, "fewer private bits than min_bits requested (min_value = 0)", mantissa=imant, min_bits=mb)
        if iexp < exp:
            classes.append("exp_reduced")
        if iexp > 0:
            classes.append("exp>0")
    if v >= I63:
        classes.append("value>=2^63")
    if mn == v:
        classes.append("min==value")
    rings = max(1, (imant + 1) // 2)
    cap = 128 * (rings - 1)
    env.require(len(msg) <= cap, "sign accepted a message longer than the proof's capacity", msg_len=len(msg), capacity=cap)
    if msg:
        classes.append("msg_at_capacity" if len(msg) == cap else "msg")

    # rewind with the creator's nonce
    rr, rblind, rval, rmsg, rmin, rmax, rol = RC.rp_rewind(env, c, proof, nonce, g, extra)
    env.require(rr == 1, "rewind with the creator's nonce failed", value=v, min_value=mn, exp=exp, min_bits=mb, msg_len=len(msg))
    env.require(rval == v, "rewind returned a wrong value", got=rval, value=v)
    env.require(rblind == ec.i2b(b), "rewind returned a wrong blinding factor", got=rblind.hex(), blind=hex(b))
    env.require((rmin, rmax) == (vmin, vmax), "rewind reports another range than verify")
    env.require(rol <= 4096 and rol >= len(msg), "rewind outlen does not cover the embedded message", outlen=rol, msg_len=len(msg))
    env.require(rmsg[:len(msg)] == msg, "rewind returned a wrong message", msg_len=len(msg), first_diff=next((i for i in range(len(msg)) if rmsg[i] != msg[i]), None))
    env.require(not any(rmsg[len(msg):]), "rewind message is not zero-padded up to outlen", outlen=rol, msg_len=len(msg))
    # other nonces
    for k in range(3):
        on = ec.sha256(b"other nonce" + case["other"].to_bytes(8, "big") + bytes([k]))
        if k == 2:
            on = bytes([nonce[0] ^ 1]) + nonce[1:]
        if on == nonce:
            continue
        ro = RC.rp_rewind(env, c, proof, on, g, extra)
        env.require(ro[0] == 0, "rewind succeeded with a nonce that is not the creator's", k=k)
    # determinism
    r2, p2 = sign(msg, bufsize, fill=0x3C)
    env.require(r2 == 1 and p2 == proof, "second sign with equal inputs gives other bytes (different initial buffer content)",
                first_diff=next((i for i in range(min(len(p2 or b""), len(proof))) if p2[i] != proof[i]), None))
    if bufsize < RC.MAXPROOF:
        r3, p3 = sign(msg, RC.MAXPROOF, fill=0x00)
        env.require(r3 == 1 and p3 == proof, "sign into a larger buffer gives other bytes")
    cl = c_void_p(lib.dll.secp256k1_context_clone(lib.ctx))
    try:
        env.require(lib.dll.secp256k1_context_randomize(cl, ec.sha256(b"rerandomize" + nonce)) == 1, "context_randomize failed")
        r4, p4 = sign(msg, bufsize, fill=0xFF, ctx=cl)
        env.require(r4 == 1 and p4 == proof, "sign on a cloned, re-randomised context gives other bytes")
    finally:
        lib.dll.secp256k1_context_destroy(cl)
    # binding to commitment / generator / extra commit
    rc2, c2 = RC.commit(env, cb if cb else 1, v ^ 1, g)
    if rc2 == 1:
        env.require(RC.rp_verify(env, c2, proof, g, extra)[0] == 0, "proof verifies for a commitment to another value")
    rc3, c3 = RC.commit(env, (cb % (N - 1)) + 1, v, g)
    if rc3 == 1:
        env.require(RC.rp_verify(env, c3, proof, g, extra)[0] == 0, "proof verifies for a commitment with another blinding factor")
    og = RC.make_gen(env, {"kind": "seed", "seed": ec.sha256(b"other generator" + nonce).hex()})
    if og is not None:
        env.require(RC.rp_verify(env, c, proof, og[0], extra)[0] == 0, "proof verifies for another generator")
    ex2 = (bytes([extra[0] ^ (1 << (case["other"] % 8))]) + extra[1:]) if extra else b"\x00"
    env.require(RC.rp_verify(env, c, proof, g, ex2)[0] == 0, "proof verifies for another extra commitment")
    if extra:
        env.require(RC.rp_verify(env, c, proof, g, extra[:-1])[0] == 0, "proof verifies for a truncated extra commitment")
        classes.append("extra")
    env.require(lib.illegal() == 0 and lib.errors() == 0, "callback fired on documented argument types: " + lib.cbmsg())
    return nontrivial, classes


# ------------------------------------------------------------------------------------------------ max_size is an upper bound for every smaller value
@st.composite
def size_case(draw):
    maxv = draw(gens.u64_edge)
    value = draw(st.one_of(st.just(maxv), st.integers(0, maxv), gens.u64_edge.map(lambda x: x % (maxv + 1))))
    return {"max_value": maxv, "value": value, "min_bits": draw(st.one_of(st.sampled_from([0, 0, 1, 32, 64]), st.integers(0, 64))),
            "exp": draw(st.sampled_from([0, 0, 0, -1, 1, 3, 18])), "min_value": draw(st.sampled_from([0, 0, 1, "eq", "half"])),
            "blind": draw(gens.seckey_valid), "nonce": draw(gens.hexbytes(32))}


def run_size(env, case):
    """header: rangeproof_max_size(max_value, min_bits) bounds every proof for a value <= max_value with that min_bits (any exp / min_value)"""
    lib = env.lib
    lib.reset()
    v, mb, exp = case["value"], case["min_bits"], case["exp"]
    mn = {"eq": v, "half": v // 2}.get(case["min_value"], case["min_value"])
    mn = min(mn, v)
    if exp != -1 and ((mn != 0 or exp > 0) and v >= I63 - 1):
        mn, exp = 0, 0
    g = RC.gen_h(env)
    rc, c = RC.commit(env, case["blind"], v, g)
    if rc != 1:
        return False, ["commit_refused"]
    bound = RC.rp_max_size(env, case["max_value"], mb)
    env.require(bound <= RC.MAXPROOF, "rangeproof_max_size above 5134", bound=bound)
    env.require(RC.rp_max_size(env, U64, mb) == RC.MAXPROOF, "rangeproof_max_size(UINT64_MAX) is documented to be the largest possible proof size (5134)")
    r, proof, _ = RC.rp_sign(env, c, ec.i2b(case["blind"]), bytes.fromhex(case["nonce"]), exp, mb, v, mn, g, bufsize=bound)
    env.require(r == 1, "rangeproof_sign failed with a buffer of rangeproof_max_size(max_value >= value, min_bits)", value=v, max_value=case["max_value"], min_bits=mb,
                exp=exp, min_value=mn, bound=bound)
    env.require(len(proof) <= bound, "proof longer than rangeproof_max_size", plen=len(proof), bound=bound)
    env.require(RC.rp_verify(env, c, proof, g)[0] == 1, "library-made range proof does not verify")
    return True, ["mb=%d" % mb if mb in (0, 64) else "mb", "exp=%d" % exp, "value==max" if v == case["max_value"] else "value<max"]


TESTS = [
    Test("sign_roundtrip", sign_case, run_sign, quick=5000, thorough=60000,
         must_cover=["region:fail", "region:succeed", "region:either", "sign_ok", "exact_value", "mantissa_odd", "mantissa_even", "mantissa=64", "value>=2^63",
                     "min==value", "msg_at_capacity", "msg_too_long", "blind>=n", "buf:max", "buf:exact-1", "exp_reduced", "gen:h", "gen:parse", "gen:blinded", "gen:seed",
                     "msg_stream_collision", "collide:t=0", "collide:t=n", "collide:t=n+1", "collide:t=max", "collide:slot=first", "collide:slot=mid", "collide:slot=last"]),
    # alternative code paths: the builtin clz / popcount variants an autotools build selects, and the alternative limb configurations
    Test("sign_roundtrip_cfg", sign_case, run_sign, quick=500, thorough=4000, max_workers=3,
         cfgs={"quick": ["builtins", "int64"], "thorough": ["builtins", "int64", "struct"]},
         must_cover=["sign_ok", "value>=2^63", "mantissa=64"]),
    Test("max_size_bound", size_case, run_size, quick=1500, thorough=20000, must_cover=["value<max", "value==max"]),
]
