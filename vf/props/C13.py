"""C13 — a MuSig secret nonce can sign at most once, whatever happens (a property of call HISTORIES).

Two engines over the same abstract single-use model:
  * `histories`  bounded EXHAUSTIVE enumeration (one case = 34 histories sharing a prefix x the case's byte offsets) of every call history of
                 depth 3 (quick, 34^3 = 39 304) / depth 4 (thorough, 34^4 = 1 336 336) over 17 operations x 2 nonce slots, each at an even and an odd
                 object offset, plus every history one step shorter at all 16 offsets; executed by the C sequence runner `vf_c13_run`
                 (csrc/shim_C13.inc, public API only, all objects in an arena at 16k + offset); per-step observations compared with the model;
  * `random_histories`  Hypothesis histories of up to 50 calls over 3 slots / 3 signers driven call-by-call through ctypes, fresh
                 randomness, every optional argument varied, pointer aliasing (session_secrand32 == seckey / extra_input32), every object at a
                 drawn byte offset, byte-level inspection of secnonce and randomness buffer after every call.
"""
import ctypes
import hashlib
import os
from ctypes import c_size_t, c_uint64

from hypothesis import strategies as st

from pyref import ec, musig as M
from vf import gens
from vf.core import Test
from vf.lib import buf, ptr_array

N = ec.N
NOPS = 17
NCODES = 2 * NOPS
OBS = 12
OPNAMES = ["gen_ok", "gen_zero_rand", "gen_bad_seckey", "gen_counter", "gen_null_pubnonce", "gen_bad_cache",
           "sign_s1", "sign_s2", "sign_negated_key", "sign_other_key", "sign_null_out", "sign_bad_cache", "sign_bad_session", "sign_null_keypair",
           "gen_alias_extra", "gen_alias_seckey", "gen_reuse_rand_buffer"]
GEN_OPS = (0, 1, 2, 3, 4, 5, 14, 15, 16)

RULE = ("histories: ALL sequences of depth 3 (quick: 34^3 = 39304) / 4 (thorough: 34^4 = 1336336) over the alphabet {9 nonce-generation variants (valid, zero "
        "randomness, invalid seckey, counter entry point, NULL pubnonce, invalid keyagg cache, session_secrand32 ALIASING extra_input32, session_secrand32 ALIASING seckey, "
        "randomness buffer reused as the previous call left it), 8 partial-sign variants (correct keypair session 1 / session 2, keypair of the negated key, unrelated "
        "keypair, NULL output, invalid cache, invalid session, NULL keypair)} x 2 secnonce slots, each executed with all objects at an even AND at an odd byte offset "
        "(0..15) from a 16-byte boundary, plus all histories one step shorter at ALL 16 offsets; executed through the public API by a C sequence runner (one evaluated case = "
        "the 34 histories sharing a prefix x its offsets; class 'histories:run' counts single executions, 'histories:history_depth=k' single histories per build); "
        "random_histories: Hypothesis histories of <= 50 calls over 3 slots and 3 signers with every optional argument / fault / pointer aliasing varied and every object "
        "at a drawn byte offset.  Oracle: abstract single-use model (slot ZERO | LIVE(bound key)); after every call: return value, secnonce all-zero <=> not LIVE, "
        "randomness wiped on success (also when the same pointer was passed as seckey / extra input), a zeroed randomness buffer refused, illegal callback fired where the "
        "header says so and never on a valid call, no two generated secnonces equal, a produced partial signature verifies for the slot's pubnonce (and not under the other "
        "session).  non-trivial = the history contains a FAILING call followed by a later call on the same slot")
ASSUMPTIONS = ["reading the 132 secnonce bytes / the randomness buffer directly is how the property defines its observation (observe_at)",
               "illegal-argument callbacks are replaced by counting stubs that return (documented use of secp256k1_context_set_illegal_callback)",
               "callback expectations are asserted only where the header states them (NULL arguments, zeroed secnonce, keypair mismatch) and 'no callback on a successful call'; "
               "for uninitialised cache/session objects, zero randomness and invalid seckey either behaviour is accepted",
               "all opaque musig / extrakeys types are structs of unsigned char arrays (alignment requirement 1): any byte address is a legal object address",
               "passing the same pointer as session_secrand32 and as seckey / extra_input32 is legal input (the header forbids nothing of the kind); 'invalidated on success' then "
               "applies to those 32 bytes whatever else they were passed as",
               "pyref.musig is a correct reading of BIP-327 (validated against the BIP's vectors) - used only to double-check produced partial signatures in random_histories"]


# ------------------------------------------------------------------ the abstract model (shared by both tests)
class Model:
    """Single-use model over two slots.  step(code, rand_was_zero) -> expectation dict.  ill: 'zero' | 'ge1' | 'any'.
    rand_was_zero is an INPUT of op 16 (content of the reused buffer before the call), observed by the runner."""

    def __init__(self):
        self.live = [False, False]

    def step(self, code, rand_was_zero=None):
        op, slot = code >> 1, code & 1
        if op in GEN_OPS:
            if op == 16:
                ok = not rand_was_zero
            else:
                ok = op in (0, 3, 14, 15)
            self.live[slot] = ok
            return {"ret": 1 if ok else 0, "zero": 0 if ok else 1, "wiped": 1 if (ok and op != 3) else 2,
                    "ill": "zero" if ok else ("ge1" if op == 4 else "any"), "ver": 2, "ver_other": 2}
        was = self.live[slot]
        ok = was and op in (6, 7)
        self.live[slot] = False
        if ok:
            ill = "zero"
        elif op in (11, 12):
            ill = "any"          # uninitialised cache / session object (alone or together with a dead nonce): either behaviour accepted
        elif not was:
            ill = "ge1"          # header: "will abort if given a secnonce that is all zeros"
        elif op in (8, 9):
            ill = "ge1"          # header: nonce not generated for this keypair -> "the illegal_callback is called"
        elif op in (10, 13):
            ill = "ge1"          # NULL for a NONNULL argument
        else:
            ill = "any"
        return {"ret": 1 if ok else 0, "zero": 1, "wiped": 2, "ill": ill, "ver": 1 if ok else 2, "ver_other": 0 if ok else 2}


def classify_enum(ops):
    """-> (nontrivial, classes).  Labels only (the reused-buffer state is predicted assuming a failed call leaves the buffer alone)."""
    live = [False, False]
    had_fail = [False, False]
    nt = False
    cl = set()
    signed = [False, False]
    rz = True                      # randomness buffer currently all zero
    for code in ops:
        op, slot = code >> 1, code & 1
        if had_fail[slot]:
            nt = True
        if op in GEN_OPS:
            if op == 16:
                ok = not rz
                cl.add("reuse_rand_left_by_failed_gen" if ok else "reuse_zeroed_rand_refused")
                rz = True
            else:
                ok = op in (0, 3, 14, 15)
                if op in (0, 1, 14):
                    rz = True
                elif op in (2, 4, 5):
                    rz = False
            if op in (14, 15):
                cl.add(OPNAMES[op])
            if live[slot] and not ok:
                cl.add("failed_gen_over_live_nonce")
            if live[slot] and ok:
                cl.add("regen_over_live_nonce")
            live[slot] = ok
            signed[slot] = False
            if not ok:
                had_fail[slot] = True
        else:
            ok = live[slot] and op in (6, 7)
            if op in (6, 7):
                if ok:
                    cl.add("sign_success")
                elif signed[slot]:
                    cl.add("reuse_after_success")
                elif had_fail[slot]:
                    cl.add("sign_attempt_after_failed_call")
                else:
                    cl.add("sign_zeroed_nonce")
            elif live[slot]:
                cl.add("failing_sign_on_live:" + OPNAMES[op])
            if ok:
                signed[slot] = True
            else:
                had_fail[slot] = True
            live[slot] = False
    if len(set(c & 1 for c in ops)) == 2:
        cl.add("both_slots")
    return nt, sorted(cl)


def enum_params(seed_hex):
    """160-byte parameter block (sk_a | sk_b | msg1 | msg2 | randseed) derived from a seed string: pure data."""
    def h(tag):
        return hashlib.sha256(bytes.fromhex(seed_hex) + tag).digest()
    sk_a = ec.i2b(ec.b2i(h(b"a")) % (N - 1) + 1)
    sk_b = ec.i2b(ec.b2i(h(b"b")) % (N - 1) + 1)
    return sk_a + sk_b + h(b"m1") + h(b"m2") + h(b"r")


# (even, odd) offset pairs cycled over the prefixes: every full-depth history runs once at an even and once at an odd address
OFFSET_PAIRS = [(0, 1), (8, 7), (0, 9), (8, 15), (4, 3), (2, 5), (6, 11), (12, 13), (10, 1), (14, 7)]


def _prefix(i, k):
    out = []
    for _ in range(k):
        out.append(i % NCODES)
        i //= NCODES
    out.reverse()
    return out


def histories(tier, shard, nshards):
    """One case = the 34 histories that share a prefix, each executed at the case's byte offsets (keeps the driver's per-case
    journaling out of the inner loop).  Sweep A: full depth, one even + one odd offset; sweep B: one step shorter, all 16 offsets."""
    depth = 3 if tier == "quick" else 4
    seed = os.environ.get("VERIF_SEED", "1") or "1"
    n = 0
    for sweep, plen in (("A", depth - 1), ("B", depth - 2)):
        for i in range(NCODES ** plen):
            n += 1
            if n % nshards != shard:
                continue
            # 64 different parameter blocks per run (keys, messages, randomness), chosen by prefix index
            ph = hashlib.sha256(("C13|%s|%d" % (seed, i % 64)).encode()).hexdigest()[:32]
            offs = list(OFFSET_PAIRS[i % len(OFFSET_PAIRS)]) if sweep == "A" else list(range(16))
            yield {"prefix": _prefix(i, plen), "p": ph, "offs": offs, "sweep": sweep}


def check_history(env, fn, blobbuf, ops, off):
    obs = buf(OBS * len(ops))
    opsb = buf(len(ops), bytes(ops))
    r = fn(env.lib.ctx, blobbuf, ctypes.c_uint(off), opsb, c_size_t(len(ops)), obs)
    env.require(r == 1, "C13 runner failed")
    o = obs.raw
    m = Model()
    for i, code in enumerate(ops):
        ret, zero, wiped, ill, err, ver, other_same, ver_other, was_zero, dup, sec_mod, rnd_mod = o[OBS * i:OBS * i + OBS]
        e = m.step(code, rand_was_zero=(was_zero == 1))
        if (ret == e["ret"] and zero == e["zero"] and (e["wiped"] == 2 or wiped == e["wiped"]) and err == 0 and other_same == 1 and dup == 0
                and (e["ill"] == "any" or (e["ill"] == "zero" and ill == 0) or (e["ill"] == "ge1" and ill >= 1))
                and (e["ver"] == 2 or (ver == 1 and ver_other == 0))):
            continue
        name = "%s[slot %d]" % (OPNAMES[code >> 1], code & 1)
        ctxmsg = "step %d (%s) of history %s with objects at 16k+%d (secnonce address mod 16 = %d, randomness mod 16 = %d)" % (
            i, name, " ".join("%s/%d" % (OPNAMES[c >> 1], c & 1) for c in ops), off, sec_mod, rnd_mod)
        det = {"step": i, "history": list(ops), "offset": off, "observed": list(o[OBS * i:OBS * i + OBS]), "expected": e}
        env.require(ret == e["ret"], "%s: returned %d, single-use model says %d" % (ctxmsg, ret, e["ret"]), **det)
        env.require(zero == e["zero"], "%s: secnonce all-zero=%d, model says %d%s" % (
            ctxmsg, zero, e["zero"], " (a LIVE secret nonce / secret bytes survived a call that must consume/invalidate it)" if e["zero"] else ""), **det)
        if e["wiped"] != 2:
            env.require(wiped == e["wiped"], "%s: session_secrand32 not all-zero after a successful nonce_gen (the same bytes would be accepted again)" % ctxmsg, **det)
        if e["ill"] == "zero":
            env.require(ill == 0, "%s: illegal callback fired %d time(s) on a valid call" % (ctxmsg, ill), **det)
        elif e["ill"] == "ge1":
            env.require(ill >= 1, "%s: documented illegal-argument condition did not reach the illegal callback" % ctxmsg, **det)
        env.require(err == 0, "%s: error callback fired" % ctxmsg, **det)
        env.require(other_same == 1, "%s: the OTHER slot's secnonce bytes changed" % ctxmsg, **det)
        env.require(dup == 0, "%s: generated secnonce is byte-identical to one generated earlier in this history (nonce reuse)" % ctxmsg, **det)
        if e["ver"] != 2:
            env.require(ver == 1, "%s: produced partial signature does not verify for the slot's pubnonce" % ctxmsg, **det)
            env.require(ver_other == 0, "%s: partial signature also verifies under the other session" % ctxmsg, **det)


def off_class(off):
    return "offset:odd" if off & 1 else ("offset:aligned16" if off == 0 else ("offset:aligned8" if off == 8 else "offset:even_unaligned"))


def run_enum(env, case):
    lib = env.lib
    fn = lib.dll.vf_c13_run
    params = enum_params(case["p"])
    lib.reset()
    # the fixed environment is a pure function of the parameter block: memoised per worker (64 blocks per run)
    blob = env.cache.get(("c13env", case["p"]))
    if blob is None:
        lib.dll.vf_c13_env_size.restype = c_size_t
        e = buf(lib.dll.vf_c13_env_size())
        r = lib.dll.vf_c13_setup(lib.ctx, buf(160, params), e)
        env.require(r == 1 and lib.illegal() == 0 and lib.errors() == 0, "C13 runner: environment setup failed for valid keys")
        blob = e.raw
        if len(env.cache) < 256:
            env.cache[("c13env", case["p"])] = blob
    blobbuf = buf(len(blob), blob)
    classes = []
    nt_any = False
    offs = case.get("offs", [0])
    for last in range(NCODES):
        ops = list(case["prefix"]) + [last]
        nt, cl = classify_enum(ops)
        nt_any = nt_any or nt
        for k, off in enumerate(offs):
            check_history(env, fn, blobbuf, ops, off)
            # class labels are emitted once per EXECUTION (so the histogram in the evidence file counts executions, not cases)
            classes += cl + ["run", off_class(off)]
            if k == 0:
                classes += ["history_depth=%d" % len(ops)] + (["history_nontrivial_depth=%d" % len(ops)] if nt else [])
    return nt_any, classes


# ------------------------------------------------------------------ random longer histories, driven call by call
NSLOT = 3
NSIGNER = 3


# byte offset of an object from a 16-byte boundary: odd ones weighted (all these types have alignment requirement 1)
off_st = st.sampled_from([0, 8, 1, 1, 3, 5, 7, 7, 9, 9, 11, 13, 15, 15, 2, 4, 6, 10, 12, 14])


def obuf(n, off, init=None):
    """n-byte object whose address is congruent to `off` modulo 16 (view into a larger vf.lib.buf; the view keeps the base alive)"""
    base = buf(n + 32)
    shift = (off - ctypes.addressof(base)) % 16
    v = (ctypes.c_char * n).from_buffer(base, shift)
    assert ctypes.addressof(v) % 16 == off % 16
    if init is not None:
        ctypes.memmove(v, bytes(init), len(init))
    return v


@st.composite
def gen_step(draw):
    s = {"op": "gen", "slot": draw(st.integers(0, NSLOT - 1)), "signer": draw(st.integers(0, NSIGNER - 1)),
         "entry": draw(st.sampled_from(["rand", "rand", "counter"])),
         "rand": draw(st.one_of(gens.hexbytes(32), gens.hexbytes(32), gens.hexbytes(32), st.sampled_from(["zero", "reuse", "00" * 31 + "01", "80" + "00" * 31]))),
         "counter": draw(gens.u64_edge),
         "sk": draw(st.sampled_from(["own", "own", "own", "none", "other", "zero", "n", "max"])),
         "msg": draw(st.booleans()), "cache": draw(st.sampled_from(["ok", "ok", "none", "none", "bad"])),
         "extra": draw(st.one_of(st.none(), gens.hexbytes(32))),
         "null": draw(st.sampled_from([None] * 8 + ["pubnonce", "secrand", "pubkey", "keypair"])),
         # pointer aliasing: session_secrand32 is the SAME pointer as extra_input32 / as seckey (rand entry point, fresh randomness only)
         "alias": draw(st.sampled_from([None] * 5 + ["extra", "seckey", "extra", "seckey"])),
         "roff": draw(off_st)}
    return s


@st.composite
def sign_step(draw):
    return {"op": "sign", "slot": draw(st.integers(0, NSLOT - 1)),
            "key": draw(st.sampled_from(["bound", "bound", "bound", "bound", "neg", "other", "other2"])),
            "session": draw(st.sampled_from([0, 0, 1, 1, "bad"] + [0, 1] * 3)), "cache": draw(st.sampled_from(["ok"] * 7 + ["bad"])),
            "null": draw(st.sampled_from([None] * 10 + ["out", "keypair", "cache", "session"]))}


@st.composite
def random_history(draw):
    sks = draw(st.lists(gens.seckey_valid, min_size=NSIGNER, max_size=NSIGNER, unique=True))
    # (x, n-x) would make "other" a negated twin of "bound": keep the pool free of that so the labels mean what they say
    if len({min(s, N - s) for s in sks}) < NSIGNER:
        sks = [1 + i for i in range(NSIGNER)]
    one = st.one_of(gen_step(), sign_step(), sign_step())
    steps = draw(st.one_of(st.lists(one, min_size=2, max_size=12), st.lists(one, min_size=12, max_size=30), st.lists(one, min_size=30, max_size=50)))
    return {"sks": sks, "msgs": [draw(gens.hexbytes(32)), draw(gens.hexbytes(32))], "xtweak": draw(st.one_of(st.none(), gens.seckey_valid)),
            "soff": [draw(off_st) for _ in range(NSLOT)], "koff": draw(off_st), "steps": steps}


def run_random(env, case):
    lib = env.lib
    d = lib.dll
    ctx = lib.ctx
    sks = case["sks"]
    soff = case.get("soff", [0] * NSLOT)
    koff = case.get("koff", 0)
    lib.reset()
    kps, pks, pk33 = [], [], []
    for sk in sks:
        kp = obuf(96, koff)
        assert d.secp256k1_keypair_create(ctx, kp, ec.i2b(sk)) == 1
        pk = obuf(64, koff)
        assert d.secp256k1_keypair_pub(ctx, pk, kp) == 1
        kps.append(kp)
        pks.append(pk)
        pk33.append(ec.ser33(ec.mulg(sk)))
    negkps = []
    for sk in sks:
        kp = obuf(96, koff)
        assert d.secp256k1_keypair_create(ctx, kp, ec.i2b(N - sk)) == 1
        negkps.append(kp)
    cache = obuf(197, koff)
    assert d.secp256k1_musig_pubkey_agg(ctx, None, cache, ptr_array(pks), c_size_t(NSIGNER)) == 1
    kctx = M.key_agg(pk33)
    if case["xtweak"] is not None:
        r = d.secp256k1_musig_pubkey_xonly_tweak_add(ctx, None, cache, ec.i2b(case["xtweak"]))
        k2 = M.apply_tweak(kctx, ec.i2b(case["xtweak"]), True)
        if r == 1 and k2 is not None:
            kctx = k2
        else:   # negligible (tweak == -key); rebuild untweaked
            assert d.secp256k1_musig_pubkey_agg(ctx, None, cache, ptr_array(pks), c_size_t(NSIGNER)) == 1
    bad_cache = obuf(197, koff)
    bad_session = obuf(133, koff)
    # sessions: any aggregate nonce will do (a partial signature is checked against the signer's OWN pubnonce)
    hs, hp = buf(132), buf(132)
    assert d.secp256k1_musig_nonce_gen(ctx, hs, hp, buf(32, b"\x42" * 32), None, pks[0], None, None, None) == 1
    agg = buf(132)
    assert d.secp256k1_musig_nonce_agg(ctx, agg, ptr_array([hp]), c_size_t(1)) == 1
    agg66 = buf(66)
    d.secp256k1_musig_aggnonce_serialize(ctx, agg66, agg)
    msgs = [bytes.fromhex(m) for m in case["msgs"]]
    sessions, rsessions = [], []
    for m in msgs:
        s = obuf(133, koff)
        assert d.secp256k1_musig_nonce_process(ctx, s, agg, m, cache, None) == 1
        sessions.append(s)
        rsessions.append(M.Session(agg66.raw, kctx, m))
    assert lib.illegal() == 0 and lib.errors() == 0

    sec = [obuf(132, soff[j]) for j in range(NSLOT)]
    pub = [obuf(132, soff[j]) for j in range(NSLOT)]
    if any(o & 1 for o in soff):
        classes_pre = ["secnonce_at_odd_address"]
    else:
        classes_pre = []
    state = [None] * NSLOT            # None = ZERO, else {"signer": i, "pubnonce": 132 bytes}
    had_fail = [False] * NSLOT
    last_rand = None
    classes = set(classes_pre)
    nt = False
    successes = 0

    def zero(b):
        return not any(b.raw)

    for si, st_ in enumerate(case["steps"]):
        slot = st_["slot"]
        if had_fail[slot]:
            nt = True
        others = [sec[j].raw for j in range(NSLOT)]
        ill0 = lib.illegal()
        where = "step %d %s" % (si, {k: v for k, v in st_.items() if k not in ("extra",)})
        if st_["op"] == "gen":
            g = st_["signer"]
            null = st_["null"]
            skk = st_["sk"]
            seckey = {"own": ec.i2b(sks[g]), "other": ec.i2b(sks[(g + 1) % NSIGNER]), "none": None, "zero": bytes(32), "n": ec.i2b(N), "max": b"\xff" * 32}[skk]
            msg = msgs[0] if st_["msg"] else None
            ch = {"ok": cache, "none": None, "bad": bad_cache}[st_["cache"]]
            extra = bytes.fromhex(st_["extra"]) if st_["extra"] else None
            pn = None if null == "pubnonce" else pub[slot]
            if st_["entry"] == "counter":
                kp = None if null == "keypair" else kps[g]
                ret = d.secp256k1_musig_nonce_gen_counter(ctx, sec[slot], pn, c_uint64(st_["counter"]), kp, msg, ch, extra)
                faults = [null in ("pubnonce", "keypair"), st_["cache"] == "bad"]
                randbuf = None
            else:
                roff = st_.get("roff", 0)
                alias = st_.get("alias")
                if st_["rand"] == "zero":
                    randbuf = obuf(32, roff)
                    alias = None
                elif st_["rand"] == "reuse" and last_rand is not None:
                    randbuf = last_rand
                    alias = None
                    classes.add("reuse_rand_buffer")
                    if zero(randbuf):
                        classes.add("reuse_wiped_rand_buffer")
                elif st_["rand"] in ("zero", "reuse"):
                    randbuf = obuf(32, roff, b"\x01" * 32)
                    alias = None
                else:
                    randbuf = obuf(32, roff, bytes.fromhex(st_["rand"]))
                if alias == "seckey" and seckey is not None and null != "secrand":
                    # the 32 secret-key bytes double as the session randomness: ONE buffer passed for both arguments
                    randbuf = obuf(32, roff, seckey)
                    seckey = randbuf
                elif alias == "extra" and null != "secrand":
                    extra = randbuf
                else:
                    alias = None
                rand_zero = zero(randbuf)
                pkarg = None if null == "pubkey" else pks[g]
                rb = None if null == "secrand" else randbuf
                ret = d.secp256k1_musig_nonce_gen(ctx, sec[slot], pn, rb, seckey, pkarg, msg, ch, extra)
                faults = [null in ("pubnonce", "pubkey", "secrand"), rand_zero, skk in ("zero", "n", "max"), st_["cache"] == "bad"]
                if null != "secrand":
                    last_rand = randbuf
            dill = lib.illegal() - ill0
            ok = not any(faults)
            # the callback is asserted only when the NULL argument is the ONLY fault (with several faults the first detected one decides)
            must_cb = faults[0] and sum(faults) == 1
            env.require(ret == (1 if ok else 0), "%s: nonce generation returned %d, documented result %d" % (where, ret, 1 if ok else 0), step=si)
            if ok:
                env.require(not zero(sec[slot]), "%s: secnonce is all zero after successful generation" % where, step=si)
                env.require(dill == 0, "%s: illegal callback on a valid nonce generation: %s" % (where, lib.cbmsg()), step=si)
                if randbuf is not None:
                    env.require(zero(randbuf), "%s: session_secrand32 (address mod 16 = %d%s) not all-zero after successful nonce_gen: the same bytes would be accepted again" % (
                        where, ctypes.addressof(randbuf) % 16, (", same pointer as " + alias) if alias else ""), step=si)
                    classes.add("gen_ok_rand")
                    if alias:
                        classes.add("gen_alias_" + alias)
                    if ctypes.addressof(randbuf) & 1:
                        classes.add("rand_at_odd_address")
                else:
                    classes.add("gen_ok_counter")
                if state[slot] is not None:
                    classes.add("regen_over_live")
                state[slot] = {"signer": g, "pubnonce": pub[slot].raw}
            else:
                env.require(zero(sec[slot]), "%s: secnonce NOT all-zero after a FAILED nonce generation" % where, step=si)
                if must_cb:
                    env.require(dill >= 1, "%s: NULL argument did not reach the illegal callback" % where, step=si)
                if state[slot] is not None:
                    classes.add("failed_gen_over_live")
                classes.add("gen_fail")
                state[slot] = None
                had_fail[slot] = True
        else:
            null = st_["null"]
            cur = state[slot]
            bound = cur["signer"] if cur else 0
            key = st_["key"]
            kp = {"bound": kps[bound], "neg": negkps[bound], "other": kps[(bound + 1) % NSIGNER], "other2": kps[(bound + 2) % NSIGNER]}[key]
            ses = bad_session if st_["session"] == "bad" else sessions[st_["session"]]
            ch = bad_cache if st_["cache"] == "bad" else cache
            out = obuf(36, koff)
            ret = d.secp256k1_musig_partial_sign(ctx, None if null == "out" else out, sec[slot], None if null == "keypair" else kp,
                                                 None if null == "cache" else ch, None if null == "session" else ses)
            dill = lib.illegal() - ill0
            faults = [cur is None, key != "bound", null is not None, st_["session"] == "bad", st_["cache"] == "bad"]
            ok = not any(faults)
            env.require(zero(sec[slot]), "%s: secnonce NOT all-zero after partial_sign (was %s)" % (where, "LIVE" if cur else "ZERO"), step=si)
            env.require(ret == (1 if ok else 0), "%s: partial_sign returned %d, single-use model says %d (slot was %s)" % (where, ret, 1 if ok else 0, "LIVE" if cur else "ZERO"), step=si)
            if ok:
                successes += 1
                env.require(dill == 0, "%s: illegal callback on a valid partial_sign: %s" % (where, lib.cbmsg()), step=si)
                pnb = buf(132, cur["pubnonce"])
                v = d.secp256k1_musig_partial_sig_verify(ctx, out, pnb, pks[bound], cache, ses)
                env.require(v == 1, "%s: produced partial signature does not verify" % where, step=si)
                s32, p66 = buf(32), buf(66)
                d.secp256k1_musig_partial_sig_serialize(ctx, s32, out)
                d.secp256k1_musig_pubnonce_serialize(ctx, p66, pnb)
                # independent double-check with the reference (big-integer arithmetic is slow in sanitizer workers: first two signatures of a case)
                if successes <= 2:
                    env.require(M.partial_sig_verify(s32.raw, p66.raw, pk33[bound], rsessions[st_["session"]]),
                                "%s: produced partial signature fails the BIP-327 verification equation" % where, step=si)
                if msgs[0] != msgs[1] and successes <= 1:
                    env.require(not M.partial_sig_verify(s32.raw, p66.raw, pk33[bound], rsessions[1 - st_["session"]]),
                                "%s: partial signature verifies under the other session too" % where, step=si)
                classes.add("sign_success")
            else:
                if sum(faults) == 1 and any(faults[:3]):   # zeroed secnonce / foreign keypair / NULL argument as the ONLY fault
                    env.require(dill >= 1, "%s: documented illegal-argument condition did not reach the illegal callback" % where, step=si)
                if cur is not None:
                    classes.add("failing_sign_on_live:" + (("null_" + null) if null else key if key != "bound" else ("bad_session" if st_["session"] == "bad" else "bad_cache")))
                elif key == "bound" and null is None:
                    classes.add("sign_attempt_on_dead_nonce")
                had_fail[slot] = True
            state[slot] = None
        env.require(lib.errors() == 0, "%s: error callback fired: %s" % (where, lib.cbmsg()), step=si)
        for j in range(NSLOT):
            if j != slot:
                env.require(sec[j].raw == others[j], "%s: secnonce of another slot changed" % where, step=si)
    if len(case["steps"]) >= 20:
        classes.add("long>=20")
    return nt, sorted(classes)


TESTS = [
    Test("histories", histories, run_enum, kind="enum", max_workers=4,
         must_cover=["gen_alias_extra", "gen_alias_seckey", "offset:odd", "offset:even_unaligned", "offset:aligned16", "reuse_zeroed_rand_refused",
                     "reuse_rand_left_by_failed_gen", "sign_success", "reuse_after_success", "sign_attempt_after_failed_call", "failed_gen_over_live_nonce",
                     "failing_sign_on_live:sign_negated_key", "failing_sign_on_live:sign_null_out", "failing_sign_on_live:sign_other_key",
                     "failing_sign_on_live:sign_bad_cache", "failing_sign_on_live:sign_bad_session", "failing_sign_on_live:sign_null_keypair"]),
    Test("random_histories", random_history, run_random, quick=1600, thorough=20000, max_workers=8,
         must_cover=["gen_alias_extra", "gen_alias_seckey", "secnonce_at_odd_address", "rand_at_odd_address", "reuse_wiped_rand_buffer",
                     "sign_success", "failing_sign_on_live:neg", "failing_sign_on_live:null_out", "failed_gen_over_live", "sign_attempt_on_dead_nonce",
                     "gen_ok_counter", "gen_ok_rand", "reuse_rand_buffer"]),
]
