"""C03 — key and signature encodings are strict, canonical and round-trip."""
import ctypes
from ctypes import c_size_t, c_int, c_void_p, c_uint, byref

from hypothesis import strategies as st

from pyref import ec, ecdsa, der
from vf import gens
from vf.core import Test
from vf.fuzz import FuzzTarget
from vf.lib import buf, SECP256K1_EC_COMPRESSED, SECP256K1_EC_UNCOMPRESSED

N, P, HALF = ec.N, ec.P, ec.HALF_N
M256 = gens.M256

RULE = ("cases: (a) ENUMERATED public-key strings: every prefix byte 0..255 x every length 0..80 x 3 bodies (6 in the thorough tier), and 26 interesting prefixes x lengths around 33/65 x "
        "~40 x values (0,1,p-1,p,p+1,n-1,n,n+1,2^256-1, their on-curve neighbours, tiny-x points and their x+p re-encodings, x of tiny-y points) x y variants "
        "(both roots, y+p for tiny y, off by one, 0, p-1, p, 2^256-1); the same x values through the x-only parser; "
        "(b) ENUMERATED DER strings from the grammar SEQ(tag, length form) INT(tag, length form, padding, value) INT(...) trailer, with length forms "
        "{minimal, 0x81, 0x82, 0x83, 0x84, 0x88, 0x89, 0x80, 0xFF, 0xFE, +1, -1}, padding {minimal, raw magnitude (reads negative), one / two excess 0x00, excess 0xFF, negated value, empty}, "
        "values {0,1,0x7f,0x80,...,n-1,n,n+1,p-1,p,p+1,2^255,2^256-1,2^256, 41-, 130- and 251-byte integers}, wrong tags, trailing bytes inside / outside, truncation at every byte; "
        "(c) ENUMERATED 64-byte compact strings over 24x24 boundary pairs, plain and with each recovery id; "
        "(d) Hypothesis: valid encodings of all formats under byte / bit / length / field mutations; (e) Hypothesis: valid signatures constructed with a chosen small s (or small r) and "
        "their non-canonical re-encodings (s+n, r+n compact and DER, negative DER, 2^256-extended DER, failed parses over a buffer that held the valid signature) which must never verify. "
        "The int64 (10x26 field / 8x32 scalar) and int128-struct builds run the complete boundary-coordinate grids (every x / y in {p-1, p, p+1, p+2^26-1, p+2^26, 2^256-1, tiny x + p, tiny y + p, "
        "limb patterns of p} under every key format), an eighth of the prefix x length grid and of the DER grid, the compact grid (incl. scalars sharing limbs with n), and shares of (d), (e) and of the fuzz target. "
        "Oracle: pyref strict parsers (ec.parse_pubkey / parse_xonly, der.parse, range check), serialize(parse(b)) == canonical(b), parse(serialize(o)) == o, DER size negotiation with exact-size heap buffers. "
        "non-trivial = the string is not a plain valid encoding in its default format (any rejected string, hybrid keys, out-of-range DER integers, too-small buffers)")
ASSUMPTIONS = ["pyref.ec parsers and pyref.der are correct readings of SEC1 / BIP-340 / X.690 and of the header documentation (validated in pyref.selftest against published encodings)",
               "the libc malloc reached through ctypes is the sanitizer's allocator in the vsan build, so exact-size heap copies expose over-reads and over-writes"]

_libc = ctypes.CDLL(None)
_libc.malloc.restype = c_void_p
_libc.malloc.argtypes = [c_size_t]
_libc.free.argtypes = [c_void_p]


class Heap:
    """exact-size heap block (ASan red zones around it in the vsan build)"""

    def __init__(self, data=None, size=None):
        size = len(data) if size is None else size
        self.size = size
        self.p = c_void_p(_libc.malloc(max(1, size)))
        if not self.p.value:
            raise MemoryError()
        if data:
            ctypes.memmove(self.p, bytes(data), len(data))

    def read(self, n=None):
        return ctypes.string_at(self.p, self.size if n is None else n)

    def free(self):
        if self.p is not None:
            _libc.free(self.p)
            self.p = None

    def __del__(self):
        try:
            self.free()
        except Exception:
            pass


def b32(v):
    return int(v).to_bytes(32, "big")


# ================================================================== helpers around the API
def pub_parse(env, b):
    h = Heap(b)
    pk = buf(64, b"\x77" * 64)
    r = env.lib.dll.secp256k1_ec_pubkey_parse(env.lib.ctx, pk, h.p, c_size_t(len(b)))
    h.free()
    return r, pk


def pub_ser(env, pk, compressed):
    n = 33 if compressed else 65
    h = Heap(size=n)
    ol = c_size_t(n)
    r = env.lib.dll.secp256k1_ec_pubkey_serialize(env.lib.ctx, h.p, byref(ol), pk, c_uint(SECP256K1_EC_COMPRESSED if compressed else SECP256K1_EC_UNCOMPRESSED))
    out = h.read()
    h.free()
    return r, out, ol.value


def der_parse(env, b, sig=None):
    h = Heap(b)
    sig = sig if sig is not None else buf(64, b"\x77" * 64)
    r = env.lib.dll.secp256k1_ecdsa_signature_parse_der(env.lib.ctx, sig, h.p, c_size_t(len(b)))
    h.free()
    return r, sig


def der_ser(env, sig, size):
    h = Heap(size=size)
    ol = c_size_t(size)
    r = env.lib.dll.secp256k1_ecdsa_signature_serialize_der(env.lib.ctx, h.p, byref(ol), sig)
    out = h.read(min(size, ol.value)) if r == 1 else None
    h.free()
    return r, out, ol.value


def compact_parse(env, b64, sig=None):
    h = Heap(b64)
    sig = sig if sig is not None else buf(64, b"\x77" * 64)
    r = env.lib.dll.secp256k1_ecdsa_signature_parse_compact(env.lib.ctx, sig, h.p)
    h.free()
    return r, sig


def compact_ser(env, sig):
    h = Heap(size=64)
    r = env.lib.dll.secp256k1_ecdsa_signature_serialize_compact(env.lib.ctx, h.p, sig)
    out = h.read()
    h.free()
    return r, out


def no_callbacks(env, where):
    env.require(env.lib.illegal() == 0 and env.lib.errors() == 0, "illegal/error callback fired in %s on untrusted bytes: %s" % (where, env.lib.cbmsg()))


def dead_object(comp64):
    """An object holding in-range scalars (r,s) fails verification for EVERY message and key iff r == 0 or s == 0
    (for non-zero r,s a satisfying (m,Q) can always be constructed), so this is exactly the documented guarantee."""
    return comp64[:32] == bytes(32) or comp64[32:] == bytes(32)


# a fixed valid (msg, key) pair used to poke at left-over objects
_FIX_MSG = ec.sha256(b"C03 fixed message")
_FIX_Q = ec.mulg(0xC03)


def check_pub_accept(env, b, pk, pt):
    """round-trip obligations of an accepted public-key string"""
    r1, comp, l1 = pub_ser(env, pk, True)
    r2, unc, l2 = pub_ser(env, pk, False)
    env.require(r1 == 1 and l1 == 33 and r2 == 1 and l2 == 65, "pubkey_serialize failed / wrong length for a parsed key", b=b.hex())
    env.require(comp == ec.ser33(pt) and unc == ec.ser65(pt), "parsed key serialises to a different point than the encoded one", b=b.hex(), comp=comp.hex())
    canon = b if b[0] in (2, 3, 4) else b"\x04" + b[1:]
    env.require((comp if len(b) == 33 else unc) == canon, "serialize(parse(b)) != canonical(b)", b=b.hex())
    for ser in (comp, unc):
        rr, pk2 = pub_parse(env, ser)
        env.require(rr == 1, "parse(serialize(o)) failed", ser=ser.hex())
        env.require(env.lib.dll.secp256k1_ec_pubkey_cmp(env.lib.ctx, pk, pk2) == 0 and pub_ser(env, pk2, False)[1] == unc, "parse(serialize(o)) != o", ser=ser.hex())


def pub_reason(b):
    """why the format rejects b (label only)"""
    if len(b) not in (33, 65):
        return "len"
    if (len(b) == 33 and b[0] not in (2, 3)) or (len(b) == 65 and b[0] not in (4, 6, 7)):
        return "prefix"
    x = ec.b2i(b[1:33])
    if x >= P:
        tw = bytes([b[0]]) + b32(x - P) + b[33:]
        return "x+p_twin" if ec.parse_pubkey(tw) is not None else "x>=p"
    if len(b) == 33:
        return "offcurve"
    y = ec.b2i(b[33:])
    if y >= P:
        tw = b[:33] + b32(y - P)
        return "y+p_twin" if ec.parse_pubkey(tw) is not None else "y>=p"
    if (y * y - x * x * x - 7) % P:
        return "offcurve"
    return "hybrid_parity"


def run_pub_bytes(env, b, classes):
    lib = env.lib
    lib.reset()
    exp = ec.parse_pubkey(b)
    r, pk = pub_parse(env, b)
    env.require(r == (1 if exp is not None else 0), "ec_pubkey_parse returned %d, the format says %d (len %d, prefix %s)" % (r, exp is not None, len(b), b[:1].hex()), b=b.hex())
    if r == 1:
        check_pub_accept(env, b, pk, exp)
        fmt = {2: "compressed", 3: "compressed", 4: "uncompressed", 6: "hybrid", 7: "hybrid"}[b[0]]
        classes.append("accept:" + fmt)
        nt = fmt == "hybrid"
    else:
        classes.append("reject:" + pub_reason(b))
        nt = True
    no_callbacks(env, "ec_pubkey_parse/serialize")
    return nt


def run_xonly_bytes(env, b, classes):
    lib = env.lib
    lib.reset()
    exp = ec.parse_xonly(b)
    h = Heap(b)
    xpk = buf(64, b"\x77" * 64)
    r = lib.dll.secp256k1_xonly_pubkey_parse(lib.ctx, xpk, h.p)
    h.free()
    env.require(r == (1 if exp is not None else 0), "xonly_pubkey_parse returned %d, the format says %d" % (r, exp is not None), b=b.hex())
    if r == 1:
        o = Heap(size=32)
        rs = lib.dll.secp256k1_xonly_pubkey_serialize(lib.ctx, o.p, xpk)
        out = o.read()
        o.free()
        env.require(rs == 1 and out == b, "xonly serialize(parse(b)) != b", b=b.hex())
        r2, xpk2 = lib.xonly_parse(out)
        env.require(r2 == 1 and lib.dll.secp256k1_xonly_pubkey_cmp(lib.ctx, xpk, xpk2) == 0, "xonly parse(serialize(o)) != o")
        classes.append("xonly_accept")
    else:
        x = ec.b2i(b)
        classes.append("xonly_reject:" + ("x+p_twin" if x >= P and ec.lift_x(x - P) is not None else ("x>=p" if x >= P else "offcurve")))
    no_callbacks(env, "xonly_pubkey_parse")
    return r == 0


# ================================================================== (a) public-key grid
def _neighbours(v):
    out = []
    for d in (1, -1):
        x = v
        for _ in range(400):
            if 0 <= x < P and ec.lift_x(x) is not None:
                out.append(x)
                break
            x += d
            if x < 0 or x >= P:
                break
    return out


def _cuberoot(a):
    a %= P
    r = pow(a, (P + 2) // 9, P)       # p = 7 mod 9
    return r if pow(r, 3, P) == a else None


def _tiny_y_points(count):
    out = []
    y = 1
    while len(out) < count:
        x = _cuberoot(y * y - 7)
        if x is not None:
            assert ec.on_curve((x, y))
            out.append((x, y))
        y += 1
    return out


_X_BOUND = [0, 1, 2, 3, 5, 7, P - 2, P - 1, P, P + 1, P + 2, N - 1, N, N + 1, M256, M256 - 1, 1 << 255, (1 << 255) - 1, P - N, (1 << 32), (1 << 32) + 976, (1 << 32) + 977,
            P + (1 << 26) - 1, P + (1 << 26), P + (1 << 26) + 1]
_TINY_Y = _tiny_y_points(3)


def _limb_patterns_p():
    """field elements just BELOW p that agree with p on all limbs of a 10x26 / 5x52 representation except one upper limb (that limb minus 1),
    with all lower bits set: a range check that drops or mis-compares one limb of its chain wrongly refuses them.  -> {value: label}"""
    out = {}
    for w, name in ((26, "limb26"), (52, "limb52")):
        i = 2 if w == 26 else 1
        while w * i < 256:
            out[M256 - (1 << (w * i))] = name
            i += 1
    return out


_LIMB_X = _limb_patterns_p()


def _build_xset():
    xs = []
    for v in _X_BOUND:
        xs.append(v)
        xs += _neighbours(v if v < P else P - 1)
    tiny = [x for x in range(1, 40) if ec.lift_x(x) is not None][:5]
    xs += tiny + [x + P for x in tiny] + [5 + P, 0 + P]
    # on-curve x right below / at 2^26 (the width of the lowest limb of the 10x26 field): their x+p re-encodings
    xs += [x + P for x in _neighbours((1 << 26) - 1)[1:] + _neighbours(1 << 26)[:1]]
    for v, name in list(_LIMB_X.items()):
        xs.append(v)
        for nb in _neighbours(v)[1:]:            # nearest on-curve x below (keeps the low bits all-ones-ish)
            xs.append(nb)
            _LIMB_X[nb] = name
    xs += [ec.GX, ec.mulg(2)[0], ec.mulg(N - 3)[0]]
    xs += [x for x, _ in _TINY_Y]
    seen, out = set(), []
    for x in xs:
        if 0 <= x <= M256 and x not in seen:
            seen.add(x)
            out.append(x)
    return out


XSET = _build_xset()


def _yvariants(x):
    """y candidates for an (encoded) x value"""
    xr = x - P if x >= P else x
    pt = ec.lift_x(xr)
    ys = []
    if pt is not None:
        y0 = pt[1]
        y1 = P - y0
        ys += [y0, y1, (y0 + 1) % P, (y0 - 1) % P, y1 + 1 if y1 + 1 < P else 0]
        for y in (y0, y1):
            if y + P <= M256:
                ys.append(y + P)
    ys += [0, 1, P - 1, P, P + 1, M256, P + (1 << 26) - 1, P + (1 << 26)]
    seen, out = set(), []
    for y in ys:
        if y not in seen:
            seen.add(y)
            out.append(y)
    return out


_PREFIX_B = [0, 1, 2, 3, 4, 5, 6, 7, 8, 9, 10, 11, 0x12, 0x13, 0x14, 0x16, 0x17, 0x22, 0x42, 0x44, 0x82, 0x83, 0x84, 0x86, 0x87, 0xFF]
_LEN_B = [0, 1, 2, 32, 34, 64, 66, 80]


def _filler(n):
    return bytes(((i * 37 + 11) & 0xFF) for i in range(n))


class Selector:
    """Sharding of an enumeration: the i-th case belongs to shard (rank among the selected cases) % nshards.
    stride > 1 keeps a deterministic pseudo-random 1/stride subsample (multiplicative hash of the index, so that it does not
    line up with the loop structure of the enumeration)."""

    def __init__(self, shard, nshards, stride=1):
        self.shard, self.nshards, self.stride = shard, nshards, stride
        self.i = 0
        self.j = 0

    def take(self):
        i = self.i
        self.i += 1
        if self.stride > 1 and (((i * 0x9E3779B1) & 0xFFFFFFFF) >> 13) % self.stride:
            return False
        j = self.j
        self.j += 1
        return j % self.nshards == self.shard


def pub_string(prefix, length, x, y):
    if length == 0:
        return b""
    body = b32(x) + b32(y)
    if length - 1 <= 64:
        return bytes([prefix]) + body[:length - 1]
    return bytes([prefix]) + body + _filler(length - 65)


def pub_enum(tier, shard, nshards, stride=1, stride_a=None):
    """stride > 1: a deterministic 1/stride subsample (used for the sanitizer build);
    stride_a: subsample rate of grid A only (every prefix x every length), the boundary grids stay complete (used for the other limb configurations)"""
    sel = Selector(shard, nshards, stride)
    sel_a = Selector(shard, nshards, stride_a) if stride_a else sel
    gy = ec.GY
    t1 = ec.lift_x(1)
    bodies = [(ec.GX, gy), (ec.GX, P - gy), t1, (t1[0] + P, t1[1]), (0, 0), (M256, M256)]
    # grid A: every prefix x every length x a handful of bodies
    if tier == "quick":
        bodies = bodies[:1] + bodies[2:4]
    for prefix in range(256):
        for length in range(81):
            for bi, (x, y) in enumerate(bodies):
                if sel_a.take():
                    yield {"k": "pub", "p": prefix, "l": length, "x": x, "y": y}
    # grid B: interesting prefixes x the key lengths x all boundary coordinates
    for prefix in _PREFIX_B:
        for x in XSET:
            ys = _yvariants(x)
            for length in (33, 65):
                for y in (ys if length == 65 else ys[:1]):
                    if sel.take():
                        yield {"k": "pub", "p": prefix, "l": length, "x": x, "y": y}
            for length in _LEN_B:
                if sel.take():
                    yield {"k": "pub", "p": prefix, "l": length, "x": x, "y": ys[0]}
    # tiny-y points: y and y+p under every key prefix
    for (x, y) in _TINY_Y:
        for prefix in (2, 3, 4, 6, 7):
            for yy in (y, P - y, y + P, P - y + 1):
                if sel.take():
                    yield {"k": "pub", "p": prefix, "l": 65, "x": x, "y": yy}
    # x-only: every boundary x
    for x in XSET:
        if sel.take():
            yield {"k": "xonly", "x": x}


_SPECIAL = {P - 1: "p-1", P: "p", P + 1: "p+1", P + (1 << 26) - 1: "p+2^26-1", P + (1 << 26): "p+2^26", M256: "2^256-1"}
_TINY_XP = {x + P for x in range(1, 40) if ec.lift_x(x) is not None}
_TINY_YP = {y + P for _, y in _TINY_Y}
_FMT = {2: "comp", 3: "comp", 4: "uncomp", 6: "hybrid", 7: "hybrid"}


def _xname(x):
    return _SPECIAL.get(x) or ("tinyx+p" if x in _TINY_XP else _LIMB_X.get(x))


def _yname(y):
    return _SPECIAL.get(y) or ("tinyy+p" if y in _TINY_YP else None)


def run_pub_enum(env, case):
    classes = []
    if case["k"] == "xonly":
        nt = run_xonly_bytes(env, b32(case["x"]), classes)
        if _xname(case["x"]):
            classes.append("bx:%s:xonly" % _xname(case["x"]))
        return nt, classes
    b = pub_string(case["p"], case["l"], case["x"], case["y"])
    nt = run_pub_bytes(env, b, classes)
    fmt = _FMT.get(case["p"])
    if fmt and case["l"] == (33 if fmt == "comp" else 65):
        if _xname(case["x"]):
            classes.append("bx:%s:%s" % (_xname(case["x"]), fmt))
        if fmt != "comp" and _yname(case["y"]):
            classes.append("by:%s:%s" % (_yname(case["y"]), fmt))
    return nt, classes


_BOUND_COVER = (["bx:%s:%s" % (n, f) for n in ("p-1", "p", "p+1", "p+2^26-1", "p+2^26", "2^256-1", "tinyx+p", "limb26", "limb52") for f in ("comp", "uncomp", "hybrid", "xonly")]
                + ["by:%s:%s" % (n, f) for n in ("p-1", "p", "p+1", "p+2^26-1", "p+2^26", "2^256-1", "tinyy+p") for f in ("uncomp", "hybrid")])


# ================================================================== (b) DER grid
LENFORMS = ["min", "l1", "l2", "l3", "l4", "l8", "l9", "l8nz", "l9nz", "indef", "ff", "fe", "plus1", "minus1"]
PADS = ["min", "raw", "z1", "z2", "ff1", "ffraw", "neg", "ffneg", "empty"]
DER_VALUES = [0, 1, 0x7F, 0x80, 0xFF, 0xFFFF, HALF, N - 1, N, N + 1, P - 1, P, P + 1, 1 << 255, M256, 1 << 256, (1 << 256) + 5, 1 << 320, 1 << 1032]
_BIG251 = (1 << 2000) + 1
DER_VALUES_SMALLSET = [1, 0x80, N - 1, M256, 1 << 1032, _BIG251]
_ALLVALUES = DER_VALUES + [_BIG251]


def enc_len_form(n, form):
    if form == "min":
        return der.enc_len(n)
    if form in ("l1", "l2", "l3", "l4", "l8", "l9"):
        k = int(form[1:])
        if n >= 1 << (8 * k):
            return der.enc_len(n)
        return bytes([0x80 | k]) + n.to_bytes(k, "big")
    if form == "l8nz":
        return b"\x88\x01" + n.to_bytes(7, "big")       # claims 2^56 + n
    if form == "l9nz":
        return b"\x89\x01" + n.to_bytes(8, "big")       # more length octets than a size_t holds
    if form == "indef":
        return b"\x80"
    if form == "ff":
        return b"\xff"
    if form == "fe":
        return b"\xfe" + n.to_bytes(2, "big")
    if form == "plus1":
        return der.enc_len(n + 1)
    if form == "minus1":
        return der.enc_len(max(0, n - 1))
    raise ValueError(form)


def int_content(v, pad):
    minimal = der.enc_int_body(v)
    if pad == "min":
        return minimal
    if pad == "raw":
        return v.to_bytes(max(1, (v.bit_length() + 7) // 8), "big")
    if pad == "z1":
        return b"\x00" + minimal
    if pad == "z2":
        return b"\x00\x00" + minimal
    if pad == "ff1":
        return b"\xff" + minimal
    if pad == "ffraw":
        return b"\xff" + v.to_bytes(max(1, (v.bit_length() + 7) // 8), "big")
    if pad == "neg":
        return der.enc_int_body(-v)
    if pad == "ffneg":
        return b"\xff" + der.enc_int_body(-v)
    if pad == "empty":
        return b""
    raise ValueError(pad)


def enc_int_var(spec):
    tag, form, pad, vi = spec
    c = int_content(_ALLVALUES[vi], pad)
    return bytes([tag]) + enc_len_form(len(c), form) + c


def build_der(case):
    body = enc_int_var(case["r"]) + enc_int_var(case["s"])
    trail = case.get("trail", "none")
    if trail in ("in", "both"):
        body += b"\x00"
    if trail == "in_int":
        body += b"\x02\x01\x01"
    b = bytes([case["seq"][0]]) + enc_len_form(len(body), case["seq"][1]) + body
    if trail in ("out", "both"):
        b += b"\x00"
    if trail == "out2":
        b += b"\x30\x00"
    tr = case.get("trunc")
    if tr is not None:
        b = b[:tr] if tr >= 0 else b + _filler(-tr)
    return b


_VI = {v: i for i, v in enumerate(_ALLVALUES)}
_SEQFORMS = [[0x30, f] for f in LENFORMS] + [[t, "min"] for t in (0x31, 0x10, 0x00, 0xB0, 0x20, 0x02, 0x70)]
_TRAILS = ["none", "in", "out", "both", "in_int", "out2"]
_BADTAGS = [0x03, 0x82, 0x22, 0x00, 0x30, 0x01, 0x12]


def der_enum(tier, shard, nshards, stride=1):
    """stride > 1: a deterministic 1/stride subsample (used for the sanitizer build)"""
    sel = Selector(shard, nshards, stride)

    def plain(v):
        return [0x02, "min", "min", _VI[v]]

    def emit(c):
        return sel.take()

    # 0. canonical encodings of every pair of values (in-range x out-of-range x oversize), and with each side negated
    for rv in range(len(_ALLVALUES)):
        for sv in range(len(_ALLVALUES)):
            for pr, ps in (("min", "min"), ("neg", "min"), ("min", "neg"), ("raw", "raw")):
                c = {"seq": [0x30, "min"], "r": [0x02, "min", pr, rv], "s": [0x02, "min", ps, sv], "trail": "none"}
                if emit(c):
                    yield c
    # 1. every INT variant (length form x padding x value) on either side, canonical framing, all trailers
    for side in ("r", "s"):
        for form in LENFORMS:
            for pad in PADS:
                for vi in range(len(DER_VALUES)):
                    for other in (1, N - 1, N):
                        for trail in _TRAILS:
                            c = {"seq": [0x30, "min"], "r": plain(other), "s": plain(other), "trail": trail}
                            c[side] = [0x02, form, pad, vi]
                            if emit(c):
                                yield c
        for tag in _BADTAGS:
            for v in (1, 0x80, N - 1):
                c = {"seq": [0x30, "min"], "r": plain(1), "s": plain(1), "trail": "none"}
                c[side] = [tag, "min", "min", _VI[v]]
                if emit(c):
                    yield c
    # 2. every sequence framing x trailer x a reduced INT variant set (incl. the bodies that force long-form sequence lengths)
    for seq in _SEQFORMS:
        for trail in (_TRAILS[:3] if tier == "quick" else _TRAILS):
            for side in ("r", "s"):
                for form in LENFORMS:
                    for pad in PADS:
                        for v in (DER_VALUES_SMALLSET if tier == "quick" else _ALLVALUES):
                            c = {"seq": seq, "r": plain(N - 1), "s": plain(1), "trail": trail}
                            c[side] = [0x02, form, pad, _VI[v]]
                            if emit(c):
                                yield c
    # 3. pairs of INT variants
    for f1 in LENFORMS:
        for p1 in PADS:
            for f2 in LENFORMS:
                for p2 in PADS:
                    c = {"seq": [0x30, "min"], "r": [0x02, f1, p1, _VI[0x80]], "s": [0x02, f2, p2, _VI[N - 1]], "trail": "none"}
                    if emit(c):
                        yield c
    # 4. truncation at every byte / extension of representative encodings
    reps = []
    for rv in (0, 1, 0x80, N - 1, N, M256, 1 << 256, 1 << 1032):
        for sv in (1, HALF, N - 1, 1 << 1032):
            reps.append({"seq": [0x30, "min"], "r": plain(rv), "s": plain(sv), "trail": "none"})
    reps.append({"seq": [0x30, "l1"], "r": plain(1), "s": plain(1), "trail": "none"})
    reps.append({"seq": [0x30, "l2"], "r": plain(_BIG251), "s": plain(1), "trail": "none"})
    for rep in reps:
        full = len(build_der(rep))
        for tr in list(range(0, full)) + [-1, -2, -3]:
            c = dict(rep)
            c["trunc"] = tr
            if emit(c):
                yield c


def check_der_accept(env, b, sig, rs, classes):
    """obligations on an accepted DER string (rs = integers as encoded)"""
    lib = env.lib
    r, s = rs
    ok = der.in_range(r) and der.in_range(s)
    rc, comp = compact_ser(env, sig)
    env.require(rc == 1, "serialize_compact failed")
    if ok:
        env.require(comp == b32(r) + b32(s), "DER-parsed object holds different (r,s) than encoded", b=b.hex(), obj=comp.hex())
        canon = b
        classes.append("der_accept:in_range")
    else:
        # documented: parses, but verification with it fails for every message and key
        pk = env.cache.get("fixpk")
        if pk is None:
            pk = env.cache["fixpk"] = lib.pubkey_from_point(_FIX_Q)
        env.require(lib.ecdsa_verify(sig, _FIX_MSG, pk) == 0, "object with out-of-range integer verifies")
        env.require(dead_object(comp), "DER with an out-of-range integer left an object that can verify (r and s both non-zero)", b=b.hex(), obj=comp.hex())
        rr = ec.b2i(comp[:32])
        ss = ec.b2i(comp[32:])
        canon = der.serialize(rr, ss)
        classes.append("der_accept:out_of_range")
        if r < 0 or s < 0:
            classes.append("der_accept:negative")
        if r > M256 or s > M256:
            classes.append("der_accept:oversize")
    # size negotiation (exact-size heap output buffers)
    need = len(canon)
    for size in (0, 1, need - 1):
        rr_, out, ol = der_ser(env, sig, size)
        env.require(rr_ == 0, "serialize_der succeeded into a %d-byte buffer, %d needed" % (size, need), b=b.hex())
        env.require(ol == need, "serialize_der with a too small buffer reported %d, needed %d" % (ol, need), b=b.hex())
    for size in (need, need + 1, 72 if need <= 72 else need + 9):
        rr_, out, ol = der_ser(env, sig, size)
        env.require(rr_ == 1 and ol == need, "serialize_der failed with a %d-byte buffer (%d needed, reported %d)" % (size, need, ol), b=b.hex())
        env.require(out == canon, "serialize_der(parse_der(b)) != canonical DER", b=b.hex(), out=out.hex())
    # parse(serialize(o)) == o
    r2, sig2 = der_parse(env, canon)
    env.require(r2 == 1 and compact_ser(env, sig2)[1] == comp, "parse_der(serialize_der(o)) != o")
    r3, sig3 = compact_parse(env, comp)
    env.require(r3 == 1 and compact_ser(env, sig3)[1] == comp, "parse_compact(serialize_compact(o)) != o")
    return ok


def run_der_bytes(env, b, classes):
    lib = env.lib
    lib.reset()
    exp = der.parse(b)
    r, sig = der_parse(env, b)
    env.require(r == (1 if exp is not None else 0), "signature_parse_der returned %d, strict DER says %d" % (r, exp is not None), b=b.hex())
    if r == 1:
        plain = check_der_accept(env, b, sig, exp, classes)
        nt = not plain
    else:
        env.require(dead_object(compact_ser(env, sig)[1]), "object left by a failed DER parse can verify (r and s both non-zero)")
        classes.append("der_reject")
        nt = True
    no_callbacks(env, "signature_parse_der/serialize_der")
    return nt


def run_der_enum(env, case):
    classes = []
    b = build_der(case)
    nt = run_der_bytes(env, b, classes)
    if len(b) > 255:
        classes.append("len>255")
    elif len(b) > 129:
        classes.append("len>129")
    if case.get("trunc") is not None:
        classes.append("truncated" if case["trunc"] >= 0 else "extended")
    return nt, classes


# ================================================================== (c) compact grid
_CB = [0, 1, 2, 0x80, HALF - 1, HALF, HALF + 1, N - 2, N - 1, N, N + 1, N + 2, P - 1, P, P + 1, 1 << 255, (1 << 255) - 1, M256, M256 - 1, 1 << 128, P - N, (1 << 256) - N, (1 << 256) - N - 1,
       0xFFFFFFFFFFFFFFFFFFFFFFFFFFFFFFFEBAAEDCE6AF48A03BBFD25E8C00000000]


def _limb_prefix_n():
    """scalars equal to n on the top 32k bits with, in the limb right below, n's limb +-1 / 0 / 0xFFFFFFFF and the rest n's own, zero or ones
    (the overflow check compares limb by limb; 64-bit limbs are the even k)"""
    out = []
    for k in range(1, 8):
        L = 256 - 32 * k
        top = N >> L << L
        j = L - 32
        own = N & ((1 << j) - 1)
        limb = (N >> j) & 0xFFFFFFFF
        for lv in ((limb + 1) & 0xFFFFFFFF, (limb - 1) & 0xFFFFFFFF, 0, 0xFFFFFFFF):
            for rest in (own, 0, (1 << j) - 1):
                out.append(top | (lv << j) | rest)
    seen, res = set(), []
    for v in out:
        if v not in seen:
            seen.add(v)
            res.append(v)
    return res


_CB_LIMB = _limb_prefix_n()


def compact_enum(tier, shard, nshards):
    i = 0
    pairs = [(r, s) for r in _CB for s in _CB] + [(v, 1) for v in _CB_LIMB] + [(N - 1, v) for v in _CB_LIMB]
    for r, s in pairs:
        for recid in (-1, 0, 1, 2, 3):
            if i % nshards == shard:
                yield {"r": r, "s": s, "recid": recid}
            i += 1


def run_compact_bytes(env, b, recid, classes, prefill=None):
    lib = env.lib
    d = lib.dll
    lib.reset()
    r, s = ec.b2i(b[:32]), ec.b2i(b[32:])
    ok = r < N and s < N
    pk = env.cache.get("fixpk")
    if pk is None:
        pk = env.cache["fixpk"] = lib.pubkey_from_point(_FIX_Q)
    if recid < 0:
        rp, sig = compact_parse(env, b)
        env.require(rp == (1 if ok else 0), "signature_parse_compact returned %d for r<n=%s s<n=%s" % (rp, r < N, s < N), b=b.hex())
        rc, comp = compact_ser(env, sig)
        if ok:
            env.require(comp == b, "compact serialize(parse(b)) != b", b=b.hex())
            # the same object through DER
            canon = der.serialize(r, s)
            rr_, out, ol = der_ser(env, sig, len(canon))
            env.require(rr_ == 1 and out == canon, "serialize_der of a compact-parsed object is not the canonical DER of (r,s)", b=b.hex())
            rr_, out, ol = der_ser(env, sig, len(canon) - 1)
            env.require(rr_ == 0 and ol == len(canon), "serialize_der size negotiation wrong for a compact-parsed object")
            r2, sig2 = der_parse(env, canon)
            env.require(r2 == 1 and compact_ser(env, sig2)[1] == b, "parse_der(serialize_der(o)) != o")
            classes.append("compact_accept")
        else:
            env.require(lib.ecdsa_verify(sig, _FIX_MSG, pk) == 0, "object left by a failed parse_compact verifies")
            env.require(dead_object(comp), "object left by a failed parse_compact can verify (r and s both non-zero)", obj=comp.hex())
            classes.append("compact_reject")
    else:
        h = Heap(b)
        rsig = buf(65, b"\x77" * 65)
        rp = d.secp256k1_ecdsa_recoverable_signature_parse_compact(lib.ctx, rsig, h.p, c_int(recid))
        h.free()
        env.require(rp == (1 if ok else 0), "recoverable_signature_parse_compact returned %d for r<n=%s s<n=%s" % (rp, r < N, s < N), b=b.hex())
        if ok:
            o = Heap(size=64)
            rid = c_int(-1)
            env.require(d.secp256k1_ecdsa_recoverable_signature_serialize_compact(lib.ctx, o.p, byref(rid), rsig) == 1, "recoverable serialize failed")
            out = o.read()
            o.free()
            env.require(out == b and rid.value == recid, "recoverable compact serialize(parse(b, recid)) != (b, recid)", b=b.hex(), recid=rid.value)
            conv = buf(64)
            d.secp256k1_ecdsa_recoverable_signature_convert(lib.ctx, conv, rsig)
            env.require(compact_ser(env, conv)[1] == b, "convert(recoverable) holds different (r,s)")
            classes.append("rec_accept")
        else:
            classes.append("rec_reject")
    no_callbacks(env, "parse_compact")
    return not ok


def run_compact_enum(env, case):
    classes = []
    nt = run_compact_bytes(env, b32(case["r"]) + b32(case["s"]), case["recid"], classes)
    for v in (case["r"], case["s"]):
        if v in _CB_LIMB_SET:
            classes.append("limb~n:" + ("below" if v < N else "above"))
    return nt, classes


_CB_LIMB_SET = set(_CB_LIMB)


# ================================================================== (d) Hypothesis mutations of valid encodings
_FIELD_VALUES = [0, 1, P - 1, P, P + 1, N - 1, N, N + 1, M256, HALF, HALF + 1]


@st.composite
def mutate_case(draw):
    fmt = draw(st.sampled_from(["comp", "uncomp", "hybrid", "xonly", "der", "der", "compact", "rec"]))
    case = {"fmt": fmt}
    if fmt in ("comp", "uncomp", "hybrid", "xonly"):
        case["pt"] = draw(st.one_of(gens.point_scalar.map(lambda k: ["k", k]), st.sampled_from([["x", 1], ["x", 2], ["x", 3], ["ty", 0], ["ty", 1]])))
        case["neg"] = draw(st.booleans())
    else:
        sc = st.one_of(st.sampled_from([0, 1, 0x7F, 0x80, 0xFF, HALF, HALF + 1, N - 1, N - 2, 1 << 255, (1 << 255) - 1, (1 << 248) - 1, 1 << 248]),
                       gens.u256_edge.map(lambda v: v % N), st.integers(0, N - 1), st.integers(0, 1 << 64))
        case["r"] = draw(sc)
        case["s"] = draw(sc)
        case["recid"] = draw(st.integers(0, 3))
    muts = []
    for _ in range(draw(st.sampled_from([0, 1, 1, 1, 1, 2, 2, 3]))):
        muts.append({"op": draw(st.sampled_from(["bitflip", "setbyte", "trunc", "extend", "insert", "delete", "field", "field_plus", "incbyte", "dup"])),
                     "a": draw(st.integers(0, 1 << 16)), "b": draw(st.integers(0, 255)), "v": draw(st.sampled_from(_FIELD_VALUES))})
    case["muts"] = muts
    return case


def apply_muts(b, muts, field_offsets):
    b = bytearray(b)
    for mu in muts:
        op, a, bb = mu["op"], mu["a"], mu["b"]
        if op == "bitflip" and b:
            pos = a % (len(b) * 8)
            b[pos // 8] ^= 1 << (pos % 8)
        elif op == "setbyte" and b:
            b[a % len(b)] = bb
        elif op == "incbyte" and b:
            i = a % len(b)
            b[i] = (b[i] + (1 if bb & 1 else 255)) & 255
        elif op == "trunc" and b:
            del b[len(b) - 1 - (a % min(len(b), 34)):]
        elif op == "extend":
            b += bytes([bb]) * (1 + a % 3)
        elif op == "insert":
            b.insert(a % (len(b) + 1), bb)
        elif op == "delete" and b:
            del b[a % len(b)]
        elif op == "dup" and b:
            i = a % len(b)
            b[i:i] = b[i:i + 1 + bb % 4]
        elif op in ("field", "field_plus") and field_offsets:
            off = field_offsets[a % len(field_offsets)]
            if off + 32 <= len(b):
                if op == "field":
                    b[off:off + 32] = b32(mu["v"])
                else:
                    cur = int.from_bytes(b[off:off + 32], "big")
                    add = P if bb & 1 else N
                    if cur + add <= M256:
                        b[off:off + 32] = b32(cur + add)
    return bytes(b)


def _case_point(case):
    kind, v = case["pt"]
    if kind == "k":
        pt = ec.mulg(v)
    elif kind == "x":
        pt = ec.lift_x(v)
    else:
        pt = _TINY_Y[v]
    return ec.neg(pt) if case["neg"] else pt


def run_mutate(env, case):
    fmt = case["fmt"]
    classes = ["fmt:" + fmt, "nmut=%d" % len(case["muts"])]
    classes += ["op:" + m["op"] for m in case["muts"]]
    if fmt in ("comp", "uncomp", "hybrid", "xonly"):
        pt = _case_point(case)
        if fmt == "comp":
            b0, offs = ec.ser33(pt), [1]
        elif fmt == "uncomp":
            b0, offs = ec.ser65(pt), [1, 33]
        elif fmt == "hybrid":
            b0, offs = bytes([6 + (pt[1] & 1)]) + ec.ser65(pt)[1:], [1, 33]
        else:
            b0, offs = b32(pt[0]), [0]
        b = apply_muts(b0, case["muts"], offs)
        if fmt == "xonly":
            if len(b) != 32:
                b = (b + bytes(32))[:32]          # the x-only parser takes exactly 32 bytes
            nt = run_xonly_bytes(env, b, classes)
            return nt or b != b0, classes
        nt = run_pub_bytes(env, b, classes)
        return nt or b != b0, classes
    r, s = case["r"], case["s"]
    if fmt == "der":
        b0 = der.serialize(r, s)
        # offsets of 32-byte fields only when the integers are full size
        b = apply_muts(b0, case["muts"], [])
        nt = run_der_bytes(env, b, classes)
        return nt or b != b0, classes
    b0 = b32(r) + b32(s)
    b = apply_muts(b0, case["muts"], [0, 32])
    b = (b + bytes(64))[:64]                      # the compact parsers take exactly 64 bytes
    nt = run_compact_bytes(env, b, case["recid"] if fmt == "rec" else -1, classes)
    return nt or b != b0, classes


# ================================================================== (e) never-verifies clause
@st.composite
def never_case(draw):
    small = st.one_of(st.integers(1, 255), st.integers(1, 1 << 64), st.integers(1, (1 << 128) - 1), st.sampled_from([1, 0x7F, 0x80, 0xFF, 0x8000, (1 << 127), (1 << 128) - 1, M256 - N]))
    case = {"xbase": draw(st.one_of(st.integers(N, P - 1), st.sampled_from([N, N + 1, P - 1, 1, 2, 3]), st.integers(1, 1 << 32), gens.u256_edge.map(lambda v: v % P or 1),
                                    st.integers(1, P - 1))),
            "odd": draw(st.integers(0, 1)), "s": draw(small), "msg": draw(gens.msg32)}
    return case


def run_never(env, case):
    lib = env.lib
    lib.reset()
    x = case["xbase"] % P or 1
    s, m = case["s"], case["msg"]
    while True:
        while ec.lift_x(x) is None:
            x = x + 1 if x + 1 < P else 1
        c = ecdsa.construct_from_R(x, case["odd"], s, m)
        if c is not None:
            break
        x = x + 1 if x + 1 < P else 1
    r, Q = c
    msg32 = b32(m)
    pk = lib.pubkey_from_point(Q)
    classes = []
    valid = b32(r) + b32(s)
    # baseline: the canonical encodings verify (s is small, hence low)
    rp, sig = compact_parse(env, valid)
    env.require(rp == 1 and lib.ecdsa_verify(sig, msg32, pk) == 1, "constructed valid signature (small s) does not verify", r=hex(r), s=hex(s), m32=msg32.hex(), Q=ec.ser33(Q).hex())
    rd, sigd = der_parse(env, der.serialize(r, s))
    env.require(rd == 1 and lib.ecdsa_verify(sigd, msg32, pk) == 1, "DER form of the constructed valid signature does not verify")

    def must_not_verify(sigobj, what, enc):
        env.require(lib.ecdsa_verify(sigobj, msg32, pk) == 0, "NON-CANONICAL RE-ENCODING VERIFIES: " + what, enc=enc.hex(), r=hex(r), s=hex(s), m32=msg32.hex(), Q=ec.ser33(Q).hex())
        nb = buf(64)
        lib.dll.secp256k1_ecdsa_signature_normalize(lib.ctx, nb, sigobj)
        env.require(lib.ecdsa_verify(nb, msg32, pk) == 0, "NON-CANONICAL RE-ENCODING VERIFIES after normalize: " + what, enc=enc.hex())

    def fresh_valid():
        return compact_parse(env, valid)[1]          # an object that currently holds the VALID signature

    variants = []
    if s + N <= M256:
        variants.append(("s+n", r, s + N))
    if r + N <= M256:
        variants.append(("r+n", r + N, s))
    if s + N <= M256 and r + N <= M256:
        variants.append(("r+n,s+n", r + N, s + N))
    for name, rr, ss in variants:
        enc = b32(rr) + b32(ss)
        # compact: must be refused, the object (which held the valid signature before) must not verify
        rp, sig = compact_parse(env, enc, sig=fresh_valid())
        env.require(rp == 0, "parse_compact accepted an out-of-range scalar (%s)" % name, enc=enc.hex())
        must_not_verify(sig, "compact " + name, enc)
        for recid in range(4):
            h = Heap(enc)
            rsig = buf(65)
            env.require(lib.dll.secp256k1_ecdsa_recoverable_signature_parse_compact(lib.ctx, rsig, h.p, c_int(recid)) == 0, "recoverable parse_compact accepted an out-of-range scalar (%s)" % name)
            h.free()
            conv = buf(64)
            lib.dll.secp256k1_ecdsa_recoverable_signature_convert(lib.ctx, conv, rsig)
            must_not_verify(conv, "recoverable compact " + name, enc)
        # DER: valid DER with an out-of-range number parses, and never verifies
        encd = der.serialize(rr, ss)
        rd, sig = der_parse(env, encd, sig=fresh_valid())
        env.require(rd == 1, "parse_der rejected valid DER with an out-of-range integer (%s)" % name, enc=encd.hex())
        must_not_verify(sig, "DER " + name, encd)
        classes.append("twin:" + name)
    # DER with 2^256 added (33/34-byte integers whose low 32 bytes are the valid scalar)
    for name, rr, ss in (("s+2^256", r, s + (1 << 256)), ("r+2^256", r + (1 << 256), s), ("s+2^264", r, s + (1 << 264))):
        encd = der.serialize(rr, ss)
        rd, sig = der_parse(env, encd, sig=fresh_valid())
        env.require(rd == 1, "parse_der rejected valid DER with an oversized integer", enc=encd.hex())
        must_not_verify(sig, "DER " + name, encd)
    classes.append("twin:oversize")
    # DER negative: the magnitude bytes without the sign octet (only when the top bit is set), and v - 2^(8k)
    for name, which in (("neg_r", 0), ("neg_s", 1)):
        v = (r, s)[which]
        raw = v.to_bytes((v.bit_length() + 7) // 8, "big")
        if raw[0] & 0x80:
            ints = [der.enc_int(r), der.enc_int(s)]
            ints[which] = b"\x02" + der.enc_len(len(raw)) + raw
            body = ints[0] + ints[1]
            encd = b"\x30" + der.enc_len(len(body)) + body
            pr = der.parse(encd)
            if pr is None:
                continue                              # FF followed by a byte >= 0x80: excess padding, not valid DER
            assert pr[which] < 0
            rd, sig = der_parse(env, encd, sig=fresh_valid())
            env.require(rd == 1, "parse_der rejected valid DER with a negative integer", enc=encd.hex())
            must_not_verify(sig, "DER negative (" + name + ")", encd)
            classes.append("twin:negative")
    # failed parses over an object that holds the valid signature
    good = der.serialize(r, s)
    rb = der.enc_int_body(r)
    pbody = b"\x02" + der.enc_len(len(rb) + 1) + b"\x00" + rb + der.enc_int(s)
    for name, encd in (("trailing", good + b"\x00"), ("truncated", good[:-1]), ("excess_pad", b"\x30" + der.enc_len(len(pbody)) + pbody), ("empty", b""),
                       ("seqlen+1", good[:1] + der.enc_len(len(good) - 1) + good[2:])):
        if der.parse(encd) is not None:
            continue                                  # (excess pad of a value with the top bit set is the needed pad)
        rd, sig = der_parse(env, encd, sig=fresh_valid())
        env.require(rd == 0, "parse_der accepted invalid DER (%s)" % name, enc=encd.hex())
        must_not_verify(sig, "object left by a FAILED DER parse (" + name + ")", encd)
        classes.append("failed:" + name)
    # unrelated keys / messages never verify the left-over objects either
    if variants:
        enc = b32(variants[0][1]) + b32(variants[0][2])
        _, sig = compact_parse(env, enc, sig=fresh_valid())
        env.require(lib.ecdsa_verify(sig, _FIX_MSG, lib.pubkey_from_point(_FIX_Q)) == 0, "left-over object verifies for an unrelated key")
    if x >= N:
        classes.append("Rx>=n")
    no_callbacks(env, "never-verifies")
    return True, classes


CF = {"quick": ["prod", "vsan"], "thorough": ["prod", "vsan"]}
PROD = {"quick": ["prod"], "thorough": ["prod"]}
SAN = {"quick": ["vsan"], "thorough": ["vsan"]}
_PUB_COVER = ["accept:compressed", "accept:uncompressed", "accept:hybrid", "reject:len", "reject:prefix", "reject:x>=p", "reject:x+p_twin", "reject:y>=p", "reject:y+p_twin",
              "reject:offcurve", "reject:hybrid_parity", "xonly_accept", "xonly_reject:x+p_twin", "xonly_reject:offcurve"]
_DER_COVER = ["der_accept:in_range", "der_accept:out_of_range", "der_accept:negative", "der_accept:oversize", "der_reject", "len>129", "len>255", "truncated", "extended"]


def _san_pub_enum(tier, shard, nshards):
    return pub_enum(tier, shard, nshards, stride=6)


def _cfg_pub_enum(tier, shard, nshards):
    return pub_enum(tier, shard, nshards, stride_a=8)


def _san_der_enum(tier, shard, nshards):
    return der_enum(tier, shard, nshards, stride=6)


def _cfg_der_enum(tier, shard, nshards):
    return der_enum(tier, shard, nshards, stride=8)


OTHER = {"quick": ["int64", "struct"], "thorough": ["int64", "struct"]}
ALL4 = {"quick": ["prod", "vsan", "int64", "struct"], "thorough": ["prod", "vsan", "int64", "struct"]}
# The grids are exhaustive on the production build; the sanitizer build (about 8x slower per case under the ASan-preloaded interpreter) takes every third case of the
# same enumeration, which still contains every structural form with several values.  The other limb representations (int64: 10x26 field / 8x32 scalar; struct: 5x52 / 4x64 through
# the int128 emulation) run the COMPLETE boundary-coordinate grids (every boundary x / y under every key format: must_cover) and an eighth of the prefix x length grid and of the DER grid.
TESTS = [
    Test("pub_grid", pub_enum, run_pub_enum, kind="enum", cfgs=PROD, max_workers=4, must_cover=_PUB_COVER + _BOUND_COVER),
    Test("pub_grid_san", _san_pub_enum, run_pub_enum, kind="enum", cfgs=SAN, max_workers=1, must_cover=_PUB_COVER),
    Test("pub_grid_cfg", _cfg_pub_enum, run_pub_enum, kind="enum", cfgs=OTHER, max_workers=2, must_cover=_PUB_COVER + _BOUND_COVER),
    Test("der_grid", der_enum, run_der_enum, kind="enum", cfgs=PROD, max_workers=8, must_cover=_DER_COVER),
    Test("der_grid_san", _san_der_enum, run_der_enum, kind="enum", cfgs=SAN, max_workers=3, must_cover=_DER_COVER),
    Test("der_grid_cfg", _cfg_der_enum, run_der_enum, kind="enum", cfgs=OTHER, max_workers=2, must_cover=_DER_COVER),
    Test("compact_grid", compact_enum, run_compact_enum, kind="enum", cfgs=ALL4, max_workers=1,
         must_cover=["compact_accept", "compact_reject", "rec_accept", "rec_reject", "limb~n:below", "limb~n:above"]),
    Test("mutate", mutate_case, run_mutate, quick=6000, thorough=120000, cfgs=PROD,
         must_cover=["fmt:comp", "fmt:uncomp", "fmt:hybrid", "fmt:xonly", "fmt:der", "fmt:compact", "fmt:rec", "accept:hybrid", "der_accept:in_range", "der_reject", "compact_reject"]),
    Test("mutate_cfg", mutate_case, run_mutate, quick=800, thorough=40000, cfgs=OTHER, must_cover=["fmt:comp", "fmt:uncomp", "fmt:hybrid", "fmt:xonly", "fmt:der", "fmt:compact"]),
    # sanitizer build: few long shards (a vsan worker costs ~25 CPU-s before its first case)
    Test("mutate_san", mutate_case, run_mutate, quick=900, thorough=30000, cfgs=SAN, max_workers=3, must_cover=["fmt:comp", "fmt:uncomp", "fmt:hybrid", "fmt:xonly", "fmt:der", "fmt:compact"]),
    Test("never_verifies", never_case, run_never, quick=500, thorough=10000, cfgs=PROD,
         must_cover=["twin:s+n", "twin:r+n", "twin:negative", "twin:oversize", "failed:trailing", "Rx>=n"]),
    Test("never_verifies_san", never_case, run_never, quick=120, thorough=3000, cfgs=SAN, max_workers=1, must_cover=["twin:s+n", "twin:r+n", "twin:oversize", "failed:trailing"]),
    Test("never_verifies_cfg", never_case, run_never, quick=150, thorough=4000, cfgs=OTHER, must_cover=["twin:s+n", "twin:r+n", "twin:oversize", "failed:trailing"]),
]

FUZZ_TARGETS = [
    FuzzTarget("fuzz_codec", "fuzz_codec.c", cfgs={"quick": ["vsan"], "thorough": ["vsan", "prod"]},
               runs={"quick": 160000, "thorough": 3000000}, workers={"quick": 8, "thorough": 16}, max_len=400, corpus="fuzz_codec", link=("-lgmp",)),
    # the same target on the 10x26 / 8x32 (int64) and int128-struct representations: a smaller share of the runs
    FuzzTarget("fuzz_codec_cfg", "fuzz_codec.c", cfgs={"quick": ["int64"], "thorough": ["int64", "struct"]},
               runs={"quick": 120000, "thorough": 2000000}, workers={"quick": 3, "thorough": 6}, max_len=400, corpus="fuzz_codec", link=("-lgmp",)),
]
