"""ctypes helpers and shared strategies for the range-proof properties C09 / C10 (not a property module)."""
import ctypes
from ctypes import c_size_t, c_int, c_uint64, byref, c_void_p

from hypothesis import strategies as st

from pyref import ec, pedersen
from vf import gens
from vf.lib import buf

N = ec.N
U64 = (1 << 64) - 1
MAXPROOF = 5134


# ------------------------------------------------------------------------------------------------ generators / commitments
def gen_h(env):
    """the library's default value generator (exported pointer secp256k1_generator_h) as a 64-byte object copy"""
    p = c_void_p.in_dll(env.lib.dll, "secp256k1_generator_h")
    g = buf(64)
    ctypes.memmove(g, p.value, 64)
    return g


def gen_point(env, g):
    out = buf(33)
    env.lib.dll.secp256k1_generator_serialize(env.lib.ctx, out, g)
    pt = pedersen.dec_qr(out.raw, 10)
    assert pt is not None
    return pt


def gen_from_point(env, pt):
    g = buf(64)
    r = env.lib.dll.secp256k1_generator_parse(env.lib.ctx, g, pedersen.enc_qr(pt, 10))
    assert r == 1, "generator_parse rejected a curve point"
    return g


def make_gen(env, spec):
    """spec: {"kind": "h"} | {"kind": "seed", "seed": hex32} | {"kind": "blinded", "seed": hex32, "r": int} | {"kind": "parse", "k": int}
    -> (generator object, point) or None if the library's constructor refuses (documented: seed not acceptable)"""
    lib = env.lib
    kind = spec["kind"]
    if kind == "h":
        g = gen_h(env)
    elif kind == "seed":
        g = buf(64)
        if lib.dll.secp256k1_generator_generate(lib.ctx, g, bytes.fromhex(spec["seed"])) != 1:
            return None
    elif kind == "blinded":
        g = buf(64)
        if lib.dll.secp256k1_generator_generate_blinded(lib.ctx, g, bytes.fromhex(spec["seed"]), ec.i2b(spec["r"] % N or 1)) != 1:
            return None
    else:
        # an arbitrary curve point through generator_parse.  Its discrete logarithm is hashed so that no SMALL relation between H, G and an edge-biased
        # blinding factor exists: with H = 2G, blind = 2, value = 0 the ring key C - 1*H is the point at infinity, rangeproof_sign still returns 1 and
        # verification (correctly) rejects the ring - a degenerate input outside the Pedersen setting (log_G H must be unknown to the committer).
        k = ec.b2i(ec.sha256(b"vf parsed generator" + ec.i2b(spec["k"] % N))) % (N - 1) + 1
        g = gen_from_point(env, ec.mulg(k))
    return g, gen_point(env, g)


def hsel(*parts):
    """uniform selector derived from already drawn values.  Hypothesis' own choices (sampled_from / one_of) are far from i.i.d. within one run - a 1/20 class can
    come up once in 500 cases - so the classes a property must cover are selected by a hash of a drawn seed instead (still a pure function of the drawn data)."""
    return ec.b2i(ec.sha256(repr(parts).encode())[:8])


def weighted(draw, choices):
    """draw from [(weight, strategy), ...] with the stated integer weights (st.one_of de-duplicates repeated identical strategies, so repetition is no weight)"""
    idx = draw(st.sampled_from([i for i, (w, _) in enumerate(choices) for _ in range(w)]))
    return draw(choices[idx][1])


@st.composite
def _gen_spec(draw):
    return weighted(draw, [
        (2, st.just({"kind": "h"})),
        (1, st.builds(lambda s: {"kind": "seed", "seed": s}, gens.hexbytes(32))),
        (1, st.builds(lambda s, r: {"kind": "blinded", "seed": s, "r": r}, gens.hexbytes(32), gens.seckey_valid)),
        (1, st.builds(lambda k: {"kind": "parse", "k": k}, gens.seckey_valid))])


gen_spec = _gen_spec()


def commit(env, blind, value, g):
    """secp256k1_pedersen_commit -> (ret, object)"""
    c = buf(64)
    r = env.lib.dll.secp256k1_pedersen_commit(env.lib.ctx, c, ec.i2b(blind), c_uint64(value), g)
    return r, c


def commit_ser(env, c):
    out = buf(33)
    env.lib.dll.secp256k1_pedersen_commitment_serialize(env.lib.ctx, out, c)
    return out.raw


def commit_point(env, c):
    pt = pedersen.dec_qr(commit_ser(env, c), 8)
    assert pt is not None
    return pt


def commit_from_point(env, pt):
    c = buf(64)
    r = env.lib.dll.secp256k1_pedersen_commitment_parse(env.lib.ctx, c, pedersen.enc_qr(pt, 8))
    assert r == 1, "commitment_parse rejected a curve point"
    return c


# ------------------------------------------------------------------------------------------------ range-proof API
def _xbuf(b):
    """exact-size heap copy (ASan sees over-reads); None for an empty string together with length 0"""
    return buf(len(b), b) if len(b) else None


def rp_sign(env, c, blind32, nonce32, exp, min_bits, value, min_value, g, message=b"", extra=b"", bufsize=MAXPROOF, ctx=None, fill=0xA5):
    """-> (ret, proof bytes or None, plen after the call)"""
    out = buf(max(1, bufsize), bytes([fill]) * bufsize)
    plen = c_size_t(bufsize)
    r = env.lib.dll.secp256k1_rangeproof_sign(ctx or env.lib.ctx, out, byref(plen), c_uint64(min_value), c, bytes(blind32), bytes(nonce32),
                                              c_int(exp), c_int(min_bits), c_uint64(value), _xbuf(message), c_size_t(len(message)),
                                              _xbuf(extra), c_size_t(len(extra)), g)
    if r == 1 and plen.value <= bufsize:
        return r, out.raw[:plen.value], plen.value
    return r, None, plen.value


def rp_verify(env, c, proof, g, extra=b""):
    """-> (ret, min, max)"""
    mn, mx = c_uint64(0x1111111111111111), c_uint64(0x2222222222222222)
    pb = buf(max(1, len(proof)), proof)
    r = env.lib.dll.secp256k1_rangeproof_verify(env.lib.ctx, byref(mn), byref(mx), c, pb, c_size_t(len(proof)), _xbuf(extra), c_size_t(len(extra)), g)
    return r, mn.value, mx.value


def rp_rewind(env, c, proof, nonce32, g, extra=b"", outcap=4096):
    """-> (ret, blind bytes, value, message bytes (outlen), min, max)"""
    mn, mx, val = c_uint64(0), c_uint64(0), c_uint64(0x3333333333333333)
    blind = buf(32)
    msg = buf(4096, b"\x5a" * 4096)
    ol = c_size_t(outcap)
    pb = buf(max(1, len(proof)), proof)
    r = env.lib.dll.secp256k1_rangeproof_rewind(env.lib.ctx, blind, byref(val), msg, byref(ol), bytes(nonce32), byref(mn), byref(mx), c, pb,
                                                c_size_t(len(proof)), _xbuf(extra), c_size_t(len(extra)), g)
    return r, blind.raw, val.value, msg.raw[:min(ol.value, 4096)], mn.value, mx.value, ol.value


def rp_info(env, proof):
    """-> (ret, exp, mantissa, min, max)"""
    e, m = c_int(-77), c_int(-77)
    mn, mx = c_uint64(0), c_uint64(0)
    pb = buf(max(1, len(proof)), proof)
    r = env.lib.dll.secp256k1_rangeproof_info(env.lib.ctx, byref(e), byref(m), byref(mn), byref(mx), pb, c_size_t(len(proof)))
    return r, e.value, m.value, mn.value, mx.value


def rp_max_size(env, max_value, min_bits):
    return env.lib.dll.secp256k1_rangeproof_max_size(env.lib.ctx, c_uint64(max_value), c_int(min_bits))
