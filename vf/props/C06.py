"""C06 - secret-dependent data never steers branches or memory addresses (engine E3: memcheck as the oracle inside a
Hypothesis search over public-parameter variations).

Hypothesis generates scenario lists (20-60 invocations of the APIs the maintainers list in src/ctime_tests.c, each with
generated public parameters and concrete secret values).  `csrc/ct_harness.c`, built with gcc -O2 -g -DVALGRIND for four
limb configurations, executes a list under `valgrind --tool=memcheck`: secret arguments are marked undefined before each
call, the return value / public outputs are marked defined after it exactly where ctime_tests.c does, and the number of
memcheck errors is read around every call.  Any memcheck report inside library code is a violation; Hypothesis shrinks the
list, the offending single invocation becomes the replay file.
"""
import concurrent.futures
import glob
import hashlib
import json
import os
import re
import shutil
import subprocess
import sys
import tempfile
import time

from hypothesis import strategies as st

from pyref import ec
from vf import build as B
from vf import core, gens
from vf.core import jdump

PROP = "C06"
VERIF = core.VERIF
N = ec.N
M256 = (1 << 256) - 1
BUILDS = ["prod", "noasm", "struct", "int64"]      # int128+asm (shipped flags), int128 without asm, int128_struct, int64
LISTS = {"quick": 32, "thorough": 200}
MAX_SHRINK_RUNS = 16                               # valgrind runs spent on shrinking one failure (bounded effort, not an oracle)

RULE = ("cases: lists of 20-60 API invocations drawn from the maintainers' constant-time list (src/ctime_tests.c) x public parameters "
        "(context never randomized / randomized with a public seed / randomized with a secret seed; NULL or explicit nonce and hash function pointers; "
        "auxiliary data present or absent; Schnorr message length 0..1100; MuSig with 1..5 signers, every signer position, duplicate keys, 0..3 plain/x-only tweaks, "
        "adaptor present or absent, nonce_gen / nonce_gen_counter with every subset of the optional arguments; both ElligatorSwift parties and hashers; "
        "adaptor encrypt/decrypt/recover with the right, a wrong and an invalid decryption key) x concrete secret values (edge-biased valid keys; 10 % invalid keys "
        "in single-call invocations documented to return 0); each list runs under memcheck on four limb configurations built with gcc -O2. "
        "evaluations = API calls executed under memcheck with their secret arguments marked undefined; "
        "non-trivial = the invocation's public-parameter descriptor (API, context mode, options, counts, lengths, key validity class) does not occur in the fixed ctime_tests.c script; "
        "distinct_nontrivial counts distinct such descriptors (public byte values are not counted as distinguishing)")
ASSUMPTIONS = [
    "valgrind 3.19 memcheck definedness tracking is the oracle: it decides the executed paths only, for all secret values at once on each path",
    "the set of secret arguments and of declassification points is the maintainers' (src/ctime_tests.c); auxiliary randomness / nonce data / messages / tweaks of keypair_xonly_tweak_add are public as there",
    "the binaries examined are gcc -O2 -g builds of four limb configurations (int128+asm comb 86, int128 comb 22, int128_struct comb 22, int64 comb 2); other compilers or flags are not covered",
    "csrc/ct_harness.c itself never branches on or prints a secret (a memcheck report located in the harness is treated as an infrastructure error, exit 2)",
]

# ------------------------------------------------------------------------------------------------ value strategies


def _h(tag, i):
    return hashlib.sha256(("C06|%s|%d" % (tag, i)).encode()).digest()


def _i2h(v):
    return int(v).to_bytes(32, "big").hex()


_VALID_EDGE = [1, 2, 3, N - 1, N - 2, (N - 1) // 2, (N + 1) // 2, ec.LAMBDA, N - ec.LAMBDA, 1 << 128, (1 << 128) - 1, 1 << 255,
               (1 << 64) - 1, 1 << 64, (1 << 52) - 1, (1 << 26) - 1, (1 << 192) - 1, N - (1 << 128), M256 % N]
_INVALID = [0, N, N + 1, M256, ec.P, (1 << 255) | N]

valid_key = st.one_of(
    st.integers(0, (1 << 32) - 1).map(lambda i: _i2h(int.from_bytes(_h("k", i), "big") % (N - 1) + 1)),
    st.sampled_from([_i2h(v) for v in _VALID_EDGE]),
    st.integers(0, (1 << 32) - 1).map(lambda i: _i2h(int.from_bytes(_h("k2", i), "big") % (N - 1) + 1)),
    gens.seckey_valid.map(_i2h),
)
invalid_key = st.one_of(st.sampled_from([_i2h(v) for v in _INVALID]),
                        st.integers(N, M256).map(_i2h))
# ~10 % invalid keys; only used by single-call invocations whose documented result for an invalid key is "return 0"
any_key = st.integers(0, 9).flatmap(lambda k: invalid_key if k == 9 else valid_key)

pub32 = st.one_of(
    st.integers(0, (1 << 32) - 1).map(lambda i: _h("p", i).hex()),
    st.sampled_from([_i2h(v) for v in (0, 1, N - 1, N, N + 1, M256, ec.P, 1 << 255)]),
    gens.msg32.map(_i2h),
)
# a tweak for the secret-key tweak functions: anything (invalid ones are documented to give 0)
tweak_any = st.one_of(pub32, valid_key, st.sampled_from([_i2h(0), _i2h(N), _i2h(M256)]))
nonzero32 = st.one_of(st.integers(0, (1 << 32) - 1).map(lambda i: _h("r", i).hex()), st.sampled_from([_i2h(1), _i2h(M256), _i2h(N), _i2h(1 << 255)]))
opt32 = st.one_of(st.none(), pub32)
ell64 = st.one_of(st.integers(0, (1 << 32) - 1).map(lambda i: (_h("e", i) + _h("f", i)).hex()),
                  st.sampled_from(["00" * 64, "ff" * 64, _i2h(ec.P) * 2, _i2h(ec.P - 1) + _i2h(1), _i2h(1) + _i2h(ec.P + 1)]))


def _stream(seed, n):
    out = b""
    c = 0
    while len(out) < n:
        out += _h("m%d" % seed, c)
        c += 1
    return out[:n]


message = st.tuples(st.one_of(st.sampled_from([0, 32, 1, 31, 33, 55, 56, 64, 65]), gens.length(1100)), st.integers(0, 1 << 16), st.sampled_from(["rand", "00", "ff", "80"])).map(
    lambda t: (_stream(t[1], t[0]) if t[2] == "rand" else bytes.fromhex(t[2]) * t[0]).hex())


@st.composite
def ctxmode(draw):
    """context state before the call: 0 never randomized (as in ctime_tests.c), 1 randomized with a public seed, 2 with a secret seed"""
    m = draw(st.sampled_from([0, 1, 2]))
    if m == 0:
        return {}
    return {"ctx": m, "cseed": draw(pub32)}


def _op(name, d, c):
    o = {"op": name}
    o.update({k: v for k, v in d.items() if v is not None})
    o.update(c)
    return o


@st.composite
def op_single_key(draw, name):
    return _op(name, {"key": draw(any_key)}, draw(ctxmode()))


@st.composite
def op_ecdsa(draw, name):
    return _op(name, {"key": draw(any_key), "msg": draw(pub32), "nf": draw(st.sampled_from([0, 1, 2])), "ndata": draw(opt32)}, draw(ctxmode()))


@st.composite
def op_ecdh(draw):
    return _op("ecdh", {"key": draw(any_key), "peer": draw(valid_key), "hf": draw(st.sampled_from([0, 1]))}, draw(ctxmode()))


@st.composite
def op_tweak(draw, name):
    key = draw(any_key)
    how = draw(st.sampled_from(["any", "any", "any", "negkey"]))
    tw = draw(tweak_any)
    if how == "negkey":     # the sum becomes zero: documented result 0
        tw = _i2h((-int(key, 16)) % N)
    return _op(name, {"key": key, "tweak": tw, "tsec": draw(st.sampled_from([1, 1, 0]))}, draw(ctxmode()))


@st.composite
def op_keypair_tweak(draw):
    return _op("keypair_xonly_tweak_add", {"key": draw(valid_key), "tweak": draw(pub32)}, draw(ctxmode()))


@st.composite
def op_keypair_sec(draw):
    return _op("keypair_sec", {"key": draw(valid_key)}, draw(ctxmode()))


@st.composite
def op_schnorr32(draw):
    return _op("schnorrsig_sign32", {"key": draw(valid_key), "msg": draw(pub32), "aux": draw(opt32)}, draw(ctxmode()))


@st.composite
def op_schnorr_custom(draw):
    msg = draw(message)
    d = {"key": draw(valid_key), "msg": msg, "ep": draw(st.sampled_from([0, 1, 2]))}
    if d["ep"]:
        d["aux"] = draw(opt32)
    if msg == "":
        d["mnull"] = draw(st.sampled_from([0, 1]))
    return _op("schnorrsig_sign_custom", d, draw(ctxmode()))


@st.composite
def op_musig(draw):
    n = draw(st.integers(1, 5))
    keys = [draw(valid_key) for _ in range(n)]
    if n >= 2 and draw(st.sampled_from([0, 0, 0, 1])):
        keys[draw(st.integers(1, n - 1))] = keys[0]          # duplicate key (second-key coefficient rule)
    tw = draw(st.text(alphabet="px", max_size=3))
    twv = "".join(draw(valid_key) for _ in tw)
    d = {"n": n, "me": draw(st.integers(0, n - 1)), "keys": "".join(keys), "msg": draw(pub32),
         "ad": draw(st.sampled_from([0, 1])), "secad": draw(valid_key), "ng": draw(st.sampled_from([0, 1, 2])),
         "opt": draw(st.integers(0, 15)), "secrand": draw(nonzero32), "extra": draw(pub32),
         "cnt": draw(st.one_of(st.sampled_from([0, 1, (1 << 32) - 1, 1 << 32, (1 << 63), (1 << 64) - 1]), st.integers(0, (1 << 64) - 1)))}
    if tw:
        d["tw"] = tw
        d["twv"] = twv
    return _op("musig", d, draw(ctxmode()))


@st.composite
def op_ellswift_create(draw):
    return _op("ellswift_create", {"key": draw(any_key), "aux": draw(opt32)}, draw(ctxmode()))


@st.composite
def op_ellswift_xdh(draw):
    hf = draw(st.sampled_from([0, 1]))
    d = {"key": draw(any_key), "ella": draw(ell64), "ellb": draw(ell64), "party": draw(st.sampled_from([0, 1])), "hf": hf}
    if hf:
        d["prefix"] = draw(ell64)
    return _op("ellswift_xdh", d, draw(ctxmode()))


@st.composite
def op_s2c(draw):
    return _op("ecdsa_s2c_sign", {"key": draw(any_key), "msg": draw(pub32), "data": draw(pub32), "opening": draw(st.sampled_from([1, 0]))}, draw(ctxmode()))


@st.composite
def op_host_commit(draw):
    return _op("anti_exfil_host_commit", {"rand": draw(pub32)}, draw(ctxmode()))


@st.composite
def op_signer_commit(draw):
    return _op("anti_exfil_signer_commit", {"key": draw(valid_key), "msg": draw(pub32), "commit": draw(pub32)}, draw(ctxmode()))


@st.composite
def op_adaptor(draw):
    kind = draw(st.sampled_from(["full", "full", "full", "full", "wrongdec", "enc", "dec", "badkey", "baddec"]))
    key = draw(valid_key)
    enc = draw(valid_key)
    dec = enc
    steps = 3
    if kind == "wrongdec":
        dec = draw(valid_key)
    elif kind == "enc":
        steps = 1
    elif kind == "dec":
        steps = 2
    elif kind == "badkey":
        key = draw(invalid_key)
        steps = 1
    elif kind == "baddec":
        dec = draw(invalid_key)
        steps = 2
    return _op("ecdsa_adaptor", {"key": key, "enc": enc, "dec": dec, "msg": draw(pub32), "steps": steps,
                                 "nf": draw(st.sampled_from([0, 1])), "ndata": draw(opt32)}, draw(ctxmode()))


@st.composite
def op_ctx_randomize(draw):
    pre = draw(st.sampled_from([0, 1, 2]))
    then = draw(st.sampled_from([0, 1]))
    d = {"seed": draw(pub32), "pre": pre, "then": then}
    if pre:
        d["pseed"] = draw(pub32)
    if then:
        d["key"] = draw(valid_key)
    return _op("context_randomize", d, {})


OPS = {
    "seckey_verify": lambda: op_single_key("seckey_verify"),
    "keygen": lambda: op_single_key("keygen"),
    "ecdsa_sign": lambda: op_ecdsa("ecdsa_sign"),
    "ecdsa_sign_recoverable": lambda: op_ecdsa("ecdsa_sign_recoverable"),
    "ecdh": op_ecdh,
    "seckey_negate": lambda: op_single_key("seckey_negate"),
    "seckey_tweak_add": lambda: op_tweak("seckey_tweak_add"),
    "seckey_tweak_mul": lambda: op_tweak("seckey_tweak_mul"),
    "keypair_create": lambda: op_single_key("keypair_create"),
    "keypair_xonly_tweak_add": op_keypair_tweak,
    "keypair_sec": op_keypair_sec,
    "schnorrsig_sign32": op_schnorr32,
    "schnorrsig_sign_custom": op_schnorr_custom,
    "musig": op_musig,
    "ellswift_create": op_ellswift_create,
    "ellswift_xdh": op_ellswift_xdh,
    "ecdsa_s2c_sign": op_s2c,
    "anti_exfil_host_commit": op_host_commit,
    "anti_exfil_signer_commit": op_signer_commit,
    "ecdsa_adaptor": op_adaptor,
    "context_randomize": op_ctx_randomize,
}
# every API of the maintainers' list has to be executed in every run
MUST_APIS = ["ec_pubkey_create", "ecdsa_sign", "ecdsa_sign_recoverable", "ecdh", "ec_seckey_verify", "ec_seckey_negate", "ec_seckey_tweak_add",
             "ec_seckey_tweak_mul", "keypair_create", "keypair_xonly_tweak_add", "keypair_sec", "schnorrsig_sign32", "schnorrsig_sign_custom",
             "musig_nonce_gen", "musig_nonce_gen_counter", "musig_partial_sign", "musig_adapt", "musig_extract_adaptor", "ellswift_create",
             "ellswift_xdh", "ecdsa_s2c_sign", "ecdsa_anti_exfil_host_commit", "ecdsa_anti_exfil_signer_commit", "ecdsa_adaptor_encrypt",
             "ecdsa_adaptor_decrypt", "ecdsa_adaptor_recover", "context_randomize"]


def scenario_strategy(excluded=()):
    ops = [f() for name, f in OPS.items() if name not in excluded]
    if "musig" not in excluded:
        ops += [op_musig(), op_musig()]        # the invocation kind with the most public parameters gets three shares
    return st.lists(st.one_of(*ops), min_size=20, max_size=60, unique_by=line_of)      # duplicates would only hit the result cache


# ------------------------------------------------------------------------------------------------ descriptors


def line_of(op):
    """one scenario line for ct_harness"""
    parts = [op["op"]]
    for k in sorted(op):
        if k != "op":
            parts.append("%s=%s" % (k, op[k]))
    return " ".join(parts)


def _kv(h):
    return "valid" if 0 < int(h, 16) < N else "invalid"


def descriptor(op):
    """the public-parameter shape of an invocation (no byte values)"""
    d = {"op": op["op"], "ctx": op.get("ctx", 0)}
    for k in ("nf", "hf", "tsec", "ep", "mnull", "n", "me", "tw", "ad", "ng", "opt", "party", "opening", "steps", "pre", "then"):
        if k in op:
            d[k] = op[k]
    if op["op"] in ("ecdsa_sign", "ecdsa_sign_recoverable", "ecdsa_adaptor"):
        d["ndata"] = int("ndata" in op)
    if op["op"] in ("schnorrsig_sign32", "schnorrsig_sign_custom", "ellswift_create"):
        d["aux"] = int("aux" in op)
    if "key" in op:
        d["key"] = _kv(op["key"])
    if op["op"] in ("seckey_tweak_add", "seckey_tweak_mul"):
        t = int(op["tweak"], 16)
        d["tweak"] = "overflow" if t >= N else ("zero" if t == 0 else ("negkey" if (t + int(op["key"], 16)) % N == 0 else "ok"))
    if op["op"] == "keypair_xonly_tweak_add":
        d["tweak"] = "overflow" if int(op["tweak"], 16) >= N else "ok"
    if op["op"] == "schnorrsig_sign_custom":
        d["msglen"] = len(op["msg"]) // 2
    if op["op"] == "musig":
        ks = [op["keys"][64 * i:64 * i + 64] for i in range(op["n"])]
        d["dupkeys"] = int(len(set(ks)) < len(ks))
        d["cnt"] = "0" if op["cnt"] == 0 else ("small" if op["cnt"] < (1 << 32) else "big")
    if op["op"] == "ecdsa_adaptor":
        d["dec"] = "correct" if op["dec"] == op["enc"] else _kv(op["dec"]) + "-other"
    return jdump(d)


def _baseline():
    """descriptors of the invocations in the fixed script of src/ctime_tests.c"""
    k = _i2h(int.from_bytes(bytes(range(65, 97)), "big"))
    m = _i2h(int.from_bytes(bytes(range(1, 33)), "big"))
    ops = [{"op": "keygen", "key": k}, {"op": "ecdsa_sign", "key": k, "msg": m, "nf": 0}, {"op": "ecdh", "key": k, "peer": k, "hf": 0},
           {"op": "ecdsa_sign_recoverable", "key": k, "msg": m, "nf": 0}, {"op": "seckey_verify", "key": k}, {"op": "seckey_negate", "key": k},
           {"op": "seckey_tweak_add", "key": k, "tweak": m, "tsec": 1}, {"op": "seckey_tweak_mul", "key": k, "tweak": m, "tsec": 1},
           {"op": "keypair_create", "key": k}, {"op": "keypair_xonly_tweak_add", "key": k, "tweak": m}, {"op": "keypair_sec", "key": k},
           {"op": "schnorrsig_sign32", "key": k, "msg": m},
           {"op": "musig", "n": 1, "me": 0, "keys": k, "msg": m, "ad": 1, "secad": k, "ng": 2, "opt": 15, "secrand": k, "extra": k, "cnt": 0},
           {"op": "ellswift_create", "key": k}, {"op": "ellswift_create", "key": k, "aux": m}]
    for party in (0, 1):
        for hf in (0, 1):
            ops.append({"op": "ellswift_xdh", "key": k, "ella": m * 2, "ellb": m * 2, "party": party, "hf": hf})
    ops += [{"op": "ecdsa_s2c_sign", "key": k, "msg": m, "data": m, "opening": 1}, {"op": "anti_exfil_host_commit", "rand": m},
            {"op": "anti_exfil_signer_commit", "key": k, "msg": m, "commit": m},
            {"op": "ecdsa_adaptor", "key": k, "enc": m, "dec": m, "msg": m, "steps": 3, "nf": 0},
            {"op": "context_randomize", "seed": k, "pre": 0, "then": 0}]
    return {descriptor(o) for o in ops}


BASELINE = _baseline()


def classes_of(op):
    c = ["op:" + op["op"], "ctx:%d" % op.get("ctx", 0)]
    if "key" in op and _kv(op["key"]) == "invalid":
        c.append("key:invalid:" + op["op"])
    if op["op"] == "musig":
        c += ["musig:n=%d" % op["n"], "musig:tweaks=%s" % (op.get("tw") or "none"), "musig:adaptor=%d" % op["ad"], "musig:ng=%d" % op["ng"],
              "musig:opt=%d" % op["opt"], "musig:me=%d" % op["me"]]
    if op["op"] == "schnorrsig_sign_custom":
        n = len(op["msg"]) // 2
        c.append("schnorr_custom:msglen=" + ("0" if n == 0 else "1-31" if n < 32 else "32" if n == 32 else "33-64" if n <= 64 else "65-300" if n <= 300 else ">300"))
        c.append("schnorr_custom:ep=%d" % op["ep"])
    if op["op"] == "ecdsa_adaptor":
        c.append("adaptor:steps=%d" % op["steps"])
    if op["op"] == "ellswift_xdh":
        c.append("xdh:party=%d:hf=%d" % (op["party"], op["hf"]))
    if op["op"] in ("ecdsa_sign", "ecdsa_sign_recoverable"):
        c.append("ecdsa:nf=%d:ndata=%d" % (op["nf"], int("ndata" in op)))
    return c


# ------------------------------------------------------------------------------------------------ running the harness


class Infra(Exception):
    """the machinery failed (valgrind did not run, harness bug, malformed output): exit 2, never 1"""


def build_all(names=BUILDS):
    def one(n):
        return n, B.build(B.CONFIGS[n], kind="exe", sources=["ct_harness.c"], out="ct_harness", cflags=("-DVALGRIND",))
    with concurrent.futures.ThreadPoolExecutor(max_workers=len(names)) as ex:
        return dict(ex.map(one, names))


def cfg_text(name):
    c = B.CONFIGS[name]
    return "gcc %s -g -DVALGRIND widemul=%s asm=%d window=%d comb=%dx%d" % (c.opt, c.widemul, int(c.asm and c.widemul == "int128"), c.window,
                                                                           B.COMB[c.comb][0], B.COMB[c.comb][1])


_CALL = re.compile(r"^CALL (\d+) (\S+) ret=(-?\d+) err=(\d+)$")
_OPL = re.compile(r"^OP (\d+) (\S+) err=(\d+)$")
_DONE = re.compile(r"^DONE ops=(\d+) calls=(\d+) err=(\d+)$")
_FRAME = re.compile(r"^==\d+==\s+(at|by) 0x[0-9A-Fa-f]+: (\S+) \(([^)]*)\)")


def parse_log(text):
    """memcheck log -> list of {what, frames:[(fn, where)]}"""
    errs = []
    cur = None
    for ln in text.splitlines():
        m = re.match(r"^==\d+== ?(.*)$", ln)
        if not m:
            continue
        rest = m.group(1)
        if not rest.strip():
            cur = None
            continue
        fm = _FRAME.match(ln)
        if fm:
            if cur is not None:
                cur["frames"].append((fm.group(2), fm.group(3)))
        elif not rest.startswith(" "):
            cur = {"what": rest, "frames": []}
            errs.append(cur)
    return [e for e in errs if e["frames"]]


def run_harness(exe, lines, workdir, tag):
    """runs the lines under memcheck -> {per_line: [err], calls: [(idx, api, ret, err)], total, log, errors}"""
    scen = os.path.join(workdir, tag + ".txt")
    logp = os.path.join(workdir, tag + ".vg.log")
    with open(scen, "w") as f:
        f.write("\n".join(lines) + "\n")
    cmd = ["valgrind", "--tool=memcheck", "--error-exitcode=42", "--error-limit=no", "--leak-check=no", "--num-callers=16", "-q",
           "--log-file=" + logp, exe, scen]
    try:
        r = subprocess.run(cmd, capture_output=True, text=True, timeout=3600)
    except (OSError, subprocess.TimeoutExpired) as e:
        raise Infra("valgrind did not run: %r" % (e,))
    log = ""
    try:
        with open(logp, errors="replace") as f:
            log = f.read()
    except OSError:
        pass
    per_line = [None] * len(lines)
    calls = []
    done = None
    for ln in r.stdout.splitlines():
        m = _CALL.match(ln)
        if m:
            calls.append((int(m.group(1)), m.group(2), int(m.group(3)), int(m.group(4))))
            continue
        m = _OPL.match(ln)
        if m:
            if int(m.group(1)) >= len(lines):
                raise Infra("harness reported an unknown line: " + ln)
            per_line[int(m.group(1))] = int(m.group(3))
            continue
        m = _DONE.match(ln)
        if m:
            done = tuple(int(x) for x in m.groups())
    if r.returncode not in (0, 42) or done is None or None in per_line or done[0] != len(lines):
        raise Infra("harness/valgrind failure rc=%s stderr=%s log=%s stdout-tail=%s scenario-line=%s" % (
            r.returncode, r.stderr[-1500:], log[-1500:], r.stdout[-300:], lines[per_line.index(None)][:600] if None in per_line else ""))
    total = done[2]
    if (r.returncode == 42) != (total > 0) or sum(per_line) != total:
        raise Infra("inconsistent error accounting rc=%s total=%s per_line_sum=%s log=%s" % (r.returncode, total, sum(per_line), log[-1500:]))
    errors = parse_log(log) if total else []
    for e in errors:
        if e["frames"][0][1].startswith("ct_harness.c"):
            raise Infra("memcheck report located in the harness itself (harness bug): %s at %s %s" % (e["what"], e["frames"][0][0], e["frames"][0][1]))
    return {"per_line": per_line, "calls": calls, "total": total, "log": log, "errors": errors}


class Runner:
    """evaluates scenario lists on all builds; results are cached per (build, line) because invocations are independent by construction"""

    def __init__(self, exes, workdir):
        self.exes = exes
        self.workdir = workdir
        self.cache = {}            # (build, line) -> number of memcheck errors
        self.logs = {}             # (build, line) -> summary of the first error
        self.runs = 0
        self.calls = 0             # API calls executed under memcheck (summed over builds)
        self.api_hist = {}
        self.active = list(exes)   # builds consulted; narrowed to the failing build while a failure is being reduced
        self.pool = concurrent.futures.ThreadPoolExecutor(max_workers=len(exes))

    def _one(self, b, lines, tag):
        return b, lines, run_harness(self.exes[b], lines, self.workdir, tag)

    def evaluate(self, lines):
        """-> list of (build, line, nerr) for failing invocations"""
        jobs = []
        for b in self.active:
            need = []
            for ln in lines:
                if (b, ln) not in self.cache and ln not in need:
                    need.append(ln)
            if need:
                self.runs += 1
                jobs.append(self.pool.submit(self._one, b, need, "r%d-%s" % (self.runs, b)))
        for j in jobs:
            b, need, res = j.result()
            for ln, e in zip(need, res["per_line"]):
                self.cache[(b, ln)] = e
            for (idx, api, ret, err) in res["calls"]:
                self.calls += 1
                self.api_hist[api] = self.api_hist.get(api, 0) + 1
                if err and (b, need[idx]) not in self.logs:
                    self.logs[(b, need[idx])] = {"api": api, "errors": res["errors"][:3]}
        bad = []
        for b in self.active:
            for ln in lines:
                if self.cache[(b, ln)]:
                    bad.append((b, ln, self.cache[(b, ln)]))
        return bad


# ------------------------------------------------------------------------------------------------ worker (one Hypothesis search)


class CtFailure(Exception):
    pass


def simplify(op, fails):
    """Field reducer applied to the single offending invocation after Hypothesis' (bounded) shrink: every public parameter is moved to
    its value in the ctime_tests.c script / its simplest value if the invocation still fails.  At most ~20 re-executions."""
    tried = 0

    def attempt(cand):
        nonlocal op, tried
        if cand == op:
            return
        tried += 1
        if fails(cand):
            op = cand

    def without(o, *ks):
        return {k: v for k, v in o.items() if k not in ks}

    if op.get("ctx"):
        attempt(without(op, "ctx", "cseed"))
        if op.get("ctx") == 2:
            attempt(dict(op, ctx=1))
    for k in ("ndata", "aux", "mnull"):
        if k in op:
            attempt(without(op, k))
    for k, v in (("nf", 0), ("hf", 0), ("ep", 0), ("tsec", 1), ("opening", 1), ("party", 0), ("pre", 0), ("then", 0)):
        if k in op and op[k] != v:
            c = dict(op, **{k: v})
            if k == "hf" and op["op"] == "ellswift_xdh":
                c = without(c, "prefix")
            if k == "ep":
                c = without(c, "aux")
            if k == "pre":
                c = without(c, "pseed")
            if k == "then":
                c = without(c, "key")
            attempt(c)
    if op["op"] == "schnorrsig_sign_custom":
        for m in ("", "00" * 32):
            if len(op["msg"]) > len(m):
                attempt(dict(without(op, "mnull"), msg=m))
    if op["op"] == "ecdsa_adaptor":
        for stp in (1, 2):
            if op["steps"] > stp and 0 < int(op["key"], 16) < N and (stp != 2 or 0 < int(op["dec"], 16) < N):
                attempt(dict(op, steps=stp))
    if op["op"] == "musig":
        if op["n"] > 1:
            me = op["me"]
            attempt(dict(op, n=1, me=0, keys=op["keys"][64 * me:64 * me + 64]))
        if op.get("tw"):
            attempt(without(op, "tw", "twv"))
        if op["ad"]:
            attempt(dict(op, ad=0))
        for ng in (0, 1):
            if op["ng"] == 2:
                attempt(dict(op, ng=ng))
        for bit in (1, 2, 4, 8):
            if op["opt"] & bit:
                attempt(dict(op, opt=op["opt"] & ~bit))
        if op["cnt"]:
            attempt(dict(op, cnt=0))
    return op, tried


def worker_main(specpath):
    with open(specpath) as f:
        spec = json.load(f)
    out = {"ok": True, "error": None, "failure": None}
    stats = {"ops": 0, "lists": 0, "classes": {}, "nontrivial": {}, "samples": [], "api": {}, "calls": 0, "runs": 0}
    try:
        from hypothesis import given, settings, seed, HealthCheck, Phase
        exes = spec["exes"]
        runner = Runner(exes, spec["workdir"])
        state = {"infra": None, "fail": None, "shrink_runs": 0, "seen": set()}

        @seed(spec["hseed"])
        @settings(max_examples=spec["examples"], database=None, deadline=None, derandomize=False, report_multiple_bugs=False,
                  suppress_health_check=list(HealthCheck), phases=[Phase.generate, Phase.shrink], print_blob=False)
        @given(scenario_strategy(tuple(spec.get("excluded", ()))))
        def search(ops):
            if state["infra"] is not None:
                return
            lines = [line_of(o) for o in ops]
            if state["fail"] is not None:
                # shrinking: bounded effort; variants never tried before count as passing once the budget is spent
                new = [ln for ln in lines if any((b, ln) not in runner.cache for b in runner.active)]
                if new and state["shrink_runs"] >= MAX_SHRINK_RUNS:
                    return
                if new:
                    state["shrink_runs"] += 1
            try:
                bad = runner.evaluate(lines)
            except Infra as e:
                state["infra"] = str(e)
                return
            if state["fail"] is None:
                for o, ln in zip(ops, lines):
                    if ln in state["seen"]:
                        continue
                    state["seen"].add(ln)
                    stats["ops"] += 1
                    for c in classes_of(o):
                        stats["classes"][c] = stats["classes"].get(c, 0) + 1
                    d = descriptor(o)
                    if d not in BASELINE:
                        stats["nontrivial"][core.digest64(d)] = 1
                    if len(stats["samples"]) < 5 and (stats["ops"] % 37 == 1):
                        stats["samples"].append({"invocation": core.shorten(o, 200), "descriptor": json.loads(d), "nontrivial": d not in BASELINE})
                stats["lists"] += 1
            if bad:
                if state["fail"] is None:
                    runner.active = [bad[0][0]]
                    bad = [x for x in bad if x[0] == bad[0][0]]
                state["fail"] = {"ops": ops, "bad": bad}
                raise CtFailure("%d invocation(s) with memcheck reports" % len(bad))

        try:
            search()
        except CtFailure:
            pass
        except Exception:
            # once an infrastructure error is recorded the remaining evaluations are skipped, which Hypothesis may report as flaky
            if state["infra"] is None:
                raise
        if state["infra"] is not None:
            out["ok"] = False
            out["error"] = state["infra"]
        elif state["fail"] is not None:
            ops, bad = state["fail"]["ops"], state["fail"]["bad"]
            b, ln, nerr = bad[0]
            op = [o for o in ops if line_of(o) == ln][0]
            op, tried = simplify(op, lambda o: bool(runner.evaluate([line_of(o)])))
            ln = line_of(op)
            runner.active = list(exes)
            allb = runner.evaluate([ln])
            out["failure"] = {"build": b, "invocation": op, "line": ln, "errors": runner.cache[(b, ln)], "builds_failing": sorted({x[0] for x in allb}),
                              "report": runner.logs.get((b, ln)), "list_len_after_shrink": len(ops), "shrink_runs": state["shrink_runs"],
                              "field_reductions_tried": tried}
        stats["api"] = runner.api_hist
        stats["calls"] = runner.calls
        stats["runs"] = runner.runs
    except Exception as e:   # machinery problem, never a violation
        import traceback
        out["ok"] = False
        out["error"] = "%s: %s\n%s" % (type(e).__name__, e, traceback.format_exc()[-3000:])
    out["stats"] = stats
    with open(spec["out"] + ".tmp", "w") as f:
        f.write(jdump(out))
    os.rename(spec["out"] + ".tmp", spec["out"])


# ------------------------------------------------------------------------------------------------ driver


def log(*a):
    print(*a, flush=True)


def _replay_lines(exes, build, lines, workdir, times=3):
    """fresh runs of a scenario on one build -> list of error counts"""
    outs = []
    for i in range(times):
        res = run_harness(exes[build], lines, workdir, "replay%d" % i)
        outs.append(res)
    return outs


def _write_replay(build, op, line, report, extra=None):
    d = os.path.join(VERIF, "evidence", "replay")
    os.makedirs(d, exist_ok=True)
    body = {"property": PROP, "engine": "ctgrind", "build": build, "scenario": [line], "invocation": op,
            "message": "memcheck reports a branch or memory address that depends on a value marked secret", "report": report,
            "how": "valgrind --tool=memcheck --error-exitcode=42 build/<cfg>/ct_harness <file with the scenario lines>"}
    if extra:
        body.update(extra)
    path = os.path.join(d, "%s-%s.json" % (PROP, core.digest64({"s": [line], "b": build})))
    with open(path, "w") as f:
        f.write(jdump(body, indent=1))
    return path


def _summ(res):
    out = []
    for e in res["errors"][:3]:
        out.append({"what": e["what"], "frames": ["%s (%s)" % fr for fr in e["frames"][:6]]})
    return out


def custom_main(tier, seed):
    t0 = time.time()
    mod = sys.modules[__name__]
    workdir = tempfile.mkdtemp(prefix="vf-C06-", dir="/var/tmp")
    try:
        return _main(tier, seed, mod, workdir, t0)
    finally:
        shutil.rmtree(workdir, ignore_errors=True)
        B.gc_builds()


def _evidence(tier, seed, mod, t0, violations, agg, note=None, known_open=()):
    extra = {"evaluations": agg["calls"], "distinct_nontrivial": len(agg["nontrivial"]), "samples": agg["samples"][:5],
             "classes": dict(sorted(agg["classes"].items())), "builds": {b: cfg_text(b) for b in BUILDS},
             "scenario_lists": agg["lists"], "distinct_invocations": agg["ops"], "valgrind_runs": agg["runs"],
             "api_calls_under_memcheck": dict(sorted(agg["api"].items())), "regress_cases_replayed": agg.get("regress", 0)}
    from vf import main as M
    M.write_evidence(PROP, tier, seed, mod, [], t0, violations=violations, note=note, known_open=known_open, extra=extra)


def _main(tier, seed, mod, workdir, t0):
    agg = {"calls": 0, "nontrivial": {}, "samples": [], "classes": {}, "lists": 0, "ops": 0, "runs": 0, "api": {}, "regress": 0}
    known_open = core.known_open_for(PROP)
    # an open known finding names the invocation kind it concerns: signature "ct_harness op=<name>"
    excluded = sorted({k["signature"].split("op=", 1)[1].strip() for k in known_open if "op=" in k.get("signature", "")})
    try:
        r = subprocess.run(["valgrind", "--version"], capture_output=True, text=True)
        if r.returncode != 0:
            raise OSError(r.stderr)
    except OSError as e:
        log("INCONCLUSIVE valgrind is not available: %r" % (e,))
        return 2
    try:
        exes = build_all()
    except B.BuildError as e:
        log("INCONCLUSIVE build: " + str(e)[-4000:])
        return 2

    # ---- regress tier
    for path in sorted(glob.glob(os.path.join(VERIF, "regress", PROP, "*.json"))):
        with open(path) as f:
            body = json.load(f)
        if body.get("engine") != "ctgrind":
            continue
        agg["regress"] += 1
        try:
            res = run_harness(exes[body.get("build", "prod")], body["scenario"], workdir, "regress%d" % agg["regress"])
        except Infra as e:
            log("INCONCLUSIVE regress case %s: %s" % (path, e))
            return 2
        if res["total"]:
            log("regression case fails: %s: %s" % (path, jdump(_summ(res))[:2000]))
            log("VIOLATION property=%s replay=%s" % (PROP, path))
            _evidence(tier, seed, mod, t0, 1, agg, note="regress case failed", known_open=known_open)
            return 1

    # ---- search: W Hypothesis workers, each runs its lists on the 4 builds in parallel
    ncpu = int(os.environ.get("VERIF_JOBS", "16"))
    nlists = LISTS[tier]
    W = max(1, min(4, ncpu // len(BUILDS), nlists))
    per = -(-nlists // W)
    procs = []
    env = dict(os.environ)
    env["PYTHONPATH"] = VERIF + os.pathsep + env.get("PYTHONPATH", "")
    env["PYTHONHASHSEED"] = "0"
    for w in range(W):
        wd = os.path.join(workdir, "w%d" % w)
        os.makedirs(wd)
        # Hypothesis always starts with the simplest list (20 x the first alternative): it is executed and counted but is one extra example
        spec = {"exes": exes, "workdir": wd, "examples": per + 1, "hseed": core.derive_seed(seed, PROP, "search", w), "out": os.path.join(wd, "out.json"),
                "excluded": excluded}
        sp = os.path.join(wd, "spec.json")
        with open(sp, "w") as f:
            f.write(jdump(spec))
        p = subprocess.Popen([sys.executable, "-m", "vf.props.C06", "--worker", sp], cwd=VERIF, env=env,
                             stdout=open(os.path.join(wd, "stdout"), "w"), stderr=open(os.path.join(wd, "stderr"), "w"))
        procs.append((p, spec, wd))
    results = []
    for p, spec, wd in procs:
        p.wait()
        if os.path.exists(spec["out"]):
            with open(spec["out"]) as f:
                results.append(json.load(f))
        else:
            with open(os.path.join(wd, "stderr"), errors="replace") as f:
                results.append({"ok": False, "error": "worker died (rc=%s): %s" % (p.returncode, f.read()[-3000:]), "failure": None, "stats": None})
    for r in results:
        s = r.get("stats")
        if not s:
            continue
        agg["calls"] += s["calls"]
        agg["lists"] += s["lists"]
        agg["ops"] += s["ops"]
        agg["runs"] += s["runs"]
        agg["nontrivial"].update(s["nontrivial"])
        agg["samples"] += s["samples"][:2]
        for k, v in s["classes"].items():
            agg["classes"][k] = agg["classes"].get(k, 0) + v
        for k, v in s["api"].items():
            agg["api"][k] = agg["api"].get(k, 0) + v

    failures = [r["failure"] for r in results if r.get("failure")]
    infra = [r["error"] for r in results if not r["ok"]]
    if failures:
        fl = failures[0]
        log("candidate: build=%s invocation: %s" % (fl["build"], fl["line"][:1500]))
        try:
            outs = _replay_lines(exes, fl["build"], [fl["line"]], workdir, times=3)
        except Infra as e:
            log("INCONCLUSIVE replay of the candidate failed: %s" % e)
            _evidence(tier, seed, mod, t0, 0, agg, note="INCONCLUSIVE: " + str(e)[:300], known_open=known_open)
            return 2
        nfail = sum(1 for o in outs if o["total"] > 0)
        log("replays (fresh processes, the single invocation alone): " + ", ".join("fail" if o["total"] else "pass" for o in outs))
        report = _summ(outs[0]) if outs[0]["total"] else fl.get("report")
        path = _write_replay(fl["build"], fl["invocation"], fl["line"], report,
                             {"builds_failing": fl.get("builds_failing"), "replays": ["fail" if o["total"] else "pass" for o in outs]})
        if nfail == 3:
            _evidence(tier, seed, mod, t0, 1, agg, note="failure: memcheck report in " + fl["invocation"]["op"], known_open=known_open)
            log("memcheck: " + jdump(report)[:3000])
            log("VIOLATION property=%s replay=%s" % (PROP, path))
            return 1
        _evidence(tier, seed, mod, t0, 0, agg, note="INCONCLUSIVE flaky", known_open=known_open)
        log("INCONCLUSIVE flaky: the candidate did not reproduce in 3 fresh replays; case kept at " + path)
        return 2
    if infra:
        log("INCONCLUSIVE " + infra[0][-4000:])
        _evidence(tier, seed, mod, t0, 0, agg, note="INCONCLUSIVE: " + infra[0][:300], known_open=known_open)
        return 2
    missing = [a for a in MUST_APIS if agg["api"].get(a, 0) == 0 and not any(a in x for x in excluded)]
    missing += ["op:" + o for o in OPS if agg["classes"].get("op:" + o, 0) == 0 and o not in excluded]
    if missing:
        _evidence(tier, seed, mod, t0, 0, agg, note="generator starved: " + ",".join(missing), known_open=known_open)
        log("INCONCLUSIVE generator: never executed: " + ", ".join(missing))
        return 2
    _evidence(tier, seed, mod, t0, 0, agg, known_open=known_open)
    for k in known_open:
        log("KNOWN-FINDING: property=%s %s" % (PROP, k["what"]))
    log("%s %s: held on %d API calls under memcheck (%d scenario lists, %d distinct invocations, %d distinct non-trivial descriptors, %d builds) in %.1fs" % (
        PROP, tier, agg["calls"], agg["lists"], agg["ops"], len(agg["nontrivial"]), len(BUILDS), time.time() - t0))
    return 0


def custom_replay(body, path):
    workdir = tempfile.mkdtemp(prefix="vf-C06-replay-", dir="/var/tmp")
    try:
        try:
            names = [body["build"]] if body.get("build") in BUILDS else BUILDS
            exes = build_all(names)
        except B.BuildError as e:
            log("INCONCLUSIVE build: " + str(e)[-4000:])
            return 2
        bad = False
        for b in names:
            try:
                res = run_harness(exes[b], body["scenario"], workdir, "replay-" + b)
            except Infra as e:
                log("INCONCLUSIVE %s" % e)
                return 2
            log("replay build=%s memcheck errors=%d %s" % (b, res["total"], jdump(_summ(res))[:2500] if res["total"] else ""))
            bad = bad or res["total"] > 0
        if bad:
            log("VIOLATION property=%s replay=%s" % (PROP, path))
            return 1
        return 0
    finally:
        shutil.rmtree(workdir, ignore_errors=True)


if __name__ == "__main__":
    if len(sys.argv) == 3 and sys.argv[1] == "--worker":
        worker_main(sys.argv[2])
    else:
        sys.exit(2)
