"""C11 — surjection proofs: complete, exact, canonically encoded."""
import ctypes
from ctypes import c_size_t, c_int, c_void_p, byref

from hypothesis import strategies as st

from pyref import ec, pedersen as PD, surjection as SJ
from vf import gens
from vf.core import Test
from vf.lib import buf

RULE = ("cases: (a) pipelines initialize -> generate -> verify -> serialize/parse over n inputs in 1..256: EVERY (n <= 8, subset size 0..n, set of positions whose fixed tag equals "
        "the output tag, and for n <= 5 every assignment {unrelated, output tag, NEAR-duplicate of the output tag} to the positions) exhaustively, above that sampled with 255 and "
        "256 always present; near-duplicates = output tag with one bit / byte changed at byte 0, 7, 8, 15, 16, 23, 24, 31 or sharing only the first 1/4/8/16/24/31 bytes, in lists with "
        "and without an exact match; iteration limits {0,1,10,100}; blinding keys from the 256-bit edge set (0, n-1, >= n), "
        "wrong keys, an ephemeral input equal to the ephemeral output; duplicated fixed tags; afterwards the honest proof is re-verified with a replaced / swapped / dropped / "
        "added tag and with flipped proof bits; the selection is read back through serialize; (b) candidate proofs for chosen tag points: reference-prover-made with chosen small "
        "forged scalars and their s+n twins, empty selection with e0 = H(m) (forgeable from public data), a selected input equal to the output (ring key at infinity), random "
        "forgeries, then bit flips, scalar substitutions (0, n, s+n, 2^256-1), length / count-field / padding-bit edits, tag edits, tag-count mismatch; (c) parser strings: "
        "n_inputs field over 0..65535 (all of 0..300, boundaries, sampled) x bitmap shapes x length -33..+33, every value of the last bitmap byte for n = 1..24 and 249..256. "
        "Oracle: pyref.surjection (canonical parser; one Borromean ring over Output - Input_i for the set bits, message = SHA256 of all tag encodings). "
        "non-trivial = n > 1, or a subset other than 'all inputs', or a rejected / mutated / adversarial proof")
ASSUMPTIONS = ["pyref.surjection / pyref.borromean / pyref.ec are correct readings of the header, surjection.md and DESIGN Appendix A (validated by selftests and by agreement with every honest library proof)",
               "ephemeral tags handed to the API are generator objects made by generate_blinded or generator_parse; their points are read back through generator_serialize",
               "documented preconditions are respected: 1 <= n_input_tags <= 256, n_input_tags_to_use <= n_input_tags, generate is only called on proofs that went through a successful initialize"]

N = ec.N


# ------------------------------------------------------------------ library access
def setup(env):
    c = env.cache
    if "sz" not in c:
        d = env.lib.dll
        d.vf_c11_sizeof_surjectionproof.restype = c_size_t
        d.secp256k1_surjectionproof_allocate_initialized.restype = c_int       # (vf.lib lists it among the pointer-returning functions)
        d.secp256k1_surjectionproof_destroy.restype = None
        d.vf_get_alloc_live.restype = ctypes.c_long
        c["sz"] = d.vf_c11_sizeof_surjectionproof()
        assert 8264 <= c["sz"] <= 8280, c["sz"]
    return c


def new_proof(env):
    return buf(setup(env)["sz"])


def gen_from_point(env, pt):
    g = buf(64)
    r = env.lib.dll.secp256k1_generator_parse(env.lib.ctx, g, buf(33, PD.enc_qr(pt, 10)))
    assert r == 1, "reference point rejected by generator_parse"
    return g


def point_of_gen(env, g):
    out = buf(33)
    env.lib.dll.secp256k1_generator_serialize(env.lib.ctx, out, g)
    return PD.dec_qr(out.raw, 10)


def tag_array(objs):
    arr = buf(64 * max(1, len(objs)))
    for i, o in enumerate(objs):
        ctypes.memmove(ctypes.addressof(arr) + 64 * i, o, 64)
    return arr


def lib_parse(env, b):
    proof = new_proof(env)
    inp = buf(max(1, len(b)), b)
    r = env.lib.dll.secp256k1_surjectionproof_parse(env.lib.ctx, proof, inp, c_size_t(len(b)))
    return r, proof


def lib_serialize(env, proof, size=None):
    d = env.lib.dll
    need = d.secp256k1_surjectionproof_serialized_size(env.lib.ctx, proof)
    size = need if size is None else size
    out = buf(max(1, size))
    ol = c_size_t(size)
    r = d.secp256k1_surjectionproof_serialize(env.lib.ctx, out, byref(ol), proof)
    return r, (out.raw[:ol.value] if r == 1 else None), need


def lib_verify(env, proof, objs, out_obj, n=None):
    return env.lib.dll.secp256k1_surjectionproof_verify(env.lib.ctx, proof, tag_array(objs), c_size_t(len(objs) if n is None else n), out_obj)


def lib_initialize(env, tags, k, out_tag, iters, seed, alloc=False):
    """-> (ret, input_index, proof buffer or pointer)"""
    d = env.lib.dll
    fixed = buf(32 * len(tags), b"".join(tags))
    idx = c_size_t(0xDEAD)
    if not alloc:
        proof = new_proof(env)
        r = d.secp256k1_surjectionproof_initialize(env.lib.ctx, proof, byref(idx), fixed, c_size_t(len(tags)), c_size_t(k), buf(32, out_tag), c_size_t(iters), buf(32, seed))
        return r, idx.value, proof
    pp = c_void_p(0)
    r = d.secp256k1_surjectionproof_allocate_initialized(env.lib.ctx, byref(pp), byref(idx), fixed, c_size_t(len(tags)), c_size_t(k), buf(32, out_tag), c_size_t(iters), buf(32, seed))
    return r, idx.value, pp


def check_parsed_object(env, proof, b, pref):
    """accessors and round trip of a successfully parsed proof (pref = reference parse of b)"""
    d, ctx = env.lib.dll, env.lib.ctx
    env.require(d.secp256k1_surjectionproof_n_total_inputs(ctx, proof) == pref[0], "n_total_inputs differs from the encoded count")
    env.require(d.secp256k1_surjectionproof_n_used_inputs(ctx, proof) == len(pref[1]), "n_used_inputs differs from the number of set bits")
    rs, ser, need = lib_serialize(env, proof)
    env.require(need == len(b), "serialized_size %d for a %d-byte encoding" % (need, len(b)))
    env.require(rs == 1 and ser == b, "serialize(parse(b)) != b", b=b[:80], got=(ser or b"")[:80])


# ------------------------------------------------------------------ (a) pipelines
def h32(*parts):
    return ec.sha256(b"|".join(p if isinstance(p, bytes) else str(p).encode() for p in parts))


# near-duplicates of the output tag: one bit / one byte changed at a position anywhere in the 32 bytes, or only a common prefix of k bytes.
# They are NOT the output tag: initialize must never report one of them as the matching input.
NEAR_KINDS = ([["bit", p, b] for p in (0, 7, 8, 15, 16, 23, 24, 31) for b in (0, 7)] + [["byte", p, d] for p in (0, 7, 8, 15, 16, 31) for d in (1, 0x80, 0xFF)]
              + [["prefix", k, 0] for k in (1, 4, 8, 16, 24, 31)])


def near_tag(out_tag, spec, ts, i):
    kind, a, b = spec
    t = bytearray(out_tag)
    if kind == "bit":
        t[a % 32] ^= 1 << (b % 8)
    elif kind == "byte":
        t[a % 32] ^= (b % 255) + 1
    else:                       # the first a bytes are shared, byte a differs, the rest is unrelated
        a = a % 32
        rest = bytearray(h32("near", ts, i))
        t[a:] = rest[a:]
        if t[a] == out_tag[a]:
            t[a] ^= 0x5A
    assert bytes(t) != out_tag
    return bytes(t)


def pipeline_tags(case):
    n = case["n"]
    ts = case["tagseed"]
    out_tag = h32("out", ts)
    tags = [h32("in", ts, i) for i in range(n)]
    for a, b in case.get("dup", []):
        if a < n and b < n:
            tags[a] = tags[b]
    for i_s, spec in case.get("near", {}).items():
        if int(i_s) < n:
            tags[int(i_s)] = near_tag(out_tag, spec, ts, int(i_s))
    for i in case["match"]:
        if i < n:
            tags[i] = out_tag
    return tags, out_tag


def run_pipeline(env, case):
    lib, d = env.lib, env.lib.dll
    setup(env)
    lib.reset()
    n, k, iters = case["n"], case["k"], case["iters"]
    tags, out_tag = pipeline_tags(case)
    matching = [i for i in range(n) if tags[i] == out_tag]
    seed = bytes.fromhex(case["seed"])
    classes = ["n=%s" % (n if n <= 8 or n >= 255 else "mid"), "k=0" if k == 0 else ("k=n" if k == n else "k<n"), "match=%s" % min(len(matching), 3), "iters=%d" % iters]
    near = [int(i_s) for i_s in case.get("near", {}) if int(i_s) < n and tags[int(i_s)] != out_tag]
    if near:
        classes.append("near_dup_and_exact" if matching else "near_dup_only")
        if any(tags[i][:8] == out_tag[:8] for i in near):
            classes.append("near_dup_shares_8_bytes")
    ret, idx, proof = lib_initialize(env, tags, k, out_tag, iters, seed)
    env.require(lib.illegal() == 0 and lib.errors() == 0, "callback fired in initialize with documented arguments: " + lib.cbmsg())
    env.require(0 <= ret <= max(1, iters), "initialize returned %d with max_n_iterations = %d" % (ret, iters))
    if not matching or k == 0:
        env.require(ret == 0, "initialize reported success although %s" % ("no input equals the output" if not matching else "no input may be selected"), ret=ret)
    if matching and k == n and iters >= 1:
        env.require(ret == 1, "initialize with all inputs selected and a matching input must succeed in the first iteration, returned %d" % ret)
    if ret == 0:
        return (n > 1), classes + ["init_fail"]
    # ---- selection read back through serialize
    rs, ser0, need = lib_serialize(env, proof)
    pref = SJ.parse(ser0) if rs == 1 else None
    env.require(pref is not None and need == len(ser0), "serialization of an initialized proof is not canonical", ser=(ser0 or b"")[:80])
    n_enc, used, _, _ = pref
    env.require(n_enc == n and d.secp256k1_surjectionproof_n_total_inputs(lib.ctx, proof) == n, "initialized proof reports %d inputs, %d were given" % (n_enc, n))
    env.require(len(used) == k and d.secp256k1_surjectionproof_n_used_inputs(lib.ctx, proof) == k, "selection has %d inputs, %d were requested" % (len(used), k), used=used)
    env.require(idx < n and tags[idx] == out_tag, "initialize returned input_index %d whose fixed tag differs from the output tag%s"
                % (idx, " (it only resembles it)" if idx in near else ""), tag=tags[idx] if idx < n else None, out=out_tag)
    if near:
        classes.append("near_dup_exact_index_ok")
    env.require(idx in used, "initialize succeeded but input_index %d is not in the selected subset" % idx, used=used)
    # ---- determinism; heap variant
    ret2, idx2, proof2 = lib_initialize(env, tags, k, out_tag, iters, seed)
    env.require((ret2, idx2) == (ret, idx) and lib_serialize(env, proof2)[1] == ser0, "initialize is not a function of its arguments")
    if case.get("alloc"):
        live0 = d.vf_get_alloc_live()
        ret3, idx3, pp = lib_initialize(env, tags, k, out_tag, iters, seed, alloc=True)
        env.require(ret3 == ret and idx3 == idx and pp.value, "allocate_initialized differs from initialize (ret %d vs %d)" % (ret3, ret))
        env.require(lib_serialize(env, pp)[1] == ser0, "allocate_initialized selects another subset than initialize")
        d.secp256k1_surjectionproof_destroy(pp)
        env.require(d.vf_get_alloc_live() == live0, "allocate_initialized / destroy leak or double free")
        classes.append("alloc")
    # ---- ephemeral tags
    keymode = case.get("keymode", "honest")
    out_key = case["out_key"] % N
    in_keys = [ec.b2i(h32("key", case["tagseed"], i)) % N for i in range(n)]
    for i_s, v in case.get("in_keys", {}).items():
        if int(i_s) < len(matching):
            in_keys[matching[int(i_s)]] = v % N
    if keymode == "same_as_out":
        in_keys[idx] = out_key          # the ephemeral input tag equals the ephemeral output tag
    objs, pts = [], []
    for i in range(n):
        g = buf(64)
        r = d.secp256k1_generator_generate_blinded(lib.ctx, g, tags[i], ec.i2b(in_keys[i]))
        env.require(r == 1, "generate_blinded failed for a key < n")
        objs.append(g)
        pts.append(point_of_gen(env, g))
    out_obj = buf(64)
    env.require(d.secp256k1_generator_generate_blinded(lib.ctx, out_obj, out_tag, ec.i2b(out_key)) == 1, "generate_blinded failed for a key < n")
    out_pt = point_of_gen(env, out_obj)
    if n <= 8 and case.get("refgen"):
        env.require(out_pt == PD.generate(out_tag, out_key) and pts[idx] == PD.generate(tags[idx], in_keys[idx]), "ephemeral tag is not generate(tag) + key*G")
    ik, ok = in_keys[idx], out_key
    if keymode == "wrong_in":
        ik = (ik + 1) % N
    elif keymode == "wrong_out":
        ok = (ok + N - 1) % N
    elif keymode == "big_in":
        ik = ik + N if ik + N <= gens.M256 else N
    elif keymode == "big_out":
        ok = ok + N if ok + N <= gens.M256 else gens.M256
    classes.append("keys:" + keymode)
    if in_keys[idx] == 0 or out_key == 0:
        classes.append("zero_key")
    honest = keymode == "honest"
    equal_any = any(p == out_pt for p in pts)
    rg = d.secp256k1_surjectionproof_generate(lib.ctx, proof, tag_array(objs), c_size_t(n), out_obj, c_size_t(idx), ec.i2b(ik), ec.i2b(ok))
    env.require(lib.illegal() == 0 and lib.errors() == 0, "callback fired in generate: " + lib.cbmsg())
    if equal_any:
        classes.append("eph_input_equals_output")
    if honest and not equal_any:
        env.require(rg == 1, "generate failed with the matching blinding keys", n=n, k=k, idx=idx)
    if rg != 1:
        return True, classes + ["generate_refused"]
    rs, ser, need = lib_serialize(env, proof)
    env.require(rs == 1 and len(ser) == need == 2 + (n + 7) // 8 + 32 * (1 + k), "serialized proof has the wrong size")
    env.require(SJ.parse(ser) is not None and SJ.parse(ser)[1] == used, "generate changed the selection")
    lv = lib_verify(env, proof, objs, out_obj)
    rv = SJ.verify(ser, pts, out_pt)
    env.require(lv == (1 if rv else 0), "surjectionproof_verify returned %d, the specified ring equation says %d" % (lv, rv), n=n, k=k, keymode=keymode, proof=ser[:100])
    if honest and not equal_any:
        env.require(lv == 1, "honest proof does not verify", n=n, k=k, idx=idx)
        classes.append("honest_ok")
    else:
        classes.append("dishonest_accept" if lv else "dishonest_reject")
    rp, proof_p = lib_parse(env, ser)
    env.require(rp == 1, "parse(serialize(proof)) failed")
    check_parsed_object(env, proof_p, ser, SJ.parse(ser))
    env.require(lib_verify(env, proof_p, objs, out_obj) == lv, "re-parsed proof verifies differently")
    for small in (0, len(ser) - 1):
        env.require(lib_serialize(env, proof, size=small)[0] == 0, "serialize succeeded into a %d-byte buffer for a %d-byte proof" % (small, len(ser)))
    rs5, ser5, _ = lib_serialize(env, proof, size=len(ser) + 5)
    env.require(rs5 == 1 and ser5 == ser, "serialize into a larger buffer differs")
    # ---- edits of the statement / the proof: verdict must follow the reference
    for mu in case.get("muts", []):
        kind, a, b = mu["kind"], mu["a"], mu["b"]
        o2, p2, oo, op, sb = list(objs), list(pts), out_obj, out_pt, ser
        if kind == "tag_replace":
            i = a % n
            p2[i] = ec.mulg(b + 2)
            o2[i] = gen_from_point(env, p2[i])
        elif kind == "tag_selected_replace":
            i = used[a % len(used)]
            p2[i] = ec.add(p2[i], ec.G)
            o2[i] = gen_from_point(env, p2[i])
        elif kind == "out_replace":
            op = ec.add(out_pt, ec.mulg(b + 1))
            oo = gen_from_point(env, op)
        elif kind == "swap" and n >= 2:
            i, j = a % n, b % n
            p2[i], p2[j] = p2[j], p2[i]
            o2[i], o2[j] = o2[j], o2[i]
        elif kind == "count_minus":
            p2.pop()
            o2.pop()
        elif kind == "count_plus":
            p2.append(ec.mulg(b + 2))
            o2.append(gen_from_point(env, p2[-1]))
        elif kind == "bitflip":
            pos = (a * 65536 + b) % (len(ser) * 8)
            sb = bytearray(ser)
            sb[pos // 8] ^= 1 << (pos % 8)
            sb = bytes(sb)
        elif kind == "sel_to_output":
            # a selected input other than the real one is replaced by the output tag itself: ring key = infinity
            others = [u for u in used if u != idx]
            if not others:
                continue
            i = others[a % len(others)]
            p2[i], o2[i] = out_pt, out_obj
        else:
            continue
        classes.append("mut:" + kind)
        rp, pr = lib_parse(env, sb)
        prf = SJ.parse(sb)
        env.require((rp == 1) == (prf is not None), "parser verdict %d differs from the canonical format" % rp, b=sb[:80])
        if rp != 1:
            classes.append("mut_parse_reject")
            continue
        got = lib_verify(env, pr, o2, oo)
        want = SJ.verify(sb, p2, op)
        env.require(got == (1 if want else 0), "after edit '%s': surjectionproof_verify returned %d, specification says %d" % (kind, got, want), n=n, k=k)
        classes.append("mut_accept" if got else "mut_reject")
    env.require(lib.illegal() == 0 and lib.errors() == 0, "callback fired: " + lib.cbmsg())
    nt = n > 1 or bool(case.get("muts")) or not honest
    return nt, classes


def _small_case(n, k, pat, rep):
    """pat[j] in {0: unrelated tag, 1: the output tag, 2: a near-duplicate of the output tag}"""
    h = h32("small", n, k, "".join(map(str, pat)), rep)
    case = {"n": n, "k": k, "match": [j for j in range(n) if pat[j] == 1], "iters": [100, 100, 10, 1, 0, 100][h[0] % 6], "seed": h32("seed", h).hex(),
            "tagseed": h[:8].hex(), "out_key": ec.b2i(h32("ok", h)), "alloc": h[1] % 8 == 0, "refgen": h[2] % 4 == 0,
            "muts": [{"kind": ["bitflip", "tag_selected_replace", "sel_to_output", "count_minus", "out_replace", "swap"][h[3] % 6], "a": h[4] * 256 + h[5], "b": h[6]}] if h[7] % 2 else []}
    nr = {str(j): NEAR_KINDS[(h[8 + j] + 7 * rep) % len(NEAR_KINDS)] for j in range(n) if pat[j] == 2}
    if nr:
        case["near"] = nr
    return case


def _small_block(tier, shard, nshards, nmax, n3):
    """every n <= nmax, every subset size 0..n; for n <= n3 every assignment {unrelated, output tag, near-duplicate} to the positions (3^n), above that every set of
    positions carrying the output tag (2^n), the other positions being all unrelated or all near-duplicates (alternating)"""
    reps = 1 if tier == "quick" else 6
    i = 0
    for n in range(1, nmax + 1):
        for k in range(0, n + 1):
            for code in range(3 ** n if n <= n3 else 2 ** n):
                for rep in range(reps):
                    i += 1
                    if i % nshards != shard:
                        continue
                    if n <= n3:
                        pat = [(code // 3 ** j) % 3 for j in range(n)]
                    else:
                        other = 2 if (code + k + rep) % 2 else 0
                        pat = [1 if code >> j & 1 else other for j in range(n)]
                    yield _small_case(n, k, pat, rep)


def small_block(tier, shard, nshards):
    return _small_block(tier, shard, nshards, 8, 5)


def small_block_san(tier, shard, nshards):
    # the sanitizer / VERIFY build repeats a smaller block in the quick tier -- its job is memory safety and the library's own assertions, not the enumeration
    return _small_block(tier, shard, nshards, 6, 4) if tier == "quick" else _small_block(tier, shard, nshards, 8, 5)


key_st = st.one_of(st.sampled_from([0, 1, 2, N - 1, N - 2, (N - 1) // 2]), gens.u256_edge, st.integers(0, N - 1))


@st.composite
def pipeline_case(draw):
    n = draw(st.one_of(st.integers(1, 8), st.integers(2, 40), st.integers(9, 256), st.sampled_from([255, 256, 255, 256, 128, 129, 127, 248, 249])))
    k = draw(st.one_of(st.just(n), st.just(1), st.just(min(3, n)), st.integers(1, min(n, 8)), st.integers(1, n), st.integers(0, n)))
    nm = draw(st.sampled_from([1, 1, 1, 1, 2, 3, 0, n, max(1, n // 2)]))
    match = sorted(set(draw(st.lists(st.integers(0, n - 1), min_size=nm, max_size=nm))))
    case = {"n": n, "k": k, "match": match, "iters": draw(st.sampled_from([100, 100, 100, 10, 1, 0])), "seed": draw(gens.hexbytes(32)), "tagseed": draw(gens.hexbytes(6)),
            "out_key": draw(key_st), "alloc": draw(st.integers(0, 5)) == 0, "refgen": True,
            "keymode": draw(st.sampled_from(["honest"] * 11 + ["wrong_in", "wrong_out", "same_as_out", "big_in", "big_out"]))}
    if draw(st.integers(0, 4)) == 0:
        case["in_keys"] = {str(draw(st.integers(0, 2))): draw(key_st)}
    if n >= 2 and draw(st.integers(0, 3)) == 0:
        case["dup"] = [[draw(st.integers(0, n - 1)), draw(st.integers(0, n - 1))] for _ in range(draw(st.integers(1, 3)))]
    if draw(st.sampled_from([False, False, True])):
        # near-duplicates of the output tag (exact matches, if any, keep their positions): with and without an exact match in the list
        cnt = draw(st.sampled_from([1, 1, 2, 3, n]))
        pos = draw(st.lists(st.integers(0, n - 1), min_size=1, max_size=min(cnt, 24)))
        case["near"] = {str(i): draw(st.sampled_from(NEAR_KINDS)) for i in pos}
        if draw(st.sampled_from([False, False, False, True])):
            case["match"] = []
    nmut = draw(st.sampled_from([0, 1, 1, 2])) if k <= 64 else draw(st.sampled_from([0, 0, 1]))
    case["muts"] = [{"kind": draw(st.sampled_from(["tag_replace", "tag_selected_replace", "out_replace", "swap", "count_minus", "count_plus", "bitflip", "bitflip", "sel_to_output"])),
                     "a": draw(st.integers(0, 65535)), "b": draw(st.integers(0, 65535))} for _ in range(nmut)]
    return case


# ------------------------------------------------------------------ (b) candidate proof strings
def string_points(case):
    """tag points with known discrete logarithms: inputs a_i*G, output o*G"""
    n = case["n"]
    a = [ec.b2i(h32("a", case["tagseed"], i)) % (N - 1) + 1 for i in range(n)]
    for i_s, v in case.get("a_over", {}).items():
        if int(i_s) < n:
            a[int(i_s)] = v % (N - 1) + 1
    o = case["o"] % (N - 1) + 1
    return a, o


@st.composite
def string_case(draw):
    n = draw(st.one_of(st.integers(0, 8), st.integers(1, 5), st.integers(9, 24), st.sampled_from([16, 33, 255, 256, 256]) if draw(st.integers(0, 3)) == 0 else st.integers(1, 8)))
    case = {"n": n, "tagseed": draw(gens.hexbytes(6)), "o": draw(gens.seckey_valid)}
    if n == 0:
        used = []
    else:
        mode = draw(st.sampled_from(["all", "one", "few", "few", "rand", "none"]))
        if mode == "all":
            used = list(range(n))
        elif mode == "one":
            used = [draw(st.integers(0, n - 1))]
        elif mode == "none":
            used = []
        else:
            used = sorted(set(draw(st.lists(st.integers(0, n - 1), min_size=1, max_size=min(n, 6) if mode == "few" else n))))
    case["used"] = used
    case["base"] = draw(st.sampled_from(["ref", "ref", "ref", "forge_hash", "forge_rand"])) if used else draw(st.sampled_from(["forge_hash", "forge_hash", "forge_rand"]))
    case["sec_pos"] = draw(st.integers(0, len(used) - 1)) if used else 0
    case["nonce"] = draw(gens.seckey_valid)
    small = st.one_of(st.integers(1, 1 << 20), st.integers(1, 1 << 127), gens.seckey_valid)
    case["forged"] = [draw(small) for _ in used]
    case["e0"] = draw(gens.hexbytes(32))
    if used and len(used) >= 2 and draw(st.integers(0, 5)) == 0:
        case["sel_eq_out"] = draw(st.integers(0, len(used) - 1))       # a selected (non-secret) input is the output itself
    if n >= 2 and draw(st.integers(0, 5)) == 0:
        case["a_over"] = {str(draw(st.integers(0, n - 1))): draw(gens.seckey_valid)}
    muts = []
    for _ in range(draw(st.sampled_from([0, 1, 1, 1, 2]))):
        kind = draw(st.sampled_from(["bitflip", "s_zero", "s_n", "s_plus_n", "s_plus_n", "s_plus_n", "s_big", "trunc", "extend", "nfield", "padbit", "e0_rand", "swap", "replace_in",
                                     "replace_out", "n_minus", "n_plus", "bitmap_bit"]))
        muts.append({"kind": kind, "a": draw(st.integers(0, 65535)), "b": draw(st.integers(0, 65535))})
    if case["base"] == "ref" and len(used) >= 2 and draw(st.integers(0, 3)) == 0:
        # the decisive pair: a valid proof with a small forged scalar s (accepted) and its re-encoding s + n (must be rejected)
        j = draw(st.integers(0, len(used) - 2))
        j += j >= case["sec_pos"]
        case["forged"][j] = draw(st.integers(1, 1 << 100))
        case.pop("sel_eq_out", None)
        muts = [{"kind": "s_plus_n", "a": j, "b": 0}] if draw(st.booleans()) else []
    case["muts"] = muts
    return case


def run_strings(env, case):
    lib = env.lib
    setup(env)
    lib.reset()
    n, used = case["n"], case["used"]
    a, o = string_points(case)
    pts = [ec.mulg(x) for x in a]
    out_pt = ec.mulg(o)
    classes = ["base:" + case["base"], "n=%s" % (n if n <= 8 or n >= 255 else "mid"), "used=%s" % (len(used) if len(used) < 3 else ("all" if len(used) == n else "some"))]
    honest = False
    sec_pos = case["sec_pos"]
    if "sel_eq_out" in case and case["sel_eq_out"] != sec_pos:
        pts[used[case["sel_eq_out"]]] = out_pt
        classes.append("selected_input_is_output")
    sigb = None
    if case["base"] == "ref" and used:
        sec = (o - a[used[sec_pos]]) % N
        if sec != 0:
            sigb = SJ.prove(pts, out_pt, used, sec_pos, sec, case["nonce"], case["forged"])
            if sigb is not None:
                honest = all(pts[u] != out_pt for u in used)
                classes.append("ref_prover")
    elif case["base"] == "forge_hash":
        # what anybody can compute: e0 = H(m) is exactly what an unguarded empty ring would accept
        sigb = SJ.serialize(n, used, ec.sha256(SJ.message(pts, out_pt)), case["forged"])
    if sigb is None:
        sigb = SJ.serialize(n, used, bytes.fromhex(case["e0"]), case["forged"])
    sigb = bytearray(sigb)
    mutated = False
    nb = (n + 7) // 8
    for mu in case["muts"]:
        k, x, y = mu["kind"], mu["a"], mu["b"]
        cur_used = (len(sigb) - 2 - nb - 32) // 32 if len(sigb) >= 2 + nb + 32 else 0
        soff = 2 + nb + 32
        applied = True
        if k == "bitflip" and len(sigb):
            pos = (x * 65536 + y) % (len(sigb) * 8)
            sigb[pos // 8] ^= 1 << (pos % 8)
        elif k in ("s_zero", "s_n", "s_plus_n", "s_big") and cur_used > 0:
            j = x % cur_used
            old = ec.b2i(bytes(sigb[soff + 32 * j:soff + 32 * j + 32]))
            twin = old + N <= gens.M256
            new = {"s_zero": 0, "s_n": N, "s_big": gens.M256, "s_plus_n": old + N if twin else N + (y % 1000)}[k]
            sigb[soff + 32 * j:soff + 32 * j + 32] = ec.i2b(new)
            if k == "s_plus_n" and twin:
                classes.append("s_plus_n_twin")
                if honest and not mutated:
                    classes.append("twin_of_valid_proof")
        elif k == "trunc" and len(sigb) > 1:
            del sigb[len(sigb) - 1 - (x % min(33, len(sigb) - 1)):]
        elif k == "extend":
            sigb += bytes([y & 255]) * (1 + x % 33)
        elif k == "nfield" and len(sigb) >= 2:
            v = [n + 256, n + 8, n + 1, max(0, n - 1), n << 8, 257, 65535, x][y % 8] & 0xFFFF
            sigb[0], sigb[1] = v & 255, v >> 8
        elif k == "padbit" and n % 8 and len(sigb) >= 2 + nb:
            sigb[2 + nb - 1] |= 1 << (n % 8 + x % (8 - n % 8))
        elif k == "bitmap_bit" and n and len(sigb) >= 2 + nb:
            sigb[2 + (x % n) // 8] ^= 1 << ((x % n) % 8)
        elif k == "e0_rand" and len(sigb) >= 2 + nb + 32:
            sigb[2 + nb:2 + nb + 32] = h32("e0", x, y)
        elif k == "swap" and len(pts) >= 2:
            i, j = x % len(pts), y % len(pts)
            pts[i], pts[j] = pts[j], pts[i]
        elif k == "replace_in" and pts:
            pts[x % len(pts)] = ec.mulg(y + 2)
        elif k == "replace_out":
            out_pt = ec.mulg(y + 2)
        elif k == "n_minus" and pts:
            pts.pop()
        elif k == "n_plus":
            pts.append(ec.mulg(y + 2))
        else:
            applied = False
        if applied:
            mutated = True
            classes.append("mut:" + k)
    sigb = bytes(sigb)
    pref = SJ.parse(sigb)
    rp, proof = lib_parse(env, sigb)
    env.require((rp == 1) == (pref is not None), "surjectionproof_parse returned %d, canonical format says %s (len %d, n field %s)"
                % (rp, "accept" if pref else "reject", len(sigb), sigb[0] | sigb[1] << 8 if len(sigb) >= 2 else None), b=sigb[:80])
    if rp == 1:
        check_parsed_object(env, proof, sigb, pref)
        objs = [gen_from_point(env, p) for p in pts]
        out_obj = gen_from_point(env, out_pt)
        got = lib_verify(env, proof, objs, out_obj)
        want = SJ.verify(sigb, pts, out_pt)
        env.require(got == (1 if want else 0), "surjectionproof_verify returned %d, the specification says %d" % (got, want), proof=sigb[:120], n_tags=len(pts))
        if honest and not mutated:
            env.require(got == 1, "reference-prover proof for a valid witness rejected")
        classes.append("accept" if got else "reject")
        if not pref[1]:
            classes.append("empty_selection")
            if case["base"] == "forge_hash" and not mutated:
                classes.append("empty_selection_hash_forgery")
        if pref[0] != len(pts):
            classes.append("count_mismatch")
    else:
        classes.append("parse_reject")
    env.require(lib.illegal() == 0 and lib.errors() == 0, "callback fired while handling an untrusted proof: " + lib.cbmsg())
    return True, classes


# ------------------------------------------------------------------ (c) parser strings
def parse_strings(tier, shard, nshards):
    fields = list(range(0, 301)) + [504, 505, 511, 512, 513, 520, 768, 1023, 1024, 2047, 2048, 4096, 8191, 8192, 32767, 32768, 65279, 65280, 65534, 65535]
    fields += [(v & 255) << 8 | v >> 8 for v in (1, 2, 7, 8, 9, 255, 256)]             # byte-swapped counts
    step = 97 if tier == "quick" else 7
    fields += list(range(301, 65536, step))
    i = 0
    for nf in sorted(set(fields)):
        for shape in ("zero", "ones", "first", "last", "alt", "hash"):
            for delta in (0, -1, 1, -32, 32, -33, 33):
                i += 1
                if i % nshards == shard:
                    yield {"nf": nf, "shape": shape, "delta": delta, "last": None}
    # every value of the last bitmap byte (all padding-bit patterns) for every n mod 8
    for nf in list(range(1, 25)) + list(range(249, 265)):
        for last in range(256):
            for delta in ((0,) if tier == "quick" else (0, 1, -1)):
                i += 1
                if i % nshards == shard:
                    yield {"nf": nf, "shape": "ones" if last & 1 else "hash", "delta": delta, "last": last}


def build_parse_string(case):
    nf = case["nf"]
    nb = (nf + 7) // 8
    shape = case["shape"]
    if shape == "zero":
        bm = bytearray(nb)
    elif shape == "ones":          # all VALID bits set
        bm = bytearray(b"\xff" * nb)
        if nf % 8:
            bm[-1] = (1 << (nf % 8)) - 1
    elif shape == "first":
        bm = bytearray(nb)
        if nb:
            bm[0] = 1
    elif shape == "last":
        bm = bytearray(nb)
        if nf:
            bm[(nf - 1) // 8] = 1 << ((nf - 1) % 8)
    elif shape == "alt":
        bm = bytearray(b"\x55" * nb)
        if nf % 8:
            bm[-1] &= (1 << (nf % 8)) - 1
    else:
        bm = bytearray()
        j = 0
        while len(bm) < nb:
            bm += h32("bm", nf, j)
            j += 1
        bm = bm[:nb]
        if nf % 8 and nb:
            bm[-1] &= (1 << (nf % 8)) - 1
    if case["last"] is not None and nb:
        bm[-1] = case["last"]
    # count over at most the first 33 bitmap bytes: a parser that wrongly admits 257..264 inputs then sees a length consistent with ITS reading
    # (for larger counts only the reject path is interesting and a length consistent with the full bitmap is used)
    pop = sum(bin(x).count("1") for x in bm)
    ln = max(0, 2 + nb + 32 * (1 + min(pop, 300)) + case["delta"])
    body = bytes([nf & 255, nf >> 8]) + bytes(bm)
    fill = h32("fill", nf, case["shape"])
    while len(body) < ln:
        body += fill
    return body[:ln]


def run_parse(env, case):
    lib = env.lib
    setup(env)
    lib.reset()
    b = build_parse_string(case)
    pref = SJ.parse(b)
    rp, proof = lib_parse(env, b)
    nf = case["nf"]
    env.require((rp == 1) == (pref is not None), "surjectionproof_parse returned %d for n_inputs field %d, %d bytes; canonical format says %s"
                % (rp, nf, len(b), "accept" if pref else "reject"), b=b[:80])
    classes = ["accept" if rp else "reject", "nf<=256" if nf <= 256 else ("nf 257..264" if nf <= 264 else "nf>264")]
    if case["last"] is not None:
        pad = nf % 8 and (case["last"] >> (nf % 8))
        classes.append("padding_set" if pad else "padding_clear")
    if rp == 1:
        check_parsed_object(env, proof, b, pref)
        for small in (0, 1, len(b) - 1):
            env.require(lib_serialize(env, proof, size=small)[0] == 0, "serialize succeeded into a %d-byte buffer for a %d-byte proof" % (small, len(b)))
        if not pref[1]:
            # an empty selection parses but can never verify
            tags = [gen_from_point(env, ec.mulg(i + 2)) for i in range(min(nf, 3))] if nf <= 3 else None
            if tags is not None:
                env.require(lib_verify(env, proof, tags, gen_from_point(env, ec.mulg(77))) == 0, "proof with an empty selection verified")
                classes.append("empty_selection_rejected")
    env.require(lib.illegal() == 0 and lib.errors() == 0, "callback fired in the parser: " + lib.cbmsg())
    return True, classes


_CFG = {"quick": ["prod", "vsan"], "thorough": ["prod", "vsan"]}
_PROD = {"quick": ["prod"], "thorough": ["prod"]}
_SAN = {"quick": ["vsan"], "thorough": ["vsan"]}
TESTS = [
    Test("small_block", small_block, run_pipeline, kind="enum", cfgs=_PROD, max_workers=6,
         must_cover=["n=1", "n=8", "k=0", "k=n", "k<n", "match=0", "match=3", "honest_ok", "init_fail", "alloc", "mut_reject", "mut:sel_to_output",
                     "near_dup_only", "near_dup_and_exact", "near_dup_shares_8_bytes", "near_dup_exact_index_ok"]),
    Test("small_block_san", small_block_san, run_pipeline, kind="enum", cfgs=_SAN, max_workers=6,
         must_cover=["n=1", "n=6", "honest_ok", "init_fail", "alloc", "mut_reject", "near_dup_only", "near_dup_and_exact"]),
    Test("pipeline", pipeline_case, run_pipeline, quick=420, thorough=16000, cfgs=_CFG, max_workers=6,
         must_cover=["n=255", "n=256", "honest_ok", "keys:wrong_in", "keys:big_in", "keys:same_as_out", "eph_input_equals_output", "dishonest_reject", "zero_key",
                     "mut:bitflip", "mut:count_minus", "mut:count_plus", "mut:tag_selected_replace", "mut_reject",
                     "near_dup_only", "near_dup_and_exact", "near_dup_shares_8_bytes", "near_dup_exact_index_ok"]),
    # the builtin popcount variant an autotools build selects (bit counting of the used-inputs bitmap), and the 32-bit limb build
    Test("pipeline_cfg", pipeline_case, run_pipeline, quick=260, thorough=3000, max_workers=3,
         cfgs={"quick": ["builtins", "int64"], "thorough": ["builtins", "int64", "struct"]}, must_cover=["honest_ok", "n=255", "n=256"]),
    Test("verify_strings", string_case, run_strings, quick=1200, thorough=30000, cfgs=_CFG, max_workers=6,
         must_cover=["ref_prover", "accept", "reject", "parse_reject", "s_plus_n_twin", "twin_of_valid_proof", "empty_selection_hash_forgery", "selected_input_is_output", "count_mismatch",
                     "mut:padbit", "mut:nfield", "mut:s_zero", "n=0", "n=256"]),
    Test("parse_strings", parse_strings, run_parse, kind="enum", cfgs=_CFG, max_workers=3,
         must_cover=["accept", "reject", "nf 257..264", "nf>264", "padding_set", "padding_clear", "empty_selection_rejected"]),
]
