"""C17 — Schnorr half-aggregation is complete, incremental-consistent and exact."""
import ctypes
import hashlib
from ctypes import c_size_t, byref

from hypothesis import strategies as st

from pyref import ec, bip340, halfagg
from vf import gens
from vf.core import Test
from vf.lib import buf

RULE = ("cases: (a) every composition n = n1+...+nk of every n <= 6 (bounded exhaustive) and sampled compositions (zero-sized increments included) of n = 0..64 BIP-340 signatures "
        "made by schnorrsig_sign32 over edge-biased keys (duplicates included); one-shot aggregate must have 32(n+1) bytes, equal pyref.halfagg.aggregate byte for byte, pass aggverify, "
        "every incremental schedule must reproduce the one-shot bytes of every prefix, every buffer shorter than 32(n+1) must give 0, larger / ragged buffers 1; (a') for n = 0..4 (0..8 thorough) the length dimension EXHAUSTIVELY: aggverify with every aggsig_len in 0..32(n+2)+33 (honest bytes truncated / followed by 00 or AA filler) accepts only 32(n+1), aggregate and inc_aggregate (every cut) with every buffer length 0..32(n+2): too small => 0, else 1 with the exact length and the one-shot bytes; "
        "(b) aggregate strings for n = 0..20: honest, bit flips, r_i >= p, r_i off curve, r_i of another point, s >= n, s = 0, s -> n - s (negation of the correct scalar), length +-1..31, +-32 (length for n+-1), key list shorter / longer, "
        "keys / messages swapped or altered, one input signature altered before aggregation; oracle: verdict of pyref.halfagg.verify (draft-spec VerifyAggregate); "
        "(c) order-13 / order-199 builds: honest aggregates verify, incremental == one-shot, every re-encoding s + k*order and the negation order - s are rejected (group-agnostic relations only). "
        "non-trivial = n >= 2 with >= 2 non-empty increments, or a string that is not an unmodified honest aggregate")
ASSUMPTIONS = ["pyref.halfagg implements the draft half-aggregation specification (validated against the draft's test vectors) on top of pyref.bip340 / pyref.ec",
               "x-only key objects handed to the API come from xonly_pubkey_parse / keypair_xonly_pub",
               "small-group builds: only relations that hold in every prime-order group are asserted, the reference model is not consulted there"]

N, P = ec.N, ec.P
M256 = gens.M256


# ------------------------------------------------------------------ ctypes helpers
def xonly_array(env, pk32s):
    arr = buf(64 * max(1, len(pk32s)))
    for i, pk in enumerate(pk32s):
        r, x = env.lib.xonly_parse(pk)
        env.require(r == 1, "xonly_pubkey_parse refused a reference key", pk=pk)
        ctypes.memmove(ctypes.addressof(arr) + 64 * i, x, 64)
    return arr


def lib_aggregate(env, pk_arr, msgs, sigs, n, buflen, null_empty=False):
    """one-shot; returns (ret, bytes written (first len_out bytes) or None, len_out)"""
    out = buf(max(1, buflen), b"\xCD" * buflen)
    ol = c_size_t(buflen)
    nul = null_empty and n == 0
    r = env.lib.dll.secp256k1_schnorrsig_aggregate(env.lib.ctx, out, byref(ol), None if nul else pk_arr,
                                                   None if nul else buf(max(1, len(msgs)), msgs), None if nul else buf(max(1, len(sigs)), sigs), c_size_t(n))
    return r, (out.raw[:ol.value] if r == 1 and ol.value <= buflen else None), ol.value


def lib_inc(env, agg_in, buflen, pk_arr, msgs_all, new_sigs, n_before, n_new, null_empty=False):
    """incremental step on a fresh exact-size buffer of buflen bytes holding agg_in (truncated if the buffer is smaller)"""
    out = buf(max(1, buflen), (agg_in + b"\xCD" * buflen)[:buflen])
    ol = c_size_t(buflen)
    n = n_before + n_new
    r = env.lib.dll.secp256k1_schnorrsig_inc_aggregate(env.lib.ctx, out, byref(ol), None if (null_empty and n == 0) else pk_arr,
                                                       None if (null_empty and n == 0) else buf(max(1, len(msgs_all)), msgs_all),
                                                       None if (null_empty and n_new == 0) else buf(max(1, len(new_sigs)), new_sigs),
                                                       c_size_t(n_before), c_size_t(n_new))
    return r, (out.raw[:ol.value] if r == 1 and ol.value <= buflen else None), ol.value


def lib_aggverify(env, pk_arr, msgs, n, agg, null_empty=False):
    a = buf(max(1, len(agg)), agg)
    nul = null_empty and n == 0
    return env.lib.dll.secp256k1_schnorrsig_aggverify(env.lib.ctx, None if nul else pk_arr, None if nul else buf(max(1, len(msgs)), msgs),
                                                      c_size_t(n), a, c_size_t(len(agg)))


# ------------------------------------------------------------------ materialising a list of signatures from a small case
def derive(seed, tag, i):
    return ec.sha256(bytes.fromhex(seed) + tag + i.to_bytes(2, "big"))


def materialize(env, case):
    """-> sks, pk32s, msgs (list of 32-byte), sigs (list of 64-byte, made by the library's sign32)"""
    n = case["n"]
    seed = case["seed"]
    sks = [ec.b2i(derive(seed, b"sk", i)) % (N - 1) + 1 for i in range(n)]
    msgs = [derive(seed, b"msg", i) for i in range(n)]
    for k, v in case.get("sk_over", {}).items():
        if int(k) < n:
            sks[int(k)] = v
    dup = case.get("dup")
    if dup == "keys" and n:
        sks = [sks[0]] * n
    elif dup == "msgs" and n:
        msgs = [msgs[0]] * n
    elif dup == "all" and n:
        sks = [sks[0]] * n
        msgs = [msgs[0]] * n
    elif dup == "negpair" and n >= 2:
        sks[1] = N - sks[0]       # same x-only key
    pk32s, sigs = [], []
    for i in range(n):
        r, kp = env.lib.keypair_create(ec.i2b(sks[i]))
        env.require(r == 1, "keypair_create failed for a valid key")
        aux = None if (dup == "all" or i % 3 == 0) else derive(seed, b"aux", i)
        r, sig = env.lib.schnorr_sign32(msgs[i], kp, aux)
        env.require(r == 1, "schnorrsig_sign32 failed for a valid keypair")
        sigs.append(sig)
        pk32s.append(ec.xbytes(ec.mulg(sks[i])))
    return sks, pk32s, msgs, sigs


def prefix_aggregates(pk32s, msgs, sigs):
    """reference aggregates of every prefix (index k = aggregate of the first k signatures)"""
    z = halfagg.randomizers([(s[:32], pk, m) for s, pk, m in zip(sigs, pk32s, msgs)])
    out = [bytes(32)]
    acc = 0
    rs = b""
    for i in range(len(sigs)):
        acc = (acc + z[i] * ec.b2i(sigs[i][32:])) % N
        rs += sigs[i][:32]
        out.append(rs + ec.i2b(acc))
    return out


def compositions(n):
    if n == 0:
        yield []
        return
    for first in range(1, n + 1):
        for rest in compositions(n - first):
            yield [first] + rest


def n_class(n):
    return "n=%d" % n if n <= 6 else ("n<=16" if n <= 16 else ("n<=63" if n < 64 else "n=64"))


# ------------------------------------------------------------------ (a) sequences: one-shot, incremental, buffers
def run_sequence(env, case):
    lib = env.lib
    n, parts = case["n"], case["parts"]
    assert sum(parts) == n
    lib.reset()
    sks, pk32s, msgs, sigs = materialize(env, case)
    ne = case.get("null_empty", False)
    classes = [n_class(n), "parts=%d" % min(len([p for p in parts if p]), 7)]
    if case.get("dup"):
        classes.append("dup:" + case["dup"])
    pk_arr = xonly_array(env, pk32s)
    mcat, scat = b"".join(msgs), b"".join(sigs)
    need = 32 * (n + 1)
    ref = prefix_aggregates(pk32s, msgs, sigs)
    # the honest input signatures are valid BIP-340 signatures (precondition of the property), sampled
    chk = case.get("a", 0)
    if n:
        j = chk % n
        env.require(bip340.verify(pk32s[j], msgs[j], sigs[j]), "sign32 produced a signature the reference rejects", i=j)
    # ---- one-shot
    extra = [0, 0, 32, 1, 31, 17, 64][case.get("b", 0) % 7]
    r, one, olen = lib_aggregate(env, pk_arr, mcat, scat, n, need + extra, ne)
    env.require(r == 1, "schnorrsig_aggregate failed on %d valid signatures with a %d-byte buffer" % (n, need + extra))
    env.require(olen == need and one is not None and len(one) == need, "aggregate length %d, expected 32*(n+1) = %d" % (olen, need))
    full = halfagg.aggregate([(pk32s[i], msgs[i], sigs[i]) for i in range(n)])
    env.require(full == ref[n], "harness: reference aggregate and prefix helper disagree")
    env.require(one == full, "one-shot aggregate differs from the specification's Aggregate", got=one, expect=full)
    env.require(lib_aggverify(env, pk_arr, mcat, n, one, ne) == 1, "aggverify rejects the honest aggregate of %d signatures" % n)
    if n <= 8 or (chk % 4 == 0 and n <= 24):
        env.require(halfagg.verify(one, list(zip(pk32s, msgs))), "reference VerifyAggregate rejects the honest aggregate (reference / library disagree)")
        classes.append("ref_verified")
    # ---- too-small buffers: every length below 32(n+1) must give 0 (a sample of them per case, boundaries always)
    smalls = {0, need - 1, need - 32, max(0, need - 33), case.get("small", 0) % need, 31, 32 * n}
    for ln in sorted(x for x in smalls if 0 <= x < need):
        r0, _, _ = lib_aggregate(env, pk_arr, mcat, scat, n, ln, ne)
        env.require(r0 == 0, "aggregate returned %d with a %d-byte buffer, %d bytes are needed" % (r0, ln, need), n=n)
    classes.append("small_buf_rejected")
    # ---- incremental schedule
    start = case.get("start", "zeros")
    if start == "agg0":
        r, cur, _ = lib_aggregate(env, pk_arr, b"", b"", 0, 32, ne)
        env.require(r == 1 and cur == bytes(32), "aggregate of zero signatures is not 32 zero bytes")
    else:
        cur = bytes(32)
    done = 0
    bufmode = case.get("bufmode", "exact")
    steps = 0
    for p in parts:
        after = done + p
        need_p = 32 * (after + 1)
        cap = need_p + {"exact": 0, "ragged": 17, "big": 32 * (n - after) + 32}[bufmode]
        sub_arr = xonly_array(env, pk32s[:after]) if bufmode == "exact" else pk_arr      # exact-size key array: over-reads are visible to ASan
        new_sigs = b"".join(sigs[done:after])
        # too small for this step
        if steps == case.get("small_step", 0):
            for ln in sorted({need_p - 1, need_p - 32, case.get("small", 0) % need_p}):
                if 0 <= ln < need_p:
                    r0, _, _ = lib_inc(env, cur, ln, sub_arr, b"".join(msgs[:after]), new_sigs, done, p, ne)
                    env.require(r0 == 0, "inc_aggregate returned %d with a %d-byte buffer, %d bytes are needed (n_before=%d n_new=%d)" % (r0, ln, need_p, done, p))
        r, nxt, olen = lib_inc(env, cur, cap, sub_arr, b"".join(msgs[:after]), new_sigs, done, p, ne)
        env.require(r == 1, "inc_aggregate failed (n_before=%d, n_new=%d, buffer %d)" % (done, p, cap))
        env.require(olen == need_p, "inc_aggregate reported length %d, expected %d" % (olen, need_p))
        env.require(nxt == ref[after], "incremental aggregation (n_before=%d, n_new=%d) differs from one-shot aggregation of the same %d signatures" % (done, p, after),
                    got=nxt, expect=ref[after], parts=parts)
        if p or steps == 0:
            env.require(lib_aggverify(env, sub_arr, b"".join(msgs[:after]), after, nxt, ne) == 1, "aggverify rejects an incrementally built aggregate (%d of %d)" % (after, n))
        cur = nxt
        done = after
        steps += 1
    env.require(done == n and (not parts or cur == one), "incremental result differs from one-shot result", parts=parts)
    env.require(lib.illegal() == 0 and lib.errors() == 0, "callback fired: " + lib.cbmsg())
    nonempty = len([p for p in parts if p])
    if nonempty >= 2:
        classes.append("incremental>=2")
    if 0 in parts:
        classes.append("zero_increment")
    return (n >= 2 and nonempty >= 2), classes


def compose_enum(tier, shard, nshards):
    seeds = 3 if tier == "quick" else 40
    i = 0
    for sd in range(seeds):
        for n in range(0, 7):
            for parts in compositions(n):
                for extra in ([None] if n else [None, [0], [0, 0]]):
                    if i % nshards == shard:
                        case = {"n": n, "parts": extra if extra is not None else parts, "seed": hashlib.sha256(b"C17enum%d" % sd).hexdigest()[:16],
                                "bufmode": ["exact", "big", "ragged"][(sd + len(parts)) % 3], "start": ["zeros", "agg0"][(sd + n) % 2],
                                "a": sd + i, "b": i, "small": 7 * i + sd, "small_step": i % (len(parts) or 1), "null_empty": bool(sd & 1)}
                        if sd % 5 == 4 and n >= 2:
                            case["dup"] = ["keys", "msgs", "all", "negpair"][(sd // 5 + i) % 4]
                        yield case
                    i += 1


@st.composite
def sequence_case(draw):
    n = draw(st.one_of(st.integers(0, 64), st.integers(7, 20), st.sampled_from([0, 1, 2, 7, 8, 31, 32, 33, 63, 64])))
    # random composition with zero-sized increments allowed
    parts = []
    left = n
    while left > 0:
        p = draw(st.one_of(st.integers(0, left), st.integers(0, min(left, 3))))
        parts.append(p)
        left -= p
    if draw(st.integers(0, 4)) == 0:
        parts.insert(draw(st.integers(0, len(parts))), 0)
    case = {"n": n, "parts": parts, "seed": draw(gens.hexbytes(8)), "bufmode": draw(st.sampled_from(["exact", "big", "ragged"])),
            "start": draw(st.sampled_from(["zeros", "agg0"])), "a": draw(st.integers(0, 1 << 16)), "b": draw(st.integers(0, 6)),
            "small": draw(st.integers(0, 1 << 16)), "small_step": draw(st.integers(0, 3)), "null_empty": draw(st.booleans())}
    if n and draw(st.integers(0, 2)) == 0:
        case["sk_over"] = {str(draw(st.integers(0, n - 1))): draw(gens.seckey_valid) for _ in range(draw(st.integers(1, 3)))}
    if n >= 2 and draw(st.integers(0, 5)) == 0:
        case["dup"] = draw(st.sampled_from(["keys", "msgs", "all", "negpair"]))
    return case


# ------------------------------------------------------------------ (a') the length dimension, exhaustively for small n
def run_len_sweep(env, case):
    """every aggsig_len in 0..32(n+2)+33 for aggverify, every buffer length in 0..32(n+2) for aggregate and for inc_aggregate at every cut"""
    lib = env.lib
    n = case["n"]
    lib.reset()
    sks, pk32s, msgs, sigs = materialize(env, case)
    pk_arr = xonly_array(env, pk32s)
    mcat, scat = b"".join(msgs), b"".join(sigs)
    need = 32 * (n + 1)
    ref = prefix_aggregates(pk32s, msgs, sigs)
    r, one, olen = lib_aggregate(env, pk_arr, mcat, scat, n, need)
    env.require(r == 1 and olen == need and one == ref[n], "one-shot aggregate wrong (n=%d)" % n, got=one, expect=ref[n])
    fill = bytes([case["fill"]])
    pm = list(zip(pk32s, msgs))
    accepted = []
    for L in range(0, 32 * (n + 2) + 34):
        cand = (one + fill * L)[:L]
        expect = halfagg.verify(cand, pm)
        got = lib_aggverify(env, pk_arr, mcat, n, cand)
        env.require(got == (1 if expect else 0), "aggverify verdict %d for aggsig_len=%d (honest aggregate of %d signatures %s), specification says %d"
                    % (got, L, n, "truncated" if L < need else "followed by %d filler bytes" % (L - need), expect), n=n, aggsig_len=L, fill=case["fill"])
        if got:
            accepted.append(L)
    env.require(accepted == [need], "aggverify accepted lengths %s, only 32(n+1) = %d is valid" % (accepted, need))
    # one-shot aggregation: every buffer length
    for L in range(0, 32 * (n + 2) + 1):
        r, out, olen = lib_aggregate(env, pk_arr, mcat, scat, n, L)
        if L < need:
            env.require(r == 0, "aggregate returned %d with a %d-byte buffer, %d bytes are needed" % (r, L, need), n=n)
        else:
            env.require(r == 1 and olen == need and out == one, "aggregate with a %d-byte buffer: ret=%d len=%d (expected 1, %d, the one-shot bytes)" % (L, r, olen, need), n=n)
    # incremental aggregation: every cut, every buffer length (n_before = 0 starts from the documented empty aggregate: 32 zero bytes)
    for cut in range(0, n + 1):
        for L in range(0, 32 * (n + 2) + 1):
            r, out, olen = lib_inc(env, ref[cut], L, pk_arr, mcat, scat[64 * cut:], cut, n - cut)
            if L < need:
                env.require(r == 0, "inc_aggregate returned %d with a %d-byte buffer, %d bytes are needed (n_before=%d, n_new=%d)" % (r, L, need, cut, n - cut))
            else:
                env.require(r == 1 and olen == need and out == one,
                            "inc_aggregate with a %d-byte buffer (n_before=%d, n_new=%d): ret=%d len=%d (expected 1, %d, the one-shot bytes)" % (L, cut, n - cut, r, olen, need))
    env.require(lib.illegal() == 0 and lib.errors() == 0, "callback fired: " + lib.cbmsg())
    return True, ["len_sweep_complete", "n=%d" % n, "fill=%02x" % case["fill"]]


def _sweep_cases(tier):
    top = 4 if tier == "quick" else 8
    seeds = 2 if tier == "quick" else 4
    for sd in range(seeds):
        for n in range(0, top + 1):
            for fill in (0x00, 0xAA):
                yield {"n": n, "seed": hashlib.sha256(b"C17sweep%d" % sd).hexdigest()[:16], "fill": fill}


def sweep_enum(tier, shard, nshards):
    for i, c in enumerate(_sweep_cases(tier)):
        if i % nshards == shard:
            yield c


def sweep_enum_sixth(tier, shard, nshards):
    """a sixth of the sweep for the sanitizer build (which n / filler it gets rotates through all of them)"""
    for i, c in enumerate(_sweep_cases(tier)):
        if i % 6 == (i // 6) % 6 and (i // 6) % nshards == shard:
            yield c


# ------------------------------------------------------------------ (b) aggregate strings
MUTS = ["bitflip", "bitflip", "r_ge_p", "r_offcurve", "r_other", "s_ge_n", "s_ge_n", "s_zero", "s_plus1", "s_neg", "s_neg", "s_neg", "trunc", "ext", "len_minus32", "len_plus32", "len_plus32",
        "n_minus", "n_plus", "drop_last", "add_one", "swap_pks", "swap_msgs", "swap_pairs", "swap_all", "alter_msg", "replace_pk", "alter_sig_before", "empty",
        "swap_r", "noop_swap"]


@st.composite
def string_case(draw):
    n = draw(st.one_of(st.integers(0, 8), st.integers(1, 4), st.integers(1, 4), st.sampled_from([0, 1, 2, 3, 12, 20])))
    case = {"n": n, "seed": draw(gens.hexbytes(8)), "null_empty": draw(st.booleans())}
    if n and draw(st.integers(0, 3)) == 0:
        case["sk_over"] = {str(draw(st.integers(0, n - 1))): draw(gens.seckey_valid)}
    if n >= 2 and draw(st.integers(0, 7)) == 0:
        case["dup"] = draw(st.sampled_from(["keys", "msgs", "all", "negpair"]))
    k = draw(st.sampled_from([0, 1, 1, 1, 1, 1, 2]))
    case["muts"] = [{"kind": draw(st.sampled_from(MUTS)), "a": draw(st.integers(0, 1 << 20)), "b": draw(st.integers(0, 1 << 20))} for _ in range(k)]
    return case


def find_x(start, want_on_curve):
    x = start % P
    while (ec.lift_x(x) is not None) != want_on_curve:
        x = (x + 1) % P
    return x


def run_string(env, case):
    lib = env.lib
    n = case["n"]
    lib.reset()
    sks, pk32s, msgs, sigs = materialize(env, case)
    classes = [n_class(n)]
    muts = case["muts"]
    # mutations applied BEFORE aggregation
    pre = [m for m in muts if m["kind"] == "alter_sig_before"]
    altered = False
    for mu in pre:
        if n:
            i = mu["a"] % n
            pos = mu["b"] % 512
            t = bytearray(sigs[i])
            t[pos // 8] ^= 1 << (pos % 8)
            sigs[i] = bytes(t)
            altered = True
            classes.append("mut:alter_sig_before")
    pk_arr = xonly_array(env, pk32s)
    r, agg, _ = lib_aggregate(env, pk_arr, b"".join(msgs), b"".join(sigs), n, 32 * (n + 1), case.get("null_empty", False))
    if not altered:
        env.require(r == 1, "aggregate failed on valid signatures")
        env.require(agg == halfagg.aggregate([(pk32s[i], msgs[i], sigs[i]) for i in range(n)]), "one-shot aggregate differs from the specification's Aggregate")
    elif r != 1:
        # aggregating an invalid input signature: the property only speaks about valid ones; a refusal is fine
        return True, classes + ["aggregate_refused_altered"]
    agg = bytearray(agg)
    mutated = altered
    for mu in muts:
        k, a, b = mu["kind"], mu["a"], mu["b"]
        if k == "alter_sig_before":
            continue
        cur_n = len(pk32s)
        nr = max(0, len(agg) // 32 - 1)
        applied = True
        if k == "bitflip" and len(agg):
            pos = a % (len(agg) * 8)
            agg[pos // 8] ^= 1 << (pos % 8)
        elif k in ("r_ge_p", "r_offcurve", "r_other") and nr:
            i = a % nr
            old = ec.b2i(bytes(agg[32 * i:32 * i + 32]))
            if k == "r_ge_p":
                v = [P, P + 1, M256, P + (b % 977), P + (old % 977)][b % 5]
            else:
                v = find_x(old + 1 + b, k == "r_other")
            agg[32 * i:32 * i + 32] = ec.i2b(v)
        elif k in ("s_ge_n", "s_zero", "s_plus1", "s_neg") and len(agg) >= 32:
            s = ec.b2i(bytes(agg[-32:]))
            if k == "s_ge_n":
                v = [N, N + 1, M256, (s + N) if s + N <= M256 else N + (s % (M256 + 1 - N)), N + (a % 1000)][b % 5]
            elif k == "s_zero":
                v = 0
            elif k == "s_neg":
                # the negation of the correct scalar: s'G = -(sum), same x-coordinate, algebraically the closest wrong value
                v = (N - s) % N
            else:
                v = (s + 1) % N
            agg[-32:] = ec.i2b(v)
        elif k == "trunc" and len(agg):
            del agg[len(agg) - (1 + a % min(31, len(agg))):]
        elif k == "ext":
            agg += bytes([b & 255]) * (1 + a % 31)
        elif k == "len_minus32" and len(agg) >= 32:
            del agg[len(agg) - 32:]
        elif k == "len_plus32":
            agg += [bytes(32), bytes(agg[-32:]) if len(agg) >= 32 else bytes(32), ec.sha256(bytes([a & 255]))][b % 3] * (1 + (a % 5 == 0))
        elif k == "n_minus" and cur_n:
            pk32s.pop()
            msgs.pop()
        elif k == "n_plus":
            pk32s.append(ec.xbytes(ec.mulg(a + 2)))
            msgs.append(ec.sha256(b"extra" + bytes([b & 255])))
        elif k == "drop_last" and cur_n and len(agg) >= 64:
            # a string of the right length for n-1: r_0..r_{n-2} || s
            pk32s.pop()
            msgs.pop()
            del agg[len(agg) - 64:len(agg) - 32]
        elif k == "add_one":
            # a string of the right length for n+1 with a genuine extra r (but the old s)
            sk = a + 2
            m = ec.sha256(b"add" + bytes([b & 255]))
            sg = bip340.sign(sk, m, None)
            pk32s.append(ec.xbytes(ec.mulg(sk)))
            msgs.append(m)
            agg[len(agg) - 32:len(agg) - 32] = sg[:32]
        elif k in ("swap_pks", "swap_msgs", "swap_pairs", "swap_all", "swap_r", "noop_swap") and cur_n >= 2:
            i, j = a % cur_n, b % cur_n
            if k == "noop_swap":
                j = i
            if k in ("swap_pks", "swap_pairs", "swap_all", "noop_swap"):
                pk32s[i], pk32s[j] = pk32s[j], pk32s[i]
            if k in ("swap_msgs", "swap_pairs", "swap_all", "noop_swap"):
                msgs[i], msgs[j] = msgs[j], msgs[i]
            if k in ("swap_all", "swap_r") and len(agg) >= 32 * (max(i, j) + 1):
                ri, rj = bytes(agg[32 * i:32 * i + 32]), bytes(agg[32 * j:32 * j + 32])
                agg[32 * i:32 * i + 32], agg[32 * j:32 * j + 32] = rj, ri
        elif k == "alter_msg" and cur_n:
            i = a % cur_n
            t = bytearray(msgs[i])
            t[(b // 8) % 32] ^= 1 << (b % 8)
            msgs[i] = bytes(t)
        elif k == "replace_pk" and cur_n:
            pk32s[a % cur_n] = ec.xbytes(ec.mulg(b + 2))
        elif k == "empty":
            agg = bytearray()
        else:
            applied = False
        if applied:
            mutated = True
            classes.append("mut:" + k)
    agg = bytes(agg)
    nn = len(pk32s)
    expect = halfagg.verify(agg, list(zip(pk32s, msgs)))
    pk_arr2 = xonly_array(env, pk32s)
    got = lib_aggverify(env, pk_arr2, b"".join(msgs), nn, agg, case.get("null_empty", False))
    env.require(got == (1 if expect else 0), "aggverify verdict %d, specification says %d (n=%d, len=%d, %s)" % (got, expect, nn, len(agg), [m["kind"] for m in muts]),
                agg=agg, pks=[p.hex() for p in pk32s], msgs=[m.hex() for m in msgs])
    if not mutated:
        env.require(got == 1, "honest aggregate rejected")
        classes.append("honest")
    if not altered and n >= 1 and [m["kind"] for m in muts] == ["s_neg"]:
        # an otherwise honest aggregate of n >= 1 signatures whose s was replaced by n - s
        classes.append("negated_s_of_honest")
    env.require(lib.illegal() == 0 and lib.errors() == 0, "callback fired in aggverify: " + lib.cbmsg())
    classes.append("accept" if got else "reject")
    if len(agg) % 32:
        classes.append("len_not_multiple_of_32")
    elif len(agg) != 32 * (nn + 1):
        classes.append("len_for_other_n")
    else:
        if any(ec.b2i(agg[32 * i:32 * i + 32]) >= P for i in range(nn)):
            classes.append("r>=p")
        elif any(ec.lift_x(ec.b2i(agg[32 * i:32 * i + 32])) is None for i in range(nn)):
            classes.append("r_offcurve")
        if ec.b2i(agg[-32:]) >= N:
            classes.append("s>=n")
    return mutated, classes


# ------------------------------------------------------------------ (c) small-group clause
def small_order(env):
    return {"small13": 13, "small199": 199}[env.cfg]


@st.composite
def small_case(draw):
    n = draw(st.one_of(st.integers(1, 8), st.integers(1, 3)))
    maxk = M256 // 13
    ks = draw(st.lists(st.one_of(st.integers(1, 8), st.integers(1, 1 << 32), st.integers(1, maxk), st.integers(0, 250).map(lambda j: 1 << j), st.just(maxk)),
                       min_size=1, max_size=5))
    return {"n": n, "skis": [draw(st.integers(0, 1 << 12)) for _ in range(n)], "seed": draw(gens.hexbytes(6)), "cut": draw(st.integers(0, 8)), "ks": ks}


def run_small(env, case):
    lib = env.lib
    order = small_order(env)
    n = case["n"]
    lib.reset()
    pk_arr = buf(64 * n)
    msgs, sigs = [], []
    classes = ["order=%d" % order, "n=%d" % n]
    for i in range(n):
        sk = case["skis"][i] % (order - 1) + 1
        r, kp = lib.keypair_create(ec.i2b(sk))
        env.require(r == 1, "keypair_create failed for 1 <= sk < order in the small group")
        x = buf(64)
        env.require(lib.dll.secp256k1_keypair_xonly_pub(lib.ctx, x, None, kp) == 1, "keypair_xonly_pub failed")
        ctypes.memmove(ctypes.addressof(pk_arr) + 64 * i, x, 64)
        sig = None
        for attempt in range(40):
            m = ec.sha256(bytes.fromhex(case["seed"]) + bytes([i, attempt]))
            r, sg = lib.schnorr_sign32(m, kp, None)
            if r == 1:
                sig = sg
                break
            classes.append("sign_retry_zero_nonce")
        if sig is None:
            return False, classes + ["no_signature"]
        env.require(lib.schnorr_verify(sig, m, x) == 1, "honest signature does not verify in the small group")
        msgs.append(m)
        sigs.append(sig)
    mcat, scat = b"".join(msgs), b"".join(sigs)
    need = 32 * (n + 1)
    r, agg, olen = lib_aggregate(env, pk_arr, mcat, scat, n, need)
    env.require(r == 1 and olen == need, "aggregate failed / wrong length in the small group")
    env.require(lib_aggverify(env, pk_arr, mcat, n, agg) == 1, "aggverify rejects the honest aggregate in the order-%d group" % order, agg=agg)
    classes.append("honest_ok")
    # incremental == one-shot is a group-agnostic identity as well
    cut = case["cut"] % (n + 1)
    r1, a1, _ = lib_inc(env, bytes(32), 32 * (cut + 1), pk_arr, mcat[:32 * cut], scat[:64 * cut], 0, cut)
    env.require(r1 == 1, "inc_aggregate failed (small group)")
    r2, a2, _ = lib_inc(env, a1, need, pk_arr, mcat, scat[64 * cut:], cut, n - cut)
    env.require(r2 == 1 and a2 == agg, "incremental aggregation differs from one-shot aggregation (small group, cut=%d)" % cut, got=a2, expect=agg)
    s = ec.b2i(agg[-32:])
    env.require(s < order, "aggregate s >= group order emitted", s=s)
    if s != 0:
        # (order - s)G = -(sG): equals the right-hand side only if 2sG = 0, i.e. s = 0, in a group of odd prime order
        got = lib_aggverify(env, pk_arr, mcat, n, agg[:-32] + ec.i2b(order - s))
        env.require(got == 0, "aggverify accepted an honest aggregate whose s was replaced by its negation order - s", s=s, order=order, agg=agg)
        classes.append("negated_s_rejected")
    for k in case["ks"]:
        s2 = s + k * order
        if s2 > M256:
            k = (M256 - s) // order
            s2 = s + k * order
        got = lib_aggverify(env, pk_arr, mcat, n, agg[:-32] + ec.i2b(s2))
        env.require(got == 0, "aggverify accepted the non-canonical re-encoding s + %d*order of a valid aggregate (s >= n must be rejected)" % k, s=s, k=k, order=order, agg=agg)
        classes.append("s_plus_k_order_rejected")
    env.require(lib.illegal() == 0 and lib.errors() == 0, "callback fired: " + lib.cbmsg())
    return True, classes


BOTH = {"quick": ["prod", "vsan"], "thorough": ["prod", "vsan"]}
PRODONLY = {"quick": ["prod"], "thorough": ["prod", "int64"]}
VSANONLY = {"quick": ["vsan"], "thorough": ["vsan"]}
SMALL = {"quick": ["small13", "small199"], "thorough": ["small13", "small199"]}

TESTS = [
    Test("compositions", compose_enum, run_sequence, kind="enum", cfgs=BOTH, max_workers=8,
         must_cover=["n=0", "n=1", "n=6", "incremental>=2", "zero_increment", "small_buf_rejected", "ref_verified"]),
    Test("len_sweep", sweep_enum, run_len_sweep, kind="enum", cfgs={"quick": ["prod"], "thorough": ["prod"]}, max_workers=4,
         must_cover=["len_sweep_complete", "n=0", "n=4", "fill=00", "fill=aa"]),
    Test("len_sweep_vsan", sweep_enum_sixth, run_len_sweep, kind="enum", cfgs=VSANONLY, max_workers=1, must_cover=["len_sweep_complete"]),
    Test("sequences", sequence_case, run_sequence, quick=500, thorough=20000, cfgs=PRODONLY, max_workers=8,
         must_cover=["n=0", "n=64", "n<=63", "incremental>=2", "zero_increment", "ref_verified"]),
    Test("sequences_vsan", sequence_case, run_sequence, quick=60, thorough=1500, cfgs=VSANONLY, must_cover=["incremental>=2"]),
    Test("strings", string_case, run_string, quick=3000, thorough=120000, cfgs=PRODONLY, max_workers=8,
         must_cover=["accept", "reject", "honest", "r>=p", "r_offcurve", "s>=n", "len_not_multiple_of_32", "len_for_other_n", "mut:len_plus32", "mut:swap_pks",
                     "mut:swap_msgs", "mut:alter_sig_before", "mut:alter_msg", "mut:drop_last", "n=0", "mut:s_neg", "negated_s_of_honest"]),
    Test("strings_vsan", string_case, run_string, quick=300, thorough=8000, cfgs=VSANONLY, must_cover=["accept", "reject"]),
    Test("small_group", small_case, run_small, quick=1500, thorough=40000, cfgs=SMALL, max_workers=3,
         must_cover=["honest_ok", "s_plus_k_order_rejected", "negated_s_rejected", "order=13", "order=199"]),
]
